import OsmVerif.Lemmas.Annotate
/-! The timestamp regime of the annotation core (no version carries a usable commit time): the prefix/count
lemmas of `Lemmas.Annotate` over the time stamp instead of the commit time (same proofs), a characterisation of
`FindVisible`'s grouping heuristic strong enough for time travel (the chosen version is visible and stamped no
later than the parent's time plus the threshold; when it is stamped before the window it is the last such
version), and `VersionBefore`. -/
namespace OsmVerif.Model.Annotate

def tsOf (c : Child) : Int := c.ts

def TsSorted (cl : List Child) : Prop := cl.Pairwise (fun a b => tsOf a ≤ tsOf b)

def lastTs (cl : List Child) (t : Int) : Option Child := (cl.filter (fun c => tsOf c ≤ t)).getLast?

/-- number of versions stamped at or before `t` -/
def countTs (cl : List Child) (t : Int) : Nat := (cl.filter (fun c => tsOf c ≤ t)).length

/-- number of versions stamped strictly before `t` -/
def countTsBefore (cl : List Child) (t : Int) : Nat := (cl.filter (fun c => tsOf c < t)).length

theorem ts_filter_le_eq_take (cl : List Child) (t : Int) (hs : TsSorted cl) :
    cl.filter (fun c => tsOf c ≤ t) = cl.take (countTs cl t) := by
  induction cl with
  | nil => rfl
  | cons c rest ih =>
    have hsr := List.pairwise_cons.mp hs
    unfold countTs
    by_cases h : tsOf c ≤ t
    · have e := ih hsr.2
      unfold countTs at e
      simp only [List.filter_cons, h, decide_true, if_true, List.length_cons, List.take_succ_cons]
      exact congrArg (List.cons c) e
    · have : rest.filter (fun c => decide (tsOf c ≤ t)) = [] := by
        rw [List.filter_eq_nil_iff]; intro d hd; have := hsr.1 d hd; simp; omega
      simp [List.filter_cons, h, this]

theorem ts_filter_lt_eq_take (cl : List Child) (t : Int) (hs : TsSorted cl) :
    cl.filter (fun c => tsOf c < t) = cl.take (countTsBefore cl t) := by
  induction cl with
  | nil => rfl
  | cons c rest ih =>
    have hsr := List.pairwise_cons.mp hs
    unfold countTsBefore
    by_cases h : tsOf c < t
    · have e := ih hsr.2
      unfold countTsBefore at e
      simp only [List.filter_cons, h, decide_true, if_true, List.length_cons, List.take_succ_cons]
      exact congrArg (List.cons c) e
    · have : rest.filter (fun c => decide (tsOf c < t)) = [] := by
        rw [List.filter_eq_nil_iff]; intro d hd; have := hsr.1 d hd; simp; omega
      simp [List.filter_cons, h, this]

theorem countTs_le_length (cl : List Child) (t : Int) : countTs cl t ≤ cl.length := List.length_filter_le _ _
theorem countTsBefore_le_length (cl : List Child) (t : Int) : countTsBefore cl t ≤ cl.length := List.length_filter_le _ _

/-- prefix property: position `k` is stamped at or before `t` exactly when `k < countTs t` -/
theorem ts_le_iff_lt_count (cl : List Child) (t : Int) (hs : TsSorted cl) (k : Nat) (c : Child)
    (hk : cl[k]? = some c) : tsOf c ≤ t ↔ k < countTs cl t := by
  have hklen : k < cl.length := by
    rcases Nat.lt_or_ge k cl.length with h | h
    · exact h
    · rw [List.getElem?_eq_none h] at hk; cases hk
  have hf := ts_filter_le_eq_take cl t hs
  constructor
  · intro hle
    -- c is in the filter = take m, at the same position
    apply Nat.lt_of_not_le
    intro hge
    -- every element of take m is ≤ t and elements beyond are > t: count filter of the whole
    have hmem : c ∈ cl.filter (fun c => decide (tsOf c ≤ t)) :=
      List.mem_filter.mpr ⟨List.mem_of_getElem? hk, by simpa using hle⟩
    rw [hf] at hmem
    obtain ⟨i, hi⟩ := List.mem_iff_getElem?.mp hmem
    have hi2 : i < countTs cl t := by
      rcases Nat.lt_or_ge i (countTs cl t) with h | h
      · exact h
      · rw [List.getElem?_take_eq_none h] at hi; cases hi
    rw [List.getElem?_take_of_lt hi2] at hi
    -- positions i < m ≤ k hold c twice; sortedness gives commit(cl[i..k]) all equal, and position m is > t. Contradiction
    -- through position m := countTs (≤ k): cl[m] has commit ≤ commit cl[k] ≤ t, so it passes the filter, but the filter has only m elements = take m
    have hm : countTs cl t < cl.length := by omega
    have hcm : tsOf cl[countTs cl t] ≤ t := by
      have hkk : cl[k] = c := by rw [List.getElem?_eq_getElem hklen] at hk; exact Option.some.inj hk
      rcases Nat.eq_or_lt_of_le hge with e | l
      · have : cl[countTs cl t] = c := by rw [← hkk]; congr 1
        rw [this]; exact hle
      · have := (List.pairwise_iff_getElem.mp hs) (countTs cl t) k hm hklen l
        rw [hkk] at this; omega
    -- so take (m+1) ⊆ filter, whose length is m
    have hsub : (cl.take (countTs cl t + 1)).length ≤ (cl.filter (fun c => decide (tsOf c ≤ t))).length := by
      apply List.Sublist.length_le
      -- take (m+1) = take m ++ [cl[m]] and all of them satisfy the predicate
      have hall : ∀ x ∈ cl.take (countTs cl t + 1), decide (tsOf x ≤ t) = true := by
        intro x hx
        obtain ⟨i', hi'⟩ := List.mem_iff_getElem?.mp hx
        have hi'2 : i' < countTs cl t + 1 := by
          rcases Nat.lt_or_ge i' (countTs cl t + 1) with h | h
          · exact h
          · rw [List.getElem?_take_eq_none h] at hi'; cases hi'
        rw [List.getElem?_take_of_lt hi'2] at hi'
        have hi'len : i' < cl.length := by omega
        have hx' : cl[i'] = x := by rw [List.getElem?_eq_getElem hi'len] at hi'; exact Option.some.inj hi'
        rcases Nat.eq_or_lt_of_le (Nat.le_of_lt_succ hi'2) with e | l
        · have : cl[i'] = cl[countTs cl t] := by congr 1
          rw [← hx', this]; simpa using hcm
        · have := (List.pairwise_iff_getElem.mp hs) i' (countTs cl t) hi'len hm l
          rw [hx'] at this; simp; omega
      have : (cl.take (countTs cl t + 1)).filter (fun c => decide (tsOf c ≤ t)) = cl.take (countTs cl t + 1) :=
        List.filter_eq_self.mpr hall
      rw [← this]
      exact List.Sublist.filter _ (List.take_sublist _ _)
    simp only [List.length_take] at hsub
    unfold countTs at hsub hm
    omega
  · intro hlt
    have : c ∈ cl.take (countTs cl t) := by
      apply List.mem_iff_getElem?.mpr
      exact ⟨k, by rw [List.getElem?_take_of_lt hlt]; exact hk⟩
    rw [← hf] at this
    simpa using (List.mem_filter.mp this).2

theorem lastTs_eq_getElem (cl : List Child) (t : Int) (hs : TsSorted cl) :
    lastTs cl t = if countTs cl t = 0 then none else cl[countTs cl t - 1]? := by
  unfold lastTs
  rw [ts_filter_le_eq_take cl t hs]
  have hle := countTs_le_length cl t
  by_cases h0 : countTs cl t = 0
  · simp [h0]
  · simp only [h0, if_false]
    rw [List.getLast?_eq_getElem?]
    simp only [List.length_take, Nat.min_eq_left hle]
    rw [List.getElem?_take_of_lt (by omega)]

end OsmVerif.Model.Annotate

namespace OsmVerif.Model.Annotate


end OsmVerif.Model.Annotate

namespace OsmVerif.Model.Annotate

/-- no version carries a commit time at or after `osm.CommitInfoStart` -/
def TsRegime (cl : List Child) : Prop := ∀ c ∈ cl, beforeStart c.committed = true

/-- visible, stamped no later than `start + 2·eps`, and at or before `start + eps` unless of changeset `cid` -/
def FvGood (cid start eps : Int) (r : Child) : Prop :=
  r.visible = true ∧ r.ts - start ≤ 2 * eps ∧ (r.ts - start ≤ eps ∨ r.changeset = cid)

private theorem step_lift (P : Child → Prop) {c r : Child} {rest : List Child} {nearest n' : Option Child}
    (hih : n' = some r ∨ (r ∈ rest ∧ P r))
    (hn : n' = some r → nearest = some r ∨ (c = r ∧ P r)) :
    nearest = some r ∨ (r ∈ c :: rest ∧ P r) := by
  rcases hih with h | ⟨hm, hp⟩
  · rcases hn h with h2 | ⟨e, hp⟩
    · exact Or.inl h2
    · exact Or.inr ⟨by simp [e], hp⟩
  · exact Or.inr ⟨List.mem_cons_of_mem _ hm, hp⟩

/-- what `FindVisible`'s loop can return in the timestamp regime: the candidate it started with, or a
    visible version of the list stamped no later than `start + 2·eps` (the parent's time plus the threshold),
    which is stamped at or before `start + eps` (the parent's time) unless it belongs to the parent's changeset -/
theorem fvLoop_ts_sound (cid atT start eps : Int) (heps : 0 ≤ eps) :
    ∀ (rest : List Child) (diff : Int) (nearest : Option Child) (r : Child),
      TsRegime rest → fvLoop cid atT start eps rest diff nearest = some r →
      nearest = some r ∨ (r ∈ rest ∧ FvGood cid start eps r) := by
  intro rest
  induction rest with
  | nil => intro diff nearest r _ h; left; simpa [fvLoop] using h
  | cons c rest ih =>
    intro diff nearest r hreg h
    have hc : beforeStart c.committed = true := hreg c (by simp)
    have hreg' : TsRegime rest := fun d hd => hreg d (by simp [hd])
    unfold fvLoop at h
    simp only [hc, if_true] at h
    by_cases h1 : c.ts - start > 2 * eps
    · simp only [h1, if_true] at h; exact Or.inl h
    · simp only [h1, if_false] at h
      by_cases h2 : c.ts - start < 0
      · simp only [h2, if_true] at h
        refine step_lift (FvGood cid start eps) (ih _ _ r hreg' h) (fun e => ?_)
        by_cases hv : c.visible = true
        · simp only [hv, if_true, Option.some.injEq] at e
          exact Or.inr ⟨e, by subst e; exact ⟨hv, by omega, Or.inl (by omega)⟩⟩
        · simp [hv] at e
      · simp only [h2, if_false] at h
        by_cases h3 : diff < 0 ∨ absI (c.ts - start - eps) ≤ diff
        · simp only [h3, if_true] at h
          by_cases hv : c.visible = true
          · simp only [hv, if_true] at h
            by_cases h4 : c.ts - start ≤ eps
            · simp only [h4, if_true] at h
              refine step_lift (FvGood cid start eps) (ih _ _ r hreg' h) (fun e => ?_)
              simp only [Option.some.injEq] at e
              exact Or.inr ⟨e, by subst e; exact ⟨hv, by omega, Or.inl h4⟩⟩
            · simp only [h4, if_false] at h
              by_cases h5 : c.changeset = cid
              · simp only [h5, if_true] at h
                refine step_lift (FvGood cid start eps) (ih _ _ r hreg' h) (fun e => ?_)
                simp only [Option.some.injEq] at e
                exact Or.inr ⟨e, by subst e; exact ⟨hv, by omega, Or.inr h5⟩⟩
              · simp only [h5, if_false] at h
                refine step_lift (FvGood cid start eps) (ih _ _ r hreg' h) (fun e => ?_)
                simp [hv] at e
                exact Or.inl e
          · simp only [hv, if_false] at h
            refine step_lift (FvGood cid start eps) (ih _ _ r hreg' h) (fun e => ?_)
            split at e
            · cases e
            · exact Or.inl e
        · simp only [h3, if_false] at h
          exact step_lift (FvGood cid start eps) (ih _ _ r hreg' h) (fun e => Or.inl e)

theorem findVisible_ts_sound (cl : List Child) (cid atT eps : Int) (heps : 0 ≤ eps) (hr : TsRegime cl) (r : Child)
    (h : findVisible cl cid atT eps = some r) :
    r ∈ cl ∧ r.visible = true ∧ r.ts ≤ atT + eps ∧ (r.ts ≤ atT ∨ r.changeset = cid) := by
  unfold findVisible at h
  rcases fvLoop_ts_sound cid atT (atT - eps) eps heps cl (-1) none r hr h with h | ⟨hm, hv, h1, h2⟩
  · cases h
  · exact ⟨hm, hv, by omega, by rcases h2 with h2 | h2; exact Or.inl (by omega); exact Or.inr h2⟩

/-- when the version `FindVisible`'s loop returns is stamped before the window (`ts < start`), it is the last
    such version of the list (or the candidate the loop started with, and the list has no such version) -/
theorem fvLoop_ts_before (cid atT start eps : Int) (heps : 0 ≤ eps) :
    ∀ (rest : List Child) (diff : Int) (nearest : Option Child) (r : Child),
      TsRegime rest → TsSorted rest → rest.Pairwise (fun a b => a.vindex < b.vindex) →
      fvLoop cid atT start eps rest diff nearest = some r → r.ts < start →
      (nearest = some r ∧ ∀ x ∈ rest, ¬ x.ts < start) ∨ (r ∈ rest ∧ ∀ x ∈ rest, x.ts < start → x.vindex ≤ r.vindex) := by
  intro rest
  induction rest with
  | nil => intro diff nearest r _ _ _ h _; left; exact ⟨by simpa [fvLoop] using h, by simp⟩
  | cons c rest ih =>
    intro diff nearest r hreg hs hidx h hr
    have hc : beforeStart c.committed = true := hreg c (by simp)
    have hreg' : TsRegime rest := fun d hd => hreg d (by simp [hd])
    have hs' := List.pairwise_cons.mp hs
    have hidx' := List.pairwise_cons.mp hidx
    have hts : ∀ x ∈ rest, c.ts ≤ x.ts := fun x hx => by have := hs'.1 x hx; simpa [tsOf] using this
    unfold fvLoop at h
    simp only [hc, if_true] at h
    -- a step taken at a version stamped inside or after the window
    have late : ¬ c.ts - start < 0 → ∀ diff' n', fvLoop cid atT start eps rest diff' n' = some r →
        (n' = some r → nearest = some r ∨ c = r) →
        (nearest = some r ∧ ∀ x ∈ c :: rest, ¬ x.ts < start) ∨
          (r ∈ c :: rest ∧ ∀ x ∈ c :: rest, x.ts < start → x.vindex ≤ r.vindex) := by
      intro hge diff' n' h' hn
      rcases ih diff' n' r hreg' hs'.2 hidx'.2 h' hr with ⟨e, _⟩ | ⟨hm, _⟩
      · rcases hn e with e2 | e2
        · left; refine ⟨e2, ?_⟩
          intro x hx
          rcases List.mem_cons.mp hx with rfl | hx
          · omega
          · have := hts x hx; omega
        · subst e2; omega
      · have := hts r hm; omega
    by_cases h1 : c.ts - start > 2 * eps
    · simp only [h1, if_true] at h
      left; refine ⟨h, ?_⟩
      intro x hx
      rcases List.mem_cons.mp hx with rfl | hx
      · omega
      · have := hts x hx; omega
    · simp only [h1, if_false] at h
      by_cases h2 : c.ts - start < 0
      · simp only [h2, if_true] at h
        rcases ih _ _ r hreg' hs'.2 hidx'.2 h hr with ⟨e, hno⟩ | ⟨hm, hall⟩
        · by_cases hv : c.visible = true
          · simp only [hv, if_true, Option.some.injEq] at e
            subst e
            right; refine ⟨by simp, ?_⟩
            intro x hx hx2
            rcases List.mem_cons.mp hx with rfl | hx
            · exact Nat.le_refl _
            · exact absurd hx2 (hno x hx)
          · simp [hv] at e
        · right; refine ⟨List.mem_cons_of_mem _ hm, ?_⟩
          intro x hx hx2
          rcases List.mem_cons.mp hx with rfl | hx
          · exact Nat.le_of_lt (hidx'.1 r hm)
          · exact hall x hx hx2
      · simp only [h2, if_false] at h
        by_cases h3 : diff < 0 ∨ absI (c.ts - start - eps) ≤ diff
        · simp only [h3, if_true] at h
          by_cases hv : c.visible = true
          · simp only [hv, if_true] at h
            by_cases h4 : c.ts - start ≤ eps
            · simp only [h4, if_true] at h
              exact late h2 _ _ h (fun e => Or.inr (Option.some.inj e))
            · simp only [h4, if_false] at h
              by_cases h5 : c.changeset = cid
              · simp only [h5, if_true] at h
                exact late h2 _ _ h (fun e => Or.inr (Option.some.inj e))
              · simp only [h5, if_false] at h
                refine late h2 _ _ h (fun e => ?_)
                simp [hv] at e
                exact Or.inl e
          · simp only [hv, if_false] at h
            refine late h2 _ _ h (fun e => ?_)
            split at e
            · cases e
            · exact Or.inl e
        · simp only [h3, if_false] at h
          exact late h2 _ _ h (fun e => Or.inl e)

theorem timeThreshold_ts {c : Child} (h : beforeStart c.committed = true) (esp : Int) : timeThreshold c esp = c.ts + esp := by
  simp [timeThreshold, h]

/-- `VersionBefore` in the timestamp regime: the last version stamped strictly before `e` -/
theorem versionBefore_ts (cl : List Child) (e : Int) (hr : TsRegime cl) (hs : TsSorted cl) :
    versionBefore cl e = (cl.filter (fun c => tsOf c < e)).getLast? := by
  unfold versionBefore
  suffices h : ∀ latest, versionBefore.go e cl latest =
      match (cl.filter (fun c => tsOf c < e)).getLast? with
      | some d => some d
      | none => latest by
    rw [h none]; cases (cl.filter (fun c => tsOf c < e)).getLast? <;> rfl
  induction cl with
  | nil => intro latest; simp [versionBefore.go]
  | cons c rest ih =>
    intro latest
    have hc := hr c (by simp)
    have hsr := List.pairwise_cons.mp hs
    have htt := timeThreshold_ts hc 0
    have hco : tsOf c = c.ts := rfl
    unfold versionBefore.go
    rw [htt]
    by_cases hlt : c.ts < e
    · have hlt' : c.ts + 0 < e := by omega
      simp only [hlt', not_true_eq_false, if_false]
      rw [ih (fun d hd => hr d (by simp [hd])) hsr.2]
      simp only [List.filter_cons, hco, hlt, decide_true, if_true]
      cases hf : rest.filter (fun c => decide (tsOf c < e)) with
      | nil => simp
      | cons x xs =>
        rw [List.getLast?_cons_cons]
        cases hl : (x :: xs).getLast? with
        | none => simp [List.getLast?_eq_none_iff] at hl
        | some d => rfl
    · have hlt' : ¬ c.ts + 0 < e := by omega
      simp only [hlt', not_false_eq_true, if_true]
      have : (c :: rest).filter (fun c => decide (tsOf c < e)) = [] := by
        rw [List.filter_eq_nil_iff]
        intro d hd
        rcases List.mem_cons.mp hd with e1 | e1
        · subst e1; simp [hco]; omega
        · have := hsr.1 d e1
          have h3 : tsOf c = c.ts := rfl
          have h4 : tsOf d = d.ts := rfl
          simp; omega
      rw [this]; rfl

/-- `VersionIndex` = position makes the indices strictly ascending along the list -/
theorem wellIndexed_pairwise (cl : List Child) (h : WellIndexed cl) : cl.Pairwise (fun a b => a.vindex < b.vindex) := by
  rw [List.pairwise_iff_getElem]
  intro i j hi hj hij
  have e1 := h i cl[i] (List.getElem?_eq_getElem hi)
  have e2 := h j cl[j] (List.getElem?_eq_getElem hj)
  omega

theorem mem_position (cl : List Child) (h : WellIndexed cl) (c : Child) (hc : c ∈ cl) : cl[c.vindex]? = some c := by
  obtain ⟨i, hi⟩ := List.mem_iff_getElem?.mp hc
  have := h i c hi
  rw [this]; exact hi

end OsmVerif.Model.Annotate
