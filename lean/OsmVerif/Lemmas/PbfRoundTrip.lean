import OsmVerif.Lemmas.Pbf
/-! Encoder side of the dense-node format and the lemmas for `Props.C01.decode_encode_dense`. -/
namespace OsmVerif.Model.Pbf

/-- a dense node before encoding: absolute values, strings as string-table indexes -/
structure RNode where
  id : Int
  lat : Int
  lon : Int
  ver : Int
  ts : Int
  cs : Int
  uid : Int
  sid : Nat
  vis : Bool
  tags : List (Nat × Nat)
  deriving Repr, DecidableEq

def encTags (ts : List (Nat × Nat)) : List Int := ts.flatMap fun (k, v) => [(k : Int), (v : Int)]

/-- the dense message a writer produces for the nodes: every column present, delta coded where the format says so -/
def encodeDense (ns : List RNode) : Dense :=
  { ids := delta (ns.map (·.id)), lat := delta (ns.map (·.lat)), lon := delta (ns.map (·.lon)),
    kv := some (ns.flatMap fun n => encTags n.tags ++ [0]),
    hasInfo := true,
    ver := some (ns.map (·.ver)), ts := some (delta (ns.map (·.ts))), cs := some (delta (ns.map (·.cs))),
    uid := some (delta (ns.map (·.uid))), sid := some (delta (ns.map fun n => (n.sid : Int))),
    vis := some (ns.map fun n => if n.vis then 1 else 0) }

def Valid (st : List String) (n : RNode) : Prop :=
  n.sid < st.length ∧ ∀ kv ∈ n.tags, kv.1 ≠ 0 ∧ kv.1 < st.length ∧ kv.2 < st.length

/-- what the format says the node is -/
def meaning (gran dg la lo : Int) (st : List String) (n : RNode) : Node :=
  { id := n.id,
    md := { ver := n.ver, ts := some (n.ts * dg), cs := n.cs, uid := n.uid, user := st.getD n.sid "", vis := n.vis },
    lat := la + gran * n.lat, lon := lo + gran * n.lon,
    tags := n.tags.map fun (k, v) => (st.getD k "", st.getD v "") }

theorem str_nat (st : List String) (i : Nat) (h : i < st.length) : str st (i : Int) = some (st.getD i "") := by
  unfold str
  have : ¬ ((i : Int) < 0) := by omega
  simp [this, List.getD_eq_getElem?_getD, h]

theorem one_tags (st : List String) (tags : List (Nat × Nat)) (rest : List Int) (acc : List (String × String)) (fuel : Nat)
    (hv : ∀ kv ∈ tags, kv.1 ≠ 0 ∧ kv.1 < st.length ∧ kv.2 < st.length) (hf : tags.length < fuel) :
    splitKV.one st fuel (encTags tags ++ 0 :: rest) acc =
      some (acc.reverse ++ tags.map (fun (k, v) => (st.getD k "", st.getD v "")), rest) := by
  induction tags generalizing acc fuel with
  | nil =>
    cases fuel with
    | zero => simp at hf
    | succ f => simp [encTags, splitKV.one]
  | cons kv tl ih =>
    obtain ⟨k, v⟩ := kv
    cases fuel with
    | zero => simp at hf
    | succ f =>
      have hk := hv (k, v) (by simp)
      have hk0 : (k : Int) ≠ 0 := by have := hk.1; simp at this; omega
      simp only [encTags, List.flatMap_cons, List.cons_append, List.nil_append, List.singleton_append]
      cases k with
      | zero => simp at hk0
      | succ k' =>
        have e : (((k' + 1 : Nat) : Int)) = (k' : Int) + 1 := by omega
        rw [splitKV.one]
        · rw [str_nat st (k' + 1) hk.2.1, str_nat st v hk.2.2]
          have := ih ((st.getD (k' + 1) "", st.getD v "") :: acc) f (fun x hx => hv x (by simp [hx])) (by simp at hf; omega)
          simp only [encTags] at this
          simp only []
          rw [this]
          simp
        · intro h; cases h

theorem encTags_length (ts : List (Nat × Nat)) : (encTags ts).length = 2 * ts.length := by
  induction ts with
  | nil => rfl
  | cons a tl ih => simp [encTags] at *; omega

theorem splitKV_enc (st : List String) (ns : List RNode) (hv : ∀ n ∈ ns, Valid st n) :
    splitKV st ns.length (ns.flatMap fun n => encTags n.tags ++ [0]) =
      some (ns.map fun n => n.tags.map fun (k, v) => (st.getD k "", st.getD v "")) := by
  induction ns with
  | nil => simp [splitKV]
  | cons n rest ih =>
    simp only [List.length_cons, List.flatMap_cons, List.append_assoc, List.singleton_append, List.map_cons]
    rw [splitKV]
    have h1 := one_tags st n.tags (rest.flatMap fun (m : RNode) => encTags m.tags ++ [(0 : Int)]) []
      ((encTags n.tags ++ (0 : Int) :: rest.flatMap fun (m : RNode) => encTags m.tags ++ [(0 : Int)]).length + 1)
      (hv n (by simp)).2 (by simp only [List.length_append, List.length_cons, encTags_length]; omega)
    simp only [h1, List.reverse_nil, List.nil_append]
    rw [ih (fun m hm => hv m (by simp [hm]))]
    simp

theorem sumsFrom_length (a : Int) (l : List Int) : (sumsFrom a l).length = l.length := by
  induction l generalizing a with
  | nil => rfl
  | cons x r ih => simp [sumsFrom, ih]

theorem diffsFrom_length (a : Int) (l : List Int) : (diffsFrom a l).length = l.length := by
  induction l generalizing a with
  | nil => rfl
  | cons x r ih => simp [diffsFrom, ih]

theorem delta_length (l : List Int) : (delta l).length = l.length := by
  unfold delta; rw [delta_eq_diffs, diffsFrom_length]

theorem range'_mapM_eq {α β} (g : Nat → Option β) (f : α → β) (l : List α) (k m : Nat) (hl : l.length = k + m)
    (h : ∀ i (hi : i < l.length), k ≤ i → g i = some (f l[i])) :
    (List.range' k m).mapM g = some ((l.drop k).map f) := by
  induction m generalizing k with
  | zero =>
    have : l.drop k = [] := by apply List.drop_eq_nil_of_le; omega
    simp [this]
  | succ m ih =>
    have hk : k < l.length := by omega
    rw [List.range'_succ, List.mapM_cons, h k hk (Nat.le_refl _), ih (k + 1) (by omega) (fun i hi hki => h i hi (by omega))]
    have e : List.drop k (List.map f l) = f l[k] :: List.drop (k + 1) (List.map f l) := by
      rw [List.drop_eq_getElem_cons (by simpa using hk)]; simp
    simp [e]

theorem range_mapM_eq {α β} (g : Nat → Option β) (f : α → β) (l : List α)
    (h : ∀ i (hi : i < l.length), g i = some (f l[i])) : (List.range l.length).mapM g = some (l.map f) := by
  have := range'_mapM_eq g f l 0 l.length (by simp) (fun i hi _ => h i hi)
  simpa [List.range_eq_range'] using this

theorem getCol_some (col : List Int) (i : Nat) (h : i < col.length) : getCol (some col) i = some (some col[i]) := by
  simp [getCol, h]


/-! ### ways and relations -/

structure RMeta where
  ver : Int
  ts : Int
  cs : Int
  uid : Int
  sid : Nat
  vis : Bool
  deriving Repr, DecidableEq

def encodeInfo (m : RMeta) : Info :=
  { ver := some m.ver, ts := some m.ts, cs := some m.cs, uid := some m.uid, sid := some (m.sid : Int), vis := some (if m.vis then 1 else 0) }

def metaMeaning (dg : Int) (st : List String) (m : RMeta) : Meta :=
  { ver := m.ver, ts := some (m.ts * dg), cs := m.cs, uid := m.uid, user := st.getD m.sid "", vis := m.vis }

theorem decodeInfo_encode (dg : Int) (st : List String) (m : RMeta) (h : m.sid < st.length) :
    decodeInfo dg st (some (encodeInfo m)) = some (metaMeaning dg st m) := by
  simp only [decodeInfo, encodeInfo, str_nat st m.sid h, Option.map_some, metaMeaning, Option.getD_some]
  cases m.vis <;> simp

def resolveTags (st : List String) (tags : List (Nat × Nat)) : List (String × String) :=
  tags.map fun (k, v) => (st.getD k "", st.getD v "")

theorem decodeTags_encode (st : List String) (tags : List (Nat × Nat)) (h : ∀ kv ∈ tags, kv.1 < st.length ∧ kv.2 < st.length) :
    decodeTags st (some (tags.map fun kv => (kv.1 : Int))) (some (tags.map fun kv => (kv.2 : Int))) = some (resolveTags st tags) := by
  simp only [decodeTags, List.length_map, ne_eq, not_true_eq_false, if_false]
  induction tags with
  | nil => simp [resolveTags]
  | cons kv tl ih =>
    have hk := h kv (by simp)
    simp only [List.map_cons, List.zip_cons_cons, List.mapM_cons, str_nat st kv.1 hk.1, str_nat st kv.2 hk.2]
    rw [ih (fun x hx => h x (by simp [hx]))]
    simp [resolveTags]

structure RWay where
  id : Int
  md : RMeta
  tags : List (Nat × Nat)
  refs : List Int
  deriving Repr, DecidableEq

def encodeWay (w : RWay) : WayMsg :=
  { id := w.id, keys := some (w.tags.map fun kv => (kv.1 : Int)), vals := some (w.tags.map fun kv => (kv.2 : Int)),
    info := some (encodeInfo w.md), refs := some (delta w.refs) }

def wayMeaning (dg : Int) (st : List String) (w : RWay) : Way :=
  { id := w.id, md := metaMeaning dg st w.md, tags := resolveTags st w.tags, nodes := w.refs.map fun r => { ref := r } }

theorem range_map_getD {α β} (l : List α) (d : α) (f : α → β) :
    (List.range l.length).map (fun i => f (l.getD i d)) = l.map f := by
  apply List.ext_getElem
  · simp
  · intro i h1 h2
    simp [List.getD_eq_getElem?_getD, List.getElem?_eq_getElem (by simpa using h1 : i < l.length)]

structure RRel where
  id : Int
  md : RMeta
  tags : List (Nat × Nat)
  members : List (Nat × Int × Nat)     -- (type 0..2, ref, role string index)
  deriving Repr, DecidableEq

def encodeRel (r : RRel) : RelMsg :=
  { id := r.id, keys := some (r.tags.map fun kv => (kv.1 : Int)), vals := some (r.tags.map fun kv => (kv.2 : Int)),
    info := some (encodeInfo r.md),
    roles := some (r.members.map fun m => (m.2.2 : Int)), memids := some (delta (r.members.map (·.2.1))),
    types := some (r.members.map fun m => (m.1 : Int)) }

def relMeaning (dg : Int) (st : List String) (r : RRel) : Rel :=
  { id := r.id, md := metaMeaning dg st r.md, tags := resolveTags st r.tags,
    members := r.members.map fun m => { type := (m.1 : Int), ref := m.2.1, role := st.getD m.2.2 "" } }


end OsmVerif.Model.Pbf
