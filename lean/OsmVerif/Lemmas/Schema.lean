import OsmVerif.Model.Schema
import OsmVerif.Spec.OsmSchemaPinned
/-! Shared facts about the regenerated schema. -/
namespace OsmVerif.Model.Schema
open OsmVerif.Gen.Schema OsmVerif.Spec.OsmSchema

/-- the struct types that take part in the XML / JSON codecs -/
def codecTypes : List String :=
  ["Action", "Bounds", "Change", "Changeset", "ChangesetComment", "ChangesetDiscussion", "Diff", "Member", "Node",
   "Note", "NoteComment", "OSM", "Relation", "Tag", "Update", "User", "User.Blocks", "User.Blocks.Received",
   "User.Changesets", "User.Home", "User.Img", "User.Messages", "User.Messages.Received", "User.Messages.Sent",
   "User.Traces", "Way", "WayNode"]

/-- every codec struct carries exactly the pinned tags (names, attr/element, omitempty, paths) -/
theorem schema_eq_pinned :
    structs.filter (fun e => codecTypes.contains e.1) = pinnedStructs.filter (fun e => codecTypes.contains e.1) := by
  decide

def attrNames (t : String) : List String :=
  (fieldsOf t).filterMap fun f => let tg := parseXmlTag f; if tg.attr ∧ ¬ tg.skip then some tg.name else none

def attrFields (t : String) : List Field :=
  (fieldsOf t).filter fun f => let tg := parseXmlTag f; tg.attr ∧ ¬ tg.skip

end OsmVerif.Model.Schema
