import OsmVerif.Lemmas.Search19
/-! Counting requests of the state search: a bound that is a SUM of a logarithm of the range and a multiple of
the missing files in it. -/
namespace OsmVerif.Model.Search

/-! ### ceiling logarithm -/

def clog (n : Nat) : Nat := if n ≤ 1 then 0 else (n - 1).log2 + 1

theorem clog_le_iff (n k : Nat) (hn : 1 ≤ n) : clog n ≤ k ↔ n ≤ 2 ^ k := by
  unfold clog
  by_cases h : n ≤ 1
  · have : n = 1 := by omega
    subst this
    simp
    exact Nat.one_le_two_pow
  · simp only [h, if_false]
    have hne : n - 1 ≠ 0 := by omega
    constructor
    · intro hk
      cases k with
      | zero => omega
      | succ k =>
        have : (n - 1).log2 < k + 1 := by omega
        have := (Nat.log2_lt hne).mp this
        omega
    · intro hk
      cases k with
      | zero => simp at hk; omega
      | succ k =>
        have : n - 1 < 2 ^ (k + 1) := by omega
        have := (Nat.log2_lt hne).mpr this
        omega

theorem clog_mono (x y : Nat) (hx : 1 ≤ x) (h : x ≤ y) : clog x ≤ clog y := by
  rw [clog_le_iff x _ hx]
  have := (clog_le_iff y (clog y) (by omega)).mp (Nat.le_refl _)
  omega

theorem clog_double (x y : Nat) (hx : 1 ≤ x) (h : 2 * x ≤ y) : clog x + 1 ≤ clog y := by
  have hy := (clog_le_iff y (clog y) (by omega)).mp (Nat.le_refl _)
  cases hk : clog y with
  | zero => rw [hk] at hy; simp at hy; omega
  | succ k =>
    rw [hk] at hy
    have : x ≤ 2 ^ k := by rw [Nat.pow_succ] at hy; omega
    have := (clog_le_iff x k hx).mpr this
    omega

theorem clog_half (w : Nat) (hw : 2 ≤ w) : clog ((w + 1) / 2) + 1 ≤ clog w := by
  have hy := (clog_le_iff w (clog w) (by omega)).mp (Nat.le_refl _)
  cases hk : clog w with
  | zero => rw [hk] at hy; simp at hy; omega
  | succ k =>
    rw [hk] at hy
    have : (w + 1) / 2 ≤ 2 ^ k := by rw [Nat.pow_succ] at hy; omega
    have := (clog_le_iff ((w + 1) / 2) k (by omega)).mpr this
    omega

/-! ### counting missing files -/

/-- number of missing files among `a, a+1, …, a+k-1` -/
def missingFrom (av : Avail) : Nat → Nat → Nat
  | _, 0 => 0
  | a, k + 1 => (if (av a).isNone then 1 else 0) + missingFrom av (a + 1) k

/-- length of the run of missing files that starts at `a` (at most `k`) -/
def runFrom (av : Avail) : Nat → Nat → Nat
  | _, 0 => 0
  | a, k + 1 => if (av a).isNone then 1 + runFrom av (a + 1) k else 0

theorem missingFrom_add (av : Avail) (a j k : Nat) :
    missingFrom av a (j + k) = missingFrom av a j + missingFrom av (a + j) k := by
  induction j generalizing a with
  | zero => simp [missingFrom]
  | succ j ih =>
    have : j + 1 + k = (j + k) + 1 := by omega
    rw [this, missingFrom, missingFrom, ih (a + 1)]
    have : a + 1 + j = a + (j + 1) := by omega
    rw [this]; omega

theorem missingFrom_le (av : Avail) (a k : Nat) : missingFrom av a k ≤ k := by
  induction k generalizing a with
  | zero => simp [missingFrom]
  | succ k ih => rw [missingFrom]; have := ih (a + 1); split <;> omega

theorem runFrom_le_missing (av : Avail) (a k : Nat) : runFrom av a k ≤ missingFrom av a k := by
  induction k generalizing a with
  | zero => simp [runFrom, missingFrom]
  | succ k ih =>
    rw [runFrom, missingFrom]
    have := ih (a + 1)
    split <;> omega

theorem runFrom_le (av : Avail) (a k : Nat) : runFrom av a k ≤ k := Nat.le_trans (runFrom_le_missing av a k) (missingFrom_le av a k)

/-- everything in `[a, a+k)` missing -/
theorem all_missing (av : Avail) (a k : Nat) (h : ∀ j, a ≤ j → j < a + k → av j = none) :
    missingFrom av a k = k ∧ runFrom av a k = k := by
  induction k generalizing a with
  | zero => simp [missingFrom, runFrom]
  | succ k ih =>
    have h0 : av a = none := h a (Nat.le_refl _) (by omega)
    have := ih (a + 1) (fun j h1 h2 => h j (by omega) (by omega))
    rw [missingFrom, runFrom]
    simp [h0, this]; omega

/-- an available file at offset `i` stops the run -/
theorem runFrom_le_of_avail (av : Avail) (a k i : Nat) (ts : Int) (h : av (a + i) = some ts) : runFrom av a k ≤ i := by
  induction k generalizing a i with
  | zero => simp [runFrom]
  | succ k ih =>
    rw [runFrom]
    split
    · rename_i hn
      cases i with
      | zero =>
        have h' : av a = some ts := by simpa using h
        simp [h'] at hn
      | succ i =>
        have := ih (a + 1) i (by rw [show a + 1 + i = a + (i + 1) by omega]; exact h)
        omega
    · omega

/-- the first `j` files missing: the run is at least `j` long -/
theorem runFrom_ge (av : Avail) (a k j : Nat) (hj : j ≤ k) (h : ∀ i, a ≤ i → i < a + j → av i = none) : j ≤ runFrom av a k := by
  induction j generalizing a k with
  | zero => omega
  | succ j ih =>
    cases k with
    | zero => omega
    | succ k =>
      have h0 : av a = none := h a (Nat.le_refl _) (by omega)
      rw [runFrom]
      simp only [h0, Option.isNone_none, if_true]
      have := ih (a + 1) k (by omega) (fun i h1 h2 => h i (by omega) (by omega))
      omega

/-- the run is the same when the range is cut somewhere behind its end -/
theorem runFrom_cut (av : Avail) (a k k' : Nat) (hk : k' ≤ k) (hr : runFrom av a k ≤ k') :
    runFrom av a k' = runFrom av a k := by
  induction k' generalizing a k with
  | zero =>
    have : runFrom av a k = 0 := by omega
    simp [runFrom, this]
  | succ k' ih =>
    cases k with
    | zero => omega
    | succ k =>
      rw [runFrom, runFrom] at *
      split
      · rename_i hn
        simp only [hn, if_true] at hr
        have := ih (a + 1) k (by omega) (by omega)
        omega
      · rfl

/-! ### what one iteration requests -/

theorem probeDownL_spec (av : Avail) (lo : Nat) : ∀ s0, lo ≤ s0 →
    match probeDownL av lo s0 with
    | (some (s, ts), l) => lo < s ∧ s ≤ s0 ∧ av s = some ts ∧ (∀ j, s < j → j ≤ s0 → av j = none) ∧ l.length = s0 - s + 1
    | (none, l) => (∀ j, lo < j → j ≤ s0 → av j = none) ∧ l.length = s0 - lo := by
  intro s0
  induction s0 with
  | zero => intro _; simp [probeDownL]; intro j h1 h2; omega
  | succ s ih =>
    intro hlo
    unfold probeDownL
    by_cases c : lo < s + 1
    · simp only [c, if_true]
      cases hav : av (s + 1) with
      | some ts =>
        simp only
        exact ⟨c, Nat.le_refl _, hav, fun j h1 h2 => by omega, by simp⟩
      | none =>
        simp only
        have := ih (by omega)
        cases hp : probeDownL av lo s with
        | mk r l =>
          rw [hp] at this
          cases r with
          | none =>
            simp only at this ⊢
            refine ⟨fun j h1 h2 => ?_, by simp; omega⟩
            rcases Nat.lt_or_ge j (s + 1) with hj | hj
            · exact this.1 j h1 (by omega)
            · have : j = s + 1 := by omega
              subst this; exact hav
          | some p =>
            obtain ⟨x, ts⟩ := p
            simp only at this ⊢
            obtain ⟨h1, h2, h3, h4, h5⟩ := this
            refine ⟨h1, by omega, h3, fun j hj1 hj2 => ?_, by simp; omega⟩
            rcases Nat.lt_or_ge j (s + 1) with hj | hj
            · exact h4 j hj1 (by omega)
            · have : j = s + 1 := by omega
              subst this; exact hav
    · have : lo = s + 1 := by omega
      simp only [c, if_false]
      exact ⟨fun j h1 h2 => by omega, by simp; omega⟩

theorem probeUpL_spec (av : Avail) (hi : Nat) : ∀ f s0, hi ≤ s0 + f → s0 ≤ hi →
    match probeUpL av hi f s0 with
    | (some (s, ts), l) => s0 ≤ s ∧ s < hi ∧ av s = some ts ∧ (∀ j, s0 ≤ j → j < s → av j = none) ∧ l.length = s - s0 + 1
    | (none, l) => (∀ j, s0 ≤ j → j < hi → av j = none) ∧ l.length = hi - s0 := by
  intro f
  induction f with
  | zero => intro s0 h1 h2; simp only [probeUpL, List.length_nil]; exact ⟨fun j h3 h4 => by omega, by omega⟩
  | succ f ih =>
    intro s0 hf hs
    unfold probeUpL
    by_cases c : s0 < hi
    · simp only [c, if_true]
      cases hav : av s0 with
      | some ts =>
        simp only
        exact ⟨Nat.le_refl _, c, hav, fun j h1 h2 => by omega, by simp⟩
      | none =>
        simp only
        have := ih (s0 + 1) (by omega) (by omega)
        cases hp : probeUpL av hi f (s0 + 1) with
        | mk r l =>
          rw [hp] at this
          cases r with
          | none =>
            simp only at this ⊢
            refine ⟨fun j h1 h2 => ?_, by simp; omega⟩
            rcases Nat.eq_or_lt_of_le h1 with e | e
            · subst e; exact hav
            · exact this.1 j (by omega) h2
          | some p =>
            obtain ⟨x, ts⟩ := p
            simp only at this ⊢
            obtain ⟨h1, h2, h3, h4, h5⟩ := this
            refine ⟨by omega, h2, h3, fun j hj1 hj2 => ?_, by simp; omega⟩
            rcases Nat.eq_or_lt_of_le hj1 with e | e
            · subst e; exact hav
            · exact h4 j (by omega) hj2
    · simp only [c, if_false]
      exact ⟨fun j h1 h2 => by omega, by simp; omega⟩

/-- one iteration of the binary search: found below the midpoint (the files between it and the midpoint are
    missing), found above it (everything below it in the interval is missing), or nothing at all -/
theorem pickSplitL_spec (av : Avail) (lo hi : Nat) (h : lo + 1 < hi) :
    match pickSplitL av lo hi with
    | (some (s, ts), l) => lo < s ∧ s < hi ∧ av s = some ts ∧
        ((s ≤ (lo + hi) / 2 ∧ (∀ j, s < j → j ≤ (lo + hi) / 2 → av j = none) ∧ l.length = (lo + hi) / 2 - s + 1) ∨
         ((lo + hi) / 2 < s ∧ (∀ j, lo < j → j < s → av j = none) ∧ l.length = s - lo))
    | (none, l) => (∀ j, lo < j → j < hi → av j = none) ∧ l.length = hi - lo - 1 := by
  unfold pickSplitL
  simp only
  have hd := probeDownL_spec av lo ((lo + hi) / 2) (by omega)
  cases hp : probeDownL av lo ((lo + hi) / 2) with
  | mk r l =>
    rw [hp] at hd
    cases r with
    | some p =>
      obtain ⟨s, ts⟩ := p
      simp only at hd ⊢
      obtain ⟨h1, h2, h3, h4, h5⟩ := hd
      exact ⟨h1, by omega, h3, Or.inl ⟨h2, h4, h5⟩⟩
    | none =>
      simp only at hd ⊢
      have hu := probeUpL_spec av hi (hi - (lo + hi) / 2) ((lo + hi) / 2 + 1) (by omega) (by omega)
      cases hq : probeUpL av hi (hi - (lo + hi) / 2) ((lo + hi) / 2 + 1) with
      | mk r2 l2 =>
        rw [hq] at hu
        cases r2 with
        | some p =>
          obtain ⟨s, ts⟩ := p
          simp only at hu ⊢
          obtain ⟨h1, h2, h3, h4, h5⟩ := hu
          refine ⟨by omega, h2, h3, Or.inr ⟨by omega, fun j hj1 hj2 => ?_, by simp; omega⟩⟩
          rcases Nat.lt_or_ge ((lo + hi) / 2) j with c | c
          · exact h4 j (by omega) hj2
          · exact hd.1 j hj1 c
        | none =>
          simp only at hu ⊢
          refine ⟨fun j hj1 hj2 => ?_, by simp; omega⟩
          rcases Nat.lt_or_ge ((lo + hi) / 2) j with c | c
          · exact hu.1 j (by omega) hj2
          · exact hd.1 j hj1 c

/-! ### the sum-form bound -/

/-- missing files strictly between `lo` and `hi` -/
def missing (av : Avail) (lo hi : Nat) : Nat := missingFrom av (lo + 1) (hi - lo - 1)

/-- length of the run of missing files directly above `lo` (inside the interval) -/
def adjRun (av : Avail) (lo hi : Nat) : Nat := runFrom av (lo + 1) (hi - lo - 1)

theorem adjRun_le_missing (av : Avail) (lo hi : Nat) : adjRun av lo hi ≤ missing av lo hi := runFrom_le_missing _ _ _

theorem adjRun_lt (av : Avail) (lo hi : Nat) (h : lo < hi) : adjRun av lo hi < hi - lo := by
  have := runFrom_le av (lo + 1) (hi - lo - 1); unfold adjRun; omega

theorem missing_split (av : Avail) (lo s hi : Nat) (h1 : lo < s) (h2 : s < hi) (ts : Int) (hs : av s = some ts) :
    missing av lo hi = missing av lo s + missing av s hi := by
  unfold missing
  have e : hi - lo - 1 = (s - lo - 1) + (1 + (hi - s - 1)) := by omega
  rw [e, missingFrom_add, missingFrom_add]
  have e2 : lo + 1 + (s - lo - 1) = s := by omega
  rw [e2]
  have : missingFrom av s 1 = 0 := by simp [missingFrom, hs]
  rw [this]; omega

theorem adjRun_left (av : Avail) (lo s hi : Nat) (h1 : lo < s) (h2 : s < hi) (ts : Int) (hs : av s = some ts) :
    adjRun av lo hi ≤ s - lo - 1 ∧ adjRun av lo s = adjRun av lo hi := by
  have hle : adjRun av lo hi ≤ s - lo - 1 := by
    unfold adjRun
    apply runFrom_le_of_avail av (lo + 1) _ (s - lo - 1) ts
    rw [show lo + 1 + (s - lo - 1) = s by omega]; exact hs
  refine ⟨hle, ?_⟩
  unfold adjRun at *
  exact runFrom_cut av (lo + 1) (hi - lo - 1) (s - lo - 1) (by omega) hle

theorem interval_all_missing (av : Avail) (a b : Nat) (h : ∀ j, a < j → j < b → av j = none) (hab : a < b) :
    missing av a b = b - a - 1 ∧ adjRun av a b = b - a - 1 := by
  unfold missing adjRun
  exact all_missing av (a + 1) (b - a - 1) (fun j h1 h2 => h j (by omega) (by omega))

/-- an interval whose interior is missing entirely is searched in one pass over it -/
theorem findInRangeL_all_missing (av : Avail) (t : Int) (f lo hi : Nat) (h : ∀ j, lo < j → j < hi → av j = none) :
    (findInRangeL av t f lo hi).2.length ≤ hi - lo - 1 := by
  cases f with
  | zero => simp [findInRangeL]
  | succ f =>
    unfold findInRangeL
    split
    · rename_i hgap
      have hs := pickSplitL_spec av lo hi hgap
      cases hp : pickSplitL av lo hi with
      | mk r l =>
        rw [hp] at hs
        cases r with
        | none => simp only at hs ⊢; omega
        | some p =>
          obtain ⟨s, ts⟩ := p
          simp only at hs
          have := h s hs.1 hs.2.1
          rw [hs.2.2.1] at this
          cases this
    · simp

/-- **requests of the binary search: a logarithm of the range PLUS three times the missing files in it**
    (every availability pattern, any fuel). `adjRun` is carried along because a run of missing files directly
    above the lower bound has been paid for once already. -/
theorem findInRangeL_sum_bound (av : Avail) (t : Int) :
    ∀ f lo hi, lo < hi →
      (findInRangeL av t f lo hi).2.length + adjRun av lo hi ≤ clog (hi - lo - adjRun av lo hi) + 3 * missing av lo hi + 1 := by
  intro f
  induction f with
  | zero =>
    intro lo hi _
    have := adjRun_le_missing av lo hi
    simp [findInRangeL]; omega
  | succ f ih =>
    intro lo hi hlt
    have hrm := adjRun_le_missing av lo hi
    unfold findInRangeL
    split
    · rename_i hgap
      have hs := pickSplitL_spec av lo hi hgap
      cases hp : pickSplitL av lo hi with
      | mk res l =>
        rw [hp] at hs
        cases res with
        | none =>
          simp only at hs ⊢
          obtain ⟨hall, hlen⟩ := hs
          have := interval_all_missing av lo hi hall hlt
          omega
        | some p =>
          obtain ⟨s, ts⟩ := p
          simp only at hs ⊢
          obtain ⟨hs1, hs2, hav, hcase⟩ := hs
          have hsplit := missing_split av lo s hi hs1 hs2 ts hav
          have hleft := adjRun_left av lo s hi hs1 hs2 ts hav
          have hls : adjRun av lo hi ≤ missing av lo s := by rw [← hleft.2]; exact adjRun_le_missing av lo s
          rcases hcase with ⟨hsm, hmiss, hlen⟩ | ⟨hsm, hmiss, hlen⟩
          · -- found at or below the midpoint, d = mid - s missing files stepped over
            have hd1 : (lo + hi) / 2 - s ≤ adjRun av s hi := by
              unfold adjRun
              exact runFrom_ge av (s + 1) (hi - s - 1) ((lo + hi) / 2 - s) (by omega)
                (fun i h1 h2 => hmiss i (by omega) (by omega))
            have hd2 := adjRun_le_missing av s hi
            split
            · -- go right: (s, hi)
              have hi' := ih s hi hs2
              have hrr := adjRun_lt av s hi hs2
              simp only [List.length_append]
              -- effective width on the right is at most the upper half
              have hw : hi - s - adjRun av s hi ≤ (hi - lo + 1) / 2 := by omega
              have hc1 : clog (hi - s - adjRun av s hi) ≤ clog ((hi - lo + 1) / 2) := clog_mono _ _ (by omega) hw
              by_cases hr0 : adjRun av lo hi = 0
              · have hc2 := clog_half (hi - lo) (by omega)
                rw [hr0]
                simp only [Nat.sub_zero]
                omega
              · have hc3 : clog ((hi - lo + 1) / 2) ≤ clog (hi - lo - adjRun av lo hi) :=
                  clog_mono _ _ (by omega) (by omega)
                omega
            · -- go left: (lo, s)
              have hi' := ih lo s hs1
              simp only [List.length_append]
              rw [hleft.2] at hi'
              have hc : clog (s - lo - adjRun av lo hi) + 1 ≤ clog (hi - lo - adjRun av lo hi) :=
                clog_double _ _ (by omega) (by omega)
              omega
          · -- found above the midpoint: everything between lo and s is missing
            have hint := interval_all_missing av lo s hmiss hs1
            have hr : adjRun av lo hi = s - lo - 1 := by rw [← hleft.2]; exact hint.2
            split
            · -- go right: (s, hi)
              have hi' := ih s hi hs2
              have hrr := adjRun_lt av s hi hs2
              simp only [List.length_append]
              have hc : clog (hi - s - adjRun av s hi) ≤ clog (hi - lo - adjRun av lo hi) :=
                clog_mono _ _ (by omega) (by omega)
              omega
            · -- go left: (lo, s), all missing
              have hl := findInRangeL_all_missing av t f lo s hmiss
              simp only [List.length_append]
              omega
    · have : hi = lo + 1 := by omega
      subst this
      simp [adjRun, missing, runFrom, missingFrom]

/-- the bound without the bookkeeping term -/
theorem findInRangeL_requests_sum (av : Avail) (t : Int) (f lo hi : Nat) (h : lo < hi) :
    (findInRangeL av t f lo hi).2.length ≤ clog (hi - lo) + 3 * missing av lo hi + 1 := by
  have := findInRangeL_sum_bound av t f lo hi h
  have hm := clog_mono (hi - lo - adjRun av lo hi) (hi - lo) (by have := adjRun_lt av lo hi h; omega) (by omega)
  omega

/-! ### the ascent of findBound and the whole lookup -/

def countAv (av : Avail) (l : List Nat) : Nat := (l.filter fun n => (av n).isSome).length
def countMiss (av : Avail) (l : List Nat) : Nat := (l.filter fun n => (av n).isNone).length

theorem count_cons_av (av : Avail) (n : Nat) (l : List Nat) (ts : Int) (h : av n = some ts) :
    countAv av (n :: l) = countAv av l + 1 ∧ countMiss av (n :: l) = countMiss av l := by
  simp [countAv, countMiss, List.filter_cons, h]

theorem count_cons_miss (av : Avail) (n : Nat) (l : List Nat) (h : av n = none) :
    countAv av (n :: l) = countAv av l ∧ countMiss av (n :: l) = countMiss av l + 1 := by
  simp [countAv, countMiss, List.filter_cons, h]

theorem clog_fresh (x u : Nat) (hx : 1 ≤ x) (hu : 2 ≤ u) (h : 2 * x ≤ u + 1) : clog x + 1 ≤ clog u := by
  have h1 := clog_half u hu
  have h2 := clog_mono x ((u + 1) / 2) hx (by omega)
  omega

/-- **the ascent of `findBound`**: the requests that hit an existing state file are at most a logarithm of the
    current sequence number plus the requests that hit a missing file (plus a constant) — every availability
    pattern, any fuel. A step down to a new upper bound either follows directly on the previous one (then the
    bound is halved) or was preceded by at least one step over a missing file. -/
theorem findBoundL_requests (av : Avail) (t : Int) :
    ∀ f l u, 1 ≤ l → l < u →
      countAv av (findBoundL av t f l u).2 ≤ clog u + countMiss av (findBoundL av t f l u).2 + (if 2 * l ≤ u + 1 then 1 else 2) := by
  intro f
  induction f with
  | zero => intro l u _ _; simp [findBoundL, countAv]
  | succ f ih =>
    intro l u hl hlu
    unfold findBoundL
    cases hav : av l with
    | none =>
      -- a missing file: climb to the midpoint
      simp only [boundStep, hav]
      split
      · -- done
        rename_i lo hi hstep
        have := (count_cons_miss av l [] hav)
        simp only [this.1, this.2]
        simp [countAv, countMiss]
      · rename_i l' u' hstep
        split at hstep
        · cases hstep
        · rename_i hnew
          cases hstep
          have hm : l < (l + u) / 2 := by omega
          have hlt : (l + u) / 2 < u := by omega
          have hrec := ih ((l + u) / 2) u (by omega) hlt
          cases hr : findBoundL av t f ((l + u) / 2) u with
          | mk r lg =>
            rw [hr] at hrec
            simp only at hrec ⊢
            have := count_cons_miss av l lg hav
            rw [this.1, this.2]
            split at hrec <;> split <;> omega
    | some lts =>
      simp only [boundStep, hav]
      by_cases hlate : lts > t
      · simp only [hlate, if_true]
        by_cases hadj : l + 1 ≥ u
        · simp only [hadj, if_true]
          have := count_cons_av av l [] lts hav
          simp only [this.1, this.2]
          simp [countAv, countMiss]; split <;> omega
        · simp only [hadj, if_false]
          by_cases hsmall : (1 + l) / 2 ≤ 1
          · simp only [hsmall, if_true]
            have := count_cons_av av l [] lts hav
            simp only [this.1, this.2]
            simp [countAv, countMiss]; split <;> omega
          · simp only [hsmall, if_false]
            have hrec := ih ((1 + l) / 2) l (by omega) (by omega)
            cases hr : findBoundL av t f ((1 + l) / 2) l with
            | mk r lg =>
              rw [hr] at hrec
              simp only at hrec ⊢
              have := count_cons_av av l lg lts hav
              rw [this.1, this.2]
              have hfresh : 2 * ((1 + l) / 2) ≤ l + 1 := by omega
              simp only [hfresh, if_true] at hrec
              have hmono : clog l ≤ clog u := clog_mono l u hl (by omega)
              by_cases hf : 2 * l ≤ u + 1
              · have := clog_fresh l u hl (by omega) hf
                simp only [hf, if_true]; omega
              · simp only [hf, if_false]; omega
      · simp only [hlate, if_false]
        have := count_cons_av av l [] lts hav
        simp only [this.1, this.2]
        simp [countAv, countMiss]; split <;> omega

theorem length_eq_counts (av : Avail) (l : List Nat) : l.length = countAv av l + countMiss av l := by
  induction l with
  | nil => rfl
  | cons n rest ih =>
    cases h : av n with
    | none => have := count_cons_miss av n rest h; simp only [List.length_cons]; omega
    | some ts => have := count_cons_av av n rest ts h; simp only [List.length_cons]; omega

/-- the bounds `findBound` hands to the binary search lie inside the range it started with -/
theorem findBoundL_range (av : Avail) (t : Int) :
    ∀ f l u, l < u → (findBoundL av t f l u).1.1 ≤ (findBoundL av t f l u).1.2 ∧ (findBoundL av t f l u).1.2 ≤ u := by
  intro f
  induction f with
  | zero => intro l u _; simp [findBoundL]
  | succ f ih =>
    intro l u hlu
    unfold findBoundL
    cases hav : av l with
    | none =>
      simp only [boundStep, hav]
      split
      · rename_i lo hi hstep
        split at hstep
        · cases hstep; simp
        · cases hstep
      · rename_i l' u' hstep
        split at hstep
        · cases hstep
        · cases hstep
          have := ih ((l + u) / 2) u (by omega)
          cases hr : findBoundL av t f ((l + u) / 2) u with
          | mk r lg => rw [hr] at this; simpa using this
    | some lts =>
      simp only [boundStep, hav]
      by_cases hlate : lts > t
      · simp only [hlate, if_true]
        by_cases hadj : l + 1 ≥ u
        · simp only [hadj, if_true]; exact ⟨by omega, Nat.le_refl _⟩
        · simp only [hadj, if_false]
          by_cases hsmall : (1 + l) / 2 ≤ 1
          · simp only [hsmall, if_true]; exact ⟨Nat.le_refl _, by omega⟩
          · simp only [hsmall, if_false]
            have := ih ((1 + l) / 2) l (by omega)
            cases hr : findBoundL av t f ((1 + l) / 2) l with
            | mk r lg => rw [hr] at this; simp only at this ⊢; exact ⟨this.1, by omega⟩
      · simp only [hlate, if_false]; exact ⟨by omega, Nat.le_refl _⟩

/-- **the whole lookup when the minimum state is missing**: requests ≤ 2·⌈log₂ cur⌉ + 2·(requests of the ascent that
    hit a missing file) + 3·(missing files between the bounds found) + 5 — again a sum -/
theorem searchL_requests_min_missing (av : Avail) (cur min : Nat) (t : Int) (hmin : av min = none) (h1 : 1 < cur) :
    (searchL av cur min t).2.length ≤
      2 * clog cur + 2 * countMiss av (findBoundL av t (cur * cur + cur + 2) 1 cur).2 +
        3 * missing av (findBoundL av t (cur * cur + cur + 2) 1 cur).1.1 (findBoundL av t (cur * cur + cur + 2) 1 cur).1.2 + 5 := by
  have hb := findBoundL_requests av t (cur * cur + cur + 2) 1 cur (Nat.le_refl _) h1
  have hr := findBoundL_range av t (cur * cur + cur + 2) 1 cur h1
  have hfresh : 2 * 1 ≤ cur + 1 := by omega
  simp only [hfresh, if_true] at hb
  unfold searchL
  cases hc : av cur with
  | none => simp
  | some cts =>
    simp only
    split
    · simp
    · simp only [hmin]
      cases hfb : findBoundL av t (cur * cur + cur + 2) 1 cur with
      | mk r lg =>
        obtain ⟨lo, hi⟩ := r
        rw [hfb] at hb hr
        simp only at hb hr ⊢
        have hlen := length_eq_counts av lg
        cases hlo : av lo with
        | none => simp only [List.length_cons]; omega
        | some lts =>
          simp only
          split
          · simp only [List.length_cons]; omega
          · by_cases hlt : lo < hi
            · have h2 := findInRangeL_requests_sum av t (hi - lo) lo hi hlt
              have hm := clog_mono (hi - lo) cur (by omega) (by omega)
              simp only [List.length_cons, List.length_append]
              omega
            · have : hi - lo = 0 := by omega
              simp only [this, findInRangeL, List.length_cons, List.length_append, List.length_nil]
              omega


end OsmVerif.Model.Search
