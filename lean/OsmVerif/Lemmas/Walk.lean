import OsmVerif.Model.Walk
/-! Lemmas: what a call of the child-first walk may add to the emitted list. -/
namespace OsmVerif.Model.Walk

/-- what a call may add: fresh, duplicate-free ids that have a history none of whose members is on `p` -/
def Good (H : Hist) (out new p : List Nat) : Prop :=
  (∀ y ∈ new, y ∉ out) ∧ new.Nodup ∧ (∀ y ∈ new, ∃ ms, H y = some ms ∧ ∀ m ∈ ms, m ∉ p)

def WSpec (H : Hist) (w : List Nat → Nat → List Nat → List Nat) : Prop :=
  ∀ out x p, ∃ new, w out x p = out ++ new ∧ Good H out new p

theorem good_nil (H : Hist) (out p : List Nat) : Good H out [] p := by
  refine ⟨?_, List.nodup_nil, ?_⟩ <;> intro y hy <;> cases hy

theorem good_mono_path (H : Hist) (out new p q : List Nat) (hpq : ∀ m, m ∈ p → m ∈ q)
    (h : Good H out new q) : Good H out new p := by
  refine ⟨h.1, h.2.1, ?_⟩
  intro y hy
  obtain ⟨ms, h1, h2⟩ := h.2.2 y hy
  exact ⟨ms, h1, fun m hm hp => h2 m hm (hpq m hp)⟩

theorem good_append (H : Hist) (out a b p : List Nat)
    (ha : Good H out a p) (hb : Good H (out ++ a) b p) : Good H out (a ++ b) p := by
  refine ⟨?_, ?_, ?_⟩
  · intro y hy
    rcases List.mem_append.mp hy with h | h
    · exact ha.1 y h
    · intro ho; exact hb.1 y h (List.mem_append.mpr (Or.inl ho))
  · rw [List.nodup_append]
    refine ⟨ha.2.1, hb.2.1, ?_⟩
    intro x hx y hy hxy
    subst hxy
    exact hb.1 x hy (List.mem_append.mpr (Or.inr hx))
  · intro y hy
    rcases List.mem_append.mp hy with h | h
    · exact ha.2.2 y h
    · exact hb.2.2 y h

/-- the member loop: adds Good ids (w.r.t. the frame's path); and every id it adds has no member in `path ++ [m]`
for the member `m` it was reached through, which we keep as: not the frame's own id when that id has a member among `ms`. -/
theorem loopMs_spec (H : Hist) (w) (hw : WSpec H w) (path : List Nat) (id : Nat) :
    ∀ ms out, (∀ m ∈ ms, ∃ all, H id = some all ∧ m ∈ all) →
      ∃ new, (loopMs w path ms out).1 = out ++ new ∧ Good H out new path ∧ id ∉ new := by
  intro ms
  induction ms with
  | nil => intro out _; exact ⟨[], by simp [loopMs], good_nil H out path, by simp⟩
  | cons m ms ih =>
    intro out hall
    unfold loopMs
    split
    · exact ⟨[], by simp, good_nil H out path, by simp⟩
    · obtain ⟨a, ha, hga⟩ := hw out m (path ++ [m])
      have hall' : ∀ m' ∈ ms, ∃ all, H id = some all ∧ m' ∈ all :=
        fun m' hm' => hall m' (List.mem_cons_of_mem _ hm')
      obtain ⟨b, hb, hgb, hidb⟩ := ih (out ++ a) hall'
      refine ⟨a ++ b, ?_, ?_, ?_⟩
      · rw [ha, hb, List.append_assoc]
      · apply good_append
        · exact good_mono_path H out a path (path ++ [m]) (fun x hx => List.mem_append.mpr (Or.inl hx)) hga
        · exact hgb
      · intro hmem
        rcases List.mem_append.mp hmem with h | h
        · -- id was added by the nested walk through m: impossible, m is a member of id and m ∈ path ++ [m]
          obtain ⟨ms', h1, h2⟩ := hga.2.2 id h
          obtain ⟨all, h3, h4⟩ := hall m (List.mem_cons_self ..)
          rw [h1] at h3; cases h3
          exact h2 m h4 (List.mem_append.mpr (Or.inr (List.mem_singleton.mpr rfl)))
        · exact hidb h

theorem loopMs_not_aborted (w) (path : List Nat) : ∀ ms out,
    (loopMs w path ms out).2 = false → ∀ m ∈ ms, m ∉ path := by
  intro ms
  induction ms with
  | nil => intro _ _ m hm; cases hm
  | cons m ms ih =>
    intro out h m' hm'
    unfold loopMs at h
    split at h
    · cases h
    · rename_i hnot
      rcases List.mem_cons.mp hm' with e | e
      · subst e; exact hnot
      · exact ih _ h m' e

theorem walk_spec (H : Hist) : ∀ f, WSpec H (walk H f) := by
  intro f
  induction f with
  | zero => intro out x p; exact ⟨[], by simp [walk], good_nil H out p⟩
  | succ f ih =>
    intro out x p
    unfold walk
    split
    · exact ⟨[], by simp, good_nil H out p⟩
    · rename_i hx
      split
      · exact ⟨[], by simp, good_nil H out p⟩
      · rename_i ms hms
        obtain ⟨new, h1, h2, h3⟩ := loopMs_spec H (walk H f) ih p x ms out
          (fun m hm => ⟨ms, hms, hm⟩)
        simp only
        split
        · exact ⟨new, h1, h2⟩
        · rename_i hab
          refine ⟨new ++ [x], by rw [h1, List.append_assoc], ?_⟩
          apply good_append _ _ _ _ _ h2
          refine ⟨?_, by simp, ?_⟩
          · intro y hy
            have : y = x := by simpa using hy
            subst this
            intro hmem
            rcases List.mem_append.mp hmem with h | h
            · exact hx h
            · exact h3 h
          · intro y hy
            have : y = x := by simpa using hy
            subst this
            refine ⟨ms, hms, ?_⟩
            exact loopMs_not_aborted (walk H f) p ms out (by simpa using hab)

/-- Any graph (cycles, self loops, missing histories), any request list: no id is emitted twice,
and every emitted id has a history. -/
theorem emitted_nodup' (H : Hist) (f : Nat) (ids : List Nat) :
    (ids.foldl (fun out id => walk H f out id []) []).Nodup := by
  suffices h : ∀ out : List Nat, out.Nodup → (ids.foldl (fun out id => walk H f out id []) out).Nodup from
    h [] List.nodup_nil
  induction ids with
  | nil => intro out h; simpa using h
  | cons id ids ih =>
    intro out h
    simp only [List.foldl_cons]
    apply ih
    obtain ⟨new, h1, h2⟩ := walk_spec H f out id []
    rw [h1, List.nodup_append]
    exact ⟨h, h2.2.1, fun x hx y hy e => by subst e; exact h2.1 x hy hx⟩


end OsmVerif.Model.Walk
