import OsmVerif.Lemmas.Geo
/-! Closure of joined groups: when every end point of the input pieces is shared by exactly two piece ends
(what cutting vertex-disjoint simple rings produces), every group `Join` builds is closed. -/
namespace OsmVerif.Model.Geo

/-- the two end points of a piece's complete line -/
def ends (s : Seg) : List P :=
  match s.full.head?, s.full.getLast? with
  | some a, some b => [a, b]
  | _, _ => []

/-- the two open ends of a growing group -/
def bd (cur : List Seg) : List P :=
  match msFirst cur, msLast cur with
  | some a, some b => [a, b]
  | _, _ => []

/-- every point is an end of no or of exactly two piece ends (group boundary included) -/
def Deg (cur segs : List Seg) : Prop :=
  ∀ p, (bd cur ++ segs.flatMap ends).count p = 0 ∨ (bd cur ++ segs.flatMap ends).count p = 2

def DegR (segs : List Seg) : Prop := ∀ p, (segs.flatMap ends).count p = 0 ∨ (segs.flatMap ends).count p = 2

theorem fresh_ends (s : Seg) (h : Fresh s) : ∃ a b, s.line.head? = some a ∧ s.line.getLast? = some b ∧ ends s = [a, b] := by
  obtain ⟨a, b, t, hl⟩ := two_le_split s.line h.2
  have hne : (a :: b :: t) ≠ [] := by simp
  refine ⟨a, (a :: b :: t).getLast hne, by simp [hl], by rw [hl]; exact List.getLast?_eq_some_getLast hne, ?_⟩
  unfold ends
  rw [← h.1, hl]
  simp [List.getLast?_eq_some_getLast hne]

theorem chain_bd (cur : List Seg) (hc : Chain cur) : ∃ a b, msFirst cur = some a ∧ msLast cur = some b ∧ bd cur = [a, b] := by
  have hne := lineOf_ne_nil hc
  have h1 : msFirst cur = some ((lineOf cur).head hne) := by rw [msFirst_eq hc]; exact List.head?_eq_some_head hne
  have h2 : msLast cur = some ((lineOf cur).getLast hne) := by rw [msLast_eq hc]; exact List.getLast?_eq_some_getLast hne
  exact ⟨_, _, h1, h2, by simp [bd, h1, h2]⟩

/-- the boundary after gluing a piece at the end: the group's first point and the piece's far end -/
theorem bd_append (cur : List Seg) (s : Seg) (hc : Chain cur) (hs : Fresh s) (hm : msLast cur = s.line.head?)
    (a b x y : P) (hb : bd cur = [a, b]) (he : s.line.head? = some x) (hl : s.line.getLast? = some y) :
    bd (cur ++ [{ s with line := s.line.tail }]) = [a, y] ∧ b = x := by
  obtain ⟨a', b', h1, h2, h3⟩ := chain_bd cur hc
  rw [h3] at hb
  have ha : a' = a := by simpa using (List.cons.inj hb).1
  have hbb : b' = b := by simpa using (List.cons.inj (List.cons.inj hb).2).1
  subst ha; subst hbb
  have hbx : b' = x := by rw [h2, he] at hm; exact Option.some.inj hm
  have hc' := chain_append cur s hc hs hm
  obtain ⟨a2, b2, g1, g2, g3⟩ := chain_bd _ hc'
  obtain ⟨p, q, t, hline⟩ := two_le_split s.line hs.2
  have hf : a2 = a' := by
    have : msFirst (cur ++ [{ s with line := s.line.tail }]) = msFirst cur := by
      obtain ⟨c0, rest, rfl⟩ := List.exists_cons_of_ne_nil hc.nonempty
      simp [msFirst]
    rw [this, h1] at g1; exact (Option.some.inj g1).symm
  have hl2 : b2 = y := by
    have : msLast (cur ++ [{ s with line := s.line.tail }]) = s.line.getLast? := by
      simp only [msLast, List.getLast?_append, List.getLast?_singleton, Option.some_or, Option.bind_some]
      rw [hline]; simp [List.getLast?_cons_cons]
    rw [this, hl] at g2; exact (Option.some.inj g2).symm
  rw [g3, hf, hl2]
  exact ⟨rfl, hbx⟩

theorem bd_prepend (cur : List Seg) (s : Seg) (hc : Chain cur) (hs : Fresh s) (hm : msFirst cur = s.line.getLast?)
    (a b x y : P) (hb : bd cur = [a, b]) (he : s.line.head? = some x) (hl : s.line.getLast? = some y) :
    bd ({ s with line := s.line.dropLast } :: cur) = [x, b] ∧ a = y := by
  obtain ⟨a', b', h1, h2, h3⟩ := chain_bd cur hc
  rw [h3] at hb
  have ha : a' = a := by simpa using (List.cons.inj hb).1
  have hbb : b' = b := by simpa using (List.cons.inj (List.cons.inj hb).2).1
  subst ha; subst hbb
  have hay : a' = y := by rw [h1, hl] at hm; exact Option.some.inj hm
  have hc' := chain_prepend cur s hc hs hm
  obtain ⟨a2, b2, g1, g2, g3⟩ := chain_bd _ hc'
  obtain ⟨p, q, t, hline⟩ := two_le_split s.line hs.2
  have hf : a2 = x := by
    have : msFirst ({ s with line := s.line.dropLast } :: cur) = s.line.head? := by
      simp only [msFirst, List.head?_cons, Option.bind_some]
      rw [hline]; simp [List.dropLast]
    rw [this, he] at g1; exact (Option.some.inj g1).symm
  have hl2 : b2 = b' := by
    have : msLast ({ s with line := s.line.dropLast } :: cur) = msLast cur := by
      obtain ⟨c0, rest, rfl⟩ := List.exists_cons_of_ne_nil hc.nonempty
      simp [msLast, List.getLast?_cons_cons]
    rw [this, h2] at g2; exact (Option.some.inj g2).symm
  rw [g3, hf, hl2]
  exact ⟨rfl, hay⟩

theorem ends_rev (s : Seg) (a b : P) (h : ends s = [a, b]) : ends s.rev = [b, a] := by
  unfold ends at *
  simp only [Seg.rev, List.head?_reverse, List.getLast?_reverse]
  cases h1 : s.full.head? <;> cases h2 : s.full.getLast? <;> simp [h1, h2] at h ⊢
  exact ⟨h.2, h.1⟩

/-- one successful match: the piece taken, and how the multiset of open ends changes — two copies of the
    glued point disappear, nothing else -/
theorem findMatch_deg (cur : List Seg) (hc : Chain cur) : ∀ segs i j cur',
    (∀ s ∈ segs, Fresh s) → findMatch cur segs i = some (j, cur') →
      ∃ k s q, j = i + k ∧ segs[k]? = some s ∧ Chain cur' ∧ q ∈ bd cur ∧
        ∀ p, (bd cur ++ ends s).count p = (bd cur').count p + (if p = q then 2 else 0) := by
  intro segs
  induction segs with
  | nil => intro i j cur' _ h; simp [findMatch] at h
  | cons s rest ih =>
    intro i j cur' hf h
    have hs := hf s (by simp)
    obtain ⟨x, y, hx, hy, he⟩ := fresh_ends s hs
    obtain ⟨a, b, h1, h2, hb⟩ := chain_bd cur hc
    unfold findMatch at h
    simp only at h
    split at h
    · rename_i hm
      cases h
      obtain ⟨hbd, hbx⟩ := bd_append cur s hc hs hm.2 a b x y hb hx hy
      refine ⟨0, s, b, rfl, by simp, chain_append cur s hc hs hm.2, by simp [hb], ?_⟩
      intro p
      rw [hb, he, hbd, ← hbx]
      simp only [List.cons_append, List.nil_append, List.count_cons, List.count_nil, beq_iff_eq]
      by_cases c1 : a = p <;> by_cases c2 : b = p <;> by_cases c3 : y = p <;> simp [c1, c2, c3, eq_comm] <;> omega
    · split at h
      · rename_i hm
        cases h
        have hm' : msLast cur = s.rev.line.head? := by rw [hm.2]; simp [Seg.rev]
        have hsr := fresh_rev s hs
        have hxr : s.rev.line.head? = some y := by simp [Seg.rev, hy]
        have hyr : s.rev.line.getLast? = some x := by simp [Seg.rev, hx]
        obtain ⟨hbd, hbx⟩ := bd_append cur s.rev hc hsr hm' a b y x hb hxr hyr
        refine ⟨0, s, b, rfl, by simp, chain_append cur s.rev hc hsr hm', by simp [hb], ?_⟩
        intro p
        rw [hb, he, hbd, ← hbx]
        simp only [List.cons_append, List.nil_append, List.count_cons, List.count_nil, beq_iff_eq]
        by_cases c1 : a = p <;> by_cases c2 : b = p <;> by_cases c3 : x = p <;> simp [c1, c2, c3, eq_comm] <;> omega
      · split at h
        · rename_i hm
          cases h
          obtain ⟨hbd, hay⟩ := bd_prepend cur s hc hs hm.2 a b x y hb hx hy
          refine ⟨0, s, a, rfl, by simp, chain_prepend cur s hc hs hm.2, by simp [hb], ?_⟩
          intro p
          rw [hb, he, hbd, ← hay]
          simp only [List.cons_append, List.nil_append, List.count_cons, List.count_nil, beq_iff_eq]
          by_cases c1 : a = p <;> by_cases c2 : b = p <;> by_cases c3 : x = p <;> simp [c1, c2, c3, eq_comm] <;> omega
        · split at h
          · rename_i hm
            cases h
            have hm' : msFirst cur = s.rev.line.getLast? := by rw [hm.2]; simp [Seg.rev]
            have hsr := fresh_rev s hs
            have hxr : s.rev.line.head? = some y := by simp [Seg.rev, hy]
            have hyr : s.rev.line.getLast? = some x := by simp [Seg.rev, hx]
            obtain ⟨hbd, hay⟩ := bd_prepend cur s.rev hc hsr hm' a b y x hb hxr hyr
            refine ⟨0, s, a, rfl, by simp, chain_prepend cur s.rev hc hsr hm', by simp [hb], ?_⟩
            intro p
            rw [hb, he, hbd, ← hay]
            simp only [List.cons_append, List.nil_append, List.count_cons, List.count_nil, beq_iff_eq]
            by_cases c1 : a = p <;> by_cases c2 : b = p <;> by_cases c3 : y = p <;> simp [c1, c2, c3, eq_comm] <;> omega
          · obtain ⟨k, s', q, hk, hs', hch, hq, hcount⟩ := ih (i + 1) j cur' (fun z hz => hf z (by simp [hz])) h
            exact ⟨k + 1, s', q, by omega, by simpa using hs', hch, hq, hcount⟩

/-- a piece with an end at one of the group's open ends is always found -/
theorem findMatch_none (cur : List Seg) (a b : P) (h1 : msFirst cur = some a) (h2 : msLast cur = some b) :
    ∀ segs i, findMatch cur segs i = none →
      ∀ s ∈ segs, s.line.head? ≠ some b ∧ s.line.getLast? ≠ some b ∧ s.line.head? ≠ some a ∧ s.line.getLast? ≠ some a := by
  intro segs
  induction segs with
  | nil => intro i _ s hs; cases hs
  | cons z rest ih =>
    intro i h s hs
    unfold findMatch at h
    simp only [h1, h2] at h
    split at h
    · cases h
    · rename_i c1
      split at h
      · cases h
      · rename_i c2
        split at h
        · cases h
        · rename_i c3
          split at h
          · cases h
          · rename_i c4
            rcases List.mem_cons.mp hs with e | e
            · subst e
              simp only [Option.isSome_some, true_and] at c1 c2 c3 c4
              exact ⟨fun e => c1 e.symm, fun e => c2 e.symm, fun e => c4 e.symm, fun e => c3 e.symm⟩
            · exact ih (i + 1) h s e

theorem count_flatMap_eraseIdx (segs : List Seg) (k : Nat) (s : Seg) (h : segs[k]? = some s) (p : P) :
    (segs.flatMap ends).count p = (ends s).count p + ((segs.eraseIdx k).flatMap ends).count p := by
  have hp := perm_eraseIdx_cons segs k s h
  have := (hp.flatMap_right ends).count_eq p
  simpa [List.count_append] using this

/-- **a group grows until it is closed**: with every end point shared by exactly two piece ends, growing never
    stops on an open chain -/
theorem grow_closes : ∀ f cur segs, segs.length ≤ f → Chain cur → (∀ s ∈ segs, Fresh s) → Deg cur segs →
    msFirst (grow f cur segs).1 = msLast (grow f cur segs).1 ∧ Deg (grow f cur segs).1 (grow f cur segs).2 := by
  intro f
  induction f with
  | zero =>
    intro cur segs hl hc hf hd
    have : segs = [] := List.eq_nil_of_length_eq_zero (by omega)
    subst this
    obtain ⟨a, b, h1, h2, hb⟩ := chain_bd cur hc
    simp only [grow]
    refine ⟨?_, hd⟩
    have := hd a
    rw [hb] at this
    simp only [List.flatMap_nil, List.append_nil, List.count_cons, List.count_nil, beq_self_eq_true, beq_iff_eq] at this
    by_cases c : b = a
    · rw [h1, h2, c]
    · simp [c] at this
  | succ f ih =>
    intro cur segs hl hc hf hd
    obtain ⟨a, b, h1, h2, hb⟩ := chain_bd cur hc
    unfold grow
    split
    · rename_i hstop
      refine ⟨?_, hd⟩
      rcases hstop with e | e
      · subst e
        have := hd a
        rw [hb] at this
        simp only [List.flatMap_nil, List.append_nil, List.count_cons, List.count_nil, beq_self_eq_true, beq_iff_eq] at this
        by_cases c : b = a
        · rw [h1, h2, c]
        · simp [c] at this
      · exact e
    · rename_i hgo
      have hopen : a ≠ b := by
        intro e; apply hgo; right; rw [h1, h2, e]
      split
      · -- no match although the chain is open: impossible
        rename_i hnone
        exfalso
        have hn := findMatch_none cur a b h1 h2 segs 0 hnone
        have hcb := hd b
        rw [hb] at hcb
        have hzero : (segs.flatMap ends).count b = 0 := by
          rw [List.count_eq_zero]
          intro hmem
          obtain ⟨s, hs, hbs⟩ := List.mem_flatMap.mp hmem
          obtain ⟨x, y, hx, hy, he⟩ := fresh_ends s (hf s hs)
          have := hn s hs
          rw [he] at hbs
          simp at hbs
          rcases hbs with e | e
          · exact this.1 (by rw [hx, e])
          · exact this.2.1 (by rw [hy, e])
        simp only [List.cons_append, List.nil_append, List.count_cons, List.count_nil, beq_self_eq_true, beq_iff_eq, hzero] at hcb
        have : ¬ a = b := hopen
        simp [this] at hcb
      · rename_i i c1 hm
        obtain ⟨k, s, q, hk, hs, hch, hq, hcount⟩ := findMatch_deg cur hc segs 0 i c1 hf hm
        have hik : i = k := by omega
        subst hik
        have hf' : ∀ x ∈ segs.eraseIdx i, Fresh x := fun x hx => hf x (mem_eraseIdx_of_mem hx)
        have hd' : Deg c1 (segs.eraseIdx i) := by
          intro p
          have htot := hd p
          have hsplit := count_flatMap_eraseIdx segs i s hs p
          have hc2 := hcount p
          simp only [List.count_append] at htot hc2 ⊢
          by_cases hpq : p = q
          · subst hpq
            simp only [if_true] at hc2
            have hpos : 0 < (bd cur).count p := List.count_pos_iff.mpr hq
            omega
          · simp only [hpq, if_false] at hc2
            omega
        apply ih c1 (segs.eraseIdx i) _ hch hf' hd'
        rw [List.length_eraseIdx]
        have : i < segs.length := by
          rcases Nat.lt_or_ge i segs.length with c | c
          · exact c
          · rw [List.getElem?_eq_none c] at hs; cases hs
        simp [this]; omega

theorem bd_seed (s : Seg) (h : Fresh s) : bd [s] = ends s := by
  obtain ⟨x, y, hx, hy, he⟩ := fresh_ends s h
  simp [bd, msFirst, msLast, hx, hy, he]

theorem joinAux_closed : ∀ f segs acc, segs.length ≤ f → (∀ s ∈ segs, Fresh s) → DegR segs →
    (∀ ms ∈ acc, msFirst ms = msLast ms) → ∀ ms ∈ joinAux f segs acc, msFirst ms = msLast ms := by
  intro f
  induction f with
  | zero =>
    intro segs acc h _ _ hacc
    have : segs = [] := List.eq_nil_of_length_eq_zero (by omega)
    subst this; simpa [joinAux] using hacc
  | succ f ih =>
    intro segs acc h hf hdeg hacc
    unfold joinAux
    split
    · exact hacc
    · rename_i s hs
      have hne : segs ≠ [] := by intro e; subst e; simp at hs
      have hsegs : segs = segs.dropLast ++ [s] := by
        have h1 := List.dropLast_concat_getLast hne
        have h2 : segs.getLast hne = s := by
          have := List.getLast?_eq_some_getLast hne
          rw [hs] at this; exact (Option.some.inj this).symm
        rw [h2] at h1; exact h1.symm
      have hsmem : s ∈ segs := by rw [hsegs]; simp
      have hfd : ∀ x ∈ segs.dropLast, Fresh x := fun x hx => hf x (List.dropLast_subset segs hx)
      have hseed := seed_chain s (hf s hsmem)
      have hd0 : Deg [s] segs.dropLast := by
        intro p
        have := hdeg p
        rw [hsegs] at this
        rw [bd_seed s (hf s hsmem)]
        simp only [List.flatMap_append, List.flatMap_cons, List.flatMap_nil, List.append_nil, List.count_append] at this ⊢
        omega
      have hlen0 : segs.dropLast.length ≤ segs.length := by simp
      obtain ⟨hclosed, hd1⟩ := grow_closes segs.length [s] segs.dropLast hlen0 hseed hfd hd0
      generalize hg : grow segs.length [s] segs.dropLast = g at hclosed hd1
      obtain ⟨cur, rest⟩ := g
      simp only at hclosed hd1 ⊢
      obtain ⟨hp, hch, hfr, hlen1⟩ := grow_spec _ _ _ _ _ hseed hfd hg
      have hlen : rest.length ≤ f := by
        have h1 : (cur ++ rest).length = ([s] ++ segs.dropLast).length := by simpa using hp.length_eq
        have h2 : 1 ≤ cur.length := by simpa using hlen1
        simp at h1
        have h3 : 0 < segs.length := List.length_pos_iff.mpr hne
        omega
      have hdr : DegR rest := by
        intro p
        obtain ⟨a, b, h1, h2, hb⟩ := chain_bd cur hch
        have hab : a = b := by rw [h1, h2] at hclosed; exact Option.some.inj hclosed
        have := hd1 p
        rw [hb, ← hab] at this
        simp only [List.cons_append, List.nil_append, List.count_cons, List.count_nil, beq_iff_eq] at this
        by_cases c : a = p
        · simp [c] at this; omega
        · simp [c] at this; exact this
      apply ih rest (acc ++ [cur]) hlen hfr hdr
      intro ms hms
      rcases List.mem_append.mp hms with e | e
      · exact hacc ms e
      · simp at e; subst e; exact hclosed

/-! ### when the end-point condition holds -/

def startOf (s : Seg) : Option P := s.full.head?
def stopOf (s : Seg) : Option P := s.full.getLast?

theorem count_ends (s : Seg) (a b : P) (ha : s.full.head? = some a) (hb : s.full.getLast? = some b) (p : P) :
    (ends s).count p = (if a = p then 1 else 0) + (if b = p then 1 else 0) := by
  simp only [ends, ha, hb, List.count_cons, List.count_nil, beq_iff_eq]
  by_cases c1 : a = p <;> by_cases c2 : b = p <;> simp [c1, c2]

/-- **the cut-rings condition**: if the points at which pieces start are pairwise distinct and are, as a
    multiset, the points at which pieces stop (every cut point is where exactly one piece ends and exactly one
    begins — what cutting vertex-disjoint simple rings into pieces gives), every end point is shared by exactly
    two piece ends -/
theorem degR_of_starts_stops (segs : List Seg) (starts stops : List P)
    (hs : segs.map startOf = starts.map some) (ht : segs.map stopOf = stops.map some)
    (hperm : starts.Perm stops) (hnd : starts.Nodup) : DegR segs := by
  have key : ∀ (l : List Seg) (st sp : List P), l.map startOf = st.map some → l.map stopOf = sp.map some →
      ∀ p, (l.flatMap ends).count p = st.count p + sp.count p := by
    intro l
    induction l with
    | nil =>
      intro st sp h1 h2 p
      cases st <;> cases sp <;> simp_all
    | cons s rest ih =>
      intro st sp h1 h2 p
      cases st with
      | nil => simp at h1
      | cons a st' =>
        cases sp with
        | nil => simp at h2
        | cons b sp' =>
          simp only [List.map_cons, List.cons.injEq] at h1 h2
          have := ih st' sp' h1.2 h2.2 p
          simp only [List.flatMap_cons, List.count_append, this, count_ends s a b h1.1 h2.1 p, List.count_cons, beq_iff_eq]
          by_cases c1 : a = p <;> by_cases c2 : b = p <;> simp [c1, c2] <;> omega
  intro p
  rw [key segs starts stops hs ht p, ← hperm.count_eq p]
  have := List.nodup_iff_count.mp hnd p
  omega

/-- reversing pieces and reordering them does not change the condition -/
theorem degR_perm (a b : List Seg) (h : a.Perm b) (hd : DegR a) : DegR b := by
  intro p
  have := (h.flatMap_right ends).count_eq p
  rw [← this]; exact hd p

theorem ends_rev_count (s : Seg) (p : P) : (ends s.rev).count p = (ends s).count p := by
  unfold ends
  simp only [Seg.rev, List.head?_reverse, List.getLast?_reverse]
  cases h1 : s.full.head? <;> cases h2 : s.full.getLast? <;> simp [List.count_cons]
  omega

theorem degR_rev (segs : List Seg) (flip : Seg → Bool) (hd : DegR segs) :
    DegR (segs.map fun s => if flip s then s.rev else s) := by
  intro p
  have : ((segs.map fun s => if flip s then s.rev else s).flatMap ends).count p = (segs.flatMap ends).count p := by
    clear hd
    induction segs with
    | nil => rfl
    | cons s rest ih =>
      simp only [List.map_cons, List.flatMap_cons, List.count_append, ih]
      by_cases c : flip s = true
      · simp [c, ends_rev_count]
      · simp [c]
  rw [this]; exact hd p

/-! ### groups do not share end points -/

theorem ends_norm_count (s : Seg) (p : P) : (ends (norm s)).count p = (ends s).count p := by
  unfold ends norm
  cases hr : s.reversed
  · simp
  · simp only [if_true, List.head?_reverse, List.getLast?_reverse]
    cases h1 : s.full.head? <;> cases h2 : s.full.getLast? <;> simp [List.count_cons]
    omega

theorem count_ends_of_norm_perm (l1 l2 : List Seg) (h : (l1.map norm).Perm (l2.map norm)) (p : P) :
    (l1.flatMap ends).count p = (l2.flatMap ends).count p := by
  have key : ∀ l : List Seg, (l.flatMap ends).count p = ((l.map norm).flatMap ends).count p := by
    intro l
    induction l with
    | nil => rfl
    | cons s rest ih => simp only [List.flatMap_cons, List.map_cons, List.count_append, ih, ends_norm_count]
  rw [key l1, key l2]
  exact (h.flatMap_right ends).count_eq p

/-- every point is an end of no or of exactly two piece ends of the group -/
def EvenG (g : List Seg) : Prop := ∀ p, (g.flatMap ends).count p = 0 ∨ (g.flatMap ends).count p = 2

theorem joinAux_even : ∀ f segs acc, segs.length ≤ f → (∀ s ∈ segs, Fresh s) → DegR segs →
    (∀ ms ∈ acc, EvenG ms) → ∀ ms ∈ joinAux f segs acc, EvenG ms := by
  intro f
  induction f with
  | zero =>
    intro segs acc h _ _ hacc
    have : segs = [] := List.eq_nil_of_length_eq_zero (by omega)
    subst this; simpa [joinAux] using hacc
  | succ f ih =>
    intro segs acc h hf hdeg hacc
    unfold joinAux
    split
    · exact hacc
    · rename_i s hs
      have hne : segs ≠ [] := by intro e; subst e; simp at hs
      have hsegs : segs = segs.dropLast ++ [s] := by
        have h1 := List.dropLast_concat_getLast hne
        have h2 : segs.getLast hne = s := by
          have := List.getLast?_eq_some_getLast hne
          rw [hs] at this; exact (Option.some.inj this).symm
        rw [h2] at h1; exact h1.symm
      have hsmem : s ∈ segs := by rw [hsegs]; simp
      have hfd : ∀ x ∈ segs.dropLast, Fresh x := fun x hx => hf x (List.dropLast_subset segs hx)
      have hseed := seed_chain s (hf s hsmem)
      have hd0 : Deg [s] segs.dropLast := by
        intro p
        have := hdeg p
        rw [hsegs] at this
        rw [bd_seed s (hf s hsmem)]
        simp only [List.flatMap_append, List.flatMap_cons, List.flatMap_nil, List.append_nil, List.count_append] at this ⊢
        omega
      have hlen0 : segs.dropLast.length ≤ segs.length := by simp
      obtain ⟨hclosed, hd1⟩ := grow_closes segs.length [s] segs.dropLast hlen0 hseed hfd hd0
      generalize hg : grow segs.length [s] segs.dropLast = g at hclosed hd1
      obtain ⟨cur, rest⟩ := g
      simp only at hclosed hd1 ⊢
      obtain ⟨hp, hch, hfr, hlen1⟩ := grow_spec _ _ _ _ _ hseed hfd hg
      have hlen : rest.length ≤ f := by
        have h1 : (cur ++ rest).length = ([s] ++ segs.dropLast).length := by simpa using hp.length_eq
        have h2 : 1 ≤ cur.length := by simpa using hlen1
        simp at h1
        have h3 : 0 < segs.length := List.length_pos_iff.mpr hne
        omega
      have hdr : DegR rest := by
        intro p
        obtain ⟨a, b, h1, h2, hb⟩ := chain_bd cur hch
        have hab : a = b := by rw [h1, h2] at hclosed; exact Option.some.inj hclosed
        have := hd1 p
        rw [hb, ← hab] at this
        simp only [List.cons_append, List.nil_append, List.count_cons, List.count_nil, beq_iff_eq] at this
        by_cases c : a = p
        · simp [c] at this; omega
        · simp [c] at this; exact this
      have hcur : EvenG cur := by
        intro p
        have e1 := count_ends_of_norm_perm (cur ++ rest) ([s] ++ segs.dropLast) hp p
        have e2 : (([s] ++ segs.dropLast).flatMap ends).count p = (segs.flatMap ends).count p := by
          have hperm : ([s] ++ segs.dropLast).Perm segs := by
            conv => rhs; rw [hsegs]
            exact List.perm_append_comm
          exact (hperm.flatMap_right ends).count_eq p
        rw [e2] at e1
        have e0 : ((cur ++ rest).flatMap ends).count p = (cur.flatMap ends).count p + (rest.flatMap ends).count p := by
          simp [List.flatMap_append, List.count_append]
        rw [e0] at e1
        have e3 := hdeg p
        have e4 := hdr p
        omega
      apply ih rest (acc ++ [cur]) hlen hfr hdr
      intro ms hms
      rcases List.mem_append.mp hms with e | e
      · exact hacc ms e
      · simp at e; subst e; exact hcur


end OsmVerif.Model.Geo
