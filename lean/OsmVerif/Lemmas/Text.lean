import OsmVerif.Model.Text
/-! Lemmas about the text primitives (`splitOn`, `parseNat`, `parseInt64`, `showInt`). -/
namespace OsmVerif.Model.Text

theorem splitOn_ne_nil (c : Char) (s : List Char) : splitOn c s ≠ [] := by
  induction s with
  | nil => simp [splitOn]
  | cons x xs ih =>
    unfold splitOn
    split
    · simp
    · split <;> simp

/-- re-joining the parts with the separator -/
def joinWith (c : Char) : List (List Char) → List Char
  | [] => []
  | [p] => p
  | p :: q :: rest => p ++ c :: joinWith c (q :: rest)

theorem splitOn_spec (c : Char) (s : List Char) :
    (∀ p ∈ splitOn c s, c ∉ p) ∧ joinWith c (splitOn c s) = s := by
  induction s with
  | nil => simp [splitOn, joinWith]
  | cons x xs ih =>
    unfold splitOn
    by_cases hx : x = c
    · simp only [hx, if_true]
      constructor
      · intro p hp
        rcases List.mem_cons.mp hp with h | h
        · subst h; simp
        · exact ih.1 p h
      · cases hs : splitOn c xs with
        | nil => exact absurd hs (splitOn_ne_nil c xs)
        | cons q rest =>
          rw [hs] at ih
          simp [joinWith, ih.2]
    · simp only [hx, if_false]
      cases hs : splitOn c xs with
      | nil => exact absurd hs (splitOn_ne_nil c xs)
      | cons q rest =>
        rw [hs] at ih
        simp only
        constructor
        · intro p hp
          rcases List.mem_cons.mp hp with h | h
          · subst h
            have := ih.1 q (by simp)
            simp only [List.mem_cons, not_or]
            exact ⟨fun e => hx e.symm, this⟩
          · exact ih.1 p (by simp [h])
        · cases rest with
          | nil => simp [joinWith] at ih ⊢; exact ih.2
          | cons q2 rest2 =>
            have := ih.2
            simp only [joinWith] at this ⊢
            simp [this]

theorem splitOn_of_not_mem (c : Char) (a : List Char) (h : c ∉ a) : splitOn c a = [a] := by
  induction a with
  | nil => simp [splitOn]
  | cons x xs ih =>
    have hx : x ≠ c := fun e => h (by simp [e])
    have hxs : c ∉ xs := fun e => h (by simp [e])
    unfold splitOn
    simp [hx, ih hxs]

theorem splitOn_append (c : Char) (a b : List Char) (h : c ∉ a) :
    splitOn c (a ++ c :: b) = a :: splitOn c b := by
  induction a with
  | nil => simp [splitOn]
  | cons x xs ih =>
    have hx : x ≠ c := fun e => h (by simp [e])
    have hxs : c ∉ xs := fun e => h (by simp [e])
    simp [splitOn, hx, ih hxs]

theorem splitOn_two {c : Char} {s a b : List Char} (h : splitOn c s = [a, b]) :
    s = a ++ c :: b ∧ c ∉ a ∧ c ∉ b := by
  have sp := splitOn_spec c s
  rw [h] at sp
  refine ⟨?_, sp.1 a (by simp), sp.1 b (by simp)⟩
  have := sp.2
  simp only [joinWith] at this
  exact this.symm

theorem splitOn_one {c : Char} {s a : List Char} (h : splitOn c s = [a]) : s = a ∧ c ∉ a := by
  have sp := splitOn_spec c s
  rw [h] at sp
  refine ⟨?_, sp.1 a (by simp)⟩
  have := sp.2
  simp only [joinWith] at this
  exact this.symm

/-! ### numerals -/

/-- optional sign followed by one or more ASCII digits -/
def IsNumeral (l : List Char) : Prop :=
  ∃ ds : List Char, (l = ds ∨ l = '-' :: ds ∨ l = '+' :: ds) ∧ ds ≠ [] ∧ ∀ c ∈ ds, c.isDigit = true

theorem parseNat_some {l : List Char} {n : Nat} (h : parseNat l = some n) :
    l ≠ [] ∧ (∀ c ∈ l, c.isDigit = true) ∧ n = Nat.ofDigitChars 10 l 0 := by
  unfold parseNat at h
  split at h
  · cases h
  · rename_i hc
    simp only [Bool.or_eq_true, List.isEmpty_iff, Bool.not_eq_true', not_or, Bool.not_eq_false] at hc
    refine ⟨hc.1, ?_, ?_⟩
    · intro c hcm; exact List.all_eq_true.mp hc.2 c hcm
    · cases h; rfl

theorem parseInt64_numeral {l : List Char} {i : Int} (h : parseInt64 l = some i) : IsNumeral l := by
  unfold parseInt64 at h
  split at h
  · rename_i t
    cases hp : parseNat t with
    | none => simp [hp] at h
    | some n =>
      have := parseNat_some hp
      exact ⟨t, Or.inr (Or.inl rfl), this.1, this.2.1⟩
  · rename_i t
    cases hp : parseNat t with
    | none => simp [hp] at h
    | some n =>
      have := parseNat_some hp
      exact ⟨t, Or.inr (Or.inr rfl), this.1, this.2.1⟩
  · cases hp : parseNat l with
    | none => simp [hp] at h
    | some n =>
      have := parseNat_some hp
      exact ⟨l, Or.inl rfl, this.1, this.2.1⟩

theorem parseNat_toDigits (n : Nat) : parseNat (Nat.toDigits 10 n) = some n := by
  unfold parseNat
  have h1 : (Nat.toDigits 10 n).isEmpty = false := by
    simp [Nat.toDigits_ne_nil]
  have h2 : (Nat.toDigits 10 n).all Char.isDigit = true := by
    rw [List.all_eq_true]
    intro c hc
    exact Nat.isDigit_of_mem_toDigits (by decide) (by decide) hc
  simp [h1, h2]

theorem digit_ne_of_not_isDigit {c d : Char} (hd : d.isDigit = false) (hc : c.isDigit = true) : c ≠ d := by
  intro e; subst e; simp [hd] at hc

theorem toDigits_head_isDigit (n : Nat) : ∃ d ds, Nat.toDigits 10 n = d :: ds ∧ d.isDigit = true := by
  cases h : Nat.toDigits 10 n with
  | nil => exact absurd h Nat.toDigits_ne_nil
  | cons d ds =>
    refine ⟨d, ds, rfl, ?_⟩
    exact Nat.isDigit_of_mem_toDigits (b := 10) (n := n) (by decide) (by decide) (by simp [h])

theorem parseInt64_showNat (n : Nat) (hn : n < 2^63) : parseInt64 (Nat.toDigits 10 n) = some (n : Int) := by
  obtain ⟨d, ds, hd, hdig⟩ := toDigits_head_isDigit n
  have h1 : d ≠ '-' := digit_ne_of_not_isDigit (by decide) hdig
  have h2 : d ≠ '+' := digit_ne_of_not_isDigit (by decide) hdig
  have hp := parseNat_toDigits n
  rw [hd] at hp ⊢
  unfold parseInt64
  split
  · rename_i t heq; cases heq; exact absurd rfl h1
  · rename_i t heq; cases heq; exact absurd rfl h2
  · simp [hp, hn]

theorem showInt_natCast (n : Nat) : showInt (n : Int) = Nat.toDigits 10 n := by
  unfold showInt
  have : ¬ ((n : Int) < 0) := by omega
  simp [this]

theorem sep_not_mem_toDigits (n : Nat) (c : Char) (hc : c.isDigit = false) : c ∉ Nat.toDigits 10 n := by
  intro h
  have := Nat.isDigit_of_mem_toDigits (b := 10) (by decide) (by decide) h
  simp [hc] at this

end OsmVerif.Model.Text
