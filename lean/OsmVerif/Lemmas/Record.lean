import OsmVerif.Model.Schema
/-! A flat record codec over any "view" of struct fields (which fields take part, under which name, when a value
is left out): writing then reading a record gives it back; reading does not depend on the order of the
pairs and ignores pairs under unknown names. Instantiated for the JSON keys of every codec struct. -/
namespace OsmVerif.Model.Record
open OsmVerif.Gen.Schema OsmVerif.Model.Schema

structure View where
  name : String
  use : Bool
  drop : String → Bool

def enc (vw : Field → View) (fs : List Field) (r : Rec) : List (String × String) :=
  fs.filterMap fun f =>
    if (vw f).use then (if (vw f).drop (r.get f.name) then none else some ((vw f).name, r.get f.name)) else none

def dec (vw : Field → View) (zero : Field → String) (fs : List Field) (kvs : List (String × String)) : Rec :=
  fs.filterMap fun f =>
    if (vw f).use then some (f.name, ((kvs.find? (·.1 = (vw f).name)).map (·.2)).getD (zero f)) else none

def names (vw : Field → View) (fs : List Field) : List String := (fs.filter fun f => (vw f).use).map fun f => (vw f).name

theorem filterMap_congr_mem {α β} (l : List α) (f g : α → Option β) (h : ∀ x ∈ l, f x = g x) :
    l.filterMap f = l.filterMap g := by
  induction l with
  | nil => rfl
  | cons x xs ih =>
    simp only [List.filterMap_cons, h x (by simp)]
    rw [ih (fun y hy => h y (by simp [hy]))]

theorem inj_of_nodup_map {α β} (l : List α) (f : α → β) (h : (l.map f).Nodup) :
    ∀ a ∈ l, ∀ b ∈ l, f a = f b → a = b := by
  induction l with
  | nil => intro a ha; cases ha
  | cons x xs ih =>
    simp only [List.map_cons, List.nodup_cons] at h
    intro a ha b hb e
    rcases List.mem_cons.mp ha with ha' | ha' <;> rcases List.mem_cons.mp hb with hb' | hb'
    · rw [ha', hb']
    · subst ha'; exact absurd (List.mem_map.mpr ⟨b, hb', e.symm⟩) h.1
    · subst hb'; exact absurd (List.mem_map.mpr ⟨a, ha', e⟩) h.1
    · exact ih h.2 a ha' b hb' e

/-- looking a used field's name up in what `enc` wrote -/
theorem find_enc (vw : Field → View) (fs : List Field) (r : Rec) (f : Field) (hnd : (names vw fs).Nodup) (hf : f ∈ fs)
    (hu : (vw f).use = true) :
    (enc vw fs r).find? (·.1 = (vw f).name) =
      if (vw f).drop (r.get f.name) then none else some ((vw f).name, r.get f.name) := by
  have hinj := inj_of_nodup_map (fs.filter fun g => (vw g).use) (fun g => (vw g).name) hnd
  have hfm : f ∈ fs.filter fun g => (vw g).use := List.mem_filter.mpr ⟨hf, hu⟩
  by_cases ho : (vw f).drop (r.get f.name) = true
  · simp only [ho, if_true]
    rw [List.find?_eq_none]
    intro x hx
    obtain ⟨g, hg, hgx⟩ := List.mem_filterMap.mp hx
    by_cases gu : (vw g).use = true
    · simp only [gu, if_true] at hgx
      split at hgx
      · cases hgx
      · rename_i hgo
        cases hgx
        simp only [decide_eq_true_eq]
        intro e
        have : g = f := hinj g (List.mem_filter.mpr ⟨hg, gu⟩) f hfm e
        subst this
        exact hgo ho
    · simp [gu] at hgx
  · simp only [ho, if_false]
    -- f's own pair is in the list, and any earlier pair with the same name is f's
    unfold enc
    induction fs with
    | nil => cases hf
    | cons g rest ih =>
      simp only [List.filterMap_cons]
      by_cases hgf : g = f
      · subst hgf
        simp [hu, ho]
      · have hfr : f ∈ rest := by
          rcases List.mem_cons.mp hf with h | h
          · exact absurd h.symm hgf
          · exact h
        have hnd' : (names vw rest).Nodup := by
          unfold names at hnd ⊢
          by_cases gu : (vw g).use = true
          · simp only [List.filter_cons, gu, if_true, List.map_cons, List.nodup_cons] at hnd; exact hnd.2
          · simp only [List.filter_cons, gu] at hnd; exact hnd
        have hinj' := inj_of_nodup_map (rest.filter fun g => (vw g).use) (fun g => (vw g).name) hnd'
        have hfm' : f ∈ rest.filter fun g => (vw g).use := List.mem_filter.mpr ⟨hfr, hu⟩
        have hrec := ih hnd' hfr hinj' hfm'
        by_cases gu : (vw g).use = true
        · by_cases go : (vw g).drop (r.get g.name) = true
          · simpa [gu, go] using hrec
          · have hne : ¬ (vw g).name = (vw f).name := by
              intro e
              exact hgf (hinj g (List.mem_filter.mpr ⟨by simp, gu⟩) f hfm e)
            simpa [gu, go, List.find?_cons, hne] using hrec
        · simpa [gu] using hrec

/-- **write then read**: every used field comes back with its value — the left-out ones as their zero value,
    which is what they held -/
theorem roundtrip (vw : Field → View) (zero : Field → String) (fs : List Field) (r : Rec) (hnd : (names vw fs).Nodup)
    (hz : ∀ f ∈ fs, ∀ t, (vw f).drop t = true → t = zero f) :
    dec vw zero fs (enc vw fs r) = fs.filterMap fun f => if (vw f).use then some (f.name, r.get f.name) else none := by
  unfold dec
  apply filterMap_congr_mem
  intro f hf
  by_cases hu : (vw f).use = true
  · simp only [hu, if_true, Option.some.injEq, Prod.mk.injEq, true_and]
    rw [find_enc vw fs r f hnd hf hu]
    by_cases ho : (vw f).drop (r.get f.name) = true
    · simp [ho, (hz f hf _ ho).symm]
    · simp [ho]
  · simp [hu]

theorem find_perm {l1 l2 : List (String × String)} (hp : l1.Perm l2) (hn : (l1.map (·.1)).Nodup) (k : String) :
    l1.find? (·.1 = k) = l2.find? (·.1 = k) := by
  induction hp with
  | nil => rfl
  | cons x _ ih =>
    simp only [List.map_cons, List.nodup_cons] at hn
    simp only [List.find?_cons]
    split
    · rfl
    · exact ih hn.2
  | swap x y l =>
    simp only [List.map_cons, List.nodup_cons, List.mem_cons, not_or] at hn
    simp only [List.find?_cons]
    by_cases hx : x.1 = k <;> by_cases hy : y.1 = k
    · exact absurd (hy.trans hx.symm) (fun e => hn.1.1 e)
    · simp [hx, hy]
    · simp [hx, hy]
    · simp [hx, hy]
  | trans h1 _ ih1 ih2 =>
    have hn2 := (h1.map (·.1)).nodup_iff.mp hn
    exact (ih1 hn).trans (ih2 hn2)

/-- reading does not depend on the order of the pairs (names distinct) -/
theorem dec_perm (vw : Field → View) (zero : Field → String) (fs : List Field) (a1 a2 : List (String × String))
    (hp : a1.Perm a2) (hn : (a1.map (·.1)).Nodup) : dec vw zero fs a1 = dec vw zero fs a2 := by
  unfold dec
  congr 1
  funext f
  simp only [find_perm hp hn]

/-- a pair under a name no used field carries is ignored -/
theorem dec_ignores_unknown (vw : Field → View) (zero : Field → String) (fs : List Field) (kvs : List (String × String))
    (k v : String) (hk : k ∉ names vw fs) : dec vw zero fs ((k, v) :: kvs) = dec vw zero fs kvs := by
  unfold dec
  apply filterMap_congr_mem
  intro f hf
  by_cases hu : (vw f).use = true
  · have hne : ¬ k = (vw f).name := by
      intro e
      apply hk
      unfold names
      exact List.mem_map.mpr ⟨f, List.mem_filter.mpr ⟨hf, hu⟩, e.symm⟩
    simp [hu, List.find?_cons, hne]
  · simp [hu]

end OsmVerif.Model.Record
