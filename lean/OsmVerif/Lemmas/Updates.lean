import OsmVerif.Model.Updates
/-! Helper lemmas for the update-application model. -/
namespace OsmVerif.Model.Updates

/-- unchecked application of a list of updates, in list order -/
def applyAll (isRel : Bool) (cs : List Child) (A : List Update) : List Child :=
  A.foldl (fun cs u => cs.modify u.index (fun c => c.apply isRel u)) cs

@[simp] theorem applyAll_nil (isRel cs) : applyAll isRel cs [] = cs := rfl
@[simp] theorem applyAll_cons (isRel cs u A) :
    applyAll isRel cs (u :: A) = applyAll isRel (cs.modify u.index (fun c => c.apply isRel u)) A := rfl

theorem applyAll_append (isRel cs A B) :
    applyAll isRel cs (A ++ B) = applyAll isRel (applyAll isRel cs A) B := by
  simp [applyAll, List.foldl_append]

@[simp] theorem applyAll_length (isRel : Bool) (cs : List Child) (A : List Update) :
    (applyAll isRel cs A).length = cs.length := by
  induction A generalizing cs with
  | nil => rfl
  | cons u A ih => simp [ih]

/-- per-index view: child `i` only sees the updates addressed to `i`, in list order -/
theorem applyAll_getElem? (isRel : Bool) (cs : List Child) (A : List Update) (i : Nat) :
    (applyAll isRel cs A)[i]? =
      (cs[i]?).map (fun c => (A.filter (fun u => u.index = i)).foldl (Child.apply isRel) c) := by
  induction A generalizing cs with
  | nil => simp
  | cons u A ih =>
    simp only [applyAll_cons, ih, List.filter_cons]
    by_cases h : u.index = i
    · subst h
      simp only [decide_true, if_true, List.foldl_cons, List.getElem?_modify_eq]
      cases cs[u.index]? <;> simp
    · simp only [h, decide_false, Bool.false_eq_true, if_false]
      rw [List.getElem?_modify_ne _ _ h]

theorem apply_key (isRel : Bool) (c : Child) (u : Update) : (c.apply isRel u).key = c.key := rfl

theorem foldl_apply_key (isRel : Bool) (c : Child) (A : List Update) :
    (A.foldl (Child.apply isRel) c).key = c.key := by
  induction A generalizing c with
  | nil => rfl
  | cons u A ih => simp [ih, apply_key]

/-- the loop, when every applicable update is in range -/
theorem applyLoop_ok (isRel : Bool) (t : Int) (us : List Update) (cs : List Child) (pend : List Update)
    (h : ∀ u ∈ us, ¬ u.ts > t → u.index < cs.length) :
    applyLoop isRel t us cs pend =
      (applyAll isRel cs (us.filter (fun u => !(u.ts > t))), pend.reverse ++ us.filter (fun u => u.ts > t), none) := by
  induction us generalizing cs pend with
  | nil => simp [applyLoop]
  | cons u rest ih =>
    simp only [applyLoop]
    by_cases hu : u.ts > t
    · simp only [hu, if_true, List.filter_cons, decide_true, Bool.not_true, Bool.false_eq_true, if_false]
      rw [ih cs (u :: pend) (fun v hv => h v (by simp [hv]))]
      simp
    · have hin := h u (by simp) hu
      have hnot : ¬ u.index ≥ cs.length := by omega
      simp only [hu, if_false, applyUpdate, hnot, List.filter_cons, decide_false, Bool.not_false, if_true,
        Bool.false_eq_true, applyAll_cons]
      rw [ih _ pend (fun v hv hv2 => by simpa using h v (by simp [hv]) hv2)]

/-- the loop, at the first applicable update that is out of range -/
theorem applyLoop_err (isRel : Bool) (t : Int) (pre : List Update) (bad : Update) (post : List Update)
    (cs : List Child) (pend : List Update)
    (hpre : ∀ u ∈ pre, ¬ u.ts > t → u.index < cs.length)
    (hbad : ¬ bad.ts > t) (hidx : bad.index ≥ cs.length) :
    applyLoop isRel t (pre ++ bad :: post) cs pend =
      (applyAll isRel cs (pre.filter (fun u => !(u.ts > t))), [], some bad.index) := by
  induction pre generalizing cs pend with
  | nil =>
    have : bad.index ≥ cs.length := hidx
    simp [applyLoop, hbad, applyUpdate, this]
  | cons u rest ih =>
    simp only [List.cons_append, applyLoop]
    by_cases hu : u.ts > t
    · simp only [hu, if_true, List.filter_cons, decide_true, Bool.not_true, Bool.false_eq_true, if_false]
      exact ih cs (u :: pend) (fun v hv => hpre v (by simp [hv])) hidx
    · have hin := hpre u (by simp) hu
      have hnot : ¬ u.index ≥ cs.length := by omega
      simp only [hu, if_false, applyUpdate, hnot, List.filter_cons, decide_false, Bool.not_false, if_true,
        Bool.false_eq_true, applyAll_cons]
      exact ih _ pend (fun v hv hv2 => by simpa using hpre v (by simp [hv]) hv2) (by simpa using hidx)

/-- a time-sorted list splits cleanly at t1 ≤ t2 -/
theorem sorted_filter_split (l : List Update) (t1 t2 : Int) (h12 : t1 ≤ t2)
    (hs : l.Pairwise (fun a b => a.ts ≤ b.ts)) :
    l.filter (fun u => !(u.ts > t1)) ++ (l.filter (fun u => u.ts > t1)).filter (fun u => !(u.ts > t2))
      = l.filter (fun u => !(u.ts > t2)) := by
  induction l with
  | nil => rfl
  | cons x xs ih =>
    have hx := List.pairwise_cons.mp hs
    by_cases h1 : x.ts > t1
    · -- everything after x is also later than t1
      have hall : ∀ y ∈ xs, y.ts > t1 := fun y hy => by have := hx.1 y hy; omega
      have e1 : xs.filter (fun u => !(u.ts > t1)) = [] := by
        rw [List.filter_eq_nil_iff]; intro y hy; simp [hall y hy]
      have e2 : xs.filter (fun u => u.ts > t1) = xs := by
        rw [List.filter_eq_self]; intro y hy; simp [hall y hy]
      simp only [List.filter_cons, h1, decide_true, Bool.not_true, Bool.false_eq_true, if_false, if_true, e1, e2,
        List.nil_append]
    · have h2 : ¬ x.ts > t2 := by omega
      simp only [List.filter_cons, h1, h2, decide_false, Bool.not_false, if_true, Bool.false_eq_true, if_false,
        List.cons_append, ih hx.2]

theorem filter_index_comm (l : List Update) (p : Update → Bool) (i : Nat) :
    (l.filter p).filter (fun u => u.index = i) = (l.filter (fun u => u.index = i)).filter p := by
  rw [List.filter_filter, List.filter_filter]
  congr 1; funext u; exact Bool.and_comm _ _

end OsmVerif.Model.Updates
