import OsmVerif.Model.Annotate
/-! Lemmas about the annotation model in the commit-time regime. -/
namespace OsmVerif.Model.Annotate

def commitOf (c : Child) : Int := c.committed.getD 0

/-- every version carries a commit time at or after `osm.CommitInfoStart` -/
def CommitRegime (cl : List Child) : Prop :=
  ∀ c ∈ cl, ∃ t, c.committed = some t ∧ commitInfoStart ≤ t

/-- versions are listed in commit order -/
def CommitSorted (cl : List Child) : Prop := cl.Pairwise (fun a b => commitOf a ≤ commitOf b)

/-- the last version committed at or before `t` -/
def lastAt (cl : List Child) (t : Int) : Option Child := (cl.filter (fun c => commitOf c ≤ t)).getLast?

/-- the version that is current at `t`: the last one committed at or before `t`, if it is visible -/
def currentAt (cl : List Child) (t : Int) : Option Child :=
  match lastAt cl t with
  | some c => if c.visible then some c else none
  | none => none

theorem beforeStart_commit {c : Child} {t : Int} (h : c.committed = some t) (ht : commitInfoStart ≤ t) :
    beforeStart c.committed = false := by
  simp [beforeStart, h]; omega

theorem lastAt_cons (c : Child) (rest : List Child) (t : Int) (h : commitOf c ≤ t) :
    lastAt (c :: rest) t = match lastAt rest t with | some d => some d | none => some c := by
  unfold lastAt
  simp only [List.filter_cons, h, decide_true, if_true]
  cases hf : rest.filter (fun c => decide (commitOf c ≤ t)) with
  | nil => simp
  | cons x xs =>
    rw [List.getLast?_cons_cons]
    cases hl : (x :: xs).getLast? with
    | none => simp [List.getLast?_eq_none_iff] at hl
    | some d => rfl

theorem lastAt_none_of_late (cl : List Child) (t : Int) (h : ∀ c ∈ cl, t < commitOf c) : lastAt cl t = none := by
  unfold lastAt
  have : cl.filter (fun c => decide (commitOf c ≤ t)) = [] := by
    rw [List.filter_eq_nil_iff]; intro c hc; have := h c hc; simp; omega
  rw [this]; rfl

/-- in the commit-time regime the loop of `FindVisible` just tracks the last version committed at or before `at` -/
theorem fvLoop_commit (cid atT start eps : Int) (cl : List Child) (hr : CommitRegime cl) (hs : CommitSorted cl) :
    ∀ diff nearest, fvLoop cid atT start eps cl diff nearest =
      match lastAt cl atT with
      | some c => if c.visible then some c else none
      | none => nearest := by
  induction cl with
  | nil => intro diff nearest; simp [fvLoop, lastAt]
  | cons c rest ih =>
    intro diff nearest
    obtain ⟨t, hc, ht⟩ := hr c (by simp)
    have hb := beforeStart_commit hc ht
    have hsr := List.pairwise_cons.mp hs
    unfold fvLoop
    simp only [hb, Bool.false_eq_true, if_false]
    by_cases hlate : c.committed.getD 0 > atT
    · simp only [hlate, if_true]
      have : lastAt (c :: rest) atT = none := by
        apply lastAt_none_of_late
        intro d hd
        rcases List.mem_cons.mp hd with e | e
        · subst e; exact hlate
        · have := hsr.1 d e; unfold commitOf at this ⊢; omega
      rw [this]
    · simp only [hlate, if_false]
      rw [ih (fun d hd => hr d (by simp [hd])) hsr.2]
      rw [lastAt_cons c rest atT (by unfold commitOf; omega)]
      cases lastAt rest atT <;> rfl

theorem findVisible_commit (cl : List Child) (cid atT eps : Int) (hr : CommitRegime cl) (hs : CommitSorted cl) :
    findVisible cl cid atT eps = currentAt cl atT := by
  unfold findVisible currentAt
  rw [fvLoop_commit cid atT (atT - eps) eps cl hr hs]

theorem timeThreshold_commit {c : Child} {t : Int} (h : c.committed = some t) (ht : commitInfoStart ≤ t) (esp : Int) :
    timeThreshold c esp = t := by
  have hb := beforeStart_commit h ht
  rw [h] at hb
  simp [timeThreshold, h, hb]

/-- `VersionBefore` in the commit regime: the last version committed strictly before `e` -/
theorem versionBefore_commit (cl : List Child) (e : Int) (hr : CommitRegime cl) (hs : CommitSorted cl) :
    versionBefore cl e = (cl.filter (fun c => commitOf c < e)).getLast? := by
  unfold versionBefore
  suffices h : ∀ latest, versionBefore.go e cl latest =
      match (cl.filter (fun c => commitOf c < e)).getLast? with
      | some d => some d
      | none => latest by
    rw [h none]; cases (cl.filter (fun c => commitOf c < e)).getLast? <;> rfl
  induction cl with
  | nil => intro latest; simp [versionBefore.go]
  | cons c rest ih =>
    intro latest
    obtain ⟨t, hc, ht⟩ := hr c (by simp)
    have hsr := List.pairwise_cons.mp hs
    have htt := timeThreshold_commit hc ht 0
    have hco : commitOf c = t := by simp [commitOf, hc]
    unfold versionBefore.go
    rw [htt]
    by_cases hlt : t < e
    · simp only [hlt, not_true_eq_false, if_false]
      rw [ih (fun d hd => hr d (by simp [hd])) hsr.2]
      simp only [List.filter_cons, hco, hlt, decide_true, if_true]
      cases hf : rest.filter (fun c => decide (commitOf c < e)) with
      | nil => simp
      | cons x xs =>
        rw [List.getLast?_cons_cons]
        cases hl : (x :: xs).getLast? with
        | none => simp [List.getLast?_eq_none_iff] at hl
        | some d => rfl
    · simp only [hlt, not_false_eq_true, if_true]
      have : (c :: rest).filter (fun c => decide (commitOf c < e)) = [] := by
        rw [List.filter_eq_nil_iff]
        intro d hd
        rcases List.mem_cons.mp hd with e1 | e1
        · subst e1; simp [hco]; omega
        · have := hsr.1 d e1; simp; omega
      rw [this]; rfl

end OsmVerif.Model.Annotate

namespace OsmVerif.Model.Annotate

/-- `VersionIndex` is the position in the version-sorted child list (datasource.go) -/
def WellIndexed (cl : List Child) : Prop := ∀ (k : Nat) (c : Child), cl[k]? = some c → c.vindex = k

/-- number of versions committed at or before `t` -/
def countAt (cl : List Child) (t : Int) : Nat := (cl.filter (fun c => commitOf c ≤ t)).length

/-- number of versions committed strictly before `t` -/
def countBefore (cl : List Child) (t : Int) : Nat := (cl.filter (fun c => commitOf c < t)).length

theorem sorted_filter_le_eq_take (cl : List Child) (t : Int) (hs : CommitSorted cl) :
    cl.filter (fun c => commitOf c ≤ t) = cl.take (countAt cl t) := by
  induction cl with
  | nil => rfl
  | cons c rest ih =>
    have hsr := List.pairwise_cons.mp hs
    unfold countAt
    by_cases h : commitOf c ≤ t
    · have e := ih hsr.2
      unfold countAt at e
      simp only [List.filter_cons, h, decide_true, if_true, List.length_cons, List.take_succ_cons]
      exact congrArg (List.cons c) e
    · have : rest.filter (fun c => decide (commitOf c ≤ t)) = [] := by
        rw [List.filter_eq_nil_iff]; intro d hd; have := hsr.1 d hd; simp; omega
      simp [List.filter_cons, h, this]

theorem sorted_filter_lt_eq_take (cl : List Child) (t : Int) (hs : CommitSorted cl) :
    cl.filter (fun c => commitOf c < t) = cl.take (countBefore cl t) := by
  induction cl with
  | nil => rfl
  | cons c rest ih =>
    have hsr := List.pairwise_cons.mp hs
    unfold countBefore
    by_cases h : commitOf c < t
    · have e := ih hsr.2
      unfold countBefore at e
      simp only [List.filter_cons, h, decide_true, if_true, List.length_cons, List.take_succ_cons]
      exact congrArg (List.cons c) e
    · have : rest.filter (fun c => decide (commitOf c < t)) = [] := by
        rw [List.filter_eq_nil_iff]; intro d hd; have := hsr.1 d hd; simp; omega
      simp [List.filter_cons, h, this]

theorem countAt_le_length (cl : List Child) (t : Int) : countAt cl t ≤ cl.length := List.length_filter_le _ _
theorem countBefore_le_length (cl : List Child) (t : Int) : countBefore cl t ≤ cl.length := List.length_filter_le _ _

/-- prefix property: position `k` is committed at or before `t` exactly when `k < countAt t` -/
theorem commit_le_iff_lt_count (cl : List Child) (t : Int) (hs : CommitSorted cl) (k : Nat) (c : Child)
    (hk : cl[k]? = some c) : commitOf c ≤ t ↔ k < countAt cl t := by
  have hklen : k < cl.length := by
    rcases Nat.lt_or_ge k cl.length with h | h
    · exact h
    · rw [List.getElem?_eq_none h] at hk; cases hk
  have hf := sorted_filter_le_eq_take cl t hs
  constructor
  · intro hle
    -- c is in the filter = take m, at the same position
    apply Nat.lt_of_not_le
    intro hge
    -- every element of take m is ≤ t and elements beyond are > t: count filter of the whole
    have hmem : c ∈ cl.filter (fun c => decide (commitOf c ≤ t)) :=
      List.mem_filter.mpr ⟨List.mem_of_getElem? hk, by simpa using hle⟩
    rw [hf] at hmem
    obtain ⟨i, hi⟩ := List.mem_iff_getElem?.mp hmem
    have hi2 : i < countAt cl t := by
      rcases Nat.lt_or_ge i (countAt cl t) with h | h
      · exact h
      · rw [List.getElem?_take_eq_none h] at hi; cases hi
    rw [List.getElem?_take_of_lt hi2] at hi
    -- positions i < m ≤ k hold c twice; sortedness gives commit(cl[i..k]) all equal, and position m is > t. Contradiction
    -- through position m := countAt (≤ k): cl[m] has commit ≤ commit cl[k] ≤ t, so it passes the filter, but the filter has only m elements = take m
    have hm : countAt cl t < cl.length := by omega
    have hcm : commitOf cl[countAt cl t] ≤ t := by
      have hkk : cl[k] = c := by rw [List.getElem?_eq_getElem hklen] at hk; exact Option.some.inj hk
      rcases Nat.eq_or_lt_of_le hge with e | l
      · have : cl[countAt cl t] = c := by rw [← hkk]; congr 1
        rw [this]; exact hle
      · have := (List.pairwise_iff_getElem.mp hs) (countAt cl t) k hm hklen l
        rw [hkk] at this; omega
    -- so take (m+1) ⊆ filter, whose length is m
    have hsub : (cl.take (countAt cl t + 1)).length ≤ (cl.filter (fun c => decide (commitOf c ≤ t))).length := by
      apply List.Sublist.length_le
      -- take (m+1) = take m ++ [cl[m]] and all of them satisfy the predicate
      have hall : ∀ x ∈ cl.take (countAt cl t + 1), decide (commitOf x ≤ t) = true := by
        intro x hx
        obtain ⟨i', hi'⟩ := List.mem_iff_getElem?.mp hx
        have hi'2 : i' < countAt cl t + 1 := by
          rcases Nat.lt_or_ge i' (countAt cl t + 1) with h | h
          · exact h
          · rw [List.getElem?_take_eq_none h] at hi'; cases hi'
        rw [List.getElem?_take_of_lt hi'2] at hi'
        have hi'len : i' < cl.length := by omega
        have hx' : cl[i'] = x := by rw [List.getElem?_eq_getElem hi'len] at hi'; exact Option.some.inj hi'
        rcases Nat.eq_or_lt_of_le (Nat.le_of_lt_succ hi'2) with e | l
        · have : cl[i'] = cl[countAt cl t] := by congr 1
          rw [← hx', this]; simpa using hcm
        · have := (List.pairwise_iff_getElem.mp hs) i' (countAt cl t) hi'len hm l
          rw [hx'] at this; simp; omega
      have : (cl.take (countAt cl t + 1)).filter (fun c => decide (commitOf c ≤ t)) = cl.take (countAt cl t + 1) :=
        List.filter_eq_self.mpr hall
      rw [← this]
      exact List.Sublist.filter _ (List.take_sublist _ _)
    simp only [List.length_take] at hsub
    unfold countAt at hsub hm
    omega
  · intro hlt
    have : c ∈ cl.take (countAt cl t) := by
      apply List.mem_iff_getElem?.mpr
      exact ⟨k, by rw [List.getElem?_take_of_lt hlt]; exact hk⟩
    rw [← hf] at this
    simpa using (List.mem_filter.mp this).2

theorem lastAt_eq_getElem (cl : List Child) (t : Int) (hs : CommitSorted cl) :
    lastAt cl t = if countAt cl t = 0 then none else cl[countAt cl t - 1]? := by
  unfold lastAt
  rw [sorted_filter_le_eq_take cl t hs]
  have hle := countAt_le_length cl t
  by_cases h0 : countAt cl t = 0
  · simp [h0]
  · simp only [h0, if_false]
    rw [List.getLast?_eq_getElem?]
    simp only [List.length_take, Nat.min_eq_left hle]
    rw [List.getElem?_take_of_lt (by omega)]

end OsmVerif.Model.Annotate

namespace OsmVerif.Model.Annotate

/-- versions `start ≤ k < stop`, ascending -/
def versionRange (start stop : Nat) : List Nat := (List.range stop).filter (fun k => decide (start ≤ k))

theorem versionRange_succ (start stop : Nat) :
    versionRange start (stop + 1) = versionRange start stop ++ (if start ≤ stop then [stop] else []) := by
  unfold versionRange
  rw [List.range_succ, List.filter_append]
  by_cases h : start ≤ stop <;> simp [h]

theorem mem_versionRange (start stop k : Nat) : k ∈ versionRange start stop ↔ start ≤ k ∧ k < stop := by
  unfold versionRange
  simp [List.mem_filter, List.mem_range]
  exact ⟨fun ⟨a, b⟩ => ⟨b, a⟩, fun ⟨a, b⟩ => ⟨b, a⟩⟩

def versionUpdates (cl : List Child) (idxs : List Nat) (k : Nat) : List Update :=
  match cl[k]? with
  | some c => idxs.map (fun i => c.update i)
  | none => []

/-- when no version in the range is invisible, the update loop emits, version by version, one update per location -/
theorem rangeUpdates_ok (o : Options) (pidx fid : Nat) (cl : List Child) (idxs : List Nat) :
    ∀ stop start,
      (∀ k c, start ≤ k → k < stop → cl[k]? = some c → c.visible = true) →
      rangeUpdates o pidx fid cl idxs start stop = .ok ((versionRange start stop).flatMap (versionUpdates cl idxs)) := by
  intro stop
  induction stop with
  | zero => intro start _; simp [rangeUpdates, versionRange]
  | succ stop ih =>
    intro start hv
    unfold rangeUpdates
    by_cases hgt : start > stop
    · have : versionRange start (stop + 1) = [] := by
        apply List.eq_nil_iff_forall_not_mem.mpr
        intro k hk; have := (mem_versionRange _ _ _).mp hk; omega
      simp [hgt, this]
    · simp only [hgt, if_false]
      rw [ih start (fun k c h1 h2 h3 => hv k c h1 (by omega) h3)]
      have hle : start ≤ stop := by omega
      rw [versionRange_succ, List.flatMap_append]
      simp only [hle, if_true, bind, Except.bind, List.flatMap_cons, List.flatMap_nil, List.append_nil]
      cases hc : cl[stop]? with
      | none => simp [versionUpdates, hc]
      | some c =>
        have := hv stop c hle (by omega) hc
        simp [versionUpdates, hc, this]

theorem update_fields (c : Child) (j : Nat) (t : Int) (hc : c.committed = some t) (ht : commitInfoStart ≤ t) :
    (c.update j).index = j ∧ (c.update j).version = c.version ∧ (c.update j).changeset = c.changeset ∧
    (c.update j).lat = c.lat ∧ (c.update j).lon = c.lon ∧ (c.update j).ts = t := by
  have hb : beforeStart (some t) = false := by simp [beforeStart]; omega
  simp [Child.update, updateTimestamp, hc, hb]

end OsmVerif.Model.Annotate
