import OsmVerif.Model.Geo
/-! Lemmas about the `mputil.Join` model: every input segment ends up in exactly one output (possibly
reversed), and gluing at shared end points preserves every edge. -/
namespace OsmVerif.Model.Geo

/-- consecutive point pairs of a line -/
def edges : List P → List (P × P)
  | [] => []
  | [_] => []
  | a :: b :: rest => (a, b) :: edges (b :: rest)

/-- the segment as it entered `Join`, direction undone: identity of a segment up to reversal and trimming -/
def norm (s : Seg) : Seg :=
  let f := if s.reversed then s.full.reverse else s.full
  { idx := s.idx, orientation := s.orientation, reversed := false, line := f, full := f }

theorem norm_rev (s : Seg) : norm s.rev = norm s := by
  unfold norm Seg.rev
  cases s.reversed <;> simp

theorem norm_trim (s : Seg) (l : List P) : norm { s with line := l } = norm s := rfl

theorem edges_append_singleton (l : List P) (x : P) (h : l ≠ []) :
    edges (l ++ [x]) = edges l ++ [(l.getLast h, x)] := by
  induction l with
  | nil => exact absurd rfl h
  | cons a t ih =>
    cases t with
    | nil => simp [edges]
    | cons b t' =>
      have := ih (by simp)
      simp only [List.cons_append, edges] at this ⊢
      rw [this]
      simp [List.getLast_cons]

theorem edges_cons_cons (a b : P) (t : List P) : edges (a :: b :: t) = (a, b) :: edges (b :: t) := rfl

theorem edges_append (a b : List P) (ha : a ≠ []) (hb : b ≠ []) :
    edges (a ++ b) = edges a ++ (a.getLast ha, b.head hb) :: edges b := by
  induction a with
  | nil => exact absurd rfl ha
  | cons x t ih =>
    cases t with
    | nil =>
      cases b with
      | nil => exact absurd rfl hb
      | cons y u => simp [edges]
    | cons z t' =>
      have := ih (by simp)
      simp only [List.cons_append, edges_cons_cons] at this ⊢
      rw [this]
      simp [List.getLast_cons]

/-- a segment still waiting in the list: untrimmed and at least two points -/
def Fresh (s : Seg) : Prop := s.line = s.full ∧ 2 ≤ s.line.length

/-- the growing group: non-empty pieces whose concatenation carries exactly the edges of the members' full lines -/
structure Chain (cur : List Seg) : Prop where
  nonempty : cur ≠ []
  pieces : ∀ s ∈ cur, s.line ≠ []
  fulls : ∀ s ∈ cur, 2 ≤ s.full.length
  edges_eq : (edges (lineOf cur)).Perm (cur.flatMap (fun s => edges s.full))

theorem lineOf_ne_nil {cur : List Seg} (h : Chain cur) : lineOf cur ≠ [] := by
  obtain ⟨s, rest, rfl⟩ := List.exists_cons_of_ne_nil h.nonempty
  have := h.pieces s (by simp)
  simp [lineOf, this]

theorem msLast_eq {cur : List Seg} (h : Chain cur) : msLast cur = (lineOf cur).getLast? := by
  unfold msLast lineOf
  have hne := h.nonempty
  obtain ⟨init, l, rfl⟩ : ∃ init l, cur = init ++ [l] := ⟨cur.dropLast, cur.getLast hne, (List.dropLast_concat_getLast hne).symm⟩
  have hl := h.pieces l (by simp)
  simp only [List.getLast?_append, List.getLast?_singleton, Option.some_or, List.map_append, List.map_cons, List.map_nil,
    List.flatten_append, List.flatten_cons, List.flatten_nil, List.append_nil, Option.bind_some]
  cases hll : l.line.getLast? with
  | none => simp [List.getLast?_eq_none_iff] at hll; exact absurd hll hl
  | some x => simp [hll]

theorem msFirst_eq {cur : List Seg} (h : Chain cur) : msFirst cur = (lineOf cur).head? := by
  unfold msFirst lineOf
  obtain ⟨s, rest, rfl⟩ := List.exists_cons_of_ne_nil h.nonempty
  have hs := h.pieces s (by simp)
  obtain ⟨x, t, hx⟩ := List.exists_cons_of_ne_nil hs
  simp [hx]

theorem seed_chain (s : Seg) (h : Fresh s) : Chain [s] := by
  refine ⟨by simp, ?_, ?_, ?_⟩
  · intro t ht; simp at ht; subst ht; intro e; have := h.2; rw [e] at this; simp at this
  · intro t ht; simp at ht; subst ht; rw [← h.1]; exact h.2
  · simp [lineOf, h.1]

theorem two_le_split (l : List P) (h : 2 ≤ l.length) : ∃ a b t, l = a :: b :: t := by
  match l, h with
  | a :: b :: t, _ => exact ⟨a, b, t, rfl⟩

theorem edges_reverse_length (l : List P) : (edges l.reverse).length = (edges l).length := by
  have : ∀ l : List P, (edges l).length = l.length - 1 := by
    intro l
    induction l with
    | nil => rfl
    | cons a t ih =>
      cases t with
      | nil => rfl
      | cons b t' => simp only [edges_cons_cons, List.length_cons, ih]; simp
  rw [this, this]; simp

/-- appending a fresh segment whose first point is the group's last point -/
theorem chain_append (cur : List Seg) (s : Seg) (hc : Chain cur) (hs : Fresh s)
    (hm : msLast cur = s.line.head?) : Chain (cur ++ [{ s with line := s.line.tail }]) := by
  obtain ⟨a, b, t, hl⟩ := two_le_split s.line hs.2
  have hcl := lineOf_ne_nil hc
  refine ⟨by simp, ?_, ?_, ?_⟩
  · intro x hx
    rcases List.mem_append.mp hx with h | h
    · exact hc.pieces x h
    · simp at h; subst h; simp [hl]
  · intro x hx
    rcases List.mem_append.mp hx with h | h
    · exact hc.fulls x h
    · simp at h; subst h; simp only; rw [← hs.1]; exact hs.2
  · have hline : lineOf (cur ++ [{ s with line := s.line.tail }]) = lineOf cur ++ (b :: t) := by
      simp [lineOf, hl]
    rw [hline, edges_append _ _ hcl (by simp)]
    rw [msLast_eq hc, hl] at hm
    have hlast : (lineOf cur).getLast hcl = a := by
      have := List.getLast?_eq_some_getLast hcl
      rw [hm] at this; simpa using this.symm
    simp only [List.flatMap_append, List.flatMap_cons, List.flatMap_nil, List.append_nil, List.head_cons, hlast]
    have : edges s.full = (a, b) :: edges (b :: t) := by rw [← hs.1, hl]; rfl
    rw [this]
    exact hc.edges_eq.append_right _

/-- prepending a fresh segment whose last point is the group's first point -/
theorem chain_prepend (cur : List Seg) (s : Seg) (hc : Chain cur) (hs : Fresh s)
    (hm : msFirst cur = s.line.getLast?) : Chain ({ s with line := s.line.dropLast } :: cur) := by
  have hne : s.line ≠ [] := by intro e; have := hs.2; rw [e] at this; simp at this
  have hcl := lineOf_ne_nil hc
  have hd : s.line.dropLast ≠ [] := by
    obtain ⟨a, b, t, hl⟩ := two_le_split s.line hs.2
    rw [hl]; simp [List.dropLast]
  refine ⟨by simp, ?_, ?_, ?_⟩
  · intro x hx
    rcases List.mem_cons.mp hx with h | h
    · subst h; exact hd
    · exact hc.pieces x h
  · intro x hx
    rcases List.mem_cons.mp hx with h | h
    · subst h; simp only; rw [← hs.1]; exact hs.2
    · exact hc.fulls x h
  · have hline : lineOf ({ s with line := s.line.dropLast } :: cur) = s.line.dropLast ++ lineOf cur := by
      simp [lineOf]
    rw [hline, edges_append _ _ hd hcl]
    rw [msFirst_eq hc] at hm
    have hhead : (lineOf cur).head hcl = s.line.getLast hne := by
      have h1 := List.head?_eq_some_head hcl
      have h2 := List.getLast?_eq_some_getLast hne
      rw [hm, h2] at h1; simpa using h1.symm
    have hfull : edges s.full = edges s.line.dropLast ++ [(s.line.dropLast.getLast hd, s.line.getLast hne)] := by
      rw [← hs.1]
      conv => lhs; rw [← List.dropLast_concat_getLast hne]
      exact edges_append_singleton _ _ hd
    simp only [List.flatMap_cons, hfull, hhead]
    have : edges s.line.dropLast ++ (s.line.dropLast.getLast hd, s.line.getLast hne) :: edges (lineOf cur)
        = (edges s.line.dropLast ++ [(s.line.dropLast.getLast hd, s.line.getLast hne)]) ++ edges (lineOf cur) := by simp
    rw [this]
    exact hc.edges_eq.append_left _

theorem fresh_rev (s : Seg) (h : Fresh s) : Fresh s.rev := by
  unfold Fresh Seg.rev at *
  have := h.2
  rw [h.1] at this
  simp [h.1, this]

end OsmVerif.Model.Geo

namespace OsmVerif.Model.Geo

theorem head?_reverse (l : List P) : l.reverse.head? = l.getLast? := by simp
theorem getLast?_reverse (l : List P) : l.reverse.getLast? = l.head? := by simp

/-- one search pass: the matched segment is taken from the list, glued on, and the group stays a chain -/
theorem findMatch_spec (cur : List Seg) (hc : Chain cur) : ∀ segs i j cur',
    (∀ s ∈ segs, Fresh s) →
    findMatch cur segs i = some (j, cur') →
      ∃ k, j = i + k ∧ k < segs.length ∧
        ∃ s, segs[k]? = some s ∧ (cur'.map norm).Perm (norm s :: cur.map norm) ∧ Chain cur' := by
  intro segs
  induction segs with
  | nil => intro i j cur' _ h; simp [findMatch] at h
  | cons s rest ih =>
    intro i j cur' hf h
    have hs := hf s (by simp)
    unfold findMatch at h
    simp only at h
    split at h
    · rename_i hm
      cases h
      refine ⟨0, rfl, by simp, s, by simp, ?_, chain_append cur s hc hs hm.2⟩
      simp only [List.map_append, List.map_cons, List.map_nil, norm_trim]
      exact List.perm_append_comm.trans (by simp)
    · split at h
      · rename_i hm
        cases h
        have hm' : msLast cur = s.rev.line.head? := by rw [hm.2]; simp [Seg.rev]
        refine ⟨0, rfl, by simp, s, by simp, ?_, chain_append cur s.rev hc (fresh_rev s hs) hm'⟩
        simp only [List.map_append, List.map_cons, List.map_nil, norm_trim, norm_rev]
        exact List.perm_append_comm.trans (by simp)
      · split at h
        · rename_i hm
          cases h
          refine ⟨0, rfl, by simp, s, by simp, ?_, chain_prepend cur s hc hs hm.2⟩
          simp [norm_trim]
        · split at h
          · rename_i hm
            cases h
            have hm' : msFirst cur = s.rev.line.getLast? := by rw [hm.2]; simp [Seg.rev]
            refine ⟨0, rfl, by simp, s, by simp, ?_, chain_prepend cur s.rev hc (fresh_rev s hs) hm'⟩
            simp [norm_trim, norm_rev]
          · obtain ⟨k, hk, hlen, s', hs', hp, hch⟩ := ih (i + 1) j cur' (fun x hx => hf x (by simp [hx])) h
            exact ⟨k + 1, by omega, by simp; omega, s', by simpa using hs', hp, hch⟩

theorem perm_eraseIdx_cons {α} (l : List α) (k : Nat) (a : α) (h : l[k]? = some a) :
    l.Perm (a :: l.eraseIdx k) := by
  induction l generalizing k with
  | nil => simp at h
  | cons x xs ih =>
    cases k with
    | zero => simp at h; subst h; simp
    | succ k =>
      simp at h
      have := ih k h
      simp only [List.eraseIdx_cons_succ]
      exact (List.Perm.cons x this).trans (List.Perm.swap a x _)

theorem mem_eraseIdx_of_mem {α} {l : List α} {k : Nat} {x : α} (h : x ∈ l.eraseIdx k) : x ∈ l :=
  (List.eraseIdx_sublist l k).subset h

/-- growing a group: nothing is lost or duplicated, the group stays a chain, the rest stays fresh -/
theorem grow_spec : ∀ f cur segs cur' segs',
    Chain cur → (∀ s ∈ segs, Fresh s) →
    grow f cur segs = (cur', segs') →
      ((cur' ++ segs').map norm).Perm ((cur ++ segs).map norm) ∧ Chain cur' ∧ (∀ s ∈ segs', Fresh s) ∧
        cur.length ≤ cur'.length := by
  intro f
  induction f with
  | zero => intro cur segs cur' segs' hc hf h; simp [grow] at h; rw [← h.1, ← h.2]; exact ⟨List.Perm.refl _, hc, hf, Nat.le_refl _⟩
  | succ f ih =>
    intro cur segs cur' segs' hc hf h
    unfold grow at h
    split at h
    · cases h; exact ⟨List.Perm.refl _, hc, hf, Nat.le_refl _⟩
    · split at h
      · cases h; exact ⟨List.Perm.refl _, hc, hf, Nat.le_refl _⟩
      · rename_i i c1 hm
        obtain ⟨k, hk, _, s, hs, hp, hch⟩ := findMatch_spec cur hc segs 0 i c1 hf hm
        have hik : i = k := by omega
        subst hik
        have hf' : ∀ x ∈ segs.eraseIdx i, Fresh x := fun x hx => hf x (mem_eraseIdx_of_mem hx)
        obtain ⟨p1, p2, p3, p4⟩ := ih c1 (segs.eraseIdx i) cur' segs' hch hf' h
        refine ⟨p1.trans ?_, p2, p3, ?_⟩
        · have h2 := perm_eraseIdx_cons segs i s hs
          simp only [List.map_append]
          have h3 : (segs.map norm).Perm (norm s :: (segs.eraseIdx i).map norm) := by
            simpa using h2.map norm
          have e1 : (c1.map norm ++ (segs.eraseIdx i).map norm).Perm
              ((norm s :: cur.map norm) ++ (segs.eraseIdx i).map norm) := hp.append_right _
          have e2 : ((norm s :: cur.map norm) ++ (segs.eraseIdx i).map norm).Perm
              (cur.map norm ++ (norm s :: (segs.eraseIdx i).map norm)) := by
            simpa using (List.perm_middle (l₁ := cur.map norm) (a := norm s)
              (l₂ := (segs.eraseIdx i).map norm)).symm
          have e3 : (cur.map norm ++ (norm s :: (segs.eraseIdx i).map norm)).Perm
              (cur.map norm ++ segs.map norm) := h3.symm.append_left _
          exact e1.trans (e2.trans e3)
        · have hl : c1.length = cur.length + 1 := by simpa using hp.length_eq
          omega

theorem joinAux_spec : ∀ f segs acc,
    segs.length ≤ f → (∀ s ∈ segs, Fresh s) → (∀ ms ∈ acc, Chain ms) →
    (((joinAux f segs acc).flatten).map norm).Perm ((acc.flatten ++ segs).map norm) ∧
      ∀ ms ∈ joinAux f segs acc, Chain ms := by
  intro f
  induction f with
  | zero =>
    intro segs acc h _ hacc
    have : segs = [] := List.eq_nil_of_length_eq_zero (by omega)
    subst this; simp [joinAux]; exact hacc
  | succ f ih =>
    intro segs acc h hf hacc
    unfold joinAux
    split
    · rename_i hnone
      have : segs = [] := by simpa using hnone
      subst this; simp; exact hacc
    · rename_i s hs
      generalize hg : grow segs.length [s] segs.dropLast = g
      obtain ⟨cur, rest⟩ := g
      have hne : segs ≠ [] := by intro e; subst e; simp at hs
      have hsegs : segs = segs.dropLast ++ [s] := by
        have h1 := List.dropLast_concat_getLast hne
        have h2 : segs.getLast hne = s := by
          have := List.getLast?_eq_some_getLast hne
          rw [hs] at this; exact (Option.some.inj this).symm
        rw [h2] at h1; exact h1.symm
      have hsmem : s ∈ segs := by rw [hsegs]; simp
      have hfd : ∀ x ∈ segs.dropLast, Fresh x := fun x hx => hf x (List.dropLast_subset segs hx)
      obtain ⟨hp, hch, hfr, hlen1⟩ := grow_spec _ _ _ _ _ (seed_chain s (hf s hsmem)) hfd hg
      have hlen : rest.length ≤ f := by
        have h1 : (cur ++ rest).length = ([s] ++ segs.dropLast).length := by
          simpa using hp.length_eq
        have h2 : 1 ≤ cur.length := by simpa using hlen1
        simp at h1
        have h3 : 0 < segs.length := List.length_pos_iff.mpr hne
        omega
      simp only
      have hacc' : ∀ ms ∈ acc ++ [cur], Chain ms := by
        intro ms hms
        rcases List.mem_append.mp hms with h | h
        · exact hacc ms h
        · simp at h; subst h; exact hch
      obtain ⟨q1, q2⟩ := ih rest (acc ++ [cur]) hlen hfr hacc'
      refine ⟨q1.trans ?_, q2⟩
      simp only [List.flatten_append, List.flatten_cons, List.flatten_nil, List.append_nil,
        List.map_append, List.append_assoc]
      apply List.Perm.append_left
      have : (segs.map norm).Perm (([s] ++ segs.dropLast).map norm) := by
        conv => lhs; rw [hsegs]
        simpa using (List.perm_append_comm (l₁ := segs.dropLast.map norm) (l₂ := [norm s]))
      simpa using hp.trans this.symm

end OsmVerif.Model.Geo

namespace OsmVerif.Model.Geo

/-- one shoelace term relative to the offset `o` -/
def cr (o : P) (e : P × P) : Int := (e.1.1 - o.1) * (e.2.2 - o.2) - (e.2.1 - o.1) * (e.1.2 - o.2)

def isum : List Int → Int
  | [] => 0
  | x :: xs => x + isum xs

theorem isum_append (a b : List Int) : isum (a ++ b) = isum a + isum b := by
  induction a with
  | nil => simp [isum]
  | cons x xs ih => simp [isum, ih]; omega

theorem area2_go_eq (o : P) : ∀ l prev acc, area2.go o prev l acc = acc + isum ((edges (prev :: l)).map (cr o)) := by
  intro l
  induction l with
  | nil => intro prev acc; simp [area2.go, edges, isum]
  | cons p rest ih =>
    intro prev acc
    simp only [area2.go, edges_cons_cons, List.map_cons, isum]
    rw [ih]
    simp only [cr]
    omega

theorem cr_self (o : P) : cr o (o, o) = 0 := by simp [cr]

/-- the accumulated area is the sum of the shoelace terms over the ring's edges -/
theorem area2_eq (o : P) (t : List P) : area2 (o :: t) = isum ((edges (o :: t)).map (cr o)) := by
  unfold area2
  simp only
  rw [area2_go_eq]
  simp [edges_cons_cons, isum, cr_self]

theorem edges_reverse (l : List P) : edges l.reverse = (edges l).reverse.map (fun e => (e.2, e.1)) := by
  induction l with
  | nil => rfl
  | cons a t ih =>
    cases t with
    | nil => rfl
    | cons b t' =>
      have hne : (b :: t').reverse ≠ [] := by simp
      have hl : (b :: t').reverse.getLast hne = b := by simp
      rw [List.reverse_cons, edges_append_singleton _ _ hne, ih, hl, edges_cons_cons]
      simp

theorem cr_swap (o : P) (e : P × P) : cr o (e.2, e.1) = - cr o e := by
  simp only [cr]; omega

theorem isum_reverse (l : List Int) : isum l.reverse = isum l := by
  induction l with
  | nil => rfl
  | cons x xs ih => simp [isum_append, isum, ih]; omega

theorem isum_neg (l : List Int) : isum (l.map (fun x => -x)) = - isum l := by
  induction l with
  | nil => rfl
  | cons x xs ih => simp [isum, ih]; omega

/-- **reversing a closed ring negates its signed area** -/
theorem area2_reverse_closed (o : P) (t : List P) (hclosed : (o :: t).getLast? = some o) :
    area2 (o :: t).reverse = - area2 (o :: t) := by
  have hrev : ∃ t', (o :: t).reverse = o :: t' := by
    have hne : (o :: t).reverse ≠ [] := by simp
    obtain ⟨x, t', hx⟩ := List.exists_cons_of_ne_nil hne
    have : (o :: t).reverse.head? = some o := by rw [List.head?_reverse]; exact hclosed
    rw [hx] at this; simp at this; subst this
    exact ⟨t', hx⟩
  obtain ⟨t', ht'⟩ := hrev
  rw [ht', area2_eq, ← ht', edges_reverse, area2_eq]
  rw [List.map_map]
  have : (cr o ∘ fun e => (e.2, e.1)) = fun e => - cr o e := by funext e; exact cr_swap o e
  rw [this]
  have h2 : (edges (o :: t)).reverse.map (fun e => - cr o e) = ((edges (o :: t)).map (cr o)).reverse.map (fun x => -x) := by
    simp [List.map_reverse, List.map_map, Function.comp_def]
  rw [h2, isum_neg, isum_reverse]

end OsmVerif.Model.Geo
