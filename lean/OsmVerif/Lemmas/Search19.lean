import OsmVerif.Model.Search
/-! Lemmas about the neighbour probes and the binary search of the replication state lookup. -/
namespace OsmVerif.Model.Search

def Mono (av : Avail) : Prop := ∀ i j a b, i < j → av i = some a → av j = some b → a < b

theorem probeDown_spec (av : Avail) (lo : Nat) : ∀ s r,
    probeDown av lo s = some r → lo < r.1 ∧ r.1 ≤ s ∧ av r.1 = some r.2 := by
  intro s
  induction s with
  | zero => intro r h; simp [probeDown] at h
  | succ s ih =>
    intro r h
    unfold probeDown at h
    split at h
    · rename_i hlo
      split at h
      · rename_i ts hts
        cases h
        exact ⟨hlo, Nat.le_refl _, hts⟩
      · have := ih r h
        exact ⟨this.1, Nat.le_succ_of_le this.2.1, this.2.2⟩
    · cases h

theorem probeDown_none (av : Avail) (lo : Nat) : ∀ s,
    probeDown av lo s = none → ∀ j, lo < j → j ≤ s → av j = none := by
  intro s
  induction s with
  | zero => intro _ j h1 h2; omega
  | succ s ih =>
    intro h j h1 h2
    unfold probeDown at h
    split at h
    · split at h
      · cases h
      · rename_i hn
        rcases Nat.lt_or_ge j (s + 1) with hj | hj
        · exact ih h j h1 (by omega)
        · have : j = s + 1 := by omega
          subst this; exact hn
    · omega

theorem probeUp_spec (av : Avail) (hi : Nat) : ∀ f s r,
    probeUp av hi f s = some r → s ≤ r.1 ∧ r.1 < hi ∧ av r.1 = some r.2 := by
  intro f
  induction f with
  | zero => intro s r h; simp [probeUp] at h
  | succ f ih =>
    intro s r h
    unfold probeUp at h
    split at h
    · rename_i hs
      split at h
      · rename_i ts hts
        cases h
        exact ⟨Nat.le_refl _, hs, hts⟩
      · have := ih (s + 1) r h
        exact ⟨by omega, this.2.1, this.2.2⟩
    · cases h

theorem probeUp_none (av : Avail) (hi : Nat) : ∀ f s,
    hi ≤ s + f → probeUp av hi f s = none → ∀ j, s ≤ j → j < hi → av j = none := by
  intro f
  induction f with
  | zero => intro s hf _ j h1 h2; omega
  | succ f ih =>
    intro s hf h j h1 h2
    unfold probeUp at h
    split at h
    · split at h
      · cases h
      · rename_i hn
        rcases Nat.eq_or_lt_of_le h1 with e | l
        · subst e; exact hn
        · exact ih (s + 1) (by omega) h j (by omega) h2
    · omega

theorem pickSplit_some (av : Avail) (lo hi : Nat) (h : lo + 1 < hi) (r : Nat × Int)
    (hr : pickSplit av lo hi = some r) : lo < r.1 ∧ r.1 < hi ∧ av r.1 = some r.2 := by
  unfold pickSplit at hr
  simp only at hr
  split at hr
  · rename_i r' hd
    cases hr
    have := probeDown_spec av lo _ _ hd
    exact ⟨this.1, by omega, this.2.2⟩
  · have := probeUp_spec av hi _ _ _ hr
    exact ⟨by omega, this.2.1, this.2.2⟩

theorem pickSplit_none (av : Avail) (lo hi : Nat) (h : lo + 1 < hi)
    (hr : pickSplit av lo hi = none) : ∀ j, lo < j → j < hi → av j = none := by
  unfold pickSplit at hr
  simp only at hr
  split at hr
  · cases hr
  · rename_i hd
    intro j h1 h2
    rcases Nat.lt_or_ge ((lo + hi) / 2) j with hj | hj
    · exact probeUp_none av hi _ _ (by omega) hr j (by omega) h2
    · exact probeDown_none av lo _ hd j h1 hj

/-- For EVERY availability pattern with increasing timestamps: the repaired search
returns the first available state at or after `t`. -/
theorem findInRange_first (av : Avail) (t : Int) (hm : Mono av) :
    ∀ f lo hi a b, hi ≤ lo + f + 1 → lo < hi → av lo = some a → av hi = some b → a < t → t ≤ b →
      ∃ c, av (findInRange av t f lo hi) = some c ∧ t ≤ c ∧
        ∀ j d, av j = some d → t ≤ d → findInRange av t f lo hi ≤ j := by
  intro f
  induction f with
  | zero =>
    intro lo hi a b hf hlt ha hb hat htb
    have : hi = lo + 1 := by omega
    refine ⟨b, by simpa [findInRange] using hb, htb, ?_⟩
    intro j d hj hd
    simp only [findInRange]
    rcases Nat.lt_or_ge j hi with h | h
    · exfalso
      have hjl : j ≤ lo := by omega
      rcases Nat.eq_or_lt_of_le hjl with e | l
      · subst e; rw [ha] at hj; cases hj; omega
      · have := hm j lo d a l hj ha; omega
    · exact h
  | succ f ih =>
    intro lo hi a b hf hlt ha hb hat htb
    unfold findInRange
    split
    · rename_i hgap
      split
      · rename_i hnone
        refine ⟨b, hb, htb, ?_⟩
        intro j d hj hd
        rcases Nat.lt_or_ge j hi with h | h
        · exfalso
          rcases Nat.lt_or_ge lo j with h' | h'
          · have := pickSplit_none av lo hi hgap hnone j h' h
            rw [this] at hj; cases hj
          · rcases Nat.eq_or_lt_of_le h' with e | l
            · subst e; rw [ha] at hj; cases hj; omega
            · have := hm j lo d a l hj ha; omega
        · exact h
      · rename_i s ts hsome
        have hs := pickSplit_some av lo hi hgap (s, ts) hsome
        simp only at hs
        split
        · exact ih s hi ts b (by omega) hs.2.1 hs.2.2 hb (by assumption) htb
        · rename_i hge
          exact ih lo s a ts (by omega) hs.1 ha hs.2.2 hat (by omega)
    · rename_i hadj
      have : hi = lo + 1 := by omega
      refine ⟨b, hb, htb, ?_⟩
      intro j d hj hd
      rcases Nat.lt_or_ge j hi with h | h
      · exfalso
        have hjl : j ≤ lo := by omega
        rcases Nat.eq_or_lt_of_le hjl with e | l
        · subst e; rw [ha] at hj; cases hj; omega
        · have := hm j lo d a l hj ha; omega
      · exact h


end OsmVerif.Model.Search
