import OsmVerif.Model.Annotate
/-! Sorting lemmas for the update lists: the lexicographic key comparison is a strict order,
insertion sort yields a sorted permutation, and a sorted permutation is unique when
incomparable elements are equal. -/
namespace OsmVerif.Model.Annotate

theorem keyLess_asymm (keys : List String) (a b : Update) : keyLess keys a b = true → keyLess keys b a = false := by
  induction keys with
  | nil => simp [keyLess]
  | cons k rest ih =>
    unfold keyLess
    by_cases h1 : keyOf k a < keyOf k b
    · have : ¬ keyOf k b < keyOf k a := by omega
      simp [h1, this]
    · by_cases h2 : keyOf k b < keyOf k a
      · simp [h1, h2]
      · simp only [h1, h2, if_false]; exact ih

theorem keyLess_trans (keys : List String) (a b c : Update) :
    keyLess keys a b = true → keyLess keys b c = true → keyLess keys a c = true := by
  induction keys with
  | nil => simp [keyLess]
  | cons k rest ih =>
    unfold keyLess
    generalize keyOf k a = fa
    generalize keyOf k b = fb
    generalize keyOf k c = fc
    intro h1 h2
    by_cases ab : fa < fb
    · by_cases bc : fb < fc
      · have : fa < fc := by omega
        simp [this]
      · by_cases cb : fc < fb
        · simp [bc, cb] at h2
        · have : fa < fc := by omega
          simp [this]
    · by_cases ba : fb < fa
      · simp [ab, ba] at h1
      · simp only [ab, ba, if_false] at h1
        by_cases bc : fb < fc
        · have : fa < fc := by omega
          simp [this]
        · by_cases cb : fc < fb
          · simp [bc, cb] at h2
          · simp only [bc, cb, if_false] at h2
            have e1 : ¬ fa < fc := by omega
            have e2 : ¬ fc < fa := by omega
            simp only [e1, e2, if_false]
            exact ih h1 h2

/-- sorted: no later element is strictly smaller than an earlier one -/
def SortedBy (less : Update → Update → Bool) (l : List Update) : Prop :=
  l.Pairwise (fun a b => less b a = false)

theorem insertSorted_perm (less : Update → Update → Bool) (u : Update) (l : List Update) :
    (insertSorted less u l).Perm (u :: l) := by
  induction l with
  | nil => exact List.Perm.refl _
  | cons v vs ih =>
    unfold insertSorted
    split
    · exact List.Perm.refl _
    · exact ((List.Perm.cons v ih).trans (List.Perm.swap u v vs))

theorem foldl_insert_perm (less : Update → Update → Bool) : ∀ (l acc : List Update),
    (l.foldl (fun acc u => insertSorted less u acc) acc).Perm (l ++ acc) := by
  intro l
  induction l with
  | nil => intro acc; exact List.Perm.refl _
  | cons u us ih =>
    intro acc
    simp only [List.foldl_cons, List.cons_append]
    refine (ih _).trans ?_
    exact (List.Perm.append_left us (insertSorted_perm less u acc)).trans List.perm_middle

theorem sortBy_perm (less : Update → Update → Bool) (l : List Update) : (sortBy less l).Perm l := by
  have := foldl_insert_perm less l []
  simpa [sortBy] using this

theorem insertSorted_sorted (less : Update → Update → Bool)
    (asymm : ∀ a b, less a b = true → less b a = false)
    (trans : ∀ a b c, less a b = true → less b c = true → less a c = true)
    (u : Update) (l : List Update) (h : SortedBy less l) : SortedBy less (insertSorted less u l) := by
  induction l with
  | nil => simp [insertSorted, SortedBy]
  | cons v vs ih =>
    have hv := List.pairwise_cons.mp h
    unfold insertSorted
    by_cases huv : less u v = true
    · simp only [huv, if_true]
      apply List.pairwise_cons.mpr
      refine ⟨?_, h⟩
      intro x hx
      rcases List.mem_cons.mp hx with e | e
      · subst e; exact asymm u x huv
      · cases hxu : less x u with
        | false => rfl
        | true =>
          have := trans x u v hxu huv
          rw [hv.1 x e] at this; cases this
    · simp only [huv, Bool.false_eq_true, if_false]
      apply List.pairwise_cons.mpr
      refine ⟨?_, ih hv.2⟩
      intro x hx
      rcases (insertSorted_perm less u vs).mem_iff.mp hx with hx' 
      rcases List.mem_cons.mp hx' with e | e
      · subst e; simpa using huv
      · exact hv.1 x e

theorem sortBy_sorted (less : Update → Update → Bool)
    (asymm : ∀ a b, less a b = true → less b a = false)
    (trans : ∀ a b c, less a b = true → less b c = true → less a c = true)
    (l : List Update) : SortedBy less (sortBy less l) := by
  unfold sortBy
  suffices h : ∀ acc, SortedBy less acc → SortedBy less (l.foldl (fun acc u => insertSorted less u acc) acc) from
    h [] List.Pairwise.nil
  induction l with
  | nil => intro acc h; exact h
  | cons u us ih =>
    intro acc h
    simp only [List.foldl_cons]
    exact ih _ (insertSorted_sorted less asymm trans u acc h)

/-- **the sorted permutation is unique** when elements that compare as equal are equal -/
theorem sorted_perm_unique (less : Update → Update → Bool)
    (l1 l2 : List Update) (hp : l1.Perm l2) (h1 : SortedBy less l1) (h2 : SortedBy less l2)
    (anti : ∀ a ∈ l1, ∀ b ∈ l1, less a b = false → less b a = false → a = b) : l1 = l2 := by
  induction l1 generalizing l2 with
  | nil => exact (List.Perm.nil_eq hp)
  | cons a t1 ih =>
    cases l2 with
    | nil => exact absurd hp.symm (List.Perm.nil_eq · |> fun h => by cases h)
    | cons b t2 =>
      have ha := List.pairwise_cons.mp h1
      have hb := List.pairwise_cons.mp h2
      have hbin : b ∈ a :: t1 := hp.mem_iff.mpr (by simp)
      have hain : a ∈ b :: t2 := hp.mem_iff.mp (by simp)
      have hab : a = b := by
        rcases List.mem_cons.mp hbin with e | e
        · exact e.symm
        · rcases List.mem_cons.mp hain with e2 | e2
          · exact e2
          · -- a ≤ b (b is later in l1) and b ≤ a (a is later in l2)
            have l_ba : less b a = false := ha.1 b e
            have l_ab : less a b = false := hb.1 a e2
            exact anti a (by simp) b hbin l_ab l_ba
      subst hab
      have hp' : t1.Perm t2 := List.Perm.cons_inv hp
      rw [ih t2 hp' ha.2 hb.2 (fun x hx y hy => anti x (by simp [hx]) y (by simp [hy]))]

end OsmVerif.Model.Annotate
