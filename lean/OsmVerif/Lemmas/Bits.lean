/-! Bit-level helper lemmas for `BitVec 64` (core Lean only, kernel-only proofs). -/
namespace OsmVerif.Bits

/-- Characterise a concrete mask's bits by a decidable predicate, checked by `decide` on `Fin 64`. -/
theorem mask_bits (m : BitVec 64) (p : Nat → Bool)
    (h : ∀ j : Fin 64, m.getLsbD j.val = p j.val) (hp : ∀ i, 64 ≤ i → p i = false) (i : Nat) :
    m.getLsbD i = p i := by
  by_cases hi : i < 64
  · exact h ⟨i, hi⟩
  · rw [BitVec.getLsbD_of_ge _ _ (by omega), hp i (by omega)]

theorem small_bits (r : BitVec 64) (k : Nat) (hr : r.toNat < 2^k) (i : Nat) (hi : k ≤ i) :
    r.getLsbD i = false := by
  simp only [BitVec.getLsbD]
  apply Nat.testBit_lt_two_pow
  exact Nat.lt_of_lt_of_le hr (Nat.pow_le_pow_right (by omega) hi)

end OsmVerif.Bits
