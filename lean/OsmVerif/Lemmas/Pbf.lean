import OsmVerif.Model.Pbf
/-! Delta coding lemmas. -/
namespace OsmVerif.Model.Pbf


theorem undelta_aux (l : List Int) (a : Int) (acc : List Int) :
    (l.foldl (fun (s : Int × List Int) d => (s.1 + d, (s.1 + d) :: s.2)) (a, acc)).2.reverse
      = acc.reverse ++ (l.foldl (fun (s : Int × List Int) d => (s.1 + d, (s.1 + d) :: s.2)) (a, [])).2.reverse := by
  induction l generalizing a acc with
  | nil => simp
  | cons d rest ih =>
    simp only [List.foldl_cons]
    rw [ih (a + d) ((a + d) :: acc), ih (a + d) [a + d]]
    simp

/-- running sums from a start value -/
def sumsFrom (a : Int) : List Int → List Int
  | [] => []
  | d :: rest => (a + d) :: sumsFrom (a + d) rest

theorem undelta_eq_sums (l : List Int) (a : Int) :
    (l.foldl (fun (s : Int × List Int) d => (s.1 + d, (s.1 + d) :: s.2)) (a, [])).2.reverse = sumsFrom a l := by
  induction l generalizing a with
  | nil => rfl
  | cons d rest ih =>
    simp only [List.foldl_cons, sumsFrom]
    rw [undelta_aux, ih]
    simp

def diffsFrom (a : Int) : List Int → List Int
  | [] => []
  | x :: rest => (x - a) :: diffsFrom x rest

theorem delta_aux (l : List Int) (a : Int) (acc : List Int) :
    (l.foldl (fun (s : Int × List Int) x => (x, (x - s.1) :: s.2)) (a, acc)).2.reverse
      = acc.reverse ++ (l.foldl (fun (s : Int × List Int) x => (x, (x - s.1) :: s.2)) (a, [])).2.reverse := by
  induction l generalizing a acc with
  | nil => simp
  | cons d rest ih =>
    simp only [List.foldl_cons]
    rw [ih d ((d - a) :: acc), ih d [d - a]]
    simp

theorem delta_eq_diffs (l : List Int) (a : Int) :
    (l.foldl (fun (s : Int × List Int) x => (x, (x - s.1) :: s.2)) (a, [])).2.reverse = diffsFrom a l := by
  induction l generalizing a with
  | nil => rfl
  | cons d rest ih =>
    simp only [List.foldl_cons, diffsFrom]
    rw [delta_aux, ih]
    simp

theorem sums_diffs (l : List Int) (a : Int) : sumsFrom a (diffsFrom a l) = l := by
  induction l generalizing a with
  | nil => rfl
  | cons x rest ih =>
    have h : a + (x - a) = x := by omega
    simp only [sumsFrom, diffsFrom, h, ih]

theorem diffs_sums (l : List Int) (a : Int) : diffsFrom a (sumsFrom a l) = l := by
  induction l generalizing a with
  | nil => rfl
  | cons x rest ih =>
    have h : a + x - a = x := by omega
    simp only [sumsFrom, diffsFrom, h, ih]

theorem undelta_delta (l : List Int) : undelta (delta l) = l := by
  unfold undelta delta
  rw [delta_eq_diffs, undelta_eq_sums, sums_diffs]

theorem delta_undelta (l : List Int) : delta (undelta l) = l := by
  unfold undelta delta
  rw [undelta_eq_sums, delta_eq_diffs, diffs_sums]

theorem mapM_mem {α β} (f : α → Option β) (l : List α) (r : List β) (h : l.mapM f = some r) :
    ∀ y ∈ r, ∃ x ∈ l, f x = some y := by
  induction l generalizing r with
  | nil => simp [List.mapM_nil] at h; subst h; intro y hy; cases hy
  | cons a rest ih =>
    rw [List.mapM_cons] at h
    cases ha : f a with
    | none => simp [ha] at h
    | some b =>
      cases hr : rest.mapM f with
      | none => simp [ha, hr] at h
      | some rs =>
        simp [ha, hr] at h
        subst h
        intro y hy
        rcases List.mem_cons.mp hy with e | e
        · exact ⟨a, by simp, by rw [ha, e]⟩
        · obtain ⟨x, hx, hfx⟩ := ih rs hr y e
          exact ⟨x, by simp [hx], hfx⟩


end OsmVerif.Model.Pbf
