import OsmVerif.Model.Polygon
/-! Insertion sort and binary search lemmas for the polygon model. -/
namespace OsmVerif.Model.Polygon

abbrev Sorted (l : List String) : Prop := l.Pairwise (· ≤ ·)

theorem mem_insert (x y : String) (l : List String) : y ∈ insert x l ↔ y = x ∨ y ∈ l := by
  induction l with
  | nil => simp [insert]
  | cons z zs ih =>
    unfold insert
    split
    · simp
    · simp only [List.mem_cons, ih]
      constructor
      · rintro (h | h | h) <;> simp [h]
      · rintro (h | h | h) <;> simp [h]

theorem mem_isort (y : String) (l : List String) : y ∈ isort l ↔ y ∈ l := by
  induction l with
  | nil => simp [isort]
  | cons x xs ih => simp [isort, mem_insert, ih]

theorem insert_sorted (x : String) (l : List String) (h : Sorted l) : Sorted (insert x l) := by
  induction l with
  | nil => simp [insert, Sorted]
  | cons y ys ih =>
    unfold insert
    have hy := List.pairwise_cons.mp h
    split
    · rename_i hxy
      apply List.pairwise_cons.mpr
      refine ⟨?_, h⟩
      intro z hz
      rcases List.mem_cons.mp hz with e | e
      · subst e; exact hxy
      · exact String.le_trans hxy (hy.1 z e)
    · rename_i hxy
      apply List.pairwise_cons.mpr
      refine ⟨?_, ih hy.2⟩
      intro z hz
      rcases (mem_insert x z ys).mp hz with e | e
      · subst e
        rcases String.le_total z y with t | t
        · exact absurd t hxy
        · exact t
      · exact hy.1 z e

theorem isort_sorted (l : List String) : Sorted (isort l) := by
  induction l with
  | nil => simp [isort, Sorted]
  | cons x xs ih => exact insert_sorted x _ ih

/-- `sort.Search` returns the first index at which a monotone predicate holds. -/
theorem bsearch_spec (f : Nat → Bool) (n : Nat)
    (mono : ∀ a b, a ≤ b → b < n → f a = true → f b = true) :
    ∀ fuel i j, j ≤ n → i ≤ j → j - i ≤ fuel →
      (∀ k, k < i → f k = false) → (∀ k, j ≤ k → k < n → f k = true) →
      bsearch f fuel i j ≤ n ∧ (∀ k, k < bsearch f fuel i j → f k = false) ∧
        (∀ k, bsearch f fuel i j ≤ k → k < n → f k = true) := by
  intro fuel
  induction fuel with
  | zero =>
    intro i j hjn hij hf hlo hhi
    have : i = j := by omega
    subst this
    simp only [bsearch]
    exact ⟨hjn, hlo, hhi⟩
  | succ fuel ih =>
    intro i j hjn hij hf hlo hhi
    unfold bsearch
    by_cases hlt : i < j
    · simp only [hlt, if_true]
      have hh1 : i ≤ (i + j) / 2 := by omega
      have hh2 : (i + j) / 2 < j := by omega
      by_cases hfh : f ((i + j) / 2) = true
      · simp only [hfh, Bool.not_true, Bool.false_eq_true, if_false]
        apply ih i ((i + j) / 2) (by omega) hh1 (by omega) hlo
        intro k hk hkn
        exact mono _ k hk hkn hfh
      · have hfh' : f ((i + j) / 2) = false := by simpa using hfh
        simp only [hfh', Bool.not_false, if_true]
        apply ih ((i + j) / 2 + 1) j hjn (by omega) (by omega) _ hhi
        intro k hk
        cases hfk : f k with
        | false => rfl
        | true =>
          have := mono k ((i + j) / 2) (by omega) (by omega) hfk
          rw [hfh'] at this; cases this
    · simp only [hlt, if_false]
      have : i = j := by omega
      subst this
      exact ⟨hjn, hlo, hhi⟩

theorem getD_eq_getElem' (l : List String) (d : String) {i : Nat} (h : i < l.length) : l.getD i d = l[i] := by
  simp [List.getD_eq_getElem?_getD, h]

theorem sorted_get_le {l : List String} (h : Sorted l) {a b : Nat} (hab : a ≤ b) (hb : b < l.length) :
    l.getD a "" ≤ l.getD b "" := by
  have ha : a < l.length := by omega
  rw [getD_eq_getElem' _ _ ha, getD_eq_getElem' _ _ hb]
  by_cases e : a = b
  · subst e; exact String.le_refl _
  · exact (List.pairwise_iff_getElem.mp h) a b ha hb (by omega)

/-- On a sorted list the code's "search, then compare" test is list membership. -/
theorem searchStrings_mem (l : List String) (h : Sorted l) (v : String) :
    (searchStrings l v ≠ l.length ∧ l.getD (searchStrings l v) "" = v) ↔ v ∈ l := by
  have spec := bsearch_spec (fun k => decide (l.getD k "" ≥ v)) l.length
    (by
      intro a b hab hb hfa
      simp only [decide_eq_true_eq] at hfa ⊢
      exact String.le_trans hfa (sorted_get_le h hab hb))
    l.length 0 l.length (Nat.le_refl _) (Nat.zero_le _) (by omega) (by intro k hk; omega) (by intro k hk hk2; omega)
  have hr : bsearch (fun k => decide (l.getD k "" ≥ v)) l.length 0 l.length = searchStrings l v := rfl
  rw [hr] at spec
  obtain ⟨hle, hlo, hhi⟩ := spec
  constructor
  · rintro ⟨hne, hv⟩
    have hlt : searchStrings l v < l.length := by omega
    rw [getD_eq_getElem' _ _ hlt] at hv
    rw [← hv]; exact List.getElem_mem hlt
  · intro hmem
    obtain ⟨m, hm, hmv⟩ := List.getElem_of_mem hmem
    have hfm : decide (l.getD m "" ≥ v) = true := by
      simp only [decide_eq_true_eq]
      rw [getD_eq_getElem' _ _ hm, hmv]; exact String.le_refl _
    have hrm : searchStrings l v ≤ m := by
      apply Nat.le_of_not_lt
      intro hlt
      have := hlo m hlt
      rw [hfm] at this; cases this
    have hrl : searchStrings l v < l.length := by omega
    refine ⟨by omega, ?_⟩
    have h1 := hhi (searchStrings l v) (Nat.le_refl _) hrl
    simp only [decide_eq_true_eq] at h1
    have h2 := sorted_get_le h hrm hm
    rw [getD_eq_getElem' _ _ hm, hmv] at h2
    exact String.le_antisymm h2 h1

end OsmVerif.Model.Polygon
