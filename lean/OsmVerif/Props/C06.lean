import OsmVerif.Model.PbfFraming
import OsmVerif.Props.C01
import OsmVerif.Lemmas.Pbf
/-!
# C06 — truncated or damaged input ends in an error after a correct prefix

* **cut streams**: the framing reader on a stream that ends early (`Model.PbfFraming`), with the EOF
  handling of the three readers read from the source: for every stream of frames and every cut offset the
  scan delivers the objects of the frames that are there in full and reports success exactly when the cut
  falls where a frame ends;
* **damage**: every detectable damage class of the property has its check in the source (pinned
  statements); the checks' effect on real damaged streams is what the correspondence runs, each case in an
  isolated child process.
-/
namespace OsmVerif.Props.C06
open OsmVerif.Gen.Pbf OsmVerif.Model.PbfFraming OsmVerif.Model.PbfScan OsmVerif.Model.Pbf

/-- only the read of the 4-byte length prefix may meet the end of input; the blob header and the blob reader
    turn it into an error -/
theorem conv_eq : conv = specConv := by decide +kernel

variable {α : Type}

/-- what the property asks of a stream of frames cut to `k` bytes: the objects of the frames that are there in
    full, and success exactly when the cut falls where a frame ends -/
def expectedCut : Nat → List (Frame α) → List α × Bool
  | _, [] => ([], true)
  | k, f :: rest =>
    if f.size ≤ k then let r := expectedCut (k - f.size) rest; (f.objs ++ r.1, r.2)
    else ([], k = 0)

theorem readFrame_spec (avail hlen blen : Nat) (hh : 0 < hlen) :
    readFrame specConv avail hlen blen =
      if 4 + hlen + blen ≤ avail then .full else if avail = 0 then .cleanEnd else .error := by
  unfold readFrame readFull specConv
  by_cases h0 : avail = 0
  · subst h0; simp
  · by_cases h4 : avail < 4
    · simp [h0, h4]; omega
    · have e4 : ¬ avail < 4 := h4
      simp only [show (4 : Nat) ≠ 0 by decide, h0, e4, if_false]
      by_cases a : avail - 4 = 0
      · simp [a, Nat.ne_of_gt hh]; omega
      · by_cases b : avail - 4 < hlen
        · simp [a, b, Nat.ne_of_gt hh]; omega
        · simp only [Nat.ne_of_gt hh, a, b, if_false]
          by_cases c : blen = 0
          · simp [c]; omega
          · by_cases d : avail - 4 - hlen = 0
            · simp [c, d]; omega
            · by_cases e : avail - 4 - hlen < blen
              · simp [c, d, e]; omega
              · simp [c, d, e]; omega

theorem scanCut_spec (k : Nat) (frames : List (Frame α)) (hh : ∀ f ∈ frames, 0 < f.hlen) :
    scanCut specConv k frames = expectedCut k frames := by
  induction frames generalizing k with
  | nil => rfl
  | cons f rest ih =>
    rw [scanCut, expectedCut, readFrame_spec _ _ _ (hh f (by simp))]
    by_cases c : f.size ≤ k
    · have c' : 4 + f.hlen + f.blen ≤ k := c
      simp only [c', c, if_true]
      rw [ih _ (fun g hg => hh g (by simp [hg]))]
    · have c' : ¬ 4 + f.hlen + f.blen ≤ k := c
      simp only [c', c, if_false]
      by_cases z : k = 0 <;> simp [z]

/-- **every cut offset of every stream** (as the code handles end of input): the objects of the complete
    blocks before the cut, success only on a block boundary -/
theorem cut_stream (k : Nat) (frames : List (Frame α)) (hh : ∀ f ∈ frames, 0 < f.hlen) :
    scanCut conv k frames = expectedCut k frames := by
  rw [conv_eq]; exact scanCut_spec k frames hh

/-! ## the checks behind the damage classes -/

def infixOf (sub : List Char) : List Char → Bool
  | [] => sub.isEmpty
  | c :: cs => sub.isPrefixOf (c :: cs) || infixOf sub cs

def containsSub (sub s : String) : Bool := infixOf sub.toList s.toList

/-- the then-branch of `if cond {` in a function body ends by returning an error -/
def rejects (body : List String) (cond : String) : Bool :=
  match ifBranches body ("if " ++ cond ++ " {") with
  | some (t, _) =>
    match t.getLast? with
    | some l => hasPrefix "return " l && (containsSub "errors.New(" l || containsSub "fmt.Errorf(" l || hasSuffix "err" l)
    | none => false
  | none => false

/-- the limits and vocabulary the damage checks compare with are the format's: header at most 64 KiB, blob at
    most 32 MiB (the PBF specification's hard limits), block types `OSMHeader` / `OSMData`, and exactly the three
    required features this decoder implements -/
theorem limits_pinned :
    pbfConsts = ["maxBlobHeaderSize=64 * 1024", "maxBlobSize=32 * 1024 * 1024",
      "parseCapabilities=map[string]bool{ \"OsmSchema-V0.6\": true, \"DenseNodes\": true, \"HistoricalInformation\": true, }",
      "osmHeaderType=\"OSMHeader\"", "osmDataType=\"OSMData\""] := by decide

/-- oversized and negative block sizes, unknown blob encoding, wrong or out-of-range uncompressed size (checked before
    anything is allocated; inflation is cut one byte past the declared size), unexpected block type
    (first block and later blocks), unsupported required feature, plain node groups: each has its rejecting
    check; a reference out of range inside a block is recovered into an error by `Decode`; the mandatory dense
    columns are rejected by `scanDenseNodes` (`Props.C01.T.postChecks`) -/
theorem damage_checks_present :
    rejects readBlobHeaderSizeBody "size >= maxBlobHeaderSize" = true ∧
    rejects readBlobHeaderBody "blobHeader.GetDatasize() < 0" = true ∧
    rejects readBlobHeaderBody "blobHeader.GetDatasize() >= maxBlobSize" = true ∧
    rejects getDataBody "buf.Len() != int(blob.GetRawSize())" = true ∧
    rejects getDataBody "rawSize < 0 || rawSize >= maxBlobSize" = true ∧
    getDataBody.contains "rawSize := int(blob.GetRawSize())" = true ∧
    rejects getDataBody "_, err = buf.ReadFrom(io.LimitReader(r, int64(rawSize)+1)); err != nil" = true ∧
    getDataBody.contains "default:" = true ∧ getDataBody.getLast? = some "}" ∧
    (getDataBody.dropWhile (· ≠ "default:")).take 2 = ["default:", "return nil, errors.New(\"unknown blob data\")"] ∧
    rejects startBody "blobHeader.GetType() != osmDataType" = true ∧
    rejects startBody "err == nil && blobHeader.GetType() != osmDataType" = false ∧
    startBody.contains "err = fmt.Errorf(\"unexpected fileblock of type %s\", blobHeader.GetType())" = true ∧
    rejects decodeOSMHeaderBody "!parseCapabilities[feature]" = true ∧
    rejects scanPrimitiveGroupBody "fn == 1" = true ∧
    decodeBody.take 2 = ["defer func() {", "if r := recover(); r != nil {"] ∧
    decodeBody.contains "objects, err = nil, fmt.Errorf(\"osmpbf: invalid primitive block: %v\", re)" = true ∧
    (OsmVerif.Props.C01.T.postChecks.filter (·.isError)).length = 3 := by
  decide +kernel

/-! ## what the format lets a reader detect (the specification side of the damage classes) -/

/-- a string reference beyond the table is not a string -/
theorem str_out_of_range (st : List String) (i : Int) (h : (st.length : Int) ≤ i) : str st i = none := by
  unfold str
  have : ¬ i < 0 := by omega
  simp only [this, if_false]
  apply List.getElem?_eq_none
  omega

theorem mapM_none_of_mem {α β} (f : α → Option β) (l : List α) (x : α) (hx : x ∈ l) (h : f x = none) : l.mapM f = none := by
  induction l with
  | nil => cases hx
  | cons a rest ih =>
    rw [List.mapM_cons]
    rcases List.mem_cons.mp hx with e | e
    · subst e; simp [h]
    · cases f a with
      | none => rfl
      | some b => simp [ih e]

/-- **the format lets a reader detect it — dense columns**: a dense group whose lat or lon column does not have one
    entry per id has no meaning -/
theorem dense_column_mismatch (gran dg la lo : Int) (st : List String) (d : Dense)
    (h : d.lat.length ≠ d.ids.length ∨ d.lon.length ≠ d.ids.length) : decodeDense gran dg la lo st d = none := by
  unfold decodeDense
  simp [h]

/-- … an info column with fewer entries than ids -/
theorem dense_short_version_column (gran dg la lo : Int) (st : List String) (d : Dense) (col : List Int)
    (hi : d.hasInfo = true) (hv : d.ver = some col) (hl : col.length < d.ids.length) : decodeDense gran dg la lo st d = none := by
  unfold decodeDense
  simp only [hi, hv, if_true]
  split
  · rfl
  · split
    · rfl
    · apply mapM_none_of_mem _ _ col.length (by simp; exact hl)
      have : getCol (some col) col.length = none := by simp [getCol]
      simp [this]

/-- … a user string reference beyond the string table -/
theorem way_user_out_of_range (gran dg la lo : Int) (st : List String) (w : WayMsg) (i : Info) (s : Int)
    (hi : w.info = some i) (hs : i.sid = some s) (h : (st.length : Int) ≤ s) : decodeWay gran dg la lo st w = none := by
  unfold decodeWay
  have : decodeInfo dg st w.info = none := by simp [decodeInfo, hi, hs, str_out_of_range st s h]
  simp [this]

/-- … a tag key reference beyond the string table -/
theorem tags_key_out_of_range (st : List String) (ks vs : List Int) (j : Nat) (hj : j < ks.length) (hl : ks.length = vs.length)
    (h : (st.length : Int) ≤ ks[j]) : decodeTags st (some ks) (some vs) = none := by
  simp only [decodeTags, hl, ne_eq, not_true_eq_false, if_false]
  have hjv : j < vs.length := by omega
  apply mapM_none_of_mem _ _ (ks[j], vs[j])
  · rw [List.mem_iff_getElem]
    exact ⟨j, by simp only [List.length_zip]; omega, by simp⟩
  · simp [str_out_of_range st ks[j] h]

/-- … relation member columns of different lengths -/
theorem rel_column_mismatch (dg : Int) (st : List String) (r : RelMsg)
    (h : (r.roles.getD []).length ≠ (r.memids.getD []).length ∨ (r.types.getD []).length ≠ (r.memids.getD []).length) :
    decodeRel dg st r = none := by
  unfold decodeRel
  have e : (undelta (r.memids.getD [])).length = (r.memids.getD []).length := by
    unfold undelta; rw [undelta_eq_sums]
    generalize r.memids.getD [] = l
    have : ∀ a, (sumsFrom a l).length = l.length := by
      intro a; induction l generalizing a with
      | nil => rfl
      | cons x t ih => simp [sumsFrom, ih]
    exact this 0
  simp [e, h]

/-- a block with a malformed group has no meaning, and a file with such a block has none past it (the scan
    delivers the blocks before it, `Oracle.decodePrefix`) -/
theorem block_with_bad_group (b : Block) (g : Group) (hg : g ∈ b.groups)
    (h : decodeGroup (b.gran.getD 100) (b.dateGran.getD 1000) (b.latOff.getD 0) (b.lonOff.getD 0) b.strings g = none) :
    decodeBlock b = none := by
  unfold decodeBlock
  rw [mapM_none_of_mem _ _ g hg h]
  rfl

/-! ## non-vacuity -/
example : scanCut specConv 40 [⟨10, 20, [1, 2]⟩, ⟨5, 8, [3]⟩] = ([1, 2], false) := by decide
example : scanCut specConv 34 [⟨10, 20, [1, 2]⟩, ⟨5, 8, [3]⟩] = ([1, 2], true) := by decide
example : scanCut specConv 38 [⟨10, 20, [1, 2]⟩, ⟨5, 8, [3]⟩] = ([1, 2], false) := by decide   -- right after the length prefix
example : scanCut { specConv with headerEOFisError := false } 38 [⟨10, 20, [1, 2]⟩, ⟨5, 8, [3]⟩] = ([1, 2], true) := by decide

end OsmVerif.Props.C06
