import OsmVerif.Props.C16
/-!
# C17 — GeoJSON conversion maps elements to features exactly; options only subtract

Theorems about `Model.Convert` (hand-written model of osmgeojson/convert.go, tied to the code by the
differential stream through `osmgeojson.Convert` under all option combinations and by an independent
element → feature oracle).
-/
namespace OsmVerif.Props.C17
open OsmVerif.Model.Geo OsmVerif.Model.Convert OsmVerif.Props.C16

/-! ## at most one feature per input element -/

theorem relationPass_length (o : Opts) (d : Data) : (relationPass o d).1.length ≤ d.relations.length := by
  unfold relationPass
  suffices h : ∀ (rs : List RelationE) (st : List Feature × Skip),
      (rs.foldl (fun (st : List Feature × Skip) r =>
        let tt := findTag r.tags "type"
        if tt = "route" then
          let (f, s) := buildRoute o d r st.2
          (st.1 ++ f.toList, s)
        else if tt = "multipolygon" ∨ tt = "boundary" then
          let (f, s) := buildPolygon o d r st.2
          (st.1 ++ f.toList, s)
        else st) st).1.length ≤ st.1.length + rs.length by
    simpa using h d.relations ([], [])
  intro rs
  induction rs with
  | nil => intro st; simp
  | cons r rest ih =>
    intro st
    simp only [List.foldl_cons, List.length_cons]
    refine Nat.le_trans (ih _) ?_
    have hopt : ∀ f : Option Feature, f.toList.length ≤ 1 := by intro f; cases f <;> simp
    split
    · have := hopt (buildRoute o d r st.2).1
      simp only [List.length_append]; omega
    · split
      · have := hopt (buildPolygon o d r st.2).1
        simp only [List.length_append]; omega
      · omega

/-- **at most one feature per input element**: each relation, each way and each node gives rise to at most one -/
theorem one_feature_per_element (o : Opts) (isP : WayE → Bool) (d : Data) :
    (convert o isP d).length ≤ d.relations.length + d.ways.length + d.nodes.length := by
  unfold convert
  simp only [List.length_append]
  have h1 := relationPass_length o d
  have h2 := List.length_filterMap_le (wayPass o d isP (relationPass o d).2) d.ways
  have h3 := List.length_filterMap_le (nodePass o d) d.nodes
  omega

/-- **"at most one feature per input ELEMENT" is false** of the model (and of the code: the same input gives two
    `way/101` features from `osmgeojson.Convert` — the recorded finding `duplicate-way-feature-shared-outer`): two
    old-style multipolygon relations (single outer way, no tags of their own) that share their outer way each
    become a feature with that way's identity. `one_feature_per_element` above is the part that does hold. -/
def exDup : Data := {
  nodes := [],
  ways := [⟨101, [⟨1, 1, 1⟩, ⟨2, 5, 1⟩, ⟨3, 5, 5⟩, ⟨4, 1, 5⟩, ⟨1, 1, 1⟩], [("landuse", "forest")], {}⟩],
  relations := [⟨201, [⟨.way, 101, "outer", 0, []⟩], [("type", "multipolygon")], {}⟩,
                ⟨202, [⟨.way, 101, "outer", 0, []⟩], [("type", "multipolygon")], {}⟩] }
theorem one_feature_per_element_counterexample :
    (convert {} (fun _ => true) exDup).map (fun f => (f.kind, f.id)) = [("way", 101), ("way", 101)] := by decide

/-! ## nodes -/

/-- **a point for every located node that is not part of a way, or has an interesting tag, or is a relation member** -/
theorem node_feature_iff (o : Opts) (d : Data) (n : NodeE) :
    (nodePass o d n).isSome ↔
      ¬ (n.lon = 0 ∧ n.lat = 0 ∧ n.md.version = 0) ∧
      (isWayMember d n.id = false ∨ membership o d .node n.id ≠ [] ∨ hasInterestingTags n.tags none = true) := by
  unfold nodePass nodeToFeature
  by_cases hw : isWayMember d n.id = true <;> by_cases hm : membership o d .node n.id = [] <;>
    by_cases ht : hasInterestingTags n.tags none = true <;>
    by_cases hl : (n.lon = 0 ∧ n.lat = 0 ∧ n.md.version = 0) <;> simp [hw, hm, ht, hl]

/-- the node's feature carries its type, id, location and tags -/
theorem node_feature_content (o : Opts) (d : Data) (n : NodeE) (f : Feature) (h : nodePass o d n = some f) :
    f.kind = "node" ∧ f.id = n.id ∧ f.geom = .point (n.lon, n.lat) ∧ f.tags = tagMap n.tags ∧ f.idSet = !o.noID := by
  unfold nodePass nodeToFeature at h
  split at h
  · cases h
  · split at h
    · cases h
    · cases h; exact ⟨rfl, rfl, rfl, rfl, rfl⟩

theorem membership_congr (o o' : Opts) (d : Data) (t : MType) (id : Int)
    (h : o.noRelationMembership = o'.noRelationMembership) : membership o d t id = membership o' d t id := by
  unfold membership
  rw [h]

/-- the membership of a node does not depend on the relation-membership option (only way and relation
    members are left out of the map by it) -/
theorem membership_node_indep (o o' : Opts) (d : Data) (id : Int) :
    membership o d .node id = membership o' d .node id := by
  unfold membership
  congr 1; funext r
  congr 1; funext m
  by_cases hn : m.type = .node
  · simp [hn]
  · have : ¬ (m.type = MType.node ∧ m.ref = id) := fun h => hn h.1
    by_cases h1 : o.noRelationMembership = true <;> by_cases h2 : o'.noRelationMembership = true <;>
      by_cases h3 : (m.type = MType.way ∧ (findWay d m.ref).isNone = true) <;> simp [hn, h1, h2, h3, this]

/-! ## ways -/

/-- **a line, or for area ways a closed polygon, over the way's resolvable node coordinates in order** -/
theorem way_feature_geometry (o : Opts) (d : Data) (isP : WayE → Bool) (w : WayE) (f : Feature)
    (h : wayToFeature o d isP w = some f) :
    f.kind = "way" ∧ f.id = w.id ∧ f.tags = tagMap w.tags ∧ f.tainted = (wayToLineString d w).2 ∧
    (wayToLineString d w).1.length ≥ 2 ∧
    f.geom = (if isP w then Geom.polygon [reorientOuter (toRing (wayToLineString d w).1)]
              else Geom.lineString (wayToLineString d w).1) := by
  unfold wayToFeature at h
  generalize hls : wayToLineString d w = r at h ⊢
  obtain ⟨ls, t⟩ := r
  simp only at h ⊢
  split at h
  · cases h
  · rename_i hlen
    cases h
    exact ⟨rfl, rfl, rfl, rfl, by omega, rfl⟩

/-- the ring built for an area way is closed -/
theorem toRing_closed (ls : List P) (h : 2 ≤ ls.length) : (toRing ls).head? = (toRing ls).getLast? := by
  unfold toRing
  have h1 : ¬ ls.length < 2 := by omega
  simp only [h1, if_false]
  by_cases hc : ls.head? = ls.getLast?
  · simp [hc]
  · simp only [hc, ne_eq, not_false_eq_true, if_true]
    obtain ⟨a, b, t, rfl⟩ := two_le_split ls h
    have : ((a :: b :: t) ++ List.take 1 (a :: b :: t)).getLast? = some a := by
      rw [List.getLast?_append]; simp
    rw [this]; rfl

/-- … and wound counter-clockwise (when it has area at all) -/
theorem reorientOuter_ccw (r : List P) (hne : r ≠ []) (hclosed : r.head? = r.getLast?) (harea : area2 r ≠ 0) :
    ringOrientation (reorientOuter r) = 1 := by
  obtain ⟨p, t, rfl⟩ := List.exists_cons_of_ne_nil hne
  have hcl : (p :: t).getLast? = some p := by rw [← hclosed]; rfl
  unfold reorientOuter
  by_cases h : ringOrientation (p :: t) = 1
  · simp [h]
  · simp only [h, ne_eq, not_false_eq_true, if_true]
    rw [ringOrientation_eq_sgn] at h ⊢
    rw [area2_reverse_closed p t hcl]
    have s1 := sgn_spec (area2 (p :: t))
    have s2 := sgn_spec (- area2 (p :: t))
    omega

/-! ## routes -/

theorem mk'_fresh (i : Nat) (o : Int) (l : List P) : (Seg.mk' i o l).line = (Seg.mk' i o l).full := rfl

/-- **a route relation's joined line geometry preserves every segment of its member ways**: every member
    line is used in exactly one output line (possibly reversed), and each output line has exactly the
    edges of the member lines it is glued from -/
theorem route_preserves_segments (lines : List Seg) (h : FreshInput lines) :
    (((join lines).flatten).map norm).Perm ((compact lines).map norm) ∧ ∀ ms ∈ join lines, Chain ms :=
  ⟨join_partitions_input lines h, join_preserves_edges lines h⟩

/-! ## options only subtract -/

/-- what the three presentation options may change on a feature -/
def restrict (o : Opts) (f : Feature) : Feature :=
  { f with idSet := f.idSet && !o.noID,
           metaKeys := if o.noMeta then none else f.metaKeys,
           relations := if o.noRelationMembership then none else f.relations }

/-- **NoID, NoMeta and NoRelationMembership change nothing about nodes but what they document**:
    the same nodes are converted, with the same type, id, geometry, tags and taint; only the id string,
    the meta object and the relations list are dropped -/
theorem node_options_only_subtract (o : Opts) (d : Data) (n : NodeE) :
    nodePass o d n = (nodePass { o with noID := false, noMeta := false, noRelationMembership := false } d n).map (restrict o) := by
  unfold nodePass nodeToFeature
  rw [membership_node_indep o { o with noID := false, noMeta := false, noRelationMembership := false } d n.id]
  split
  · rfl
  · split
    · rfl
    · simp only [Option.map_some, restrict, relationsProp, metaProp]
      have hm : ∀ (h : o.noRelationMembership = false), membership o d .node n.id =
          membership { o with noID := false, noMeta := false, noRelationMembership := false } d .node n.id :=
        fun h => membership_congr _ _ d _ _ h
      congr 1
      cases hn : o.noID <;> cases hmm : o.noMeta <;> cases hr : o.noRelationMembership <;> simp [hm, hr]

/-- … and the same for ways -/
theorem way_options_only_subtract (o : Opts) (d : Data) (isP : WayE → Bool) (w : WayE) :
    wayToFeature o d isP w =
      (wayToFeature { o with noID := false, noMeta := false, noRelationMembership := false } d isP w).map (restrict o) := by
  unfold wayToFeature
  generalize wayToLineString d w = r
  obtain ⟨ls, t⟩ := r
  simp only
  split
  · rfl
  · simp only [Option.map_some, restrict, relationsProp, metaProp]
    have hm : ∀ (h : o.noRelationMembership = false), membership o d .way w.id =
        membership { o with noID := false, noMeta := false, noRelationMembership := false } d .way w.id :=
      fun h => membership_congr _ _ d _ _ h
    congr 1
    cases hn : o.noID <;> cases hmm : o.noMeta <;> cases hr : o.noRelationMembership <;> simp [hm, hr]

/-! ## non-vacuity -/
def exData : Data := {
  nodes := [⟨1, 2, 3, [("name", "x")], { version := 1 }⟩, ⟨2, 5, 5, [], { version := 1 }⟩, ⟨3, 9, 9, [], { version := 1 }⟩],
  ways := [⟨7, [⟨1, 0, 0⟩, ⟨2, 0, 0⟩], [("highway", "path")], {}⟩],
  relations := [] }
example : (convert {} (fun _ => false) exData).map (fun f => (f.kind, f.id)) = [("way", 7), ("node", 1), ("node", 3)] := by decide

/-! ## options on the whole output, relation features included -/

/-- the same options with NoID and NoMeta switched off -/
def base (o : Opts) : Opts := { o with noID := false, noMeta := false }

/-- what NoID and NoMeta document: the feature id string is not set / the meta object is not added -/
def strip (o : Opts) (f : Feature) : Feature :=
  { f with idSet := !o.noID, metaKeys := if o.noMeta then none else f.metaKeys }

theorem relationsProp_base (o : Opts) (d : Data) (t : MType) (id : Int) : relationsProp (base o) d t id = relationsProp o d t id := by
  simp [relationsProp, membership, base]

theorem metaProp_strip (o : Opts) (m : Meta) : (if o.noMeta then none else metaProp (base o) m) = metaProp o m := by
  simp [metaProp, base]

theorem nodeToFeature_strip (o : Opts) (d : Data) (n : NodeE) :
    nodeToFeature o d n = (nodeToFeature (base o) d n).map (strip o) := by
  unfold nodeToFeature
  split
  · rfl
  · simp only [Option.map_some, strip, relationsProp_base, metaProp_strip]

theorem wayToFeature_strip (o : Opts) (d : Data) (isP : WayE → Bool) (w : WayE) :
    wayToFeature o d isP w = (wayToFeature (base o) d isP w).map (strip o) := by
  unfold wayToFeature
  simp only
  split
  · rfl
  · simp only [Option.map_some, strip, relationsProp_base, metaProp_strip]

theorem buildRoute_strip (o : Opts) (d : Data) (r : RelationE) (skip : Skip) :
    buildRoute o d r skip = ((buildRoute (base o) d r skip).1.map (strip o), (buildRoute (base o) d r skip).2) := by
  unfold buildRoute
  simp only
  split
  · rfl
  · simp only [Option.map_some, strip, relationsProp_base, metaProp_strip]

theorem buildPolygon_strip (o : Opts) (d : Data) (r : RelationE) (skip : Skip) :
    buildPolygon o d r skip = ((buildPolygon (base o) d r skip).1.map (strip o), (buildPolygon (base o) d r skip).2) := by
  have hinc : (base o).includeInvalidPolygons = o.includeInvalidPolygons := rfl
  unfold buildPolygon
  simp only [hinc]
  split
  · rfl
  · split
    · split
      · rfl
      · split
        · split <;> simp only [Option.map_some, strip, relationsProp_base, metaProp_strip]
        · simp only [Option.map_some, strip, relationsProp_base, metaProp_strip]
    · split
      · rfl
      · split
        · rfl
        · simp only [Option.map_some, strip, relationsProp_base, metaProp_strip]
        · simp only [Option.map_some, strip, relationsProp_base, metaProp_strip]

theorem relationPass_strip (o : Opts) (d : Data) :
    relationPass o d = ((relationPass (base o) d).1.map (strip o), (relationPass (base o) d).2) := by
  unfold relationPass
  generalize d.relations = rs
  -- generalise the accumulator
  have key : ∀ (rs : List RelationE) (acc : List Feature × Skip),
      rs.foldl (fun (st : List Feature × Skip) r =>
        let tt := findTag r.tags "type"
        if tt = "route" then
          let (f, s) := buildRoute o d r st.2
          (st.1 ++ f.toList, s)
        else if tt = "multipolygon" ∨ tt = "boundary" then
          let (f, s) := buildPolygon o d r st.2
          (st.1 ++ f.toList, s)
        else st) (acc.1.map (strip o), acc.2) =
      (((rs.foldl (fun (st : List Feature × Skip) r =>
        let tt := findTag r.tags "type"
        if tt = "route" then
          let (f, s) := buildRoute (base o) d r st.2
          (st.1 ++ f.toList, s)
        else if tt = "multipolygon" ∨ tt = "boundary" then
          let (f, s) := buildPolygon (base o) d r st.2
          (st.1 ++ f.toList, s)
        else st) acc).1.map (strip o)),
       (rs.foldl (fun (st : List Feature × Skip) r =>
        let tt := findTag r.tags "type"
        if tt = "route" then
          let (f, s) := buildRoute (base o) d r st.2
          (st.1 ++ f.toList, s)
        else if tt = "multipolygon" ∨ tt = "boundary" then
          let (f, s) := buildPolygon (base o) d r st.2
          (st.1 ++ f.toList, s)
        else st) acc).2) := by
    intro rs
    induction rs with
    | nil => intro acc; rfl
    | cons r rest ih =>
      intro acc
      simp only [List.foldl_cons]
      by_cases h1 : findTag r.tags "type" = "route"
      · simp only [h1, if_true]
        rw [buildRoute_strip o d r acc.2]
        have := ih (acc.1 ++ (buildRoute (base o) d r acc.2).1.toList, (buildRoute (base o) d r acc.2).2)
        simp only [List.map_append] at this
        cases hb : (buildRoute (base o) d r acc.2).1 <;> simp only [hb, Option.map_none, Option.map_some, Option.toList_none, Option.toList_some, List.map_nil, List.map_cons] at this ⊢ <;> exact this
      · by_cases h2 : findTag r.tags "type" = "multipolygon" ∨ findTag r.tags "type" = "boundary"
        · simp only [h1, h2, if_true, if_false]
          rw [buildPolygon_strip o d r acc.2]
          have := ih (acc.1 ++ (buildPolygon (base o) d r acc.2).1.toList, (buildPolygon (base o) d r acc.2).2)
          simp only [List.map_append] at this
          cases hb : (buildPolygon (base o) d r acc.2).1 <;> simp only [hb, Option.map_none, Option.map_some, Option.toList_none, Option.toList_some, List.map_nil, List.map_cons] at this ⊢ <;> exact this
        · simp only [h1, h2, if_false]
          exact ih acc
  have := key rs ([], [])
  simpa using this

/-- **NoID and NoMeta change nothing but the id string and the meta object — on every feature, relation
    features included, and on the whole output** (order, geometry, tags, relation membership, which elements get
    a feature) -/
theorem convert_noid_nometa (o : Opts) (isP : WayE → Bool) (d : Data) :
    convert o isP d = (convert (base o) isP d).map (strip o) := by
  have hw : ∀ skip, wayPass o d isP skip = fun w => (wayPass (base o) d isP skip w).map (strip o) := by
    intro skip; funext w
    unfold wayPass
    split
    · rfl
    · exact wayToFeature_strip o d isP w
  have hn : nodePass o d = fun n => (nodePass (base o) d n).map (strip o) := by
    funext n
    unfold nodePass
    have hm : membership (base o) d .node n.id = membership o d .node n.id := by simp [membership, base]
    rw [hm]
    split
    · rfl
    · exact nodeToFeature_strip o d n
  unfold convert
  simp only
  rw [relationPass_strip o d, hw, hn]
  simp only [List.map_append, List.map_filterMap]

/-! ### NoRelationMembership -/

def withRels (o : Opts) : Opts := { o with noRelationMembership := false }

def dropRels (o : Opts) (f : Feature) : Feature :=
  { f with relations := if o.noRelationMembership then none else f.relations }

theorem relationsProp_drop (o : Opts) (d : Data) (t : MType) (id : Int) :
    (if o.noRelationMembership then none else relationsProp (withRels o) d t id) = relationsProp o d t id := by
  unfold relationsProp
  by_cases h : o.noRelationMembership = true
  · simp [h]
  · have : o.noRelationMembership = false := by simpa using h
    have hm := membership_congr (withRels o) o d t id (by simp [withRels, this])
    simp only [this, Bool.false_eq_true, if_false]
    rw [← hm]
    simp [withRels]

theorem metaProp_withRels (o : Opts) (m : Meta) : metaProp (withRels o) m = metaProp o m := rfl

theorem nodeToFeature_drop (o : Opts) (d : Data) (n : NodeE) :
    nodeToFeature o d n = (nodeToFeature (withRels o) d n).map (dropRels o) := by
  unfold nodeToFeature
  split
  · rfl
  · simp only [Option.map_some, dropRels, relationsProp_drop, metaProp_withRels]
    rfl

theorem wayToFeature_drop (o : Opts) (d : Data) (isP : WayE → Bool) (w : WayE) :
    wayToFeature o d isP w = (wayToFeature (withRels o) d isP w).map (dropRels o) := by
  unfold wayToFeature
  simp only
  split
  · rfl
  · simp only [Option.map_some, dropRels, relationsProp_drop, metaProp_withRels]
    rfl

theorem buildRoute_drop (o : Opts) (d : Data) (r : RelationE) (skip : Skip) :
    buildRoute o d r skip = ((buildRoute (withRels o) d r skip).1.map (dropRels o), (buildRoute (withRels o) d r skip).2) := by
  unfold buildRoute
  simp only
  split
  · rfl
  · simp only [Option.map_some, dropRels, relationsProp_drop, metaProp_withRels]
    rfl

theorem buildPolygon_drop (o : Opts) (d : Data) (r : RelationE) (skip : Skip) :
    buildPolygon o d r skip = ((buildPolygon (withRels o) d r skip).1.map (dropRels o), (buildPolygon (withRels o) d r skip).2) := by
  have hinc : (withRels o).includeInvalidPolygons = o.includeInvalidPolygons := rfl
  have hid : (withRels o).noID = o.noID := rfl
  unfold buildPolygon
  simp only [hinc, hid]
  split
  · rfl
  · split
    · split
      · rfl
      · split
        · split <;> simp only [Option.map_some, dropRels, relationsProp_drop, metaProp_withRels]
        · simp only [Option.map_some, dropRels, relationsProp_drop, metaProp_withRels]
    · split
      · rfl
      · split
        · rfl
        · simp only [Option.map_some, dropRels, relationsProp_drop, metaProp_withRels]
        · simp only [Option.map_some, dropRels, relationsProp_drop, metaProp_withRels]

theorem relationPass_drop (o : Opts) (d : Data) :
    relationPass o d = ((relationPass (withRels o) d).1.map (dropRels o), (relationPass (withRels o) d).2) := by
  unfold relationPass
  generalize d.relations = rs
  -- generalise the accumulator
  have key : ∀ (rs : List RelationE) (acc : List Feature × Skip),
      rs.foldl (fun (st : List Feature × Skip) r =>
        let tt := findTag r.tags "type"
        if tt = "route" then
          let (f, s) := buildRoute o d r st.2
          (st.1 ++ f.toList, s)
        else if tt = "multipolygon" ∨ tt = "boundary" then
          let (f, s) := buildPolygon o d r st.2
          (st.1 ++ f.toList, s)
        else st) (acc.1.map (dropRels o), acc.2) =
      (((rs.foldl (fun (st : List Feature × Skip) r =>
        let tt := findTag r.tags "type"
        if tt = "route" then
          let (f, s) := buildRoute (withRels o) d r st.2
          (st.1 ++ f.toList, s)
        else if tt = "multipolygon" ∨ tt = "boundary" then
          let (f, s) := buildPolygon (withRels o) d r st.2
          (st.1 ++ f.toList, s)
        else st) acc).1.map (dropRels o)),
       (rs.foldl (fun (st : List Feature × Skip) r =>
        let tt := findTag r.tags "type"
        if tt = "route" then
          let (f, s) := buildRoute (withRels o) d r st.2
          (st.1 ++ f.toList, s)
        else if tt = "multipolygon" ∨ tt = "boundary" then
          let (f, s) := buildPolygon (withRels o) d r st.2
          (st.1 ++ f.toList, s)
        else st) acc).2) := by
    intro rs
    induction rs with
    | nil => intro acc; rfl
    | cons r rest ih =>
      intro acc
      simp only [List.foldl_cons]
      by_cases h1 : findTag r.tags "type" = "route"
      · simp only [h1, if_true]
        rw [buildRoute_drop o d r acc.2]
        have := ih (acc.1 ++ (buildRoute (withRels o) d r acc.2).1.toList, (buildRoute (withRels o) d r acc.2).2)
        simp only [List.map_append] at this
        cases hb : (buildRoute (withRels o) d r acc.2).1 <;> simp only [hb, Option.map_none, Option.map_some, Option.toList_none, Option.toList_some, List.map_nil, List.map_cons] at this ⊢ <;> exact this
      · by_cases h2 : findTag r.tags "type" = "multipolygon" ∨ findTag r.tags "type" = "boundary"
        · simp only [h1, h2, if_true, if_false]
          rw [buildPolygon_drop o d r acc.2]
          have := ih (acc.1 ++ (buildPolygon (withRels o) d r acc.2).1.toList, (buildPolygon (withRels o) d r acc.2).2)
          simp only [List.map_append] at this
          cases hb : (buildPolygon (withRels o) d r acc.2).1 <;> simp only [hb, Option.map_none, Option.map_some, Option.toList_none, Option.toList_some, List.map_nil, List.map_cons] at this ⊢ <;> exact this
        · simp only [h1, h2, if_false]
          exact ih acc
  have := key rs ([], [])
  simpa using this

/-- **NoRelationMembership removes the relations list and nothing else** — from every feature; which elements get a
    feature (a node's interest through membership included), order, geometry, tags, meta stay as they are -/
theorem convert_norelmembership (o : Opts) (isP : WayE → Bool) (d : Data) :
    convert o isP d = (convert (withRels o) isP d).map (dropRels o) := by
  have hw : ∀ skip, wayPass o d isP skip = fun w => (wayPass (withRels o) d isP skip w).map (dropRels o) := by
    intro skip; funext w
    unfold wayPass
    split
    · rfl
    · exact wayToFeature_drop o d isP w
  have hn : nodePass o d = fun n => (nodePass (withRels o) d n).map (dropRels o) := by
    funext n
    unfold nodePass
    rw [membership_node_indep (withRels o) o d n.id]
    split
    · rfl
    · exact nodeToFeature_drop o d n
  unfold convert
  simp only
  rw [relationPass_drop o d, hw, hn]
  simp only [List.map_append, List.map_filterMap]


end OsmVerif.Props.C17
