import OsmVerif.Props.C16
/-!
# C17 — GeoJSON conversion maps elements to features exactly; options only subtract

Theorems about `Model.Convert` (hand-written model of osmgeojson/convert.go, tied to the code by the
differential stream through `osmgeojson.Convert` under all option combinations and by an independent
element → feature oracle).
-/
namespace OsmVerif.Props.C17
open OsmVerif.Model.Geo OsmVerif.Model.Convert OsmVerif.Props.C16

/-! ## at most one feature per input element -/

theorem relationPass_length (o : Opts) (d : Data) : (relationPass o d).1.length ≤ d.relations.length := by
  unfold relationPass
  suffices h : ∀ (rs : List RelationE) (st : List Feature × Skip),
      (rs.foldl (fun (st : List Feature × Skip) r =>
        let tt := findTag r.tags "type"
        if tt = "route" then
          let (f, s) := buildRoute o d r st.2
          (st.1 ++ f.toList, s)
        else if tt = "multipolygon" ∨ tt = "boundary" then
          let (f, s) := buildPolygon o d r st.2
          (st.1 ++ f.toList, s)
        else st) st).1.length ≤ st.1.length + rs.length by
    simpa using h d.relations ([], [])
  intro rs
  induction rs with
  | nil => intro st; simp
  | cons r rest ih =>
    intro st
    simp only [List.foldl_cons, List.length_cons]
    refine Nat.le_trans (ih _) ?_
    have hopt : ∀ f : Option Feature, f.toList.length ≤ 1 := by intro f; cases f <;> simp
    split
    · have := hopt (buildRoute o d r st.2).1
      simp only [List.length_append]; omega
    · split
      · have := hopt (buildPolygon o d r st.2).1
        simp only [List.length_append]; omega
      · omega

/-- **at most one feature per input element**: each relation, each way and each node gives rise to at most one -/
theorem one_feature_per_element (o : Opts) (isP : WayE → Bool) (d : Data) :
    (convert o isP d).length ≤ d.relations.length + d.ways.length + d.nodes.length := by
  unfold convert
  simp only [List.length_append]
  have h1 := relationPass_length o d
  have h2 := List.length_filterMap_le (wayPass o d isP (relationPass o d).2) d.ways
  have h3 := List.length_filterMap_le (nodePass o d) d.nodes
  omega

/-! ## nodes -/

/-- **a point for every located node that is not part of a way, or has an interesting tag, or is a relation member** -/
theorem node_feature_iff (o : Opts) (d : Data) (n : NodeE) :
    (nodePass o d n).isSome ↔
      ¬ (n.lon = 0 ∧ n.lat = 0 ∧ n.md.version = 0) ∧
      (isWayMember d n.id = false ∨ membership o d .node n.id ≠ [] ∨ hasInterestingTags n.tags none = true) := by
  unfold nodePass nodeToFeature
  by_cases hw : isWayMember d n.id = true <;> by_cases hm : membership o d .node n.id = [] <;>
    by_cases ht : hasInterestingTags n.tags none = true <;>
    by_cases hl : (n.lon = 0 ∧ n.lat = 0 ∧ n.md.version = 0) <;> simp [hw, hm, ht, hl]

/-- the node's feature carries its type, id, location and tags -/
theorem node_feature_content (o : Opts) (d : Data) (n : NodeE) (f : Feature) (h : nodePass o d n = some f) :
    f.kind = "node" ∧ f.id = n.id ∧ f.geom = .point (n.lon, n.lat) ∧ f.tags = tagMap n.tags ∧ f.idSet = !o.noID := by
  unfold nodePass nodeToFeature at h
  split at h
  · cases h
  · split at h
    · cases h
    · cases h; exact ⟨rfl, rfl, rfl, rfl, rfl⟩

theorem membership_congr (o o' : Opts) (d : Data) (t : MType) (id : Int)
    (h : o.noRelationMembership = o'.noRelationMembership) : membership o d t id = membership o' d t id := by
  unfold membership
  rw [h]

/-- the membership of a node does not depend on the relation-membership option (only way and relation
    members are left out of the map by it) -/
theorem membership_node_indep (o o' : Opts) (d : Data) (id : Int) :
    membership o d .node id = membership o' d .node id := by
  unfold membership
  congr 1; funext r
  congr 1; funext m
  by_cases hn : m.type = .node
  · simp [hn]
  · have : ¬ (m.type = MType.node ∧ m.ref = id) := fun h => hn h.1
    by_cases h1 : o.noRelationMembership = true <;> by_cases h2 : o'.noRelationMembership = true <;>
      by_cases h3 : (m.type = MType.way ∧ (findWay d m.ref).isNone = true) <;> simp [hn, h1, h2, h3, this]

/-! ## ways -/

/-- **a line, or for area ways a closed polygon, over the way's resolvable node coordinates in order** -/
theorem way_feature_geometry (o : Opts) (d : Data) (isP : WayE → Bool) (w : WayE) (f : Feature)
    (h : wayToFeature o d isP w = some f) :
    f.kind = "way" ∧ f.id = w.id ∧ f.tags = tagMap w.tags ∧ f.tainted = (wayToLineString d w).2 ∧
    (wayToLineString d w).1.length ≥ 2 ∧
    f.geom = (if isP w then Geom.polygon [reorientOuter (toRing (wayToLineString d w).1)]
              else Geom.lineString (wayToLineString d w).1) := by
  unfold wayToFeature at h
  generalize hls : wayToLineString d w = r at h ⊢
  obtain ⟨ls, t⟩ := r
  simp only at h ⊢
  split at h
  · cases h
  · rename_i hlen
    cases h
    exact ⟨rfl, rfl, rfl, rfl, by omega, rfl⟩

/-- the ring built for an area way is closed -/
theorem toRing_closed (ls : List P) (h : 2 ≤ ls.length) : (toRing ls).head? = (toRing ls).getLast? := by
  unfold toRing
  have h1 : ¬ ls.length < 2 := by omega
  simp only [h1, if_false]
  by_cases hc : ls.head? = ls.getLast?
  · simp [hc]
  · simp only [hc, ne_eq, not_false_eq_true, if_true]
    obtain ⟨a, b, t, rfl⟩ := two_le_split ls h
    have : ((a :: b :: t) ++ List.take 1 (a :: b :: t)).getLast? = some a := by
      rw [List.getLast?_append]; simp
    rw [this]; rfl

/-- … and wound counter-clockwise (when it has area at all) -/
theorem reorientOuter_ccw (r : List P) (hne : r ≠ []) (hclosed : r.head? = r.getLast?) (harea : area2 r ≠ 0) :
    ringOrientation (reorientOuter r) = 1 := by
  obtain ⟨p, t, rfl⟩ := List.exists_cons_of_ne_nil hne
  have hcl : (p :: t).getLast? = some p := by rw [← hclosed]; rfl
  unfold reorientOuter
  by_cases h : ringOrientation (p :: t) = 1
  · simp [h]
  · simp only [h, ne_eq, not_false_eq_true, if_true]
    rw [ringOrientation_eq_sgn] at h ⊢
    rw [area2_reverse_closed p t hcl]
    have s1 := sgn_spec (area2 (p :: t))
    have s2 := sgn_spec (- area2 (p :: t))
    omega

/-! ## routes -/

theorem mk'_fresh (i : Nat) (o : Int) (l : List P) : (Seg.mk' i o l).line = (Seg.mk' i o l).full := rfl

/-- **a route relation's joined line geometry preserves every segment of its member ways**: every member
    line is used in exactly one output line (possibly reversed), and each output line has exactly the
    edges of the member lines it is glued from -/
theorem route_preserves_segments (lines : List Seg) (h : FreshInput lines) :
    (((join lines).flatten).map norm).Perm ((compact lines).map norm) ∧ ∀ ms ∈ join lines, Chain ms :=
  ⟨join_partitions_input lines h, join_preserves_edges lines h⟩

/-! ## options only subtract -/

/-- what the three presentation options may change on a feature -/
def restrict (o : Opts) (f : Feature) : Feature :=
  { f with idSet := f.idSet && !o.noID,
           metaKeys := if o.noMeta then none else f.metaKeys,
           relations := if o.noRelationMembership then none else f.relations }

/-- **NoID, NoMeta and NoRelationMembership change nothing about nodes but what they document**:
    the same nodes are converted, with the same type, id, geometry, tags and taint; only the id string,
    the meta object and the relations list are dropped -/
theorem node_options_only_subtract (o : Opts) (d : Data) (n : NodeE) :
    nodePass o d n = (nodePass { o with noID := false, noMeta := false, noRelationMembership := false } d n).map (restrict o) := by
  unfold nodePass nodeToFeature
  rw [membership_node_indep o { o with noID := false, noMeta := false, noRelationMembership := false } d n.id]
  split
  · rfl
  · split
    · rfl
    · simp only [Option.map_some, restrict, relationsProp, metaProp]
      have hm : ∀ (h : o.noRelationMembership = false), membership o d .node n.id =
          membership { o with noID := false, noMeta := false, noRelationMembership := false } d .node n.id :=
        fun h => membership_congr _ _ d _ _ h
      congr 1
      cases hn : o.noID <;> cases hmm : o.noMeta <;> cases hr : o.noRelationMembership <;> simp [hm, hr]

/-- … and the same for ways -/
theorem way_options_only_subtract (o : Opts) (d : Data) (isP : WayE → Bool) (w : WayE) :
    wayToFeature o d isP w =
      (wayToFeature { o with noID := false, noMeta := false, noRelationMembership := false } d isP w).map (restrict o) := by
  unfold wayToFeature
  generalize wayToLineString d w = r
  obtain ⟨ls, t⟩ := r
  simp only
  split
  · rfl
  · simp only [Option.map_some, restrict, relationsProp, metaProp]
    have hm : ∀ (h : o.noRelationMembership = false), membership o d .way w.id =
        membership { o with noID := false, noMeta := false, noRelationMembership := false } d .way w.id :=
      fun h => membership_congr _ _ d _ _ h
    congr 1
    cases hn : o.noID <;> cases hmm : o.noMeta <;> cases hr : o.noRelationMembership <;> simp [hm, hr]

/-! ## non-vacuity -/
def exData : Data := {
  nodes := [⟨1, 2, 3, [("name", "x")], { version := 1 }⟩, ⟨2, 5, 5, [], { version := 1 }⟩, ⟨3, 9, 9, [], { version := 1 }⟩],
  ways := [⟨7, [⟨1, 0, 0⟩, ⟨2, 0, 0⟩], [("highway", "path")], {}⟩],
  relations := [] }
example : (convert {} (fun _ => false) exData).map (fun f => (f.kind, f.id)) = [("way", 7), ("node", 1), ("node", 3)] := by decide

end OsmVerif.Props.C17
