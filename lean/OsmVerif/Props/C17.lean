import OsmVerif.Model.Convert
namespace OsmVerif.Props.C17
open OsmVerif.Model.Convert
theorem tagMap_nil : tagMap [] = [] := rfl
end OsmVerif.Props.C17
