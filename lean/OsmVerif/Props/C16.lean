import OsmVerif.Lemmas.Geo
import OsmVerif.Lemmas.GeoClosed
import OsmVerif.Model.Convert
/-!
# C16 — multipolygon assembly: every piece used once, glued at shared points, nothing lost or invented

Theorems about `Model.Geo` / `Model.Convert` (hand-written models of internal/mputil and
osmgeojson/build_polygon.go, tied to the code by the differential stream through
`osmgeojson.Convert` and by a ground-truth ring oracle over all cut/reverse/order choices of small
instances). Segments enter `Join` untrimmed (`line = full`, the ghost field).
-/
namespace OsmVerif.Props.C16
open OsmVerif.Model.Geo OsmVerif.Model.Convert

/-- segments as `buildPolygon`, `buildRouteLineString` and `Group` hand them to `Join` -/
def FreshInput (segs : List Seg) : Prop := ∀ s ∈ segs, s.line = s.full

theorem compact_fresh (segs : List Seg) (h : FreshInput segs) : ∀ s ∈ compact segs, Fresh s := by
  intro s hs
  have := List.mem_filter.mp hs
  exact ⟨h s this.1, by have := this.2; simp at this; omega⟩

/-- **every input segment appears in exactly one output, possibly reversed** (`norm` forgets direction
    and trimming): for every list of member lines, any size, any order -/
theorem join_partitions_input (segs : List Seg) (h : FreshInput segs) :
    (((join segs).flatten).map norm).Perm ((compact segs).map norm) := by
  unfold join
  simpa using (joinAux_spec (compact segs).length (compact segs) [] (Nat.le_refl _) (compact_fresh segs h)
    (by intro ms hms; cases hms)).1

/-- **pieces are joined only at shared end points, and no coordinate is lost, duplicated or invented**:
    in every output group all pieces are non-empty and the edges (consecutive point pairs) of its
    line string are exactly the edges of its members' complete lines -/
theorem join_preserves_edges (segs : List Seg) (h : FreshInput segs) :
    ∀ ms ∈ join segs, Chain ms := by
  unfold join
  exact (joinAux_spec (compact segs).length (compact segs) [] (Nat.le_refl _) (compact_fresh segs h)
    (by intro ms hms; cases hms)).2

/-- the `reversed` flag records exactly whether a piece was turned around relative to how it entered -/
theorem rev_flag (s : Seg) : s.rev.reversed = !s.reversed ∧ s.rev.full = s.full.reverse ∧ s.rev.rev = s := by
  cases s; simp [Seg.rev]

/-! ## the growing of one group ends for a genuine reason -/

theorem findMatch_index (cur : List Seg) : ∀ segs i j cur', findMatch cur segs i = some (j, cur') →
    i ≤ j ∧ j < i + segs.length := by
  intro segs
  induction segs with
  | nil => intro i j cur' h; simp [findMatch] at h
  | cons s rest ih =>
    intro i j cur' h
    unfold findMatch at h
    simp only at h
    split at h
    · cases h; simp
    · split at h
      · cases h; simp
      · split at h
        · cases h; simp
        · split at h
          · cases h; simp
          · have := ih (i + 1) j cur' h
            simp; omega

/-- **termination**: with the fuel `Join` gives it (the number of remaining segments) a group stops growing
    only because it is closed, nothing is left, or no remaining segment touches either end — never for lack of fuel -/
theorem grow_complete : ∀ f cur segs, segs.length ≤ f →
    let r := grow f cur segs
    r.2 = [] ∨ msFirst r.1 = msLast r.1 ∨ findMatch r.1 r.2 0 = none := by
  intro f
  induction f with
  | zero =>
    intro cur segs h
    have : segs = [] := List.eq_nil_of_length_eq_zero (by omega)
    subst this; simp [grow]
  | succ f ih =>
    intro cur segs h
    unfold grow
    split
    · rename_i hc
      rcases hc with hc | hc
      · exact Or.inl hc
      · exact Or.inr (Or.inl hc)
    · split
      · rename_i hm; exact Or.inr (Or.inr hm)
      · rename_i i c1 hm
        have hi := findMatch_index cur segs 0 i c1 hm
        apply ih
        rw [List.length_eraseIdx]
        split <;> omega

/-! ## holes -/

/-- **each hole goes to the first outer that contains it**, the other polygons are untouched -/
theorem hole_assigned (pre : List (List (List P))) (poly : List (List P)) (post : List (List (List P)))
    (ring : List P) (inc : Bool)
    (hpre : ∀ q ∈ pre, polygonContains (q.headD []) ring = false)
    (hin : polygonContains (poly.headD []) ring = true) :
    addToMultiPolygon (pre ++ poly :: post) ring inc = pre ++ (poly ++ [ring]) :: post := by
  unfold addToMultiPolygon
  have : addToMultiPolygon.place ring (pre ++ poly :: post) = some (pre ++ (poly ++ [ring]) :: post) := by
    induction pre with
    | nil => simp only [List.nil_append, addToMultiPolygon.place, hin, if_true]
    | cons q qs ih =>
      have hq := hpre q (by simp)
      simp only [List.cons_append, addToMultiPolygon.place, hq, Bool.false_eq_true, if_false]
      rw [ih (fun x hx => hpre x (by simp [hx]))]
      rfl
  rw [this]

/-- a hole contained in no outer is dropped (unless invalid polygons are asked for): nothing is invented -/
theorem hole_without_outer (mp : List (List (List P))) (ring : List P)
    (h : ∀ q ∈ mp, polygonContains (q.headD []) ring = false) :
    addToMultiPolygon mp ring false = mp := by
  unfold addToMultiPolygon
  have : addToMultiPolygon.place ring mp = none := by
    induction mp with
    | nil => rfl
    | cons q qs ih =>
      simp only [addToMultiPolygon.place, h q (by simp), Bool.false_eq_true, if_false]
      rw [ih (fun x hx => h x (by simp [hx]))]
      rfl
  rw [this]; simp

/-! ## coordinates: node objects or annotated way nodes -/

def locate (d : Data) (wn : WayNode) : WayNode :=
  match (d.nodes.filter (fun n => n.id = wn.id)).getLast? with
  | some n => { wn with lon := n.lon, lat := n.lat }
  | none => wn

theorem foldl_located (d : Data) (ns : List WayNode)
    (hnodes : ∀ wn ∈ ns, wn.lon = 0 ∧ wn.lat = 0 ∧
      ∃ n, (d.nodes.filter (fun n => n.id = wn.id)).getLast? = some n ∧ (n.lon ≠ 0 ∨ n.lat ≠ 0)) :
    ∀ acc, (ns.map (locate d)).foldl (wlStep { d with nodes := [] }) acc = ns.foldl (wlStep d) acc := by
  induction ns with
  | nil => intro acc; rfl
  | cons wn rest ih =>
    intro acc
    obtain ⟨h1, h2, n, hn, hloc⟩ := hnodes wn (by simp)
    simp only [List.map_cons, List.foldl_cons]
    have : wlStep { d with nodes := [] } acc (locate d wn) = wlStep d acc wn := by
      unfold wlStep locate
      simp only [hn, h1, h2]
      rcases hloc with h | h <;> simp [h]
    rw [this]
    exact ih (fun x hx => hnodes x (by simp [hx])) _

/-- **the same geometry whether node locations come from separate node objects or from annotated way nodes**
    (no vertex at lon = 0, lat = 0, which means "no location") -/
theorem coords_source_independent (d : Data) (w : WayE)
    (hnodes : ∀ wn ∈ w.nodes, wn.lon = 0 ∧ wn.lat = 0 ∧
      ∃ n, (d.nodes.filter (fun n => n.id = wn.id)).getLast? = some n ∧ (n.lon ≠ 0 ∨ n.lat ≠ 0)) :
    wayToLineString { d with nodes := [] } { w with nodes := w.nodes.map (locate d) } = wayToLineString d w := by
  unfold wayToLineString
  exact foldl_located d w.nodes hnodes _

/-! ## winding -/

def sgn (a : Int) : Int := if a > 0 then 1 else if a < 0 then -1 else 0

theorem ringOrientation_eq_sgn (r : List P) : ringOrientation r = sgn (area2 r) := rfl

theorem sgn_spec (a : Int) : (a > 0 ∧ sgn a = 1) ∨ (a < 0 ∧ sgn a = -1) ∨ (a = 0 ∧ sgn a = 0) := by
  unfold sgn
  by_cases h1 : a > 0
  · exact Or.inl ⟨h1, by rw [if_pos h1]⟩
  · by_cases h2 : a < 0
    · exact Or.inr (Or.inl ⟨h2, by rw [if_neg h1, if_pos h2]⟩)
    · exact Or.inr (Or.inr ⟨by omega, by rw [if_neg h1, if_neg h2]⟩)

/-- **outers counter-clockwise, inners clockwise**: when the members carry no orientation annotation,
    `Ring(o)` of a closed group with non-zero area has exactly the requested winding -/
theorem ring_orientation (ms : List Seg) (o : Int) (ho : o = 1 ∨ o = -1)
    (hno : ∀ s ∈ ms, s.orientation = 0)
    (hne : lineOf ms ≠ []) (hclosed : (lineOf ms).head? = (lineOf ms).getLast?)
    (harea : area2 (lineOf ms) ≠ 0) :
    ringOrientation (ringOf ms o) = o := by
  obtain ⟨p, t, hpt⟩ := List.exists_cons_of_ne_nil hne
  have hcl : (p :: t).getLast? = some p := by rw [← hpt, ← hclosed, hpt]; rfl
  have hany1 : ms.any (fun s => decide (s.orientation ≠ 0)) = false := by
    rw [List.any_eq_false]; intro s hs; simp [hno s hs]
  have hany2 : ms.any (fun s => decide (s.orientation ≠ 0 ∧ (decide (s.orientation = o) = s.reversed))) = false := by
    rw [List.any_eq_false]; intro s hs; simp [hno s hs]
  unfold ringOf
  simp only [hany1, hany2, Bool.false_eq_true, false_and, not_false_eq_true, true_and, false_or]
  by_cases hor : ringOrientation (lineOf ms) = o
  · simp [hor]
  · simp only [hor, ne_eq, not_false_eq_true, if_true]
    have hrev := area2_reverse_closed p t hcl
    rw [← hpt] at hrev
    rw [ringOrientation_eq_sgn] at hor ⊢
    rw [hrev]
    have s1 := sgn_spec (area2 (lineOf ms))
    have s2 := sgn_spec (- area2 (lineOf ms))
    omega

/-! ## orientation annotation -/

/-- **annotation marks every way member with the direction in which that way runs around its ring**:
    whichever winding was asked for, a member traversed in its own direction gets the winding of the
    joined ring, a member that had to be turned around gets the opposite one -/
theorem orientation_annotation (ms : List Seg) (o : Int) (ho : o = 1 ∨ o = -1) :
    annotateOrientation ms o = ms.map (fun s => (s.idx, if s.reversed then - msOrientation ms else msOrientation ms)) := by
  unfold annotateOrientation
  have hm : msOrientation ms = 1 ∨ msOrientation ms = -1 := by
    unfold msOrientation; split <;> simp
  apply List.map_congr_left
  intro s _
  rcases ho with rfl | rfl <;> rcases hm with h | h <;> simp [h] <;> split <;> simp

/-! ## rings are closed again -/

/-- **every group `Join` builds from cut rings is closed**: if every end point of the pieces is shared by exactly two
    piece ends, no group is left open — for every number of rings and pieces, any cut positions, any directions
    and any order of the members -/
theorem join_groups_closed (segs : List Seg) (h : FreshInput segs) (hd : DegR (compact segs)) :
    ∀ g ∈ join segs, msFirst g = msLast g := by
  unfold join
  exact joinAux_closed (compact segs).length (compact segs) [] (Nat.le_refl _) (compact_fresh segs h) hd
    (by intro ms hms; cases hms)

/-- **each group is a whole connected component of the pieces**: no piece outside a group shares an end point
    with a piece inside it. Together with `join_preserves_edges` (inside a group consecutive pieces are glued at
    shared points) and `join_groups_closed`, the groups are exactly the closed chains of pieces that hang
    together through shared end points — for pieces cut from vertex-disjoint simple rings, the rings. -/
theorem join_groups_are_components (segs : List Seg) (h : FreshInput segs) (hd : DegR (compact segs))
    (l1 : List (List Seg)) (g : List Seg) (l2 : List (List Seg)) (hout : join segs = l1 ++ g :: l2) :
    ∀ p ∈ g.flatMap ends, p ∉ (l1 ++ l2).flatten.flatMap ends := by
  intro p hp
  have hperm := join_partitions_input segs h
  have hcount := count_ends_of_norm_perm _ _ hperm p
  have heven : EvenG g := by
    have := joinAux_even (compact segs).length (compact segs) [] (Nat.le_refl _) (compact_fresh segs h) hd
      (by intro ms hms; cases hms)
    apply this
    show g ∈ join segs
    rw [hout]; simp
  have hpos : 0 < (g.flatMap ends).count p := List.count_pos_iff.mpr hp
  have hg2 : (g.flatMap ends).count p = 2 := by rcases heven p with e | e <;> omega
  have htot := hd p
  rw [hout] at hcount
  have hsplit : ((l1 ++ g :: l2).flatten.flatMap ends).count p =
      ((l1 ++ l2).flatten.flatMap ends).count p + (g.flatMap ends).count p := by
    simp only [List.flatten_append, List.flatten_cons, List.flatMap_append, List.count_append]; omega
  rw [hsplit] at hcount
  have : ((l1 ++ l2).flatten.flatMap ends).count p = 0 := by omega
  exact List.count_eq_zero.mp this

/-- the condition holds for pieces cut from vertex-disjoint simple rings — every cut point is where exactly one piece
    ends and exactly one begins (start points pairwise distinct, and as a multiset equal to the stop points) —
    and it survives reversing any pieces and listing them in any order -/
theorem cut_rings_condition (segs : List Seg) (starts stops : List P)
    (hs : segs.map startOf = starts.map some) (ht : segs.map stopOf = stops.map some)
    (hperm : starts.Perm stops) (hnd : starts.Nodup) (flip : Seg → Bool) (shuffled : List Seg)
    (hsh : (segs.map fun s => if flip s then s.rev else s).Perm shuffled) : DegR shuffled :=
  degR_perm _ _ hsh (degR_rev segs flip (degR_of_starts_stops segs starts stops hs ht hperm hnd))

/-! ## non-vacuity: a square cut into three pieces (one reversed) and a two-piece triangle, shuffled -/
def exSegs : List Seg := [
  Seg.mk' 0 0 [(4,4),(0,4),(0,0)],
  Seg.mk' 1 0 [(4,0),(0,0)],
  Seg.mk' 2 0 [(1,1),(2,1)],
  Seg.mk' 3 0 [(4,0),(4,4)],
  Seg.mk' 4 0 [(1,1),(1,2),(2,1)]]
example : (join exSegs).map lineOf = [[(1,1),(1,2),(2,1),(1,1)], [(4,0),(4,4),(0,4),(0,0),(4,0)]] := by decide
example : FreshInput exSegs := by intro s hs; simp [exSegs] at hs; rcases hs with rfl | rfl | rfl | rfl | rfl <;> rfl
example : DegR (compact exSegs) := by
  intro p
  have hL : (compact exSegs).flatMap ends = [(4,4),(0,0),(4,0),(0,0),(1,1),(2,1),(4,0),(4,4),(1,1),(2,1)] := by decide
  rw [hL]
  by_cases h : p ∈ [((4,4) : P),(0,0),(4,0),(0,0),(1,1),(2,1),(4,0),(4,4),(1,1),(2,1)]
  · simp only [List.mem_cons, List.not_mem_nil, or_false] at h
    rcases h with rfl | rfl | rfl | rfl | rfl | rfl | rfl | rfl | rfl | rfl <;> decide
  · left; exact List.count_eq_zero.mpr h

end OsmVerif.Props.C16
