import OsmVerif.Model.Convert
namespace OsmVerif.Props.C16
open OsmVerif.Model.Geo
theorem compact_nil : compact [] = [] := rfl
end OsmVerif.Props.C16
