import OsmVerif.Props.C11
/-!
# C11 (continued) — a child that is not visible when the parent version is committed

With `IgnoreInconsistency` such a child leaves its slot unannotated, and the parent version still gets updates for
it: here it is proved **which** — the versions by *position* in the history, from the first one committed at or
after the parent's commit (position `countBefore cl P`, whatever the version *numbers* are: a history with a gap in
its numbers is no different) up to the usual end of the range, the deleted ones skipped. A seeded change that started
the range from the version number instead of the position (round 6 of Appendix C) is what this statement excludes.
-/
namespace OsmVerif.Props.C11
open OsmVerif.Model.Annotate

/-- the updates of the version at position `k`, none for a deleted version -/
def visibleUpdates (cl : List Child) (idxs : List Nat) (k : Nat) : List Update :=
  match cl[k]? with
  | some c => if c.visible then idxs.map (fun i => c.update i) else []
  | none => []

/-- ignoring inconsistencies the update loop never fails: it emits the visible versions of the range, by position -/
theorem rangeUpdates_ignore (o : Options) (hig : o.ignoreInconsistency = true) (pidx fid : Nat) (cl : List Child)
    (idxs : List Nat) : ∀ stop start,
      rangeUpdates o pidx fid cl idxs start stop = .ok ((versionRange start stop).flatMap (visibleUpdates cl idxs)) := by
  intro stop
  induction stop with
  | zero => intro start; simp [rangeUpdates, versionRange]
  | succ stop ih =>
    intro start
    unfold rangeUpdates
    by_cases hgt : start > stop
    · have : versionRange start (stop + 1) = [] := by
        apply List.eq_nil_iff_forall_not_mem.mpr
        intro k hk; have := (mem_versionRange _ _ _).mp hk; omega
      simp [hgt, this]
    · simp only [hgt, if_false]
      rw [ih start]
      have hle : start ≤ stop := by omega
      rw [versionRange_succ, List.flatMap_append]
      simp only [hle, if_true, bind, Except.bind, List.flatMap_cons, List.flatMap_nil, List.append_nil]
      cases hc : cl[stop]? with
      | none => simp [visibleUpdates, hc]
      | some c =>
        by_cases hv : c.visible = true
        · simp [visibleUpdates, hc, hv]
        · simp [visibleUpdates, hc, hv, hig]

/-- the last version committed strictly before `P` sits at position `countBefore cl P - 1` -/
theorem versionBefore_position (cl : List Child) (tl : Timeline cl) (P : Int) :
    (match versionBefore cl P with
      | some n => n.vindex + 1
      | none => 0) = countBefore cl P := by
  rw [versionBefore_commit cl P tl.regime tl.sorted, sorted_filter_lt_eq_take cl P tl.sorted]
  have hle := countBefore_le_length cl P
  generalize countBefore cl P = k at hle
  cases k with
  | zero => simp
  | succ k =>
    have hlen : (cl.take (k + 1)).length = k + 1 := by simp; omega
    have hlast : (cl.take (k + 1)).getLast? = cl[k]? := by
      rw [List.getLast?_eq_getElem?, hlen]
      simp [List.getElem?_take]
    rw [hlast]
    have hk : k < cl.length := by omega
    rw [List.getElem?_eq_getElem hk]
    simp only
    have := tl.indexed k cl[k] (List.getElem?_eq_getElem hk)
    omega

/-- **a child that is not visible at the parent's commit** (commit-time regime, `IgnoreInconsistency`): the slot
    stays unannotated and the parent version's updates for it are the visible versions at positions
    `countBefore cl P … nextVersionIndex none …`, in order — positions, not version numbers -/
theorem hidden_child_updates (o : Options) (hig : o.ignoreInconsistency = true) (parents : List ParentV) (fid : Nat)
    (cl : List Child) (tl : Timeline cl) (pidx : Nat) (idxs : List Nat) (p : ParentV) (hp : parents[pidx]? = some p)
    (hvis : p.visible = true) (P : Int) (hP : ParentCommit p P) (hhid : currentAt cl P = none) :
    groupEffect o parents fid cl pidx idxs = .ok (some
      { parent := pidx, sets := [],
        updates := (versionRange (countBefore cl P) (nextVersionIndex none cl parents[pidx + 1]? o)).flatMap
          (visibleUpdates cl idxs) }) := by
  unfold groupEffect
  simp only [hp, hvis, not_true_eq_false, if_false, parentTime hP, child_is_current_at_commit cl tl, hhid,
    Option.isNone_none, hig, not_true_eq_false, and_false, if_false]
  rw [rangeUpdates_ignore o hig]
  have hpos := versionBefore_position cl tl P
  cases hvb : versionBefore cl P with
  | none => rw [hvb] at hpos; simp only at hpos ⊢; rw [← hpos]
  | some n => rw [hvb] at hpos; simp only at hpos ⊢; rw [← hpos]

/-! non-vacuity: versions numbered 1, 3, 4 (2 is gone), the child deleted when the way is committed and undeleted
later: the update is version 4, found at position 2 -/
def exGap : List Child := [
  ⟨1, 11, 0, 1400000000, some 1400000000, 1, 1, true, false⟩,
  ⟨3, 13, 1, 1400000600, some 1400000600, 0, 0, false, false⟩,
  ⟨4, 14, 2, 1400001800, some 1400001800, 4, 4, true, false⟩]
def exGapParents : List ParentV := [⟨20, true, 1400001200, some 1400001200, [(7, false)]⟩]

theorem exGap_timeline : Timeline exGap := by
  refine ⟨?_, by unfold CommitSorted; decide, ?_⟩
  · intro c hc
    simp only [exGap, List.mem_cons, List.not_mem_nil, or_false] at hc
    rcases hc with rfl | rfl | rfl
    · exact ⟨1400000000, rfl, by decide⟩
    · exact ⟨1400000600, rfl, by decide⟩
    · exact ⟨1400001800, rfl, by decide⟩
  · intro k c h
    match k with
    | 0 => simp [exGap] at h; subst h; rfl
    | 1 => simp [exGap] at h; subst h; rfl
    | 2 => simp [exGap] at h; subst h; rfl
    | k + 3 => simp [exGap] at h

example : currentAt exGap 1400001200 = none := by decide
example : countBefore exGap 1400001200 = 2 := by decide
example : (match groupEffect ⟨1800, true, false, 0⟩ exGapParents 7 exGap 0 [1] with
    | .ok (some e) => (e.sets.length, e.updates.map (fun u => (u.index, u.version)))
    | _ => (9, [])) = (0, [(1, 4)]) := by decide

end OsmVerif.Props.C11
