import OsmVerif.Props.C20
/-!
# C20 (continued) — the URL of every id-addressed call, for every id and version

`C20.endpoints_eq_documented` says the recipes are the documented ones; here the recipes are *run* for every
argument: the `%d` endpoints produce `base ++ literal ++ decimal id [++ "/" ++ decimal version] ++ literal`,
and two calls of the same versioned endpoint with different `(id, version)` never share a URL (the path
splits back into exactly the id and the version that were asked for).
-/
namespace OsmVerif.Props.C20b
open OsmVerif.Gen.OsmApi OsmVerif.Model.OsmApi OsmVerif.Model.Text OsmVerif.Props.C20

/-- the endpoint of `endpoints` with a given name -/
def ep (n : String) : Option Endpoint := endpoints.find? (·.name = n)

/-- the three versioned calls and the path segment each documents -/
def versioned : List (String × String) :=
  [("NodeVersion", "/node/"), ("WayVersion", "/way/"), ("RelationVersion", "/relation/")]

/-- the recipes of the versioned endpoints, as regenerated: `%s<kind>%d/%d` with the base URL first -/
theorem versioned_recipes :
    versioned.all (fun p => (ep p.1).map (fun e => (e.recipe, e.format.toList, e.args))
      == some ("sprintf", '%' :: 's' :: p.2.toList ++ ['%', 'd', '/', '%', 'd'], ["ds.baseURL()", "id", "v"])) = true := by
  decide

theorem sprintf_lit : ∀ (k : List Char), '%' ∉ k → ∀ rest ss is fs,
    sprintf (k ++ rest) ss is fs = k ++ sprintf rest ss is fs := by
  intro k
  induction k with
  | nil => intros; rfl
  | cons c cs ih =>
    intro hc rest ss is fs
    have hc1 : c ≠ '%' := fun e => hc (by simp [e])
    have hcs : '%' ∉ cs := fun e => hc (by simp [e])
    rw [List.cons_append, sprintf.eq_def]
    split <;> simp_all
    next => rename_i h; rw [← h.2]; exact ih _ _ _ _

theorem sprintf_s (rest : List Char) (s : String) (ss is fs) :
    sprintf ('%' :: 's' :: rest) (s :: ss) is fs = s.toList ++ sprintf rest ss is fs := by
  rw [sprintf.eq_def]; simp

theorem sprintf_d (rest : List Char) (i : Int) (ss is fs) :
    sprintf ('%' :: 'd' :: rest) ss (i :: is) fs = showInt i ++ sprintf rest ss is fs := by
  rw [sprintf.eq_def]; split <;> simp_all
  next => rename_i h _ _ h3; exact (h3 rest h.1.symm h.2.symm).elim

theorem sprintf_nil (ss is fs) : sprintf [] ss is fs = [] := by
  rw [sprintf.eq_def]

theorem sprintf_version (kind base : List Char) (hk : '%' ∉ kind) (id v : Int) :
    sprintf ('%' :: 's' :: (kind ++ ['%', 'd', '/', '%', 'd'])) [String.ofList base] [id, v] []
      = base ++ kind ++ showInt id ++ '/' :: showInt v := by
  rw [sprintf_s, sprintf_lit kind hk, sprintf_d, show (['/', '%', 'd'] : List Char) = ['/'] ++ ['%', 'd'] from rfl,
    sprintf_lit ['/'] (by decide), sprintf_d, sprintf_nil]
  simp

/-- **versioned calls, every id and version**: the URL is the base, the documented segment, the decimal id,
    a slash and the decimal version — nothing else -/
theorem version_url (n kind : String) (h : (n, kind) ∈ versioned) (base : List Char) (id v : Nat) :
    (ep n).map (fun e => (buildURL e ⟨String.ofList base, [id, v], [], "", ""⟩).toList)
      = some (base ++ kind.toList ++ Nat.toDigits 10 id ++ '/' :: Nat.toDigits 10 v) := by
  simp only [versioned, List.mem_cons, Prod.mk.injEq, List.not_mem_nil, or_false] at h
  rcases h with ⟨rfl, rfl⟩ | ⟨rfl, rfl⟩ | ⟨rfl, rfl⟩
  · have he : ep "NodeVersion" = some { name := "NodeVersion", recipe := "sprintf", format := "%s/node/%d/%d", args := ["ds.baseURL()", "id", "v"], option := "none", selector := "o.Nodes[0]", guard := "len(o.Nodes) != 1" } := by decide
    have hf : ("%s/node/%d/%d" : String).toList = '%' :: 's' :: ("/node/".toList ++ ['%', 'd', '/', '%', 'd']) := by decide
    rw [he]
    simp only [Option.map_some, buildURL, strArgs, if_true, hf]
    simp only [List.filterMap, String.reduceEq, reduceIte, or_self, String.toList_ofList]
    rw [sprintf_version _ _ (by decide)]
    simp [showInt_natCast]
  · have he : ep "WayVersion" = some { name := "WayVersion", recipe := "sprintf", format := "%s/way/%d/%d", args := ["ds.baseURL()", "id", "v"], option := "none", selector := "o.Ways[0]", guard := "len(o.Ways) != 1" } := by decide
    have hf : ("%s/way/%d/%d" : String).toList = '%' :: 's' :: ("/way/".toList ++ ['%', 'd', '/', '%', 'd']) := by decide
    rw [he]
    simp only [Option.map_some, buildURL, strArgs, if_true, hf]
    simp only [List.filterMap, String.reduceEq, reduceIte, or_self, String.toList_ofList]
    rw [sprintf_version _ _ (by decide)]
    simp [showInt_natCast]
  · have he : ep "RelationVersion" = some { name := "RelationVersion", recipe := "sprintf", format := "%s/relation/%d/%d", args := ["ds.baseURL()", "id", "v"], option := "none", selector := "o.Relations[0]", guard := "len(o.Relations) != 1" } := by decide
    have hf : ("%s/relation/%d/%d" : String).toList = '%' :: 's' :: ("/relation/".toList ++ ['%', 'd', '/', '%', 'd']) := by decide
    rw [he]
    simp only [Option.map_some, buildURL, strArgs, if_true, hf]
    simp only [List.filterMap, String.reduceEq, reduceIte, or_self, String.toList_ofList]
    rw [sprintf_version _ _ (by decide)]
    simp [showInt_natCast]

theorem slash_not_digit : ('/' : Char).isDigit = false := by decide

/-- the `id/version` tail of a versioned URL splits back into exactly that id and version -/
theorem version_path_decodes (id v : Nat) :
    (splitOn '/' (Nat.toDigits 10 id ++ '/' :: Nat.toDigits 10 v)).map parseNat = [some id, some v] := by
  rw [splitOn_append _ _ _ (sep_not_mem_toDigits _ _ slash_not_digit),
      splitOn_of_not_mem _ _ (sep_not_mem_toDigits _ _ slash_not_digit)]
  simp [parseNat_toDigits]

/-- **distinct (id, version) requests go to distinct URLs** of the same versioned endpoint, under any base -/
theorem version_url_injective (n kind : String) (h : (n, kind) ∈ versioned) (base : List Char) (id v id' v' : Nat)
    (e : (ep n).map (fun e => buildURL e ⟨String.ofList base, [id, v], [], "", ""⟩)
       = (ep n).map (fun e => buildURL e ⟨String.ofList base, [id', v'], [], "", ""⟩)) :
    id = id' ∧ v = v' := by
  have h1 := version_url n kind h base id v
  have h2 := version_url n kind h base id' v'
  have e' := congrArg (Option.map String.toList) e
  simp only [Option.map_map, Function.comp_def] at e'
  rw [h1, h2] at e'
  simp only [List.append_assoc] at e'
  have e2 := List.append_cancel_left (List.append_cancel_left (Option.some.inj e'))
  have d1 := version_path_decodes id v
  rw [e2, version_path_decodes] at d1
  simp only [List.cons.injEq, Option.some.injEq, and_true] at d1
  exact ⟨d1.1.symm, d1.2.symm⟩

/-! non-vacuity: a concrete call -/
example : (ep "WayVersion").map (fun e => buildURL e ⟨"http://x/api/0.6", [77, 12], [], "", ""⟩)
    = some "http://x/api/0.6/way/77/12" := by decide

end OsmVerif.Props.C20b
