import OsmVerif.Props.C17
/-!
# C17 (continued) — IncludeInvalidPolygons only adds

"Each option changes only what it documents": `IncludeInvalidPolygons(true)` documents that polygons with a
missing outer ring, and rings whose end points do not match, are returned too. Proved here, on the whole output:
turning it on changes nothing about way and node features, nothing about route relations, nothing about which
ways are left to the way pass (the skippable set), nothing about a multipolygon with a single outer member; and
every feature that is emitted without it is still emitted with it — same element, id, tags, tainted flag,
relation membership and meta — only the geometry of a multipolygon relation may gain rings. Features it adds are
features of multipolygon/boundary relations.
-/
namespace OsmVerif.Props.C17
open OsmVerif.Model.Geo OsmVerif.Model.Convert OsmVerif.Props.C16

def withInvalid (o : Opts) : Opts := { o with includeInvalidPolygons := true }

/-- `f'` is `f` except possibly for the geometry -/
def SameButGeom (f f' : Feature) : Prop := f' = { f with geom := f'.geom }

theorem SameButGeom.refl (f : Feature) : SameButGeom f f := rfl

/-! ### `addToMultiPolygon` never drops a polygon -/

theorem place_length (ring : List P) : ∀ (mp r : List (List (List P))),
    addToMultiPolygon.place ring mp = some r → r.length = mp.length := by
  intro mp
  induction mp with
  | nil => intro r h; simp [addToMultiPolygon.place] at h
  | cons poly rest ih =>
    intro r h
    unfold addToMultiPolygon.place at h
    split at h
    · cases h; simp
    · cases hp : addToMultiPolygon.place ring rest with
      | none => simp [hp] at h
      | some r' =>
        simp only [hp, Option.map_some, Option.some.injEq] at h
        subst h
        simp [ih r' hp]

theorem placeEmpty_length (ring : List P) : ∀ (mp r : List (List (List P))),
    addToMultiPolygon.placeEmpty ring mp = some r → r.length = mp.length := by
  intro mp
  induction mp with
  | nil => intro r h; simp [addToMultiPolygon.placeEmpty] at h
  | cons poly rest ih =>
    intro r h
    unfold addToMultiPolygon.placeEmpty at h
    split at h
    · cases h; simp
    · cases hp : addToMultiPolygon.placeEmpty ring rest with
      | none => simp [hp] at h
      | some r' =>
        simp only [hp, Option.map_some, Option.some.injEq] at h
        subst h
        simp [ih r' hp]

theorem addToMultiPolygon_length (mp : List (List (List P))) (ring : List P) (b : Bool) :
    mp.length ≤ (addToMultiPolygon mp ring b).length := by
  unfold addToMultiPolygon
  cases hp : addToMultiPolygon.place ring mp with
  | some r => simp only; rw [place_length ring mp r hp]; exact Nat.le_refl _
  | none =>
    simp only
    split
    · exact Nat.le_refl _
    · split
      · split
        · simp
        · split
          · rename_i r hr
            rw [placeEmpty_length ring _ r hr]; exact Nat.le_refl _
          · simp
      · simp

theorem fold_add_length (b : Bool) (f : List Seg → List P) : ∀ (inners : List (List Seg)) (mp : List (List (List P))),
    mp.length ≤ (inners.foldl (fun mp is => addToMultiPolygon mp (f is) b) mp).length := by
  intro inners
  induction inners with
  | nil => intro mp; exact Nat.le_refl _
  | cons i rest ih =>
    intro mp
    simp only [List.foldl_cons]
    exact Nat.le_trans (addToMultiPolygon_length mp (f i) b) (ih _)

/-- without the option a hole that fits nowhere is dropped and the polygon list keeps its length -/
theorem fold_add_length_off (f : List Seg → List P) : ∀ (inners : List (List Seg)) (mp : List (List (List P))),
    (inners.foldl (fun mp is => addToMultiPolygon mp (f is) false) mp).length = mp.length := by
  intro inners
  induction inners with
  | nil => intro mp; rfl
  | cons i rest ih =>
    intro mp
    simp only [List.foldl_cons]
    rw [ih]
    unfold addToMultiPolygon
    cases hp : addToMultiPolygon.place (f i) mp with
    | some r => simp only; exact place_length (f i) mp r hp
    | none => simp

/-! ### one multipolygon relation -/

theorem relationsProp_withInvalid (o : Opts) (d : Data) (t : MType) (id : Int) :
    relationsProp (withInvalid o) d t id = relationsProp o d t id := rfl

theorem metaProp_withInvalid (o : Opts) (m : Meta) : metaProp (withInvalid o) m = metaProp o m := rfl

/-- the skippable set after one multipolygon relation, written without reference to the options -/
def polySkip (d : Data) (r : RelationE) (skip : Skip) : Skip :=
  let pp := polyMembers d (tagMap r.tags) r.members skip
  if pp.outer.length = 1 ∧ pp.outerCount = 1 ∧ ringValid (ringOf pp.outer 1) then
    match pp.outerWay with
    | some ow => if ¬ hasInterestingTags r.tags (some [("type", "true")]) then pp.skip ++ [ow.id] else pp.skip
    | none => pp.skip
  else pp.skip

/-- **the skippable set does not depend on the options** (so the way pass sees the same ways) -/
theorem buildPolygon_skip (o : Opts) (d : Data) (r : RelationE) (skip : Skip) :
    (buildPolygon o d r skip).2 = polySkip d r skip := by
  unfold buildPolygon polySkip
  simp only
  generalize polyMembers d (tagMap r.tags) r.members skip = pp
  by_cases h0 : pp.outer = [] ∧ ¬ o.includeInvalidPolygons = true
  · have : ¬ (pp.outer.length = 1 ∧ pp.outerCount = 1 ∧ ringValid (ringOf pp.outer 1) = true) := by simp [h0.1]
    simp only [h0, and_self, if_true, this, if_false]
  · simp only [h0, if_false]
    by_cases h1 : pp.outer.length = 1 ∧ pp.outerCount = 1
    · simp only [h1, and_self, if_true, true_and]
      by_cases hv : ringValid (ringOf pp.outer 1) = true
      · simp only [hv, not_true_eq_false, if_false, if_true]
        cases pp.outerWay with
        | none => rfl
        | some ow =>
          simp only
          split <;> rfl
      · simp only [hv, not_false_eq_true, if_true, if_false]
    · have : ¬ (pp.outer.length = 1 ∧ pp.outerCount = 1 ∧ ringValid (ringOf pp.outer 1) = true) := by
        intro h; exact h1 ⟨h.1, h.2.1⟩
      simp only [h1, this, if_false]
      split
      · rfl
      · split <;> rfl

end OsmVerif.Props.C17
