import OsmVerif.Props.C17
/-!
# C17 (continued) — IncludeInvalidPolygons only adds

"Each option changes only what it documents": `IncludeInvalidPolygons(true)` documents that polygons with a
missing outer ring, and rings whose end points do not match, are returned too. Proved here, on the whole output:
turning it on changes nothing about way and node features, nothing about route relations, nothing about which
ways are left to the way pass (the skippable set), nothing about a multipolygon with a single outer member; and
every feature that is emitted without it is still emitted with it — same element, id, tags, tainted flag,
relation membership and meta — only the geometry of a multipolygon relation may gain rings. Features it adds are
features of multipolygon/boundary relations.
-/
namespace OsmVerif.Props.C17
open OsmVerif.Model.Geo OsmVerif.Model.Convert OsmVerif.Props.C16

def withInvalid (o : Opts) : Opts := { o with includeInvalidPolygons := true }

/-- `f'` is `f` except possibly for the geometry -/
def SameButGeom (f f' : Feature) : Prop := f' = { f with geom := f'.geom }

theorem SameButGeom.refl (f : Feature) : SameButGeom f f := rfl

/-! ### `addToMultiPolygon` never drops a polygon -/

theorem place_length (ring : List P) : ∀ (mp r : List (List (List P))),
    addToMultiPolygon.place ring mp = some r → r.length = mp.length := by
  intro mp
  induction mp with
  | nil => intro r h; simp [addToMultiPolygon.place] at h
  | cons poly rest ih =>
    intro r h
    unfold addToMultiPolygon.place at h
    split at h
    · cases h; simp
    · cases hp : addToMultiPolygon.place ring rest with
      | none => simp [hp] at h
      | some r' =>
        simp only [hp, Option.map_some, Option.some.injEq] at h
        subst h
        simp [ih r' hp]

theorem placeEmpty_length (ring : List P) : ∀ (mp r : List (List (List P))),
    addToMultiPolygon.placeEmpty ring mp = some r → r.length = mp.length := by
  intro mp
  induction mp with
  | nil => intro r h; simp [addToMultiPolygon.placeEmpty] at h
  | cons poly rest ih =>
    intro r h
    unfold addToMultiPolygon.placeEmpty at h
    split at h
    · cases h; simp
    · cases hp : addToMultiPolygon.placeEmpty ring rest with
      | none => simp [hp] at h
      | some r' =>
        simp only [hp, Option.map_some, Option.some.injEq] at h
        subst h
        simp [ih r' hp]

theorem addToMultiPolygon_length (mp : List (List (List P))) (ring : List P) (b : Bool) :
    mp.length ≤ (addToMultiPolygon mp ring b).length := by
  unfold addToMultiPolygon
  cases hp : addToMultiPolygon.place ring mp with
  | some r => simp only; rw [place_length ring mp r hp]; exact Nat.le_refl _
  | none =>
    simp only
    split
    · exact Nat.le_refl _
    · split
      · split
        · simp
        · split
          · rename_i r hr
            rw [placeEmpty_length ring _ r hr]; exact Nat.le_refl _
          · simp
      · simp

theorem fold_add_length (b : Bool) (f : List Seg → List P) : ∀ (inners : List (List Seg)) (mp : List (List (List P))),
    mp.length ≤ (inners.foldl (fun mp is => addToMultiPolygon mp (f is) b) mp).length := by
  intro inners
  induction inners with
  | nil => intro mp; exact Nat.le_refl _
  | cons i rest ih =>
    intro mp
    simp only [List.foldl_cons]
    exact Nat.le_trans (addToMultiPolygon_length mp (f i) b) (ih _)

/-- without the option a hole that fits nowhere is dropped and the polygon list keeps its length -/
theorem fold_add_length_off (f : List Seg → List P) : ∀ (inners : List (List Seg)) (mp : List (List (List P))),
    (inners.foldl (fun mp is => addToMultiPolygon mp (f is) false) mp).length = mp.length := by
  intro inners
  induction inners with
  | nil => intro mp; rfl
  | cons i rest ih =>
    intro mp
    simp only [List.foldl_cons]
    rw [ih]
    unfold addToMultiPolygon
    cases hp : addToMultiPolygon.place (f i) mp with
    | some r => simp only; exact place_length (f i) mp r hp
    | none => simp

/-! ### one multipolygon relation -/

theorem relationsProp_withInvalid (o : Opts) (d : Data) (t : MType) (id : Int) :
    relationsProp (withInvalid o) d t id = relationsProp o d t id := rfl

theorem metaProp_withInvalid (o : Opts) (m : Meta) : metaProp (withInvalid o) m = metaProp o m := rfl

/-- the skippable set after one multipolygon relation, written without reference to the options -/
def polySkip (d : Data) (r : RelationE) (skip : Skip) : Skip :=
  let pp := polyMembers d (tagMap r.tags) r.members skip
  if pp.outer.length = 1 ∧ pp.outerCount = 1 ∧ ringValid (ringOf pp.outer 1) then
    match pp.outerWay with
    | some ow => if ¬ hasInterestingTags r.tags (some [("type", findTag r.tags "type")]) then pp.skip ++ [ow.id] else pp.skip
    | none => pp.skip
  else pp.skip

/-- **the skippable set does not depend on the options** (so the way pass sees the same ways) -/
theorem buildPolygon_skip (o : Opts) (d : Data) (r : RelationE) (skip : Skip) :
    (buildPolygon o d r skip).2 = polySkip d r skip := by
  unfold buildPolygon polySkip
  simp only
  generalize polyMembers d (tagMap r.tags) r.members skip = pp
  by_cases h0 : pp.outer = [] ∧ ¬ o.includeInvalidPolygons = true
  · have : ¬ (pp.outer.length = 1 ∧ pp.outerCount = 1 ∧ ringValid (ringOf pp.outer 1) = true) := by simp [h0.1]
    rw [if_pos h0, if_neg this]
  · rw [if_neg h0]
    by_cases h1 : pp.outer.length = 1 ∧ pp.outerCount = 1
    · rw [if_pos h1]
      by_cases hv : ringValid (ringOf pp.outer 1) = true
      · have h3 : pp.outer.length = 1 ∧ pp.outerCount = 1 ∧ ringValid (ringOf pp.outer 1) = true := ⟨h1.1, h1.2, hv⟩
        rw [if_neg (by simpa using hv), if_pos h3]
        cases pp.outerWay with
        | none => rfl
        | some ow =>
          simp only
          split <;> rfl
      · have h3 : ¬ (pp.outer.length = 1 ∧ pp.outerCount = 1 ∧ ringValid (ringOf pp.outer 1) = true) := fun h => hv h.2.2
        rw [if_pos hv, if_neg h3]
    · have : ¬ (pp.outer.length = 1 ∧ pp.outerCount = 1 ∧ ringValid (ringOf pp.outer 1) = true) := by
        intro h; exact h1 ⟨h.1, h.2.1⟩
      rw [if_neg h1, if_neg this]
      split
      · rfl
      · split <;> rfl

theorem withInvalid_noID (o : Opts) : (withInvalid o).noID = o.noID := rfl
theorem withInvalid_inc (o : Opts) : (withInvalid o).includeInvalidPolygons = true := rfl

theorem filterMap_length_mono {α β : Type} (f g : α → Option β) (l : List α) (h : ∀ a, (f a).isSome → (g a).isSome) :
    (l.filterMap f).length ≤ (l.filterMap g).length := by
  induction l with
  | nil => simp
  | cons a rest ih =>
    simp only [List.filterMap_cons]
    cases hf : f a with
    | none =>
      cases hg : g a with
      | none => simpa using ih
      | some y => simp only [List.length_cons]; omega
    | some x =>
      have := h a (by simp [hf])
      cases hg : g a with
      | none => simp [hg] at this
      | some y => simp only [List.length_cons]; omega

/-- **turning the option on never loses a feature and changes nothing but its geometry** -/
theorem buildPolygon_keeps (o : Opts) (hoff : o.includeInvalidPolygons = false) (d : Data) (r : RelationE) (skip : Skip)
    (f : Feature) (h : (buildPolygon o d r skip).1 = some f) :
    ∃ f', (buildPolygon (withInvalid o) d r skip).1 = some f' ∧ SameButGeom f f' := by
  unfold buildPolygon at h ⊢
  simp only [relationsProp_withInvalid, metaProp_withInvalid, withInvalid_noID, withInvalid_inc, hoff] at h ⊢
  generalize polyMembers d (tagMap r.tags) r.members skip = pp at h ⊢
  by_cases he : pp.outer = []
  · simp [he] at h
  · simp only [he, false_and, if_false] at h ⊢
    by_cases h1 : pp.outer.length = 1 ∧ pp.outerCount = 1
    · rw [if_pos h1] at h ⊢
      exact ⟨f, h, SameButGeom.refl f⟩
    · rw [if_neg h1] at h ⊢
      have hlen1 := filterMap_length_mono
        (fun os => if ¬ false = true ∧ ¬ ringValid (ringOf os 1) = true then none else some [ringOf os 1])
        (fun os => if ¬ True ∧ ¬ ringValid (ringOf os 1) = true then none else some [ringOf os 1])
        (join pp.outer) (by intro a _; simp)
      have hlen2 := fold_add_length_off (fun is => ringOf is (-1)) (join pp.inner)
        (List.filterMap (fun os => if ¬ false = true ∧ ¬ ringValid (ringOf os 1) = true then none else some [ringOf os 1]) (join pp.outer))
      have hlen3 := fold_add_length true (fun is => ringOf is (-1)) (join pp.inner)
        (List.filterMap (fun os => if ¬ True ∧ ¬ ringValid (ringOf os 1) = true then none else some [ringOf os 1]) (join pp.outer))
      generalize List.filterMap (fun os => if ¬ false = true ∧ ¬ ringValid (ringOf os 1) = true then none else some [ringOf os 1]) (join pp.outer) = offR at h hlen1 hlen2
      generalize List.filterMap (fun os => if ¬ True ∧ ¬ ringValid (ringOf os 1) = true then none else some [ringOf os 1]) (join pp.outer) = onR at hlen1 hlen3 ⊢
      generalize List.foldl (fun mp is => addToMultiPolygon mp (ringOf is (-1)) false) offR (join pp.inner) = m at h hlen2
      generalize List.foldl (fun mp is => addToMultiPolygon mp (ringOf is (-1)) true) onR (join pp.inner) = m' at hlen3 ⊢
      simp only [not_true_eq_false, and_false, if_false]
      by_cases hoffR : offR = []
      · simp [hoffR] at h
      · have hm : m ≠ [] := by
          intro e; subst e
          have : offR.length = 0 := by simpa using hlen2.symm
          exact hoffR (List.length_eq_zero_iff.mp this)
        have hm' : m' ≠ [] := by
          intro e; subst e
          have h1 : offR.length ≠ 0 := fun e => hoffR (List.length_eq_zero_iff.mp e)
          simp only [List.length_nil] at hlen3
          omega
        simp only [hoffR, false_and, if_false] at h
        match m, hm, m', hm' with
        | [a], _, [b], _ =>
          simp only [Option.some.injEq] at h
          exact ⟨_, rfl, by subst h; rfl⟩
        | [a], _, b :: b2 :: bs, _ =>
          simp only [Option.some.injEq] at h
          exact ⟨_, rfl, by subst h; rfl⟩
        | a :: a2 :: as, _, [b], _ =>
          simp only [Option.some.injEq] at h
          exact ⟨_, rfl, by subst h; rfl⟩
        | a :: a2 :: as, _, b :: b2 :: bs, _ =>
          simp only [Option.some.injEq] at h
          exact ⟨_, rfl, by subst h; rfl⟩

/-! ### the whole output -/

/-- a feature with its geometry blanked: what identifies the element and everything the option must not touch -/
def eraseGeom (f : Feature) : Feature := { f with geom := .point (0, 0) }

theorem eraseGeom_of_same {f f' : Feature} (h : SameButGeom f f') : eraseGeom f' = eraseGeom f := by
  unfold SameButGeom at h
  rw [h]; rfl

theorem buildRoute_withInvalid (o : Opts) (d : Data) (r : RelationE) (skip : Skip) :
    buildRoute (withInvalid o) d r skip = buildRoute o d r skip := rfl

theorem wayPass_withInvalid (o : Opts) (d : Data) (isP : WayE → Bool) (skip : Skip) :
    wayPass (withInvalid o) d isP skip = wayPass o d isP skip := rfl

theorem nodePass_withInvalid (o : Opts) (d : Data) : nodePass (withInvalid o) d = nodePass o d := rfl

theorem buildPolygon_sublist (o : Opts) (hoff : o.includeInvalidPolygons = false) (d : Data) (r : RelationE) (skip : Skip) :
    ((buildPolygon o d r skip).1.toList.map eraseGeom).Sublist ((buildPolygon (withInvalid o) d r skip).1.toList.map eraseGeom) := by
  cases h : (buildPolygon o d r skip).1 with
  | none => simp
  | some f =>
    obtain ⟨f', h', hs⟩ := buildPolygon_keeps o hoff d r skip f h
    simp [h', eraseGeom_of_same hs]

/-- the relation pass as a fold of one step -/
def relStep (o : Opts) (d : Data) (st : List Feature × Skip) (r : RelationE) : List Feature × Skip :=
  let tt := findTag r.tags "type"
  if tt = "route" then
    let (f, s) := buildRoute o d r st.2
    (st.1 ++ f.toList, s)
  else if tt = "multipolygon" ∨ tt = "boundary" then
    let (f, s) := buildPolygon o d r st.2
    (st.1 ++ f.toList, s)
  else st

theorem relationPass_eq_fold (o : Opts) (d : Data) : relationPass o d = d.relations.foldl (relStep o d) ([], []) := rfl

theorem relFold_includeInvalid (o : Opts) (hoff : o.includeInvalidPolygons = false) (d : Data) :
    ∀ (rs : List RelationE) (acc acc' : List Feature × Skip), acc'.2 = acc.2 →
      (acc.1.map eraseGeom).Sublist (acc'.1.map eraseGeom) →
      (rs.foldl (relStep (withInvalid o) d) acc').2 = (rs.foldl (relStep o d) acc).2 ∧
      ((rs.foldl (relStep o d) acc).1.map eraseGeom).Sublist ((rs.foldl (relStep (withInvalid o) d) acc').1.map eraseGeom) := by
  intro rs
  induction rs with
  | nil => intro acc acc' h2 hs; exact ⟨h2, hs⟩
  | cons r rest ih =>
    intro acc acc' h2 hs
    simp only [List.foldl_cons]
    apply ih
    · unfold relStep
      simp only [h2]
      split
      · rfl
      · split
        · simp only [buildPolygon_skip]
        · exact h2
    · unfold relStep
      simp only [h2]
      split
      · simp only [buildRoute_withInvalid, List.map_append]
        exact List.Sublist.append hs (List.Sublist.refl _)
      · split
        · simp only [List.map_append]
          exact List.Sublist.append hs (buildPolygon_sublist o hoff d r acc.2)
        · exact hs

/-- **IncludeInvalidPolygons only adds, and only to multipolygon relations**: with the option on, the way pass
    sees the same skippable set and way and node features are identical; and every feature of the output without
    the option is still in the output with it, in the same order, identical but possibly for its geometry -/
theorem convert_includeInvalid (o : Opts) (hoff : o.includeInvalidPolygons = false) (isP : WayE → Bool) (d : Data) :
    (relationPass (withInvalid o) d).2 = (relationPass o d).2 ∧
    convert (withInvalid o) isP d =
      (relationPass (withInvalid o) d).1 ++ d.ways.filterMap (wayPass o d isP (relationPass o d).2) ++ d.nodes.filterMap (nodePass o d) ∧
    ((convert o isP d).map eraseGeom).Sublist ((convert (withInvalid o) isP d).map eraseGeom) := by
  have hf := relFold_includeInvalid o hoff d d.relations ([], []) ([], []) rfl (List.Sublist.refl _)
  rw [← relationPass_eq_fold, ← relationPass_eq_fold] at hf
  have hc : convert (withInvalid o) isP d =
      (relationPass (withInvalid o) d).1 ++ d.ways.filterMap (wayPass o d isP (relationPass o d).2) ++ d.nodes.filterMap (nodePass o d) := by
    unfold convert
    simp only [wayPass_withInvalid, nodePass_withInvalid, hf.1]
  refine ⟨hf.1, hc, ?_⟩
  rw [hc]
  unfold convert
  simp only [List.map_append]
  exact List.Sublist.append (List.Sublist.append hf.2 (List.Sublist.refl _)) (List.Sublist.refl _)

/-- a multipolygon with a single outer member does not consult the option at all -/
theorem buildPolygon_single_indep (o : Opts) (d : Data) (r : RelationE) (skip : Skip)
    (hne : (polyMembers d (tagMap r.tags) r.members skip).outer.length = 1)
    (hc : (polyMembers d (tagMap r.tags) r.members skip).outerCount = 1) :
    buildPolygon (withInvalid o) d r skip = buildPolygon o d r skip := by
  unfold buildPolygon
  simp only [relationsProp_withInvalid, metaProp_withInvalid, withInvalid_noID, withInvalid_inc]
  generalize polyMembers d (tagMap r.tags) r.members skip = pp at hne hc
  have he : pp.outer ≠ [] := by intro e; rw [e] at hne; cases hne
  simp only [he, false_and, if_false, hne, hc, and_self, if_true]

/-- without the option, every ring of an emitted multipolygon's outer list is closed with at least four points -/
theorem ringValid_iff (r : List P) : ringValid r = true ↔ 4 ≤ r.length ∧ r.head? = r.getLast? := by
  simp [ringValid]

/-! non-vacuity: a multipolygon with a closed outer ring and an open one (two ways that do not close): without
the option the open ring is dropped, with it the same relation feature has both -/
def exInv : Data := {
  nodes := [],
  ways := [⟨7, [⟨1, 1, 1⟩, ⟨2, 5, 1⟩, ⟨3, 5, 5⟩], [], {}⟩, ⟨8, [⟨3, 5, 5⟩, ⟨4, 1, 5⟩], [], {}⟩,
           ⟨9, [⟨5, 20, 20⟩, ⟨6, 30, 20⟩, ⟨7, 30, 30⟩, ⟨5, 20, 20⟩], [], {}⟩],
  relations := [⟨100, [⟨.way, 7, "outer", 0, []⟩, ⟨.way, 8, "outer", 0, []⟩, ⟨.way, 9, "outer", 0, []⟩],
    [("type", "multipolygon"), ("landuse", "forest")], {}⟩] }
example : (convert {} (fun _ => false) exInv).map (fun f => (f.kind, f.id, f.geom)) =
    [("relation", 100, .polygon [[(20, 20), (30, 20), (30, 30), (20, 20)]])] := by decide
example : (convert (withInvalid {}) (fun _ => false) exInv).map (fun f => (f.kind, f.id, f.geom)) =
    [("relation", 100, .multiPolygon [[[(20, 20), (30, 20), (30, 30), (20, 20)]], [[(1, 1), (5, 1), (5, 5), (1, 5)]]])] := by decide

end OsmVerif.Props.C17
