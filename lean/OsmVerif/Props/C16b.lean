import OsmVerif.Props.C16
/-!
# C16 (continued) — cutting rings gives pieces that meet the end-point condition

`cut_rings_condition` (C16) assumes start points pairwise distinct and equal, as a multiset, to the stop points.
Here that hypothesis is discharged for the thing the property talks about: any number of simple rings with
pairwise distinct vertices (no vertex twice in a ring, none shared between rings), each cut at one or more of its
vertices into pieces that run from one cut vertex to the next (the last piece wrapping around to the first cut).
Then, whatever pieces are reversed and in whatever order they are listed, every group `Join` builds is closed.
-/
namespace OsmVerif.Props.C16
open OsmVerif.Model.Geo

/-- the piece of the vertex cycle `vs` from position `a` to position `b` inclusive, wrapping around when `b ≤ a` -/
def piece (vs : List P) (a b : Nat) : List P :=
  if a < b then (vs.drop a).take (b - a + 1) else vs.drop a ++ vs.take (b + 1)

/-- cut positions paired with the next cut position, the last with the first -/
def cutPairs (cuts : List Nat) : List (Nat × Nat) := cuts.zip (cuts.tail ++ cuts.take 1)

/-- the pieces of the ring over the vertex cycle `vs` (the ring is `vs ++ [vs[0]]`) cut at the positions `cuts` -/
def cutRing (vs : List P) (cuts : List Nat) : List (List P) := (cutPairs cuts).map fun ab => piece vs ab.1 ab.2

def vertexAt (vs : List P) (c : Nat) : P := vs[c]?.getD (0, 0)

theorem piece_head (vs : List P) (a b : Nat) (ha : a < vs.length) : (piece vs a b).head? = some (vertexAt vs a) := by
  unfold piece vertexAt
  have hd : (vs.drop a).head? = vs[a]? := by rw [List.head?_drop]
  have hget : vs[a]? = some vs[a] := List.getElem?_eq_getElem ha
  split
  · rw [List.head?_take]
    have : b - a + 1 ≠ 0 := by omega
    simp [this, hd, hget]
  · simp [hd, hget]

theorem piece_last (vs : List P) (a b : Nat) (ha : a < vs.length) (hb : b < vs.length) :
    (piece vs a b).getLast? = some (vertexAt vs b) := by
  unfold piece vertexAt
  have hget : vs[b]? = some vs[b] := List.getElem?_eq_getElem hb
  split
  · rename_i hab
    rw [List.getLast?_eq_getElem?]
    have hlen : ((vs.drop a).take (b - a + 1)).length = b - a + 1 := by
      simp only [List.length_take, List.length_drop]; omega
    rw [hlen, List.getElem?_take_of_lt (by omega), List.getElem?_drop]
    have : a + (b - a + 1 - 1) = b := by omega
    rw [this, hget]; rfl
  · have hl : (vs.take (b + 1)).getLast? = some vs[b] := by
      rw [List.getLast?_eq_getElem?]
      have hlen : (vs.take (b + 1)).length = b + 1 := by simp only [List.length_take]; omega
      rw [hlen, List.getElem?_take_of_lt (by omega)]
      simpa using hget
    simp [hl, hget]

/-- start and stop positions of the pieces: the cuts, and the cuts rotated by one -/
theorem cutPairs_fst (cuts : List Nat) (hne : cuts ≠ []) : (cutPairs cuts).map (·.1) = cuts := by
  unfold cutPairs
  rw [List.map_fst_zip]
  cases cuts with
  | nil => exact absurd rfl hne
  | cons h t => simp

theorem cutPairs_snd (cuts : List Nat) (hne : cuts ≠ []) : (cutPairs cuts).map (·.2) = cuts.tail ++ cuts.take 1 := by
  unfold cutPairs
  rw [List.map_snd_zip]
  cases cuts with
  | nil => exact absurd rfl hne
  | cons h t => simp

theorem cutPairs_mem (cuts : List Nat) (ab : Nat × Nat) (h : ab ∈ cutPairs cuts) : ab.1 ∈ cuts ∧ ab.2 ∈ cuts := by
  unfold cutPairs at h
  have := List.of_mem_zip h
  refine ⟨this.1, ?_⟩
  rcases List.mem_append.mp this.2 with h2 | h2
  · exact List.mem_of_mem_tail h2
  · exact List.mem_of_mem_take h2

/-- one ring: vertex cycle and cut positions -/
structure CutRing where
  vs : List P
  cuts : List Nat

def CutRing.Valid (r : CutRing) : Prop :=
  r.cuts ≠ [] ∧ r.cuts.Pairwise (· < ·) ∧ ∀ c ∈ r.cuts, c < r.vs.length

def CutRing.pieces (r : CutRing) : List (List P) := cutRing r.vs r.cuts
def CutRing.starts (r : CutRing) : List P := r.cuts.map (vertexAt r.vs)
def CutRing.stops (r : CutRing) : List P := (r.cuts.tail ++ r.cuts.take 1).map (vertexAt r.vs)

theorem CutRing.pieces_head (r : CutRing) (hv : r.Valid) : r.pieces.map List.head? = r.starts.map some := by
  unfold CutRing.pieces cutRing CutRing.starts
  have h1 : ((cutPairs r.cuts).map fun ab => piece r.vs ab.1 ab.2).map List.head? =
      (cutPairs r.cuts).map (fun ab => some (vertexAt r.vs ab.1)) := by
    rw [List.map_map]
    apply List.map_congr_left
    intro ab hab
    exact piece_head r.vs ab.1 ab.2 (hv.2.2 _ (cutPairs_mem r.cuts ab hab).1)
  have h2 : (cutPairs r.cuts).map (fun ab => some (vertexAt r.vs ab.1)) =
      ((cutPairs r.cuts).map (·.1)).map (fun c => some (vertexAt r.vs c)) := by rw [List.map_map]; rfl
  rw [h1, h2, cutPairs_fst r.cuts hv.1, List.map_map]; rfl

theorem CutRing.pieces_last (r : CutRing) (hv : r.Valid) : r.pieces.map List.getLast? = r.stops.map some := by
  unfold CutRing.pieces cutRing CutRing.stops
  have h1 : ((cutPairs r.cuts).map fun ab => piece r.vs ab.1 ab.2).map List.getLast? =
      (cutPairs r.cuts).map (fun ab => some (vertexAt r.vs ab.2)) := by
    rw [List.map_map]
    apply List.map_congr_left
    intro ab hab
    have := cutPairs_mem r.cuts ab hab
    exact piece_last r.vs ab.1 ab.2 (hv.2.2 _ this.1) (hv.2.2 _ this.2)
  have h2 : (cutPairs r.cuts).map (fun ab => some (vertexAt r.vs ab.2)) =
      ((cutPairs r.cuts).map (·.2)).map (fun c => some (vertexAt r.vs c)) := by rw [List.map_map]; rfl
  rw [h1, h2, cutPairs_snd r.cuts hv.1, List.map_map]; rfl

theorem CutRing.starts_perm_stops (r : CutRing) (hv : r.Valid) : r.starts.Perm r.stops := by
  unfold CutRing.starts CutRing.stops
  apply List.Perm.map
  cases hc : r.cuts with
  | nil => exact absurd hc hv.1
  | cons h t =>
    simp only [List.tail_cons, List.take_succ_cons, List.take_zero]
    exact (List.perm_append_comm (l₁ := [h]) (l₂ := t))

theorem CutRing.starts_sub (r : CutRing) (hv : r.Valid) : ∀ p ∈ r.starts, p ∈ r.vs := by
  intro p hp
  unfold CutRing.starts at hp
  obtain ⟨c, hc, rfl⟩ := List.mem_map.mp hp
  have hlt := hv.2.2 c hc
  unfold vertexAt
  rw [List.getElem?_eq_getElem hlt]
  exact List.getElem_mem hlt

theorem CutRing.starts_nodup (r : CutRing) (hv : r.Valid) (hnd : r.vs.Nodup) : r.starts.Nodup := by
  unfold CutRing.starts
  rw [List.Nodup, List.pairwise_map]
  refine List.Pairwise.imp_of_mem ?_ hv.2.1
  intro a b ha hb hab
  have hla := hv.2.2 a ha
  have hlb := hv.2.2 b hb
  unfold vertexAt
  rw [List.getElem?_eq_getElem hla, List.getElem?_eq_getElem hlb]
  have := (List.pairwise_iff_getElem.mp hnd) a b hla hlb hab
  simpa using this

/-! ### several vertex-disjoint rings -/

theorem rings_starts_nodup : ∀ (rings : List CutRing), (∀ r ∈ rings, r.Valid) → (rings.flatMap (·.vs)).Nodup →
    (rings.flatMap (·.starts)).Nodup := by
  intro rings
  induction rings with
  | nil => intro _ _; simp
  | cons r rest ih =>
    intro hv hnd
    simp only [List.flatMap_cons] at hnd ⊢
    obtain ⟨h1, h2, h3⟩ := List.nodup_append.mp hnd
    refine List.nodup_append.mpr ⟨r.starts_nodup (hv r (by simp)) h1, ih (fun x hx => hv x (by simp [hx])) h2, ?_⟩
    intro a ha b hb
    have ha' := r.starts_sub (hv r (by simp)) a ha
    obtain ⟨x, hx, hbx⟩ := List.mem_flatMap.mp hb
    have hb' : b ∈ rest.flatMap (·.vs) := List.mem_flatMap.mpr ⟨x, hx, x.starts_sub (hv x (by simp [hx])) b hbx⟩
    exact h3 a ha' b hb'

theorem rings_starts_perm : ∀ (rings : List CutRing), (∀ r ∈ rings, r.Valid) →
    (rings.flatMap (·.starts)).Perm (rings.flatMap (·.stops)) := by
  intro rings
  induction rings with
  | nil => intro _; simp
  | cons r rest ih =>
    intro hv
    simp only [List.flatMap_cons]
    exact List.Perm.append (r.starts_perm_stops (hv r (by simp))) (ih (fun x hx => hv x (by simp [hx])))

theorem rings_heads : ∀ (rings : List CutRing), (∀ r ∈ rings, r.Valid) →
    (rings.flatMap (·.pieces)).map List.head? = (rings.flatMap (·.starts)).map some ∧
    (rings.flatMap (·.pieces)).map List.getLast? = (rings.flatMap (·.stops)).map some := by
  intro rings
  induction rings with
  | nil => intro _; simp
  | cons r rest ih =>
    intro hv
    have := ih (fun x hx => hv x (by simp [hx]))
    simp only [List.flatMap_cons, List.map_append, r.pieces_head (hv r (by simp)), r.pieces_last (hv r (by simp)), this.1, this.2]
    trivial

/-- **pieces cut from vertex-disjoint simple rings meet the end-point condition, reversed and shuffled at will**:
    `segs` are segments whose full lines are the pieces of the rings (any member index and orientation annotation) -/
theorem cut_rings_deg (rings : List CutRing) (hv : ∀ r ∈ rings, r.Valid) (hnd : (rings.flatMap (·.vs)).Nodup)
    (segs : List Seg) (hfull : segs.map (·.full) = rings.flatMap (·.pieces))
    (flip : Seg → Bool) (shuffled : List Seg)
    (hsh : (segs.map fun s => if flip s then s.rev else s).Perm shuffled) : DegR shuffled := by
  have hh := rings_heads rings hv
  refine cut_rings_condition segs (rings.flatMap (·.starts)) (rings.flatMap (·.stops)) ?_ ?_
    (rings_starts_perm rings hv) (rings_starts_nodup rings hv hnd) flip shuffled hsh
  · rw [← hh.1, ← hfull, List.map_map]; rfl
  · rw [← hh.2, ← hfull, List.map_map]; rfl

/-! ### from the end-point condition to closed groups -/

theorem piece_length (vs : List P) (a b : Nat) (ha : a < vs.length) (hb : b < vs.length) : 2 ≤ (piece vs a b).length := by
  unfold piece
  split
  · simp only [List.length_take, List.length_drop]; omega
  · simp only [List.length_append, List.length_take, List.length_drop]; omega

theorem CutRing.pieces_length (r : CutRing) (hv : r.Valid) : ∀ l ∈ r.pieces, 2 ≤ l.length := by
  intro l hl
  unfold CutRing.pieces cutRing at hl
  obtain ⟨ab, hab, rfl⟩ := List.mem_map.mp hl
  have := cutPairs_mem r.cuts ab hab
  exact piece_length r.vs ab.1 ab.2 (hv.2.2 _ this.1) (hv.2.2 _ this.2)

/-- **every group `Join` builds from pieces cut from vertex-disjoint simple rings is closed** — any number of rings,
    any cut positions, any pieces reversed, the pieces listed in any order. `segs` are the member segments as
    `buildPolygon` makes them (`line = full`, any member index and orientation annotation), their lines being the
    pieces of the rings. -/
theorem cut_rings_join_closed (rings : List CutRing) (hv : ∀ r ∈ rings, r.Valid) (hnd : (rings.flatMap (·.vs)).Nodup)
    (segs : List Seg) (hline : FreshInput segs) (hfull : segs.map (·.full) = rings.flatMap (·.pieces))
    (flip : Seg → Bool) (shuffled : List Seg)
    (hsh : (segs.map fun s => if flip s then s.rev else s).Perm shuffled) :
    ∀ g ∈ join shuffled, msFirst g = msLast g := by
  have hdeg := cut_rings_deg rings hv hnd segs hfull flip shuffled hsh
  -- every member of the shuffled list is a piece or a reversed piece
  have hmem : ∀ s' ∈ shuffled, ∃ s ∈ segs, s' = s ∨ s' = s.rev := by
    intro s' hs'
    have := hsh.mem_iff.mpr hs'
    obtain ⟨s, hs, rfl⟩ := List.mem_map.mp this
    refine ⟨s, hs, ?_⟩
    split
    · exact Or.inr rfl
    · exact Or.inl rfl
  have hlen : ∀ s ∈ segs, 2 ≤ s.line.length := by
    intro s hs
    rw [hline s hs]
    have hin : s.full ∈ rings.flatMap (·.pieces) := by rw [← hfull]; exact List.mem_map.mpr ⟨s, hs, rfl⟩
    obtain ⟨r, hr, hp⟩ := List.mem_flatMap.mp hin
    exact r.pieces_length (hv r hr) _ hp
  have hfresh : FreshInput shuffled := by
    intro s' hs'
    obtain ⟨s, hs, e | e⟩ := hmem s' hs'
    · rw [e]; exact hline s hs
    · rw [e]; simp only [Seg.rev]; rw [hline s hs]
  have hcompact : compact shuffled = shuffled := by
    unfold compact
    apply List.filter_eq_self.mpr
    intro s' hs'
    obtain ⟨s, hs, e | e⟩ := hmem s' hs'
    · rw [e]; have := hlen s hs; simp; omega
    · rw [e]; have := hlen s hs; simp [Seg.rev]; omega
  exact join_groups_closed shuffled hfresh (by rw [hcompact]; exact hdeg)

/-- and each group is a whole connected component: no piece outside a group touches it -/
theorem cut_rings_join_components (rings : List CutRing) (hv : ∀ r ∈ rings, r.Valid) (hnd : (rings.flatMap (·.vs)).Nodup)
    (segs : List Seg) (hline : FreshInput segs) (hfull : segs.map (·.full) = rings.flatMap (·.pieces))
    (flip : Seg → Bool) (shuffled : List Seg)
    (hsh : (segs.map fun s => if flip s then s.rev else s).Perm shuffled)
    (l1 : List (List Seg)) (g : List Seg) (l2 : List (List Seg)) (hout : join shuffled = l1 ++ g :: l2) :
    ∀ p ∈ g.flatMap ends, p ∉ (l1 ++ l2).flatten.flatMap ends := by
  have hdeg := cut_rings_deg rings hv hnd segs hfull flip shuffled hsh
  have hmem : ∀ s' ∈ shuffled, ∃ s ∈ segs, s' = s ∨ s' = s.rev := by
    intro s' hs'
    have := hsh.mem_iff.mpr hs'
    obtain ⟨s, hs, rfl⟩ := List.mem_map.mp this
    refine ⟨s, hs, ?_⟩
    split
    · exact Or.inr rfl
    · exact Or.inl rfl
  have hlen : ∀ s ∈ segs, 2 ≤ s.line.length := by
    intro s hs
    rw [hline s hs]
    have hin : s.full ∈ rings.flatMap (·.pieces) := by rw [← hfull]; exact List.mem_map.mpr ⟨s, hs, rfl⟩
    obtain ⟨r, hr, hp⟩ := List.mem_flatMap.mp hin
    exact r.pieces_length (hv r hr) _ hp
  have hfresh : FreshInput shuffled := by
    intro s' hs'
    obtain ⟨s, hs, e | e⟩ := hmem s' hs'
    · rw [e]; exact hline s hs
    · rw [e]; simp only [Seg.rev]; rw [hline s hs]
  have hcompact : compact shuffled = shuffled := by
    unfold compact
    apply List.filter_eq_self.mpr
    intro s' hs'
    obtain ⟨s, hs, e | e⟩ := hmem s' hs'
    · rw [e]; have := hlen s hs; simp; omega
    · rw [e]; have := hlen s hs; simp [Seg.rev]; omega
  exact join_groups_are_components shuffled hfresh (by rw [hcompact]; exact hdeg) l1 g l2 hout

/-! ### with or without orientation annotations -/

/-- the members without their orientation annotations -/
def unannotated (ms : List Seg) : List Seg := ms.map fun s => { s with orientation := 0 }

theorem lineOf_unannotated (ms : List Seg) : lineOf (unannotated ms) = lineOf ms := by
  unfold lineOf unannotated
  rw [List.map_map]; rfl

/-- **the ring is the same with or without orientation annotations**, when the annotations are the ones annotation
    writes for this group (`orientation_annotation`: a member running in its own direction carries the winding of the
    joined line, a member that was turned around the opposite one) and the group encloses an area: `Ring(o)` turns the
    line around in exactly the same cases -/
theorem ringOf_annotations_agree (ms : List Seg) (o : Int) (ho : o = 1 ∨ o = -1) (hne : ms ≠ [])
    (harea : area2 (lineOf ms) ≠ 0)
    (hann : ∀ s ∈ ms, s.orientation = if s.reversed then - msOrientation ms else msOrientation ms) :
    ringOf ms o = ringOf (unannotated ms) o := by
  have hg : msOrientation ms = 1 ∨ msOrientation ms = -1 := by unfold msOrientation; split <;> simp
  have hro : ringOrientation (lineOf ms) = msOrientation ms := by
    unfold ringOrientation msOrientation
    by_cases hp : area2 (lineOf ms) > 0
    · simp [hp]
    · have : area2 (lineOf ms) < 0 := by omega
      simp [hp, this]
  -- every member's test says "the group's winding is not the one asked for"
  have htest : ∀ s ∈ ms, (s.orientation ≠ 0 ∧ (decide (s.orientation = o) = s.reversed)) ↔ msOrientation ms ≠ o := by
    intro s hs
    have := hann s hs
    rcases hg with g | g <;> rcases ho with rfl | rfl <;> cases hr : s.reversed <;> simp [hr, g] at this ⊢ <;> simp [this]
  have hany : (ms.any fun s => decide (s.orientation ≠ 0 ∧ (decide (s.orientation = o) = s.reversed))) = decide (msOrientation ms ≠ o) := by
    cases ms with
    | nil => exact absurd rfl hne
    | cons s rest =>
      by_cases hm : msOrientation (s :: rest) ≠ o
      · have h1 : ((s :: rest).any fun x => decide (x.orientation ≠ 0 ∧ (decide (x.orientation = o) = x.reversed))) = true :=
          List.any_eq_true.mpr ⟨s, by simp, decide_eq_true ((htest s (by simp)).mpr hm)⟩
        rw [h1]; exact (decide_eq_true hm).symm
      · have h1 : ((s :: rest).any fun x => decide (x.orientation ≠ 0 ∧ (decide (x.orientation = o) = x.reversed))) = false := by
          rw [List.any_eq_false]
          intro x hx h
          exact hm ((htest x hx).mp (of_decide_eq_true h))
        rw [h1]; exact (decide_eq_false hm).symm
  have hhave : (ms.any fun s => decide (s.orientation ≠ 0)) = true := by
    cases ms with
    | nil => exact absurd rfl hne
    | cons s rest =>
      have := hann s (by simp)
      have : s.orientation ≠ 0 := by
        rcases hg with g | g <;> cases hr : s.reversed <;> simp [hr, g] at this <;> omega
      simp [List.any_cons, this]
  have hnone : ((unannotated ms).any fun s => decide (s.orientation ≠ 0)) = false := by
    rw [List.any_eq_false]; intro x hx
    unfold unannotated at hx
    obtain ⟨s, _, rfl⟩ := List.mem_map.mp hx
    simp
  unfold ringOf
  simp only [lineOf_unannotated, hhave, hnone, hany, hro]
  by_cases hm : msOrientation ms ≠ o <;> simp [hm]

/-! non-vacuity: a square cut at three of its corners and a triangle cut at one vertex -/
def exRings : List CutRing := [⟨[(0,0),(4,0),(4,4),(0,4)], [0, 1, 3]⟩, ⟨[(1,1),(2,1),(1,2)], [2]⟩]
example : ∀ r ∈ exRings, r.Valid := by
  intro r hr
  simp only [exRings, List.mem_cons, List.not_mem_nil, or_false] at hr
  rcases hr with rfl | rfl
  · exact ⟨by decide, by decide, by decide⟩
  · exact ⟨by decide, by decide, by decide⟩
example : (exRings.flatMap (·.vs)).Nodup := by decide
example : exRings.flatMap (·.pieces) =
    [[(0,0),(4,0)], [(4,0),(4,4),(0,4)], [(0,4),(0,0)], [(1,2),(1,1),(2,1),(1,2)]] := by decide

/-- the square's three pieces and the triangle's single piece, two of them reversed, shuffled: two closed groups -/
def exCutSegs : List Seg := [
  (Seg.mk' 3 0 [(1,2),(1,1),(2,1),(1,2)]), (Seg.mk' 1 0 [(4,0),(4,4),(0,4)]).rev, Seg.mk' 0 0 [(0,0),(4,0)], (Seg.mk' 2 0 [(0,4),(0,0)]).rev]
example : (join exCutSegs).map (fun g => (msFirst g, msLast g)) =
    [(some (0,0), some (0,0)), (some (1,2), some (1,2))] := by decide

/-- a counter-clockwise square in two pieces, the second one turned around by the join: annotated as annotation
    writes them (+1 for the piece in its own direction, -1 for the reversed one) -/
def exAnn : List Seg := [
  { idx := 0, orientation := 1, reversed := false, line := [(0,0),(4,0),(4,4)], full := [(0,0),(4,0),(4,4)] },
  { idx := 1, orientation := -1, reversed := true, line := [(0,4),(0,0)], full := [(4,4),(0,4),(0,0)] }]
example : msOrientation exAnn = 1 ∧ area2 (lineOf exAnn) ≠ 0 := by decide
example : ∀ s ∈ exAnn, s.orientation = if s.reversed then - msOrientation exAnn else msOrientation exAnn := by
  intro s hs
  simp only [exAnn, List.mem_cons, List.not_mem_nil, or_false] at hs
  rcases hs with rfl | rfl <;> decide
example : ringOf exAnn (-1) = ringOf (unannotated exAnn) (-1) ∧ ringOf exAnn (-1) = [(0,0),(0,4),(4,4),(4,0),(0,0)] := by decide

end OsmVerif.Props.C16
