import OsmVerif.Model.Polygon
import OsmVerif.Spec.PolygonPublished
import OsmVerif.Lemmas.Search
/-!
# C18 — area classification follows the published polygon-features rules

`Gen.Polygon.table` / `initSortsValues` are regenerated from polygon.go on every run;
`Model.Polygon.wayPolygon` is the hand-written model of `Way.Polygon` (tied by the exhaustive
differential stream); `Spec.Polygon.published` / `isArea` is the pinned published table and
its declarative meaning.
-/
namespace OsmVerif.Props.C18
open OsmVerif.Gen.Polygon OsmVerif.Model.Polygon OsmVerif.Spec.Polygon

/-- the table embedded in the source is the published one, entry by entry -/
theorem gen_table_eq_published : table = published := by decide

/-- every rule's value list is sorted when it is searched (this is where the start-up sort matters) -/
theorem effective_values_sorted (c : Cond) : Sorted (effectiveValues c) := by
  unfold effectiveValues
  have : initSortsValues = true := by decide
  simp only [this, if_true]
  exact isort_sorted _

theorem mem_effectiveValues (c : Cond) (v : String) : v ∈ effectiveValues c ↔ v ∈ c.values := by
  unfold effectiveValues
  have : initSortsValues = true := by decide
  simp only [this, if_true]
  exact mem_isort v _

theorem find_eq_lookup (tags : Tags) (k : String) : find tags k = lookup tags k := by
  induction tags with
  | nil => rfl
  | cons t ts ih => obtain ⟨a, b⟩ := t; simp [find, lookup, ih]

/-- the binary-search test of one rule = membership test of the published rule -/
theorem wl_core (i L : Nat) (g v : String) (vals : List String) (key : (i ≠ L ∧ g = v) ↔ v ∈ vals) :
    (decide (i ≠ L) && decide (g = v)) = vals.contains v := by
  by_cases e1 : i = L <;> by_cases e2 : g = v <;> by_cases e3 : v ∈ vals <;> simp_all

theorem bl_core (i L : Nat) (g v : String) (vals : List String) (key : (i ≠ L ∧ g = v) ↔ v ∈ vals) :
    (decide (i = L) || decide (g ≠ v)) = !vals.contains v := by
  by_cases e1 : i = L <;> by_cases e2 : g = v <;> by_cases e3 : v ∈ vals <;> simp_all

theorem has_eq_present (tags : Tags) (k : String) : has tags k = present tags k := by
  induction tags with
  | nil => rfl
  | cons t ts ih => obtain ⟨a, b⟩ := t; simp [has, present, ih]

theorem condMatches_eq (c : Cond) (v : String) (h2 : v ≠ "no") :
    condMatches c v = ruleHolds c true v := by
  have hs := searchStrings_mem (effectiveValues c) (effective_values_sorted c) v
  have hm := mem_effectiveValues c v
  have key := hs.trans hm
  have r2 : decide (v ≠ "no") = true := by simpa using h2
  unfold condMatches ruleHolds
  rw [r2]
  cases c.kind
  · rfl
  · exact wl_core _ _ _ _ _ key
  · exact bl_core _ _ _ _ _ key
  · rfl

theorem ruleLoop_eq_any (tags : Tags) (cs : List Cond) :
    ruleLoop tags cs = cs.any fun c => ruleHolds c (present tags c.key) (lookup tags c.key) := by
  induction cs with
  | nil => rfl
  | cons c rest ih =>
    simp only [ruleLoop, List.any_cons, find_eq_lookup, has_eq_present]
    by_cases h1 : present tags c.key = true
    · by_cases h2 : lookup tags c.key = "no"
      · simp [h1, h2, ruleHolds, ih]
      · simp only [h1, h2, Bool.not_true, decide_false, Bool.or_self, Bool.false_eq_true, if_false]
        rw [condMatches_eq c _ h2, ih]
        cases ruleHolds c true (lookup tags c.key) <;> simp
    · have h1' : present tags c.key = false := by simpa using h1
      simp [h1', ruleHolds, ih]

/-- **C18, main statement.** For all node-ref lists and all tag lists, `Way.Polygon` answers exactly
    the published rule: closed, more than three refs, never for `area=no`, always for another
    non-empty `area`, otherwise some listed key with a value ≠ no passing its all/white/blacklist rule. -/
theorem polygon_iff_published (nodes : List Int) (tags : Tags) :
    wayPolygon nodes tags = isArea nodes.length (nodes.head? = nodes.getLast?) tags := by
  unfold wayPolygon isArea
  by_cases hl : nodes.length ≤ 3
  · have : ¬ nodes.length > 3 := by omega
    simp [hl, this]
  · have : nodes.length > 3 := by omega
    simp only [hl, if_false, this, decide_true, Bool.true_and]
    by_cases hc : nodes.head? = nodes.getLast?
    · simp only [hc, ne_eq, not_true_eq_false, if_false, decide_true, Bool.true_and, find_eq_lookup]
      rw [ruleLoop_eq_any, gen_table_eq_published]
    · simp [hc]

theorem any_congr_mem {l : List Cond} {f g : Cond → Bool} (h : ∀ c ∈ l, f c = g c) : l.any f = l.any g := by
  induction l with
  | nil => rfl
  | cons x xs ih => simp [List.any_cons, h x (by simp), ih (fun c hc => h c (by simp [hc]))]

/-- the answer depends on the tags only through the values of `area` and the listed keys -/
theorem polygon_depends_on_listed_keys (nodes : List Int) (t1 t2 : Tags)
    (h : ∀ k, k = "area" ∨ k ∈ published.map (·.key) → lookup t1 k = lookup t2 k ∧ present t1 k = present t2 k) :
    wayPolygon nodes t1 = wayPolygon nodes t2 := by
  rw [polygon_iff_published, polygon_iff_published]
  unfold isArea
  have ha := (h "area" (Or.inl rfl)).1
  have hany : (published.any fun c => ruleHolds c (present t1 c.key) (lookup t1 c.key)) =
      (published.any fun c => ruleHolds c (present t2 c.key) (lookup t2 c.key)) := by
    apply any_congr_mem
    intro c hc
    have := h c.key (Or.inr (List.mem_map.mpr ⟨c, hc, rfl⟩))
    rw [this.1, this.2]
  simp only [ha, hany]

theorem present_iff_mem (t : Tags) (k : String) : present t k = true ↔ k ∈ t.map (·.1) := by
  induction t with
  | nil => simp [present]
  | cons x xs ih => obtain ⟨a, b⟩ := x; simp [present, ih]; constructor <;> (intro h; rcases h with h | h; exact Or.inl h.symm; exact Or.inr h)

theorem present_perm {t1 t2 : Tags} (hp : t1.Perm t2) (k : String) : present t1 k = present t2 k := by
  have := (hp.map (·.1)).mem_iff (a := k)
  rw [← present_iff_mem, ← present_iff_mem] at this
  cases h1 : present t1 k <;> cases h2 : present t2 k <;> simp_all

/-- lookup in a list with distinct keys is determined by membership -/
theorem lookup_of_mem {t : Tags} (hn : (t.map (·.1)).Nodup) {k v : String} (hm : (k, v) ∈ t) :
    lookup t k = v := by
  induction t with
  | nil => cases hm
  | cons x xs ih =>
    obtain ⟨a, b⟩ := x
    simp only [List.map_cons, List.nodup_cons] at hn
    rcases List.mem_cons.mp hm with e | e
    · cases e; simp [lookup]
    · have : a ≠ k := by
        intro e2; subst e2
        exact hn.1 (List.mem_map.mpr ⟨(a, v), e, rfl⟩)
      simp [lookup, this, ih hn.2 e]

theorem lookup_of_not_mem {t : Tags} {k : String} (hm : k ∉ t.map (·.1)) : lookup t k = "" := by
  induction t with
  | nil => rfl
  | cons x xs ih =>
    obtain ⟨a, b⟩ := x
    simp only [List.map_cons, List.mem_cons, not_or] at hm
    have : a ≠ k := fun e => hm.1 e.symm
    simp [lookup, this, ih hm.2]

theorem lookup_perm {t1 t2 : Tags} (hp : t1.Perm t2) (hn : (t1.map (·.1)).Nodup) (k : String) :
    lookup t1 k = lookup t2 k := by
  have hn2 : (t2.map (·.1)).Nodup := (hp.map _).nodup_iff.mp hn
  by_cases hk : k ∈ t1.map (·.1)
  · obtain ⟨⟨a, v⟩, hm, e⟩ := List.mem_map.mp hk
    simp only at e; subst e
    rw [lookup_of_mem hn hm, lookup_of_mem hn2 (hp.mem_iff.mp hm)]
  · have hk2 : k ∉ t2.map (·.1) := fun h => hk ((hp.map _).mem_iff.mpr h)
    rw [lookup_of_not_mem hk, lookup_of_not_mem hk2]

/-- tag order does not matter (tag lists with distinct keys, as OSM requires) -/
theorem polygon_perm_invariant (nodes : List Int) (t1 t2 : Tags) (hp : t1.Perm t2)
    (hn : (t1.map (·.1)).Nodup) : wayPolygon nodes t1 = wayPolygon nodes t2 :=
  polygon_depends_on_listed_keys nodes t1 t2 (fun k _ => ⟨lookup_perm hp hn k, present_perm hp k⟩)

/-- unrelated tags do not matter -/
theorem polygon_unrelated_tags (nodes : List Int) (t : Tags) (k v : String)
    (hk : k ≠ "area") (hk2 : k ∉ published.map (·.key)) :
    wayPolygon nodes ((k, v) :: t) = wayPolygon nodes t := by
  apply polygon_depends_on_listed_keys
  intro k' hk'
  have : k ≠ k' := by
    rcases hk' with e | e
    · subst e; exact hk
    · intro e2; subst e2; exact hk2 e
  simp [lookup, present, this]

/-- a relation is an area exactly when its type tag is multipolygon or boundary -/
theorem relation_polygon_iff (tags : Tags) :
    relationPolygon tags = true ↔ lookup tags "type" = "multipolygon" ∨ lookup tags "type" = "boundary" := by
  simp [relationPolygon, find_eq_lookup]

/-! ## non-vacuity / examples -/
example : wayPolygon [1, 2, 3, 1] [("building", "yes")] = true := by decide
example : wayPolygon [1, 2, 1] [("building", "yes")] = false := by decide
-- an empty value is a value: the key is present and its value is not `no`
example : wayPolygon [1, 2, 3, 1] [("building", "")] = true := by decide
example : wayPolygon [1, 2, 3, 1] [("highway", "")] = false := by rw [polygon_iff_published]; decide
example : wayPolygon [1, 2, 3, 1] [("highway", "rest_area")] = true := by
  rw [polygon_iff_published]; decide
example : wayPolygon [1, 2, 3, 1] [("natural", "cliff")] = false := by
  rw [polygon_iff_published]; decide
example : ∃ c ∈ table, ¬ Sorted c.values := ⟨table[1], by decide, by decide⟩

end OsmVerif.Props.C18
