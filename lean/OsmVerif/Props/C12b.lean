import OsmVerif.Props.C12
/-!
# C12 (continued) — the tie hypothesis discharged

`compute_order_independent` (C12) gives identical update lists under two iteration orders provided no two
different updates of a parent share index, time and version (`KeysInjective`). Here that is derived from the only
thing it can depend on in the data: within one child's history, version numbers are distinct. (An update's index
is a position in the parent, a position holds one child, and the update of a child version at a position is a
function of that version.) So: for histories with distinct version numbers, every parent's update list is the
same under every iteration order of the child map.
-/
namespace OsmVerif.Props.C12
open OsmVerif.Model.Annotate

/-- version numbers are distinct within every child history -/
def DistinctVersions (hist : Nat → Option (List Child)) : Prop :=
  ∀ fid cl, hist fid = some cl → (cl.map (·.version)).Nodup

theorem inj_of_nodup_map {α β : Type} (f : α → β) : ∀ (l : List α), (l.map f).Nodup →
    ∀ a ∈ l, ∀ b ∈ l, f a = f b → a = b := by
  intro l
  induction l with
  | nil => intro _ a ha; cases ha
  | cons x xs ih =>
    intro hnd a ha b hb hab
    simp only [List.map_cons, List.nodup_cons] at hnd
    rcases List.mem_cons.mp ha with rfl | ha' <;> rcases List.mem_cons.mp hb with rfl | hb'
    · rfl
    · exact absurd (List.mem_map.mpr ⟨b, hb', hab.symm⟩) hnd.1
    · exact absurd (List.mem_map.mpr ⟨a, ha', hab⟩) hnd.1
    · exact ih hnd.2 a ha' b hb' hab

/-- every update the range loop emits is the update of some version of the child at one of the group's positions -/
theorem rangeUpdates_mem (o : Options) (pidx fid : Nat) (cl : List Child) (idxs : List Nat) :
    ∀ stop start us, rangeUpdates o pidx fid cl idxs start stop = .ok us →
      ∀ u ∈ us, ∃ c ∈ cl, ∃ j ∈ idxs, u = c.update j := by
  intro stop
  induction stop with
  | zero => intro start us h u hu; simp [rangeUpdates] at h; subst h; cases hu
  | succ stop ih =>
    intro start us h u hu
    unfold rangeUpdates at h
    by_cases hgt : start > stop
    · simp only [hgt, if_true, Except.ok.injEq] at h; subst h; cases hu
    · simp only [hgt, if_false] at h
      cases hpre : rangeUpdates o pidx fid cl idxs start stop with
      | error e => simp [hpre, bind, Except.bind] at h
      | ok pre =>
        simp only [hpre, bind, Except.bind] at h
        cases hc : cl[stop]? with
        | none =>
          simp only [hc, Except.ok.injEq] at h; subst h
          exact ih start pre hpre u hu
        | some c =>
          simp only [hc] at h
          by_cases hv : c.visible = true
          · simp only [hv, if_true, Except.ok.injEq] at h; subst h
            rcases List.mem_append.mp hu with h1 | h1
            · exact ih start pre hpre u h1
            · obtain ⟨j, hj, rfl⟩ := List.mem_map.mp h1
              exact ⟨c, List.mem_of_getElem? hc, j, hj, rfl⟩
          · have hv' : c.visible = false := by simpa using hv
            simp only [hv', Bool.false_eq_true, if_false] at h
            by_cases hi : o.ignoreInconsistency = true
            · simp only [hi, if_true, Except.ok.injEq] at h; subst h
              exact ih start pre hpre u hu
            · simp [hi] at h

theorem groupEffect_mem (o : Options) (parents : List ParentV) (fid : Nat) (cl : List Child) (pidx : Nat) (idxs : List Nat)
    (E : Effect) (h : groupEffect o parents fid cl pidx idxs = .ok (some E)) :
    E.parent = pidx ∧ ∀ u ∈ E.updates, ∃ c ∈ cl, ∃ j ∈ idxs, u = c.update j := by
  unfold groupEffect at h
  cases hp : parents[pidx]? with
  | none => simp [hp] at h
  | some p =>
    simp only [hp] at h
    by_cases hv : p.visible = true
    · simp only [hv, not_true_eq_false, if_false] at h
      split at h
      · cases h
      · split at h
        · cases h
        · rename_i us hus
          simp only [Except.ok.injEq, Option.some.injEq] at h
          subst h
          exact ⟨rfl, rangeUpdates_mem o pidx fid cl idxs _ _ us hus⟩
    · simp [hv] at h

/-- positions listed in a group are positions of the location list -/
theorem groupByParent_mem : ∀ (locs : List (Nat × Nat)) (p : Nat) (js : List Nat),
    (p, js) ∈ groupByParent locs → ∀ j ∈ js, (p, j) ∈ locs := by
  intro locs
  induction locs with
  | nil => intro p js h; simp [groupByParent] at h
  | cons pj rest ih =>
    intro p js h j hj
    obtain ⟨p0, j0⟩ := pj
    unfold groupByParent at h
    cases hg : groupByParent rest with
    | nil =>
      simp only [hg, List.mem_singleton, Prod.mk.injEq] at h
      obtain ⟨rfl, rfl⟩ := h
      simp only [List.mem_singleton] at hj
      subst hj; simp
    | cons g gs =>
      obtain ⟨p', js'⟩ := g
      simp only [hg] at h
      by_cases e : p' = p0
      · simp only [e, if_true, List.mem_cons, Prod.mk.injEq] at h
        rcases h with ⟨rfl, rfl⟩ | h
        · rcases List.mem_cons.mp hj with rfl | hj'
          · simp
          · have := ih p' js' (by rw [hg]; simp) j hj'
            rw [e] at this
            exact List.mem_cons_of_mem _ this
        · exact List.mem_cons_of_mem _ (ih p js (by rw [hg]; exact List.mem_cons_of_mem _ h) j hj)
      · simp only [e, if_false, List.mem_cons, Prod.mk.injEq] at h
        rcases h with ⟨rfl, rfl⟩ | ⟨rfl, rfl⟩ | h
        · simp only [List.mem_singleton] at hj; subst hj; simp
        · exact List.mem_cons_of_mem _ (ih p js (by rw [hg]; simp) j hj)
        · exact List.mem_cons_of_mem _ (ih p js (by rw [hg]; exact List.mem_cons_of_mem _ h) j hj)

/-- a location of child `fid` is a position of a parent that refers to `fid` -/
theorem childLocs_mem (o : Options) (parents : List ParentV) (fid i j : Nat) (h : (i, j) ∈ childLocs o parents fid) :
    ∃ p, parents[i]? = some p ∧ ∃ ann, p.refs[j]? = some (fid, ann) := by
  unfold childLocs at h
  obtain ⟨⟨p, i'⟩, hpi, hin⟩ := List.mem_flatMap.mp h
  obtain ⟨⟨⟨f, ann⟩, j'⟩, hfj, hsome⟩ := List.mem_filterMap.mp hin
  simp only at hsome
  split at hsome
  · rename_i hc
    simp only [Option.some.injEq, Prod.mk.injEq] at hsome
    obtain ⟨rfl, rfl⟩ := hsome
    have h1 := List.mem_zipIdx_iff_getElem?.mp hpi
    have h2 := List.mem_zipIdx_iff_getElem?.mp hfj
    exact ⟨p, h1, ann, by rw [h2, hc.1]⟩
  · cases hsome

/-- every effect of a child: its updates are updates of versions of that child at positions of the effect's
    parent that refer to that child -/
theorem childEffects_mem (o : Options) (parents : List ParentV) (hist : Nat → Option (List Child)) (fid : Nat)
    (es : List Effect) (h : childEffects o parents hist fid = .ok es) :
    ∀ E ∈ es, ∀ u ∈ E.updates, ∃ cl, hist fid = some cl ∧ ∃ c ∈ cl, ∃ p, parents[E.parent]? = some p ∧
      ∃ ann, p.refs[u.index]? = some (fid, ann) ∧ u = c.update u.index := by
  unfold childEffects at h
  cases hh : hist fid with
  | none =>
    simp only [hh] at h
    split at h
    · simp only [Except.ok.injEq] at h; subst h; intro E hE; cases hE
    · cases h
  | some cl =>
    simp only [hh] at h
    -- generalise the fold
    have key : ∀ (groups : List (Nat × List Nat)) (acc res : List Effect),
        (∀ g ∈ groups, ∀ j ∈ g.2, (g.1, j) ∈ childLocs o parents fid) →
        (∀ E ∈ acc, ∀ u ∈ E.updates, ∃ c ∈ cl, ∃ p, parents[E.parent]? = some p ∧
          ∃ ann, p.refs[u.index]? = some (fid, ann) ∧ u = c.update u.index) →
        groups.foldlM (init := acc) (fun acc (x : Nat × List Nat) => do
          match ← groupEffect o parents fid cl x.1 x.2 with
          | some e => pure (acc ++ [e])
          | none => pure acc) = .ok res →
        ∀ E ∈ res, ∀ u ∈ E.updates, ∃ c ∈ cl, ∃ p, parents[E.parent]? = some p ∧
          ∃ ann, p.refs[u.index]? = some (fid, ann) ∧ u = c.update u.index := by
      intro groups
      induction groups with
      | nil => intro acc res _ hacc hr; simp only [List.foldlM_nil, pure, Except.pure, Except.ok.injEq] at hr; subst hr; exact hacc
      | cons g rest ih =>
        intro acc res hg hacc hr
        simp only [List.foldlM_cons, bind, Except.bind] at hr
        cases hge : groupEffect o parents fid cl g.1 g.2 with
        | error e => simp [hge] at hr
        | ok oe =>
          simp only [hge] at hr
          cases oe with
          | none =>
            simp only [pure, Except.pure] at hr
            exact ih acc res (fun g' hg' => hg g' (List.mem_cons_of_mem _ hg')) hacc hr
          | some e =>
            simp only [pure, Except.pure] at hr
            refine ih (acc ++ [e]) res (fun g' hg' => hg g' (List.mem_cons_of_mem _ hg')) ?_ hr
            intro E hE u hu
            rcases List.mem_append.mp hE with h1 | h1
            · exact hacc E h1 u hu
            · simp only [List.mem_singleton] at h1; subst h1
              obtain ⟨hpar, hmem⟩ := groupEffect_mem o parents fid cl g.1 g.2 E hge
              obtain ⟨c, hc, j, hj, rfl⟩ := hmem u hu
              obtain ⟨p, hp, ann, hann⟩ := childLocs_mem o parents fid g.1 j (hg g (by simp) j hj)
              exact ⟨c, hc, p, by rw [hpar]; exact hp, ann, hann, rfl⟩
    intro E hE u hu
    obtain ⟨c, hc, rest⟩ := key _ [] es
      (fun g hg j hj => groupByParent_mem _ g.1 g.2 hg j hj) (fun E hE => by cases hE) h E hE u hu
    exact ⟨cl, rfl, c, hc, rest⟩

/-- **no two different updates of a parent share index, time and version** when version numbers are distinct
    within every child history -/
theorem keys_injective (o : Options) (parents : List ParentV) (hist : Nat → Option (List Child)) (hd : DistinctVersions hist)
    (order : List Nat) (r : Result) (h : compute o parents hist order = .ok r) (i : Nat) :
    KeysInjective (r.updates.getD i []) := by
  rw [compute_eq_collect] at h
  cases hc : collect o parents hist [] order with
  | error e => rw [hc] at h; simp [Except.map] at h
  | ok effs =>
    rw [hc] at h
    simp only [Except.map, Except.ok.injEq] at h
    subst h
    have hall : ∀ fid ∈ order, ∃ es, childEffects o parents hist fid = .ok es := by
      intro fid hfid
      cases hce : childEffects o parents hist fid with
      | ok es => exact ⟨es, rfl⟩
      | error e =>
        obtain ⟨e', he'⟩ := collect_err o parents hist order [] ⟨fid, hfid, e, hce⟩
        rw [hc] at he'; cases he'
    have hf := collect_ok_iff o parents hist order [] hall
    rw [hc] at hf
    simp only [List.nil_append, Except.ok.injEq] at hf
    by_cases hi : i < parents.length
    · simp only [List.getD_eq_getElem?_getD, List.getElem?_map, List.getElem?_range hi, Option.map_some, Option.getD_some]
      -- membership in the sorted list = membership in the collected one
      have hmem : ∀ u, u ∈ sortByIndex ((effs.filter (·.parent = i)).flatMap (·.updates)) →
          ∃ fid ∈ order, ∃ cl, hist fid = some cl ∧ ∃ c ∈ cl, ∃ p, parents[i]? = some p ∧
            ∃ ann, p.refs[u.index]? = some (fid, ann) ∧ u = c.update u.index := by
        intro u hu
        have hu' := (sortByIndex_perm _).mem_iff.mp hu
        obtain ⟨E, hE, huE⟩ := List.mem_flatMap.mp hu'
        have hEp := List.mem_filter.mp hE
        have hpar : E.parent = i := by simpa using hEp.2
        rw [hf] at hEp
        obtain ⟨fid, hfid, hEf⟩ := List.mem_flatMap.mp hEp.1
        obtain ⟨es, hes⟩ := hall fid hfid
        have : E ∈ es := by simpa [okEffects, hes] using hEf
        obtain ⟨cl, hcl, c, hcm, p, hp, ann, hann, hu2⟩ := childEffects_mem o parents hist fid es hes E this u huE
        exact ⟨fid, hfid, cl, hcl, c, hcm, p, by rw [← hpar]; exact hp, ann, hann, hu2⟩
      intro a ha b hb hidx _ hver
      obtain ⟨fa, _, cla, hcla, ca, hca, pa, hpa, anna, hra, hua⟩ := hmem a ha
      obtain ⟨fb, _, clb, hclb, cb, hcb, pb, hpb, annb, hrb, hub⟩ := hmem b hb
      -- the same position of the same parent: the same child
      rw [hpa] at hpb
      have hpe : pa = pb := Option.some.inj hpb
      subst hpe
      rw [hidx, hrb] at hra
      have hfe : fb = fa := by
        have := Option.some.inj hra
        exact (Prod.mk.inj this).1
      subst hfe
      rw [hcla] at hclb
      have hcle : cla = clb := Option.some.inj hclb
      subst hcle
      -- the same version of that child
      have hva : a.version = ca.version := by rw [hua]; rfl
      have hvb : b.version = cb.version := by rw [hub]; rfl
      have hce : ca = cb := inj_of_nodup_map (·.version) cla (hd fb cla hcla) ca hca cb hcb (by rw [← hva, ← hvb, hver])
      rw [hua, hub, hce, hidx]
    · have : (List.range parents.length)[i]? = none := by simp; omega
      simp only [List.getD_eq_getElem?_getD, List.getElem?_map, this, Option.map_none, Option.getD_none]
      intro a ha; cases ha

/-- **for histories with distinct version numbers every parent's update list is the same under every iteration
    order of the child map** -/
theorem updates_order_independent (o : Options) (parents : List ParentV) (hist : Nat → Option (List Child))
    (hd : DistinctVersions hist) (order1 order2 : List Nat) (hp : order1.Perm order2) (r1 r2 : Result)
    (h1 : compute o parents hist order1 = .ok r1) (h2 : compute o parents hist order2 = .ok r2) (i : Nat) :
    r2.updates.getD i [] = r1.updates.getD i [] :=
  ((compute_order_independent o parents hist order1 order2 hp).2 r1 r2 h1 h2).1 i
    (keys_injective o parents hist hd order1 r1 h1 i)

/-! non-vacuity: a node with three versions, twice in a way with two versions (closed way: positions 0 and 2) -/
def exHist : Nat → Option (List Child) := fun f =>
  if f = 7 then some [
    ⟨1, 10, 0, 1400000000, some 1400000000, 1, 1, true, false⟩,
    ⟨2, 11, 1, 1400000100, some 1400000100, 2, 2, true, false⟩,
    ⟨3, 12, 2, 1400000100, some 1400000100, 3, 3, true, false⟩]
  else none
def exParents : List ParentV := [⟨10, true, 1400000050, some 1400000050, [(7, false), (8, true), (7, false)]⟩]
example : DistinctVersions exHist := by
  intro fid cl h
  unfold exHist at h
  split at h
  · cases h; decide
  · cases h
example : (match compute ⟨1800, false, true, 0⟩ exParents exHist [7, 8] with
    | .ok r => r.updates.map (·.map fun u => (u.index, u.version))
    | .error _ => []) = [[(0, 2), (0, 3), (2, 2), (2, 3)]] := by decide

end OsmVerif.Props.C12
