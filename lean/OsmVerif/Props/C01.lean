import OsmVerif.Model.PbfCache
import OsmVerif.Lemmas.Pbf
import OsmVerif.Lemmas.PbfRoundTrip
/-!
# C01 — a PBF scan yields exactly the encoded header and elements

* the format model (`Model.Pbf`) is the specification: delta-coded columns, `nano = offset + granularity·raw`,
  `millis = date_granularity·raw`, format defaults; the correspondence check runs it and the real scanner
  on the same files;
* **no stale state**: the decoder keeps its column iterators from block to block; with the bookkeeping
  tables regenerated from `scanDenseNodes` / `extractDenseNodes`, what `extractDenseNodes` sees is — for
  every previous content of the cache and every message — exactly the columns of the message at hand;
* delta coding round-trips; absent optional parts decode to the format defaults.
-/
namespace OsmVerif.Props.C01
open OsmVerif.Gen.Pbf OsmVerif.Model.Pbf OsmVerif.Model.PbfCache

/-- the bookkeeping of `scanDenseNodes`, as read from the source -/
def T : Tables :=
  { fieldCases := [⟨1, [.ids], [.ids]⟩, ⟨5, [], [.info]⟩, ⟨8, [.lats], [.lats]⟩, ⟨9, [.lons], [.lons]⟩, ⟨10, [.keyvals], [.keyvals]⟩],
    infoCases := [⟨1, [.versions], [.versions]⟩, ⟨2, [.timestamps], [.timestamps]⟩, ⟨3, [.changesets], [.changesets]⟩,
      ⟨4, [.uids], [.uids]⟩, ⟨5, [.usids], [.usids]⟩, ⟨6, [.visibles], [.visibles]⟩],
    infoResets := [⟨[.notFlag .versions], false, [.versions]⟩, ⟨[.notFlag .timestamps], false, [.timestamps]⟩,
      ⟨[.notFlag .changesets], false, [.changesets]⟩, ⟨[.notFlag .uids], false, [.uids]⟩,
      ⟨[.notFlag .usids], false, [.usids]⟩, ⟨[.notFlag .visibles], false, [.visibles]⟩],
    postChecks := [⟨[.notFlag .ids], true, []⟩, ⟨[.notFlag .lats], true, []⟩, ⟨[.notFlag .lons], true, []⟩,
      ⟨[.notFlag .keyvals, .emptyData .keyvals], false, [.keyvals]⟩,
      ⟨[.notFlag .info], false, [.versions, .timestamps, .changesets, .uids, .usids, .visibles]⟩],
    guarded := [.versions, .timestamps, .changesets, .uids, .usids, .visibles, .keyvals],
    unguarded := [.ids, .lats, .lons] }

theorem tables_eq : tables = some T := by decide
theorem infoFieldNum_eq : infoFieldNum = some 5 := by decide

/-- every iterator `extractDenseNodes` reads without a nil test is one whose absence `scanDenseNodes` rejects -/
theorem unguarded_are_mandatory :
    T.unguarded.all (fun it => T.fieldCases.any fun c => c.iters.contains it ∧
      c.flags.any fun f => T.postChecks.any fun ch => ch.isError ∧ ch.cond = [.notFlag f]) = true := by decide

/-- **no stale state** (dense nodes): whatever the cache holds from earlier blocks and groups, after the
    bookkeeping of `scanDenseNodes` the extraction sees exactly the columns of this message — an absent
    optional column is absent (format default), never a column of an earlier block -/
theorem dense_sees_message_only (c : Cache) (d : Dense) :
    (scanDense T 5 c d).map seen = some (expected d) := by
  obtain ⟨ids, lat, lon, kv, hasInfo, ver, ts, cs, uid, sid, vis⟩ := d
  cases hasInfo
  · rcases kv with _ | ⟨_ | ⟨_, _⟩⟩ <;> cbv
  · rcases kv with _ | ⟨_ | ⟨_, _⟩⟩ <;> cases ver <;> cases ts <;> cases cs <;> cases uid <;> cases sid <;> cases vis <;> cbv

/-! ## ways and relations: cached iterators are read only when this message set them -/

def splitAnd (s : String) : List String :=
  ((splitS '&' s).filter (· ≠ "")).map fun p => String.ofList ((p.toList.dropWhile (· = ' ')).reverse.dropWhile (· = ' ')).reverse

/-- every iterator passed to `scanTags` / `extractMembers` is assigned by a case that sets a found-flag, and the
    call is guarded by that flag -/
def guardsCover (cases calls : List String) : Bool :=
  calls.all fun c =>
    match splitS '|' c with
    | [cond, _, args] =>
      (list0 args).all fun it => cases.any fun cs =>
        match splitS '|' cs with
        | [_, its, fl] => (list0 its).contains it && fl ≠ "" && (splitAnd cond).contains fl
        | _ => false
    | _ => false

theorem elements_read_only_found_iterators :
    guardsCover scanWaysCases scanWaysGuardedCalls = true ∧ guardsCover scanRelationsCases scanRelationsGuardedCalls = true ∧
    scanWaysGuardedCalls.length = 1 ∧ scanRelationsGuardedCalls.length = 2 ∧
    -- and there is no call of the two consumers outside those guards
    scanWaysConsumerCallCount = scanWaysGuardedCalls.length ∧ scanRelationsConsumerCallCount = scanRelationsGuardedCalls.length := by decide

/-- the parameters and the string table cached from the previous block are cleared before a block is read:
    an absent granularity, offset or date granularity takes the format default, not the previous block's value -/
theorem block_params_reset :
    ["dec.primitiveBlock.Granularity = nil", "dec.primitiveBlock.LatOffset = nil", "dec.primitiveBlock.LonOffset = nil",
     "dec.primitiveBlock.DateGranularity = nil", "dec.primitiveBlock.Stringtable.S = dec.primitiveBlock.Stringtable.S[:0]"].all
      (fun r => blockResets.contains r) = true := by decide

/-- the queue of decoded objects is a fresh slice for every block (what a consumer holds is never appended to again) -/
theorem fresh_queue_per_block : decodeBody.contains "dec.q = make([]osm.Object, 0, 8000)" = true := by decide

/-! ## format defaults and delta coding -/

/-- delta coding loses nothing: the running sums of the consecutive differences are the values, and back -/
theorem delta_roundtrip (l : List Int) : undelta (delta l) = l ∧ delta (undelta l) = l :=
  ⟨undelta_delta l, delta_undelta l⟩

theorem dense_no_info_defaults (gran dg la lo : Int) (st : List String) (d : Dense) (ns : List Node)
    (hi : d.hasInfo = false) (h : decodeDense gran dg la lo st d = some ns) : ∀ n ∈ ns, n.md = {} := by
  unfold decodeDense at h
  simp only [hi] at h
  split at h
  · cases h
  · split at h
    · cases h
    · intro n hn
      obtain ⟨i, _, hf⟩ := mapM_mem _ _ _ h n hn
      simp [getCol] at hf
      rw [← hf]

/-- an element without an Info message has zero metadata and is visible -/
theorem no_info_defaults (dg : Int) (st : List String) : decodeInfo dg st none = some {} := rfl

/-- the objects of a file are the objects of its blocks, each block decoded on its own -/
theorem file_is_blockwise (b : Block) (bs : List Block) :
    decodeFile (b :: bs) = (decodeBlock b).bind fun os => (decodeFile bs).map fun rest => os ++ rest := by
  unfold decodeFile
  rw [List.mapM_cons]
  cases decodeBlock b with
  | none => rfl
  | some os =>
    cases bs.mapM decodeBlock with
    | none => rfl
    | some r => simp

/-! ## decode ∘ encode -/

/-- **decode ∘ encode = meaning, for every list of nodes**: a dense group written from any nodes (delta coded
    ids, coordinates, timestamps, changesets, uids, user ids; keys_vals with one delimiter per node) decodes
    to exactly those nodes — ids, metadata, coordinates `offset + granularity·raw`, tags in order -/
theorem decode_encode_dense (gran dg la lo : Int) (st : List String) (ns : List RNode) (hv : ∀ n ∈ ns, Valid st n) :
    decodeDense gran dg la lo st (encodeDense ns) = some (ns.map (meaning gran dg la lo st)) := by
  unfold decodeDense
  simp only [encodeDense, delta_length, List.length_map, ne_eq, not_true_eq_false, or_self, if_false, if_true,
    undelta_delta, Option.map_some]
  -- the tag lists
  have htags : (if (ns.flatMap fun n => encTags n.tags ++ [(0 : Int)]).isEmpty = true then some (List.replicate ns.length [])
      else splitKV st ns.length (ns.flatMap fun n => encTags n.tags ++ [(0 : Int)])) =
      some (ns.map fun n => n.tags.map fun (k, v) => (st.getD k "", st.getD v "")) := by
    cases ns with
    | nil => simp
    | cons n rest =>
      have : ((n :: rest).flatMap fun n => encTags n.tags ++ [(0 : Int)]).isEmpty = false := by simp
      rw [this]
      simp only [Bool.false_eq_true, if_false]
      exact splitKV_enc st (n :: rest) hv
  simp only [htags]
  refine range_mapM_eq _ _ ns ?_
  intro i hi
  have hvi := hv ns[i] (List.getElem_mem hi)
  have hl (f : RNode → Int) : i < (ns.map f).length := by simpa using hi
  simp only [getCol_some _ i (hl _), List.getElem_map, List.getD_eq_getElem?_getD, List.getElem?_map,
    List.getElem?_eq_getElem hi, Option.map_some, Option.getD_some]
  rw [str_nat st ns[i].sid hvi.1]
  simp only [Option.map_some, meaning]
  cases ns[i].vis <;> simp

/-- decode ∘ encode for ways: delta-coded refs, parallel key/value columns, Info -/
theorem decode_encode_way (gran dg la lo : Int) (st : List String) (w : RWay)
    (hs : w.md.sid < st.length) (ht : ∀ kv ∈ w.tags, kv.1 < st.length ∧ kv.2 < st.length) :
    decodeWay gran dg la lo st (encodeWay w) = some (wayMeaning dg st w) := by
  unfold decodeWay
  simp only [encodeWay, Option.getD_some, undelta_delta, decodeInfo_encode dg st w.md hs, decodeTags_encode st w.tags ht]
  simp only [wayMeaning, Option.some.injEq, Way.mk.injEq, true_and]
  have := range_map_getD w.refs 0 (fun r => ({ ref := r } : WayNode))
  have hr : ∀ i : Nat, ((List.replicate w.refs.length (none : Option Int))[i]?).getD none = none := by
    intro i
    simp only [List.getElem?_replicate]
    split <;> rfl
  simpa [List.getD_eq_getElem?_getD, hr] using this


/-- decode ∘ encode for relations: parallel role / delta-coded member id / type columns -/
theorem decode_encode_rel (dg : Int) (st : List String) (r : RRel)
    (hs : r.md.sid < st.length) (ht : ∀ kv ∈ r.tags, kv.1 < st.length ∧ kv.2 < st.length)
    (hm : ∀ m ∈ r.members, m.1 ≤ 2 ∧ m.2.2 < st.length) :
    decodeRel dg st (encodeRel r) = some (relMeaning dg st r) := by
  unfold decodeRel
  simp only [encodeRel, Option.getD_some, undelta_delta, List.length_map, ne_eq, not_true_eq_false, or_self, if_false,
    decodeInfo_encode dg st r.md hs, decodeTags_encode st r.tags ht]
  have hmem : (List.range r.members.length).mapM (fun i =>
      (str st ((r.members.map fun m => (m.2.2 : Int)).getD i 0)).bind fun role =>
        let t := (r.members.map fun m => (m.1 : Int)).getD i 0
        if t < 0 ∨ t > 2 then none
        else some ({ type := t, ref := (r.members.map (·.2.1)).getD i 0, role := role } : Member)) =
      some (r.members.map fun m => { type := (m.1 : Int), ref := m.2.1, role := st.getD m.2.2 "" }) := by
    refine range_mapM_eq _ _ r.members ?_
    intro i hi
    have h := hm r.members[i] (List.getElem_mem hi)
    simp only [List.getD_eq_getElem?_getD, List.getElem?_map, List.getElem?_eq_getElem hi, Option.map_some, Option.getD_some]
    rw [str_nat st _ h.2]
    have : ¬ (((r.members[i].1 : Nat) : Int) < 0 ∨ ((r.members[i].1 : Nat) : Int) > 2) := by omega
    simp [this]
  simp only [hmem, relMeaning]

/-! ## non-vacuity -/
example : decodeDense 100 1000 0 0 ["", "u", "k", "v"]
    (encodeDense [⟨5, 10, 7, 1, 2, 3, 4, 1, true, [(2, 3)]⟩, ⟨3, -1, 2, 9, 5, 1, 4, 0, false, []⟩]) =
    some [{ id := 5, md := { ver := 1, ts := some 2000, cs := 3, uid := 4, user := "u", vis := true }, lat := 1000, lon := 700, tags := [("k", "v")] },
          { id := 3, md := { ver := 9, ts := some 5000, cs := 1, uid := 4, user := "", vis := false }, lat := -100, lon := 200 }] := by decide
example : decodeDense 100 1000 0 0 ["", "name", "x"] { ids := [5, 2], lat := [10, -3], lon := [7, 1], kv := some [1, 2, 0, 0] } =
    some [{ id := 5, lat := 1000, lon := 700, tags := [("name", "x")] }, { id := 7, lat := 700, lon := 800 }] := by decide
example : undelta [5, 2, -3] = [5, 7, 4] ∧ delta [5, 7, 4] = [5, 2, -3] := by decide

end OsmVerif.Props.C01
