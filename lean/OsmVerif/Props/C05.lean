import OsmVerif.Model.Json
import OsmVerif.Lemmas.Schema
import OsmVerif.Model.JsonFields
/-!
# C05 — OSM JSON is osmjson-shaped and round-trips

Theorems over the container codec plans computed from the regenerated facts (`Model.Json.mplan`,
`uplan`) and over the regenerated struct tags. Element payloads are opaque: what is proved here is what
the library itself decides — which collections go into `elements` and under which `type`, which
top-level keys are written and read, how `version` is decoded, how the dispatcher files every element.
The reflection codec (encoding/json or the installed one) is trusted; the correspondence check drives
the same plans and the real code on the same inputs.
-/
namespace OsmVerif.Props.C05
open OsmVerif.Gen.Schema OsmVerif.Model.Schema OsmVerif.Model.Json OsmVerif.Spec.OsmSchema

/-- what `OSM.MarshalJSON` writes: five optional string keys, the bounds as a top-level object, and the
    six typed collections in `elements` -/
def MP : MPlan :=
  { strKeys := [("version", "o.Version", true), ("generator", "o.Generator", true), ("copyright", "o.Copyright", true),
      ("attribution", "o.Attribution", true), ("license", "o.License", true)],
    boundsKey := some "bounds",
    elems := [("o.Nodes", "node"), ("o.Ways", "way"), ("o.Relations", "relation"), ("o.Changesets", "changeset"),
      ("o.Users", "user"), ("o.Notes", "note")] }

/-- what `OSM.UnmarshalJSON` reads -/
def UP : UPlan :=
  { strKeys := [("version", "o.Version", .sprintfNonNil), ("generator", "o.Generator", .plain), ("copyright", "o.Copyright", .plain),
      ("attribution", "o.Attribution", .plain), ("license", "o.License", .plain)],
    boundsKey := some "bounds",
    cases := [("node", "o.Nodes"), ("way", "o.Ways"), ("relation", "o.Relations"), ("changeset", "o.Changesets"),
      ("note", "o.Notes"), ("user", "o.Users")] }

theorem mplan_eq : mplan = some MP := by decide
theorem uplan_eq : uplan = some UP := by decide

/-- **every element carries its type** and the dispatcher files it back into the collection it came from -/
theorem elements_typed (mp : MPlan) (up : UPlan) (hm : mplan = some mp) (hu : uplan = some up) :
    ∀ e ∈ mp.elems, e.2 ≠ "" ∧ up.cases.find? (·.1 = e.2) = some (e.2, e.1) := by
  rw [mplan_eq] at hm; rw [uplan_eq] at hu
  cases hm; cases hu
  decide

/-- nothing is left out of the document: every collection of `OSM` is in `elements` or is the top-level bounds -/
theorem all_collections_written (mp : MPlan) (hm : mplan = some mp) :
    ∀ src ∈ objectsOrder, src ∈ mp.elems.map (·.1) ∨ (src = "o.Bounds" ∧ mp.boundsKey.isSome) := by
  rw [mplan_eq] at hm; cases hm
  decide

/-! ## dispatch of the elements array -/

theorem fold_label (c : Colls) (l : List Nat) (label tgt : String) (f : Colls → List Nat → Colls)
    (hl : label ≠ "") (hc : UP.cases.find? (·.1 = label) = some (label, tgt))
    (hp : ∀ c p, c.push tgt p = some (f c [p])) (hf : ∀ c a b, f (f c a) b = f c (a ++ b)) (h0 : ∀ c, f c [] = c) :
    (l.map (fun p => (label, p))).foldl (dispatchStep UP) (some c) = some (f c l) := by
  induction l generalizing c with
  | nil => simp [h0]
  | cons p ps ih =>
    simp only [List.map_cons, List.foldl_cons]
    have : dispatchStep UP (some c) (label, p) = some (f c [p]) := by
      simp [dispatchStep, hl, hc, hp]
    rw [this, ih, hf]
    rfl

/-- **container round trip**: unmarshalling what `MarshalJSON` wrote returns the same top-level fields
    (absent optional fields stay empty), the same bounds and the same elements in every collection, in order -/
theorem osm_json_roundtrip (t : Top) (c : Colls) (mp : MPlan) (up : UPlan) (hm : mplan = some mp) (hu : uplan = some up) :
    runU up (runM mp t c) = some (t, c) := by
  rw [mplan_eq] at hm; rw [uplan_eq] at hu
  cases hm; cases hu
  have hn := fun c l => fold_label c l "node" "o.Nodes" (fun c l => { c with nodes := c.nodes ++ l }) (by decide) (by decide)
    (by intro c p; rfl) (by intro c a b; simp) (by intro c; simp)
  have hw := fun c l => fold_label c l "way" "o.Ways" (fun c l => { c with ways := c.ways ++ l }) (by decide) (by decide)
    (by intro c p; rfl) (by intro c a b; simp) (by intro c; simp)
  have hr := fun c l => fold_label c l "relation" "o.Relations" (fun c l => { c with relations := c.relations ++ l }) (by decide) (by decide)
    (by intro c p; rfl) (by intro c a b; simp) (by intro c; simp)
  have hcs := fun c l => fold_label c l "changeset" "o.Changesets" (fun c l => { c with changesets := c.changesets ++ l }) (by decide) (by decide)
    (by intro c p; rfl) (by intro c a b; simp) (by intro c; simp)
  have hus := fun c l => fold_label c l "user" "o.Users" (fun c l => { c with users := c.users ++ l }) (by decide) (by decide)
    (by intro c p; rfl) (by intro c a b; simp) (by intro c; simp)
  have hno := fun c l => fold_label c l "note" "o.Notes" (fun c l => { c with notes := c.notes ++ l }) (by decide) (by decide)
    (by intro c p; rfl) (by intro c a b; simp) (by intro c; simp)
  have helems : (runM MP t c).elements =
      c.nodes.map (fun p => ("node", p)) ++ (c.ways.map (fun p => ("way", p)) ++ (c.relations.map (fun p => ("relation", p)) ++
      (c.changesets.map (fun p => ("changeset", p)) ++ (c.users.map (fun p => ("user", p)) ++ (c.notes.map (fun p => ("note", p))))))) := by
    simp [runM, MP, Colls.get]
  have hb : (runM MP t c).bounds = c.bounds := by simp [runM, MP]
  have hkeys : (UP.strKeys.foldl (init := some ({} : Top)) fun acc (x : String × String × StrRule) =>
      acc.bind fun t' => t'.set x.2.1 (applyRule x.2.2 (lookupKey (runM MP t c).keys x.1))) = some t := by
    cases t with
    | mk v g cp a l =>
      by_cases hv : v = "" <;> by_cases hg : g = "" <;> by_cases hcp : cp = "" <;> by_cases ha : a = "" <;> by_cases hl : l = "" <;>
        simp [runM, MP, UP, Top.get, Top.set, applyRule, lookupKey, hv, hg, hcp, ha, hl]
  unfold runU
  simp only [hkeys, helems, hb, List.foldl_append, hn, hw, hr, hcs, hus, hno]
  cases c
  simp [UP]

/-! ## the `version` key -/

/-- **an absent version stays empty** (it does not turn into placeholder text), and a version given as a
    string or as a number is taken as written -/
theorem version_decoding (up : UPlan) (hu : uplan = some up) :
    ∃ rule, up.strKeys.find? (·.1 = "version") = some ("version", "o.Version", rule) ∧
      applyRule rule .absent = "" ∧ (∀ s, applyRule rule (.str s) = s) ∧ (∀ s, applyRule rule (.num s) = s) := by
  rw [uplan_eq] at hu; cases hu
  exact ⟨.sprintfNonNil, by decide, rfl, fun _ => rfl, fun _ => rfl⟩

/-- absent optional top-level fields of a decoded document are empty strings -/
theorem absent_fields_stay_empty (up : UPlan) (hu : uplan = some up) (d : Doc) (hk : d.keys = []) (t : Top) (c : Colls)
    (h : runU up d = some (t, c)) : t = {} := by
  rw [uplan_eq] at hu; cases hu
  unfold runU at h
  simp only [hk, UP, lookupKey, List.find?_nil, Option.map_none, Option.getD_none, applyRule, List.foldl_cons, List.foldl_nil,
    Option.bind_some, Top.set] at h
  simp only [Option.map_eq_some_iff, Prod.mk.injEq] at h
  obtain ⟨_, _, h1, _⟩ := h
  exact h1.symm

/-! ## the shape of elements -/

/-- json keys of every codec struct are the osmjson keys (pinned vocabulary; the same table that fixes the XML names) -/
theorem names_eq_osmjson :
    structs.filter (fun e => codecTypes.contains e.1) = pinnedStructs.filter (fun e => codecTypes.contains e.1) :=
  schema_eq_pinned

/-- relation members are never `null`; a zero note date is `null`; tags are an object built from the tag
    map; way nodes are an array of ids — the bodies of the small marshalers are the reviewed ones -/
theorem small_marshalers_pinned :
    membersMarshalJSONBody = ["if len(ms) == 0 { return []byte(`[]`), nil }", "return marshalJSON([]Member(ms))"] ∧
    dateMarshalJSONBody = ["if d.IsZero() { return []byte(`null`), nil }", "return marshalJSON(d.Time)"] ∧
    tagsMarshalJSONBody = ["return marshalJSON(ts.Map())"] ∧
    tagsUnmarshalJSONBody = ["o := make(map[string]string)", "err := json.Unmarshal(data, &o)", "if err != nil { return err }",
      "tags := make(Tags, 0, len(o))", "for k, v := range o { tags = append(tags, Tag{Key: k, Value: v}) }", "*ts = tags", "return nil"] ∧
    tagsMapBody = ["result := make(map[string]string, len(ts))", "for _, t := range ts { result[t.Key] = t.Value }", "return result"] ∧
    wayNodesMarshalJSONBody = ["a := make([]int64, 0, len(wn))", "for _, n := range wn { a = append(a, int64(n.ID)) }", "return marshalJSON(a)"] ∧
    wayNodesUnmarshalJSONBody = ["var a []int64", "err := unmarshalJSON(data, &a)", "if err != nil { return err }",
      "nodes := make(WayNodes, len(a))", "for i, id := range a { nodes[i].ID = NodeID(id) }", "*wn = nodes", "return nil"] := by
  decide

/-- **both codec configurations**: every helper consults the installed codec when there is one and the
    standard library otherwise -/
theorem codec_routing :
    marshalJSONHelperBody = ["if CustomJSONMarshaler == nil { return json.Marshal(v) }", "return CustomJSONMarshaler.Marshal(v)"] ∧
    unmarshalJSONHelperBody = ["if CustomJSONUnmarshaler == nil { return json.Unmarshal(data, v) }", "return CustomJSONUnmarshaler.Unmarshal(data, v)"] := by
  decide

/-! ## the scalar keys of every element (the flat part of the reflection codec) -/

/-- **every record's scalar keys round-trip**: reading back what was written gives every scalar field its
    value; a key left out by `omitempty` held exactly the zero value it is read back as -/
theorem json_fields_roundtrip (t : String) (r : Rec) (hnd : (jsonKeyNames t).Nodup) :
    decodeJson t (encodeJson t r) =
      (fieldsOf t).filterMap fun f => if (jsonView f).use then some (f.name, r.get f.name) else none :=
  OsmVerif.Model.Record.roundtrip jsonView (fun f => zeroText f.type) (fieldsOf t) r hnd
    (fun f _ txt h => by
      simp only [jsonView, Bool.and_eq_true] at h
      exact jsonEmpty_zero f.type txt h.2)

/-- no codec struct uses a JSON key twice -/
theorem codec_json_keys_distinct : ∀ t ∈ codecTypes, (jsonKeyNames t).Nodup := by decide

/-- decoding does not depend on the order of the keys of an object … -/
theorem json_decode_perm (t : String) (a1 a2 : List (String × String)) (hp : a1.Perm a2) (hn : (a1.map (·.1)).Nodup) :
    decodeJson t a1 = decodeJson t a2 :=
  OsmVerif.Model.Record.dec_perm _ _ _ a1 a2 hp hn

/-- … and ignores unknown keys -/
theorem json_decode_ignores_unknown (t : String) (kvs : List (String × String)) (k v : String) (hk : k ∉ jsonKeyNames t) :
    decodeJson t ((k, v) :: kvs) = decodeJson t kvs :=
  OsmVerif.Model.Record.dec_ignores_unknown _ _ _ kvs k v hk

/-! ## tags and way nodes -/

theorem tagsMap_nodup_aux (m ts : List (String × String)) (h : (m ++ ts).map (·.1) |>.Nodup) :
    ts.foldl (fun m kv => if m.any (·.1 = kv.1) then m.map (fun e => if e.1 = kv.1 then kv else e) else m ++ [kv]) m = m ++ ts := by
  induction ts generalizing m with
  | nil => simp
  | cons kv rest ih =>
    simp only [List.foldl_cons]
    have hnot : m.any (·.1 = kv.1) = false := by
      rw [List.any_eq_false]
      intro x hx
      simp only [decide_eq_true_eq]
      intro e
      simp only [List.map_append, List.map_cons] at h
      have := (List.nodup_append.mp h).2.2 x.1 (List.mem_map.mpr ⟨x, hx, rfl⟩) kv.1 (by simp)
      exact this e
    simp only [hnot, Bool.false_eq_true, if_false]
    have : m ++ [kv] ++ rest = m ++ kv :: rest := by simp
    rw [ih (m ++ [kv]) (by rw [this]; exact h), this]

/-- **tags round-trip up to order**: with distinct keys the tag map holds exactly the tags (the object's
    key order is the codec's, hence "up to order") -/
theorem tags_roundtrip (ts : List (String × String)) (h : (ts.map (·.1)).Nodup) : (tagsMap ts).Perm ts := by
  unfold tagsMap
  rw [tagsMap_nodup_aux [] ts (by simpa using h)]
  simp

/-- **tags round-trip up to order, decode included**: `Tags.UnmarshalJSON` (pinned above) appends one tag per
    entry of the decoded object while ranging over a Go map, i.e. in some order `out` of the object's entries;
    whatever that order, with distinct keys the decoded tags are the written tags up to order -/
theorem tags_decode_roundtrip (ts out : List (String × String)) (h : (ts.map (·.1)).Nodup)
    (hout : out.Perm (tagsMap ts)) : out.Perm ts :=
  hout.trans (tags_roundtrip ts h)

/-- **way nodes**: the ids come back in order; versions, changesets and locations are what osmjson has no place for -/
theorem waynodes_roundtrip (ns : List WayNode) :
    wayNodesOfJSON (wayNodesJSON ns) = ns.map (fun n => { id := n.id }) := by
  simp [wayNodesOfJSON, wayNodesJSON]

/-! ## non-vacuity -/
example : runM MP { version := "0.6" } { bounds := some 9, nodes := [1, 2], users := [5] } =
    { keys := [("version", .str "0.6")], bounds := some 9, elements := [("node", 1), ("node", 2), ("user", 5)] } := by decide
example : runU UP { keys := [("generator", .str "g")], elements := [("way", 3), ("node", 1), ("way", 4)] } =
    some ({ generator := "g" }, { nodes := [1], ways := [3, 4] }) := by decide
example : runU UP { elements := [("", 3)] } = none := by decide
example : runU UP { elements := [("bounds", 3)] } = none := by decide
example : tagsMap [("a", "1"), ("b", "2"), ("a", "3")] = [("a", "3"), ("b", "2")] := by decide
example : encodeJson "Node" [("ID", "7"), ("Lat", "1.5"), ("Lon", "0"), ("User", ""), ("UserID", "0"), ("Visible", "true"), ("Version", "0"),
    ("ChangesetID", "0"), ("Timestamp", "0001-01-01T00:00:00Z"), ("Committed", "")] =
    [("id", "7"), ("lat", "1.5"), ("lon", "0"), ("visible", "true"), ("timestamp", "0001-01-01T00:00:00Z")] := by decide

end OsmVerif.Props.C05
