import OsmVerif.Model.Annotate
namespace OsmVerif.Props.C12
open OsmVerif.Model.Annotate
theorem groupByParent_nil : groupByParent [] = [] := rfl
end OsmVerif.Props.C12
