import OsmVerif.Lemmas.Sort
/-!
# C12 — annotation is deterministic; updates are ordered by index, time, version

Theorems about `Model.Annotate.compute` (hand-written model of core.Compute, tied to the code by
the differential stream and by repeating the real computation on deep copies). The order in which
Go iterates the child map is the parameter `order`; the comparison keys of `SortByIndex` are
regenerated from update.go (`Gen.Update.sortIndexKeys`).
-/
namespace OsmVerif.Props.C12
open OsmVerif.Model.Annotate OsmVerif.Gen.Update

/-- the comparison of `updatesSortIndex.Less`, as extracted: index, then timestamp, then version -/
theorem index_keys : sortIndexKeys = ["index", "timestamp", "version"] := by decide

/-- the sort is the stable one (`sortBy` in the model inserts in list order, each element after those that do not sort
    after it): updates that agree on all three keys — a history holding a version number twice — keep the order in
    which the per-child step produced them -/
theorem sort_is_stable : sortByIndexBody = ["sort.Stable(updatesSortIndex(us))"] := by decide

abbrev less := keyLess sortIndexKeys

/-- **ties only between equal keys**: two updates neither of which sorts before the other agree on
    index, timestamp and version (so versions of one child that share a timestamp are never tied) -/
theorem incomparable_keys_equal (a b : Update) (h1 : less a b = false) (h2 : less b a = false) :
    a.index = b.index ∧ a.ts = b.ts ∧ a.version = b.version := by
  have hk := index_keys
  simp only [less, hk, keyLess, keyOf] at h1 h2
  by_cases i1 : (a.index : Int) < b.index
  · simp [i1] at h1
  · by_cases i2 : (b.index : Int) < a.index
    · simp [i2] at h2
    · simp only [i1, i2, if_false] at h1 h2
      by_cases t1 : a.ts < b.ts
      · simp [t1] at h1
      · by_cases t2 : b.ts < a.ts
        · simp [t2] at h2
        · simp only [t1, t2, if_false] at h1 h2
          by_cases v1 : a.version < b.version
          · simp [v1] at h1
          · by_cases v2 : b.version < a.version
            · simp [v2] at h2
            · refine ⟨by omega, by omega, by omega⟩

/-- `a` sorts strictly before `b` exactly when (index, timestamp, version) is lexicographically smaller -/
theorem less_iff_lex (a b : Update) :
    less a b = true ↔ (a.index < b.index ∨ (a.index = b.index ∧ (a.ts < b.ts ∨ (a.ts = b.ts ∧ a.version < b.version)))) := by
  have hk := index_keys
  simp only [less, hk, keyLess, keyOf]
  by_cases i1 : (a.index : Int) < b.index
  · have : a.index < b.index := by omega
    simp [i1, this]
  · by_cases i2 : (b.index : Int) < a.index
    · have h1 : ¬ a.index < b.index := by omega
      have h2 : ¬ a.index = b.index := by omega
      simp [i1, i2, h1, h2]
    · have e : a.index = b.index := by omega
      have h1 : ¬ a.index < b.index := by omega
      simp only [i1, i2, if_false, h1, false_or, e, true_and]
      by_cases t1 : a.ts < b.ts
      · simp [t1]
      · by_cases t2 : b.ts < a.ts
        · have : ¬ a.ts = b.ts := by omega
          simp [t1, t2, this]
        · have e2 : a.ts = b.ts := by omega
          simp only [t1, t2, if_false, false_or, e2, true_and]
          by_cases v1 : a.version < b.version
          · simp [v1]
          · by_cases v2 : b.version < a.version <;> simp [v1, v2]

theorem sortByIndex_sorted (l : List Update) : SortedBy less (sortByIndex l) :=
  sortBy_sorted _ (keyLess_asymm _) (keyLess_trans _) l

theorem sortByIndex_perm (l : List Update) : (sortByIndex l).Perm l := sortBy_perm _ l

/-! ## the per-child fold -/

/-- the effects of a child that is processed without error -/
def okEffects (o : Options) (parents : List ParentV) (hist : Nat → Option (List Child)) (fid : Nat) : List Effect :=
  match childEffects o parents hist fid with
  | .ok es => es
  | .error _ => []

def collect (o : Options) (parents : List ParentV) (hist : Nat → Option (List Child)) (acc : List Effect) (order : List Nat) :
    Except Err (List Effect) :=
  order.foldlM (init := acc) fun acc fid => do
    let es ← childEffects o parents hist fid
    pure (acc ++ es)

theorem collect_ok_iff (o : Options) (parents : List ParentV) (hist : Nat → Option (List Child)) (order : List Nat) :
    ∀ acc, (∀ fid ∈ order, ∃ es, childEffects o parents hist fid = .ok es) →
      collect o parents hist acc order = .ok (acc ++ order.flatMap (okEffects o parents hist)) := by
  induction order with
  | nil => intro acc _; simp [collect, pure, Except.pure]
  | cons f rest ih =>
    intro acc h
    obtain ⟨es, hes⟩ := h f (by simp)
    have hrest := ih (acc ++ es) (fun g hg => h g (by simp [hg]))
    simp only [collect, List.foldlM_cons, hes, bind, Except.bind, pure, Except.pure] at hrest ⊢
    rw [hrest]
    simp [okEffects, hes]

theorem collect_err (o : Options) (parents : List ParentV) (hist : Nat → Option (List Child)) (order : List Nat) :
    ∀ acc, (∃ fid ∈ order, ∃ e, childEffects o parents hist fid = .error e) →
      ∃ e, collect o parents hist acc order = .error e := by
  induction order with
  | nil => intro acc h; obtain ⟨f, hf, _⟩ := h; cases hf
  | cons f rest ih =>
    intro acc h
    cases hf : childEffects o parents hist f with
    | error e => exact ⟨e, by simp [collect, List.foldlM_cons, hf, bind, Except.bind]⟩
    | ok es =>
      obtain ⟨g, hg, e, he⟩ := h
      rcases List.mem_cons.mp hg with e1 | e1
      · subst e1; rw [hf] at he; cases he
      · obtain ⟨e', he'⟩ := ih (acc ++ es) ⟨g, e1, e, he⟩
        exact ⟨e', by simpa [collect, List.foldlM_cons, hf, bind, Except.bind, pure, Except.pure] using he'⟩

/-- success or failure does not depend on the iteration order -/
theorem collect_success_perm (o : Options) (parents : List ParentV) (hist : Nat → Option (List Child))
    (order1 order2 : List Nat) (hp : order1.Perm order2) :
    (∃ r, collect o parents hist [] order1 = .ok r) ↔ (∃ r, collect o parents hist [] order2 = .ok r) := by
  have key : ∀ a b : List Nat, a.Perm b → (∃ r, collect o parents hist [] a = .ok r) → ∃ r, collect o parents hist [] b = .ok r := by
    intro a b hab ⟨r, hr⟩
    have hall : ∀ fid ∈ b, ∃ es, childEffects o parents hist fid = .ok es := by
      intro fid hfid
      cases hc : childEffects o parents hist fid with
      | ok es => exact ⟨es, rfl⟩
      | error e =>
        obtain ⟨e', he'⟩ := collect_err o parents hist a [] ⟨fid, hab.mem_iff.mpr hfid, e, hc⟩
        rw [hr] at he'; cases he'
    exact ⟨_, collect_ok_iff o parents hist b [] hall⟩
  exact ⟨key _ _ hp, key _ _ hp.symm⟩

/-- the value a parent's child slot `j` ends up with -/
def childAt (sets : List (Nat × Child)) (j : Nat) : Option Child :=
  ((sets.filter (fun s => s.1 = j)).getLast?).map (·.2)

theorem filter_key_perm {l1 l2 : List (Nat × Child)} (hp : l1.Perm l2) (hn : (l1.map (·.1)).Nodup) (j : Nat) :
    l1.filter (fun s => s.1 = j) = l2.filter (fun s => s.1 = j) := by
  have hpf := hp.filter (fun s => decide (s.1 = j))
  have hlen : ∀ l : List (Nat × Child), (l.map (·.1)).Nodup → (l.filter (fun s => decide (s.1 = j))).length ≤ 1 := by
    intro l
    induction l with
    | nil => simp
    | cons x xs ih =>
      intro hnd
      simp only [List.map_cons, List.nodup_cons] at hnd
      by_cases hx : x.1 = j
      · have : xs.filter (fun s => decide (s.1 = j)) = [] := by
          rw [List.filter_eq_nil_iff]
          intro y hy
          simp only [decide_eq_true_eq]
          intro e
          exact hnd.1 (by rw [hx, ← e]; exact List.mem_map.mpr ⟨y, hy, rfl⟩)
        simp [List.filter_cons, hx, this]
      · simp only [List.filter_cons, hx, decide_false, Bool.false_eq_true, if_false]
        exact ih hnd.2
  have h1 := hlen l1 hn
  have h2 := hlen l2 ((hp.map _).nodup_iff.mp hn)
  match e1 : l1.filter (fun s => decide (s.1 = j)), e2 : l2.filter (fun s => decide (s.1 = j)) with
  | [], [] => rw [e1, e2]
  | [a], [b] =>
    rw [e1, e2] at hpf
    have := hpf.mem_iff.mp (List.mem_singleton.mpr rfl)
    simp only [List.mem_singleton] at this
    rw [e1, e2, this]
  | [], _ :: _ => rw [e1, e2] at hpf; exact absurd hpf.length_eq (by simp)
  | _ :: _, [] => rw [e1, e2] at hpf; exact absurd hpf.length_eq (by simp)
  | _ :: _ :: _, _ => rw [e1] at h1; simp at h1
  | _, _ :: _ :: _ => rw [e2] at h2; simp at h2

/-- no two different updates of one parent share index, timestamp and version -/
def KeysInjective (l : List Update) : Prop :=
  ∀ a ∈ l, ∀ b ∈ l, a.index = b.index → a.ts = b.ts → a.version = b.version → a = b

/-- `compute` = fold over the children, then per-parent projection and sort -/
theorem compute_eq_collect (o : Options) (parents : List ParentV) (hist : Nat → Option (List Child)) :
    ∀ order, compute o parents hist order =
      (collect o parents hist [] order).map (fun effects =>
        { sets := (List.range parents.length).map (fun i => (effects.filter (·.parent = i)).flatMap (·.sets)),
          updates := (List.range parents.length).map (fun i => sortByIndex ((effects.filter (·.parent = i)).flatMap (·.updates))) }) := by
  intro order
  unfold compute collect
  cases h : List.foldlM (fun acc fid => do
      let es ← childEffects o parents hist fid
      pure (acc ++ es)) ([] : List Effect) order with
  | error e => simp [bind, Except.bind, Except.map]
  | ok effs => simp [bind, Except.bind, Except.map, pure, Except.pure]

/-- **annotation is a function of its input, independent of hash-map iteration order**: for two
    iteration orders of the same child set either both fail or both succeed; then every parent's update
    list is identical (given that no two distinct updates of one parent share index, time and version —
    `updates_ties_equal` below shows where that comes from) and every child slot holds the same child. -/
theorem compute_order_independent (o : Options) (parents : List ParentV) (hist : Nat → Option (List Child))
    (order1 order2 : List Nat) (hp : order1.Perm order2) :
    ((∃ r, compute o parents hist order1 = .ok r) ↔ (∃ r, compute o parents hist order2 = .ok r)) ∧
    ∀ r1 r2, compute o parents hist order1 = .ok r1 → compute o parents hist order2 = .ok r2 →
      (∀ i, KeysInjective (r1.updates.getD i []) → r2.updates.getD i [] = r1.updates.getD i []) ∧
      (∀ i j, ((r1.sets.getD i []).map (·.1)).Nodup →
        childAt (r2.sets.getD i []) j = childAt (r1.sets.getD i []) j) := by
  have hcomp := compute_eq_collect o parents hist
  have hsucc := collect_success_perm o parents hist order1 order2 hp
  constructor
  · rw [hcomp, hcomp]
    constructor
    · rintro ⟨r, hr⟩
      cases h1 : collect o parents hist [] order1 with
      | error e => rw [h1] at hr; simp [Except.map] at hr
      | ok e1 =>
        obtain ⟨e2, he2⟩ := hsucc.mp ⟨e1, h1⟩
        exact ⟨_, by rw [he2]; rfl⟩
    · rintro ⟨r, hr⟩
      cases h2 : collect o parents hist [] order2 with
      | error e => rw [h2] at hr; simp [Except.map] at hr
      | ok e2 =>
        obtain ⟨e1, he1⟩ := hsucc.mpr ⟨e2, h2⟩
        exact ⟨_, by rw [he1]; rfl⟩
  · intro r1 r2 h1 h2
    rw [hcomp] at h1 h2
    -- both collects succeeded: get the effect lists
    cases c1 : collect o parents hist [] order1 with
    | error e => rw [c1] at h1; simp [Except.map] at h1
    | ok e1 =>
      cases c2 : collect o parents hist [] order2 with
      | error e => rw [c2] at h2; simp [Except.map] at h2
      | ok e2 =>
        rw [c1] at h1; rw [c2] at h2
        simp only [Except.map, Except.ok.injEq] at h1 h2
        -- the effect lists are permutations of each other
        have hall1 : ∀ fid ∈ order1, ∃ es, childEffects o parents hist fid = .ok es := by
          intro fid hfid
          cases hc : childEffects o parents hist fid with
          | ok es => exact ⟨es, rfl⟩
          | error e =>
            obtain ⟨e', he'⟩ := collect_err o parents hist order1 [] ⟨fid, hfid, e, hc⟩
            rw [c1] at he'; cases he'
        have hall2 : ∀ fid ∈ order2, ∃ es, childEffects o parents hist fid = .ok es :=
          fun fid hfid => hall1 fid (hp.mem_iff.mpr hfid)
        have f1 := collect_ok_iff o parents hist order1 [] hall1
        have f2 := collect_ok_iff o parents hist order2 [] hall2
        rw [c1] at f1; rw [c2] at f2
        simp only [List.nil_append, Except.ok.injEq] at f1 f2
        have hpe : e1.Perm e2 := by rw [f1, f2]; exact hp.flatMap_right _
        subst h1; subst h2
        constructor
        · intro i hk
          by_cases hi : i < parents.length
          · simp only [List.getD_eq_getElem?_getD, List.getElem?_map, List.getElem?_range hi, Option.map_some,
              Option.getD_some] at hk ⊢
            have hpu : ((e1.filter (·.parent = i)).flatMap (·.updates)).Perm ((e2.filter (·.parent = i)).flatMap (·.updates)) :=
              (hpe.filter _).flatMap_right _
            symm
            apply sorted_perm_unique less _ _ ((sortByIndex_perm _).trans (hpu.trans (sortByIndex_perm _).symm))
              (sortByIndex_sorted _) (sortByIndex_sorted _)
            intro a ha b hb l1 l2
            obtain ⟨k1, k2, k3⟩ := incomparable_keys_equal a b l1 l2
            exact hk a ha b hb k1 k2 k3
          · have : (List.range parents.length)[i]? = none := by simp; omega
            simp [List.getD_eq_getElem?_getD, List.getElem?_map, this]
        · intro i j hn
          by_cases hi : i < parents.length
          · simp only [List.getD_eq_getElem?_getD, List.getElem?_map, List.getElem?_range hi, Option.map_some,
              Option.getD_some] at hn ⊢
            have hps : ((e1.filter (·.parent = i)).flatMap (·.sets)).Perm ((e2.filter (·.parent = i)).flatMap (·.sets)) :=
              (hpe.filter _).flatMap_right _
            unfold childAt
            rw [filter_key_perm hps hn j]
          · have : (List.range parents.length)[i]? = none := by simp; omega
            simp [List.getD_eq_getElem?_getD, List.getElem?_map, this]

/-- **each update list is ordered by child index and, within an index, by time and then by child version** -/
theorem updates_sorted_index_time_version (o : Options) (parents : List ParentV) (hist : Nat → Option (List Child))
    (order : List Nat) (r : Result) (h : compute o parents hist order = .ok r) :
    ∀ l ∈ r.updates, l.Pairwise (fun a b =>
      a.index < b.index ∨ (a.index = b.index ∧ (a.ts < b.ts ∨ (a.ts = b.ts ∧ a.version ≤ b.version)))) := by
  intro l hl
  have hs : SortedBy less l := by
    rw [compute_eq_collect] at h
    cases hc : collect o parents hist [] order with
    | error e => rw [hc] at h; simp [Except.map] at h
    | ok effs =>
      rw [hc] at h
      simp only [Except.map, Except.ok.injEq] at h
      subst h
      simp only [List.mem_map, List.mem_range] at hl
      obtain ⟨i, _, rfl⟩ := hl
      exact sortByIndex_sorted _
  apply List.Pairwise.imp _ hs
  intro a b hba
  -- ¬ (b < a) in the lexicographic order
  have : ¬ (b.index < a.index ∨ (b.index = a.index ∧ (b.ts < a.ts ∨ (b.ts = a.ts ∧ b.version < a.version)))) :=
    fun hh => by have := (less_iff_lex b a).mpr hh; rw [hba] at this; cases this
  by_cases i1 : a.index < b.index
  · exact Or.inl i1
  · right
    have ei : a.index = b.index := by
      rcases Nat.lt_or_ge b.index a.index with h | h
      · exact absurd (Or.inl h) this
      · omega
    refine ⟨ei, ?_⟩
    by_cases t1 : a.ts < b.ts
    · exact Or.inl t1
    · right
      have et : a.ts = b.ts := by
        rcases Int.lt_or_le b.ts a.ts with h | h
        · exact absurd (Or.inr ⟨ei.symm, Or.inl h⟩) this
        · omega
      refine ⟨et, ?_⟩
      rcases Int.lt_or_le b.version a.version with h | h
      · exact absurd (Or.inr ⟨ei.symm, Or.inr ⟨et.symm, h⟩⟩) this
      · exact h

/-- regression witness for the repaired defect: with the keys the source had before (`index`, `timestamp`
    only) two versions of one child that share a second are incomparable although different, so the
    sorted order was not unique -/
theorem updates_tie_counterexample :
    let a : Update := ⟨0, 2, 100, 7, 1, 1, false⟩
    let b : Update := ⟨0, 3, 100, 7, 2, 2, false⟩
    keyLess ["index", "timestamp"] a b = false ∧ keyLess ["index", "timestamp"] b a = false ∧ a ≠ b ∧
    less a b = true := by decide

end OsmVerif.Props.C12
