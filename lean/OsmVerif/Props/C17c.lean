import OsmVerif.Props.C17b
/-!
# C17 (continued) — one feature per element, except for the recorded finding

`one_feature_per_element_counterexample` shows that two old-style multipolygon relations sharing their outer way
give two features with that way's identity. Everything else is unique: with distinct ids per kind in the input,
relation features are pairwise distinct, node features are pairwise distinct, the way features of the way pass are
pairwise distinct, and no way of the way pass repeats a way that the relation pass already emitted (it is in the
skippable set).
-/
namespace OsmVerif.Props.C17
open OsmVerif.Model.Geo OsmVerif.Model.Convert OsmVerif.Props.C16

/-- the member loop of `buildPolygon` only ever adds to the skippable set -/
theorem polyMembers_skip_mono (d : Data) (tags : Tags) (x : Int) :
    ∀ (ms : List Member) (skip : Skip), x ∈ skip → x ∈ (polyMembers d tags ms skip).skip := by
  intro ms skip hx
  unfold polyMembers
  generalize hinit : ({ outer := [], inner := [], tainted := false, outerCount := 0, outerWay := none, skip := skip } : PolyParts) = init
  have hin : x ∈ init.skip := by rw [← hinit]; exact hx
  clear hinit hx
  induction ms generalizing init with
  | nil => exact hin
  | cons m rest ih =>
    simp only [List.foldl_cons]
    apply ih
    repeat' split
    all_goals first | exact hin | exact List.mem_append_left _ hin

/-- what a multipolygon relation's feature is: the relation itself, or (old style) its outer way, which is then in
    the skippable set -/
theorem buildPolygon_feature (o : Opts) (d : Data) (r : RelationE) (skip : Skip) (f : Feature)
    (h : (buildPolygon o d r skip).1 = some f) :
    (f.kind = "relation" ∧ f.id = r.id) ∨ (f.kind = "way" ∧ f.id ∈ (buildPolygon o d r skip).2) := by
  cases hres : buildPolygon o d r skip with
  | mk a b =>
    rw [hres] at h
    simp only at h ⊢
    unfold buildPolygon at hres
    simp only at hres
    repeat' split at hres
    all_goals (cases hres; first | (cases h; done) | (cases h; exact Or.inl ⟨rfl, rfl⟩) | (cases h; exact Or.inr ⟨rfl, by simp⟩))

theorem buildPolygon_skip_mono (o : Opts) (d : Data) (r : RelationE) (skip : Skip) (x : Int) (hx : x ∈ skip) :
    x ∈ (buildPolygon o d r skip).2 := by
  rw [buildPolygon_skip]
  unfold polySkip
  have := polyMembers_skip_mono d (tagMap r.tags) x r.members skip hx
  simp only
  repeat' split
  all_goals first | exact this | exact List.mem_append_left _ this

theorem buildRoute_feature (o : Opts) (d : Data) (r : RelationE) (skip : Skip) (f : Feature)
    (h : (buildRoute o d r skip).1 = some f) : f.kind = "relation" ∧ f.id = r.id := by
  unfold buildRoute at h
  simp only at h
  split at h
  · cases h
  · cases h; exact ⟨rfl, rfl⟩

theorem buildRoute_skip_mono (o : Opts) (d : Data) (r : RelationE) (skip : Skip) (x : Int) (hx : x ∈ skip) :
    x ∈ (buildRoute o d r skip).2 := by
  unfold buildRoute
  simp only
  generalize hinit : (([], false, skip) : List Seg × Bool × Skip) = init
  have hin : x ∈ init.2.2 := by rw [← hinit]; exact hx
  clear hinit hx
  have key : ∀ (ms : List Member) (init : List Seg × Bool × Skip), x ∈ init.2.2 →
      x ∈ (ms.foldl (fun (st : List Seg × Bool × Skip) m =>
        if m.type ≠ .way then st
        else match findWay d m.ref with
          | none => (st.1, true, st.2.2)
          | some way =>
            let skip := if hasInterestingTags way.tags none then st.2.2 else st.2.2 ++ [way.id]
            let (ls, t) := wayToLineString d way
            let tainted := st.2.1 || t
            if ls = [] then (st.1, tainted, skip)
            else (st.1 ++ [Seg.mk' 0 m.orientation ls], tainted, skip)) init).2.2 := by
    intro ms
    induction ms with
    | nil => intro init h; exact h
    | cons m rest ih =>
      intro init h
      simp only [List.foldl_cons]
      apply ih
      repeat' split
      all_goals first | exact h | exact List.mem_append_left _ h
  have := key r.members init hin
  repeat' split
  all_goals first | exact this | (simp only at this ⊢; exact this)

/-- what holds of the relation pass after any prefix of the relations -/
structure RelInv (st : List Feature × Skip) (done : List RelationE) : Prop where
  waysSkipped : ∀ g ∈ st.1, g.kind = "way" → g.id ∈ st.2
  relIds : ((st.1.filter (fun g => g.kind = "relation")).map (·.id)).Sublist (done.map (·.id))
  kinds : ∀ g ∈ st.1, g.kind = "way" ∨ g.kind = "relation"

theorem relInv_step (o : Opts) (d : Data) (st : List Feature × Skip) (done : List RelationE) (r : RelationE)
    (h : RelInv st done) : RelInv (relStep o d st r) (done ++ [r]) := by
  have hsub : ((st.1.filter (fun g => g.kind = "relation")).map (·.id)).Sublist ((done ++ [r]).map (·.id)) := by
    rw [List.map_append]; exact h.relIds.trans (List.sublist_append_left _ _)
  -- appending one optional feature `fo` whose kind/id are as the two builders give them
  have add : ∀ (fo : Option Feature) (s : Skip), (∀ x ∈ st.2, x ∈ s) →
      (∀ f, fo = some f → (f.kind = "relation" ∧ f.id = r.id) ∨ (f.kind = "way" ∧ f.id ∈ s)) →
      RelInv (st.1 ++ fo.toList, s) (done ++ [r]) := by
    intro fo s hmono hf
    cases fo with
    | none =>
      simp only [Option.toList_none, List.append_nil]
      exact ⟨fun g hg hk => hmono _ (h.waysSkipped g hg hk), hsub, h.kinds⟩
    | some f =>
      simp only [Option.toList_some]
      rcases hf f rfl with ⟨hk, hid⟩ | ⟨hk, hid⟩
      · refine ⟨?_, ?_, ?_⟩
        · intro g hg hkw
          rcases List.mem_append.mp hg with h1 | h1
          · exact hmono _ (h.waysSkipped g h1 hkw)
          · simp only [List.mem_singleton] at h1; subst h1; rw [hk] at hkw; exact absurd hkw (by decide)
        · simp only [List.filter_append, List.map_append, List.filter_cons, hk, decide_true, if_true, List.filter_nil,
            List.map_cons, List.map_nil, hid]
          exact List.Sublist.append h.relIds (List.Sublist.refl _)
        · intro g hg
          rcases List.mem_append.mp hg with h1 | h1
          · exact h.kinds g h1
          · simp only [List.mem_singleton] at h1; subst h1; exact Or.inr hk
      · refine ⟨?_, ?_, ?_⟩
        · intro g hg hkw
          rcases List.mem_append.mp hg with h1 | h1
          · exact hmono _ (h.waysSkipped g h1 hkw)
          · simp only [List.mem_singleton] at h1; subst h1; exact hid
        · have : decide (f.kind = "relation") = false := by rw [hk]; decide
          simp only [List.filter_append, List.filter_cons, this, List.filter_nil, Bool.false_eq_true, if_false, List.append_nil]
          exact hsub
        · intro g hg
          rcases List.mem_append.mp hg with h1 | h1
          · exact h.kinds g h1
          · simp only [List.mem_singleton] at h1; subst h1; exact Or.inl hk
  unfold relStep
  simp only
  split
  · exact add _ _ (fun x hx => buildRoute_skip_mono o d r st.2 x hx)
      (fun f hf => Or.inl (buildRoute_feature o d r st.2 f hf))
  · split
    · exact add _ _ (fun x hx => buildPolygon_skip_mono o d r st.2 x hx)
        (fun f hf => buildPolygon_feature o d r st.2 f hf)
    · exact ⟨h.waysSkipped, hsub, h.kinds⟩

theorem relInv_fold (o : Opts) (d : Data) : ∀ (rs : List RelationE) (st : List Feature × Skip) (done : List RelationE),
    RelInv st done → RelInv (rs.foldl (relStep o d) st) (done ++ rs) := by
  intro rs
  induction rs with
  | nil => intro st done h; simpa using h
  | cons r rest ih =>
    intro st done h
    simp only [List.foldl_cons]
    have := ih _ _ (relInv_step o d st done r h)
    simpa using this

theorem relationPass_inv (o : Opts) (d : Data) : RelInv (relationPass o d) d.relations := by
  rw [relationPass_eq_fold]
  have h0 : RelInv (([], []) : List Feature × Skip) [] := by
    refine ⟨?_, ?_, ?_⟩
    · intro g hg; cases hg
    · simp
    · intro g hg; cases hg
  have := relInv_fold o d d.relations ([], []) [] h0
  simpa using this

theorem filterMap_ids_sublist {α : Type} (g : α → Option Feature) (key : α → Int)
    (h : ∀ a f, g a = some f → f.id = key a) : ∀ (l : List α), ((l.filterMap g).map (·.id)).Sublist (l.map key) := by
  intro l
  induction l with
  | nil => simp
  | cons a rest ih =>
    simp only [List.filterMap_cons, List.map_cons]
    cases hg : g a with
    | none => exact List.Sublist.cons _ ih
    | some f => simp only [List.map_cons, h a f hg]; exact List.Sublist.cons₂ _ ih

theorem wayPass_feature (o : Opts) (d : Data) (isP : WayE → Bool) (skip : Skip) (w : WayE) (f : Feature)
    (h : wayPass o d isP skip w = some f) : f.kind = "way" ∧ f.id = w.id ∧ skip.contains w.id = false := by
  unfold wayPass at h
  split at h
  · cases h
  · rename_i hs
    unfold wayToFeature at h
    simp only at h
    split at h
    · cases h
    · cases h; exact ⟨rfl, rfl, by simpa using hs⟩

theorem nodePass_feature (o : Opts) (d : Data) (n : NodeE) (f : Feature) (h : nodePass o d n = some f) :
    f.kind = "node" ∧ f.id = n.id := by
  unfold nodePass at h
  split at h
  · cases h
  · unfold nodeToFeature at h
    split at h
    · cases h
    · cases h; exact ⟨rfl, rfl⟩

/-- **one feature per element, except for the recorded finding**: with distinct ids per kind in the input, the
    relation features are pairwise distinct, the node features are pairwise distinct, the way features of the way
    pass are pairwise distinct and none of them repeats a way the relation pass emitted; the only way features
    besides those of the way pass are the old-style multipolygons' (the place of the recorded duplicates) -/
theorem features_unique_except_shared_outer (o : Opts) (isP : WayE → Bool) (d : Data)
    (hr : (d.relations.map (·.id)).Nodup) (hw : (d.ways.map (·.id)).Nodup) (hn : (d.nodes.map (·.id)).Nodup) :
    (((convert o isP d).filter (fun f => f.kind = "relation")).map (·.id)).Nodup ∧
    (((convert o isP d).filter (fun f => f.kind = "node")).map (·.id)).Nodup ∧
    ((d.ways.filterMap (wayPass o d isP (relationPass o d).2)).map (·.id)).Nodup ∧
    (∀ f ∈ d.ways.filterMap (wayPass o d isP (relationPass o d).2), ∀ g ∈ (relationPass o d).1, g.kind = "way" → g.id ≠ f.id) ∧
    (convert o isP d).filter (fun f => f.kind = "way") =
      (relationPass o d).1.filter (fun f => f.kind = "way") ++ d.ways.filterMap (wayPass o d isP (relationPass o d).2) := by
  have inv := relationPass_inv o d
  have hways : ∀ f ∈ d.ways.filterMap (wayPass o d isP (relationPass o d).2), f.kind = "way" := by
    intro f hf
    obtain ⟨w, _, hwf⟩ := List.mem_filterMap.mp hf
    exact (wayPass_feature o d isP _ w f hwf).1
  have hnodes : ∀ f ∈ d.nodes.filterMap (nodePass o d), f.kind = "node" := by
    intro f hf
    obtain ⟨n, _, hnf⟩ := List.mem_filterMap.mp hf
    exact (nodePass_feature o d n f hnf).1
  have frel_ways : (d.ways.filterMap (wayPass o d isP (relationPass o d).2)).filter (fun f => f.kind = "relation") = [] := by
    rw [List.filter_eq_nil_iff]; intro f hf; rw [hways f hf]; decide
  have frel_nodes : (d.nodes.filterMap (nodePass o d)).filter (fun f => f.kind = "relation") = [] := by
    rw [List.filter_eq_nil_iff]; intro f hf; rw [hnodes f hf]; decide
  have fnode_rel : (relationPass o d).1.filter (fun f => f.kind = "node") = [] := by
    rw [List.filter_eq_nil_iff]; intro f hf
    rcases inv.kinds f hf with h | h <;> rw [h] <;> decide
  have fnode_ways : (d.ways.filterMap (wayPass o d isP (relationPass o d).2)).filter (fun f => f.kind = "node") = [] := by
    rw [List.filter_eq_nil_iff]; intro f hf; rw [hways f hf]; decide
  have fnode_nodes : (d.nodes.filterMap (nodePass o d)).filter (fun f => f.kind = "node") = d.nodes.filterMap (nodePass o d) := by
    rw [List.filter_eq_self]; intro f hf; rw [hnodes f hf]; decide
  have fway_ways : (d.ways.filterMap (wayPass o d isP (relationPass o d).2)).filter (fun f => f.kind = "way") =
      d.ways.filterMap (wayPass o d isP (relationPass o d).2) := by
    rw [List.filter_eq_self]; intro f hf; rw [hways f hf]; decide
  have fway_nodes : (d.nodes.filterMap (nodePass o d)).filter (fun f => f.kind = "way") = [] := by
    rw [List.filter_eq_nil_iff]; intro f hf; rw [hnodes f hf]; decide
  unfold convert
  simp only [List.filter_append, frel_ways, frel_nodes, fnode_rel, fnode_ways, fnode_nodes, fway_ways, fway_nodes,
    List.append_nil, List.nil_append]
  refine ⟨inv.relIds.nodup hr, ?_, ?_, ?_, trivial⟩
  · exact (filterMap_ids_sublist (nodePass o d) (·.id) (fun n f h => (nodePass_feature o d n f h).2) d.nodes).nodup hn
  · exact (filterMap_ids_sublist (wayPass o d isP (relationPass o d).2) (·.id)
      (fun w f h => (wayPass_feature o d isP _ w f h).2.1) d.ways).nodup hw
  · intro f hf g hg hk e
    obtain ⟨w, _, hwf⟩ := List.mem_filterMap.mp hf
    obtain ⟨_, hid, hns⟩ := wayPass_feature o d isP _ w f hwf
    have := inv.waysSkipped g hg hk
    rw [e, hid] at this
    have hc : (relationPass o d).2.contains w.id = true := by simpa using this
    rw [hc] at hns; cases hns

end OsmVerif.Props.C17

namespace OsmVerif.Props.C17
open OsmVerif.Model.Geo OsmVerif.Model.Convert OsmVerif.Props.C16

/-! ## a route relation's geometry is the join of its member ways' lines -/

/-- the line of each way member that is in the data and has coordinates, in member order -/
def routeLines (d : Data) (ms : List Member) : List Seg :=
  ms.filterMap fun m =>
    if m.type ≠ .way then none
    else match findWay d m.ref with
      | none => none
      | some way =>
        let ls := (wayToLineString d way).1
        if ls = [] then none else some (Seg.mk' 0 m.orientation ls)

def routeGeom (sections : List (List Seg)) : Geom :=
  match sections with
  | [one] => Geom.lineString (lineOf one)
  | _ => Geom.multiLineString (sections.map lineOf)

theorem routeLines_fresh (d : Data) (ms : List Member) : FreshInput (routeLines d ms) := by
  intro s hs
  unfold routeLines at hs
  obtain ⟨m, _, hm⟩ := List.mem_filterMap.mp hs
  simp only at hm
  split at hm
  · cases hm
  · split at hm
    · cases hm
    · split at hm
      · cases hm
      · cases hm; rfl

/-- one member of `buildRoute`'s loop -/
def routeStep (d : Data) (st : List Seg × Bool × Skip) (m : Member) : List Seg × Bool × Skip :=
  if m.type ≠ .way then st
  else match findWay d m.ref with
    | none => (st.1, true, st.2.2)
    | some way =>
      let skip := if hasInterestingTags way.tags none then st.2.2 else st.2.2 ++ [way.id]
      let (ls, t) := wayToLineString d way
      let tainted := st.2.1 || t
      if ls = [] then (st.1, tainted, skip)
      else (st.1 ++ [Seg.mk' 0 m.orientation ls], tainted, skip)

theorem routeStep_lines (d : Data) (st : List Seg × Bool × Skip) (m : Member) :
    (routeStep d st m).1 = st.1 ++ routeLines d [m] := by
  unfold routeStep routeLines
  simp only [List.filterMap_cons, List.filterMap_nil]
  by_cases hw : m.type = .way
  · have hw' : ¬ m.type ≠ .way := fun h => h hw
    simp only [hw', if_false]
    cases hf : findWay d m.ref with
    | none => simp
    | some way =>
      simp only
      by_cases hl : (wayToLineString d way).1 = []
      · simp [hl]
      · simp [hl]
  · have hw' : m.type ≠ .way := hw
    simp [hw']

theorem routeFold_lines (d : Data) : ∀ (ms : List Member) (init : List Seg × Bool × Skip),
    (ms.foldl (routeStep d) init).1 = init.1 ++ routeLines d ms := by
  intro ms
  induction ms with
  | nil => intro init; simp [routeLines]
  | cons m rest ih =>
    intro init
    simp only [List.foldl_cons]
    rw [ih, routeStep_lines]
    have : routeLines d (m :: rest) = routeLines d [m] ++ routeLines d rest := by
      unfold routeLines
      rw [← List.filterMap_append]; rfl
    rw [this, List.append_assoc]

theorem buildRoute_unfold (o : Opts) (d : Data) (r : RelationE) (skip : Skip) :
    buildRoute o d r skip =
      (let st := r.members.foldl (routeStep d) ([], false, skip)
       if st.1 = [] then (none, st.2.2)
       else (some { kind := "relation", id := r.id, idSet := !o.noID, geom := routeGeom (join st.1), tags := tagMap r.tags,
                    tainted := st.2.1, relations := relationsProp o d .relation r.id, metaKeys := metaProp o r.md }, st.2.2)) := by
  rfl

/-- **the feature of a route relation**: when one is emitted, its geometry is the join of exactly the member ways'
    lines (members that are ways, present in the data, with at least one coordinate), one line string when they join
    into one, a multi line string otherwise — so by `route_preserves_segments` every member line with two or more
    points is used once and every edge of it is in the geometry, none invented -/
theorem buildRoute_geometry (o : Opts) (d : Data) (r : RelationE) (skip : Skip) (f : Feature)
    (h : (buildRoute o d r skip).1 = some f) :
    routeLines d r.members ≠ [] ∧ f.geom = routeGeom (join (routeLines d r.members)) ∧
    ((((join (routeLines d r.members)).flatten).map norm).Perm ((compact (routeLines d r.members)).map norm) ∧
      ∀ ms ∈ join (routeLines d r.members), Chain ms) := by
  rw [buildRoute_unfold] at h
  have hk := routeFold_lines d r.members ([], false, skip)
  simp only [List.nil_append] at hk
  generalize r.members.foldl (routeStep d) ([], false, skip) = st at h hk
  simp only at h
  split at h
  · cases h
  · rename_i hne
    simp only [Option.some.injEq] at h
    subst h
    rw [hk] at hne
    exact ⟨hne, by simp only [hk], route_preserves_segments _ (routeLines_fresh d r.members)⟩

end OsmVerif.Props.C17
