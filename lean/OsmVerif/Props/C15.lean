import OsmVerif.Lemmas.Updates
/-!
# C15 — applying updates is exact, composable and agrees with geometry-at-time

Theorems about `Model.Updates` (hand-written model of way.go / relation.go / update.go, tied
to the code by the differential stream of `./check C15`). `isRel = false` is a way,
`isRel = true` a relation. The late-update branch of `Way.LineStringAt` is a regenerated fact.
-/
namespace OsmVerif.Props.C15
open OsmVerif.Model.Updates

def applicable (t : Int) (us : List Update) : List Update := us.filter (fun u => !(u.ts > t))
def pendingOf (t : Int) (us : List Update) : List Update := us.filter (fun u => u.ts > t)

def InRange (t : Int) (n : Nat) (us : List Update) : Prop := ∀ u ∈ us, ¬ u.ts > t → u.index < n

/-- **exact**: on success the children are the original ones with exactly the updates stamped at or
    before `t` applied in list order, and **pending** = the later updates in their original order -/
theorem apply_exact (isRel : Bool) (t : Int) (cs : List Child) (us : List Update)
    (h : InRange t cs.length us) :
    applyUpTo isRel t cs us =
      { children := applyAll isRel cs (applicable t us), updates := pendingOf t us, err := none } := by
  unfold applyUpTo
  rw [applyLoop_ok isRel t us cs [] h]
  simp [applicable, pendingOf]

theorem apply_pending (isRel : Bool) (t : Int) (cs : List Child) (us : List Update)
    (h : InRange t cs.length us) :
    (applyUpTo isRel t cs us).updates = us.filter (fun u => u.ts > t) := by
  rw [apply_exact isRel t cs us h]; rfl

/-- child `i` after the call: the original child with the applicable updates addressed to `i` applied in order -/
theorem apply_child (isRel : Bool) (t : Int) (cs : List Child) (us : List Update)
    (h : InRange t cs.length us) (i : Nat) :
    (applyUpTo isRel t cs us).children[i]? =
      (cs[i]?).map (fun c => ((applicable t us).filter (fun u => u.index = i)).foldl (Child.apply isRel) c) := by
  rw [apply_exact isRel t cs us h]
  exact applyAll_getElem? isRel cs _ i

/-- children not named by an applicable update are unchanged; nobody's identity changes; same length -/
theorem apply_untouched (isRel : Bool) (t : Int) (cs : List Child) (us : List Update)
    (h : InRange t cs.length us) (i : Nat) (hi : ∀ u ∈ us, ¬ u.ts > t → u.index ≠ i) :
    (applyUpTo isRel t cs us).children[i]? = cs[i]? := by
  rw [apply_child isRel t cs us h i]
  have : (applicable t us).filter (fun u => u.index = i) = [] := by
    rw [List.filter_eq_nil_iff]
    intro u hu
    simp only [applicable, List.mem_filter, Bool.not_eq_true', decide_eq_false_iff_not] at hu
    simpa using hi u hu.1 hu.2
  rw [this]; cases cs[i]? <;> simp

theorem apply_keys (isRel : Bool) (t : Int) (cs : List Child) (us : List Update)
    (h : InRange t cs.length us) :
    (applyUpTo isRel t cs us).children.map (·.key) = cs.map (·.key) := by
  apply List.ext_getElem?
  intro i
  simp only [List.getElem?_map, apply_child isRel t cs us h i]
  cases cs[i]? <;> simp [foldl_apply_key]

/-- the child named by an update takes version, changeset and location from the last applicable update naming it -/
theorem apply_last_wins (isRel : Bool) (c : Child) (A : List Update) (u : Update) :
    let c' := (A ++ [u]).foldl (Child.apply isRel) c
    c'.version = u.version ∧ c'.changeset = u.changeset ∧ c'.lat = u.lat ∧ c'.lon = u.lon := by
  simp [List.foldl_append, Child.apply]

/-- **orientation flip** for reversed way members of relations (and never for ways) -/
theorem reverse_flips (c : Child) (u : Update) :
    (c.apply true u).orientation = (if u.reverse then -c.orientation else c.orientation) ∧
    (c.apply false u).orientation = c.orientation := by
  unfold Child.apply
  cases u.reverse <;> simp <;> omega

/-- **index beyond the child list**: the first applicable out-of-range update is reported, nothing
    is written outside the list (length unchanged) and `Updates` is left as it was -/
theorem apply_index_error (isRel : Bool) (t : Int) (cs : List Child) (pre : List Update) (bad : Update)
    (post : List Update) (hpre : InRange t cs.length pre) (hbad : ¬ bad.ts > t) (hidx : bad.index ≥ cs.length) :
    let r := applyUpTo isRel t cs (pre ++ bad :: post)
    r.err = some bad.index ∧ r.updates = pre ++ bad :: post ∧ r.children.length = cs.length ∧
      r.children = applyAll isRel cs (applicable t pre) := by
  unfold applyUpTo
  rw [applyLoop_err isRel t pre bad post cs [] hpre hbad hidx]
  simp [applicable]

/-- each child's updates are in time order -/
def PerChildTimeOrdered (us : List Update) : Prop :=
  ∀ i, (us.filter (fun u => u.index = i)).Pairwise (fun a b => a.ts ≤ b.ts)

/-- **composition**: applying up to `t1` and then up to a later `t2` equals applying up to `t2` directly -/
theorem apply_compose (isRel : Bool) (t1 t2 : Int) (h12 : t1 ≤ t2) (cs : List Child) (us : List Update)
    (hr : InRange t2 cs.length us) (ho : PerChildTimeOrdered us) :
    let r1 := applyUpTo isRel t1 cs us
    applyUpTo isRel t2 r1.children r1.updates = applyUpTo isRel t2 cs us := by
  have hr1 : InRange t1 cs.length us := fun u hu h => hr u hu (by omega)
  intro r1
  have e1 : r1 = { children := applyAll isRel cs (applicable t1 us), updates := pendingOf t1 us, err := none } :=
    apply_exact isRel t1 cs us hr1
  rw [e1]
  have hr2 : InRange t2 (applyAll isRel cs (applicable t1 us)).length (pendingOf t1 us) := by
    intro u hu h
    simp only [applyAll_length]
    exact hr u (List.mem_filter.mp hu).1 h
  rw [apply_exact isRel t2 _ _ hr2, apply_exact isRel t2 cs us hr]
  have hp : pendingOf t2 (pendingOf t1 us) = pendingOf t2 us := by
    simp only [pendingOf, List.filter_filter]
    apply List.filter_congr
    intro u _
    by_cases h : u.ts > t2
    · have : u.ts > t1 := by omega
      simp [h, this]
    · simp [h]
  rw [hp]
  congr 1
  -- children: compare index by index
  apply List.ext_getElem?
  intro i
  have key : (applicable t1 us ++ applicable t2 (pendingOf t1 us)).filter (fun u => u.index = i)
      = (applicable t2 us).filter (fun u => u.index = i) := by
    rw [List.filter_append]
    simp only [applicable, pendingOf]
    rw [filter_index_comm, filter_index_comm, filter_index_comm, filter_index_comm]
    exact sorted_filter_split _ t1 t2 h12 (ho i)
  rw [← applyAll_append, applyAll_getElem?, applyAll_getElem?, key]

/-! ## geometry at time t -/

def pt (c : Child) : Int × Int := (c.lon, c.lat)

def FullyAnnotated (cs : List Child) : Prop := ∀ c ∈ cs, c.version ≠ 0
def AnnotatedUpdates (us : List Update) : Prop := ∀ u ∈ us, u.version ≠ 0

theorem set_map_pt (cs : List Child) (u : Update) (isRel : Bool) :
    (cs.map pt).set u.index (u.lon, u.lat) = (cs.modify u.index (fun c => c.apply isRel u)).map pt := by
  apply List.ext_getElem?
  intro j
  simp only [List.getElem?_set, List.getElem?_map, List.getElem?_modify, List.length_map]
  by_cases h : u.index = j
  · subst h
    by_cases hl : u.index < cs.length
    · simp [hl, pt, Child.apply]
    · have : cs[u.index]? = none := by simp; omega
      simp [hl, this]
  · simp [h]

/-- with `continue` at late updates the point list is the point list of the updated children -/
theorem lsLoop_continue (t : Int) (us : List Update) (cs : List Child) (h : InRange t cs.length us) :
    lsLoop false t us (cs.map pt) = (applyAll false cs (applicable t us)).map pt := by
  induction us generalizing cs with
  | nil => rfl
  | cons u rest ih =>
    simp only [lsLoop, applicable, List.filter_cons]
    by_cases hu : u.ts > t
    · simp only [hu, if_true, Bool.false_eq_true, if_false, decide_true, Bool.not_true]
      exact ih cs (fun v hv => h v (by simp [hv]))
    · have hin := h u (by simp) hu
      have hnot : ¬ u.index ≥ (cs.map pt).length := by simp; omega
      simp only [hu, if_false, hnot, decide_false, Bool.not_false, if_true, applyAll_cons]
      rw [set_map_pt cs u false]
      exact ih _ (fun v hv hv2 => by simpa using h v (by simp [hv]) hv2)

/-- with `break`, a time-sorted update list gives the same points as with `continue` -/
theorem lsLoop_break_sorted (t : Int) (us : List Update) (ls : List (Int × Int))
    (hs : us.Pairwise (fun a b => a.ts ≤ b.ts)) :
    lsLoop true t us ls = lsLoop false t us ls := by
  induction us generalizing ls with
  | nil => rfl
  | cons u rest ih =>
    have hx := List.pairwise_cons.mp hs
    simp only [lsLoop]
    by_cases hu : u.ts > t
    · simp only [hu, if_true, Bool.false_eq_true, if_false]
      -- every later update is late as well: the continue-loop changes nothing
      have hall : ∀ v ∈ rest, v.ts > t := fun v hv => by have := hx.1 v hv; omega
      clear ih hs hx
      induction rest generalizing ls with
      | nil => rfl
      | cons v rest' ih2 =>
        have hv := hall v (by simp)
        simp only [lsLoop, hv, if_true, Bool.false_eq_true, if_false]
        exact ih2 ls (fun w hw => hall w (by simp [hw]))
    · simp only [hu, if_false]
      split
      · exact ih _ hx.2
      · exact ih _ hx.2

theorem mem_modify_version (cs : List Child) (u : Update) (hf : FullyAnnotated cs) (hu : u.version ≠ 0) :
    FullyAnnotated (cs.modify u.index (fun c => c.apply false u)) := by
  intro c hc
  obtain ⟨j, hj⟩ := List.mem_iff_getElem?.mp hc
  rw [List.getElem?_modify] at hj
  cases hcj : cs[j]? with
  | none => simp [hcj] at hj
  | some c0 =>
    simp only [hcj, Option.map_eq_map, Option.map_some, Option.some.injEq] at hj
    by_cases e : u.index = j
    · simp only [e, if_true] at hj; rw [← hj]; simpa [Child.apply] using hu
    · simp only [e, if_false] at hj; rw [← hj]; exact hf c0 (List.mem_of_getElem? hcj)

theorem applyAll_annotated (cs : List Child) (A : List Update) (hf : FullyAnnotated cs)
    (hu : ∀ u ∈ A, u.version ≠ 0) : FullyAnnotated (applyAll false cs A) := by
  induction A generalizing cs with
  | nil => exact hf
  | cons u A ih =>
    exact ih _ (mem_modify_version cs u hf (hu u (by simp))) (fun v hv => hu v (by simp [hv]))

theorem lineString_fully (cs : List Child) (hf : FullyAnnotated cs) : lineString cs = cs.map pt := by
  unfold lineString
  have : cs.filter (fun c => !c.isZero) = cs := by
    rw [List.filter_eq_self]
    intro c hc
    have := hf c hc
    simp [Child.isZero, this]
  rw [this]; rfl

theorem zip_filter_fully (cs : List Child) (ls : List (Int × Int)) (hf : FullyAnnotated cs)
    (hl : ls.length = cs.length) :
    ((cs.zip ls).filter (fun p => !p.1.isZero)).map (·.2) = ls := by
  have : (cs.zip ls).filter (fun p => !p.1.isZero) = cs.zip ls := by
    rw [List.filter_eq_self]
    intro p hp
    have := hf p.1 (List.of_mem_zip hp).1
    simp [Child.isZero, this]
  rw [this]
  exact List.map_snd_zip (by omega)

/-- the geometry-at-time query with `continue` in the late-update branch equals the geometry of an
    updated copy, **in whatever order the update list is stored** -/
theorem lineStringAtWith_continue_eq_apply (t : Int) (cs : List Child) (us : List Update)
    (hf : FullyAnnotated cs) (hu : AnnotatedUpdates us) (hr : InRange t cs.length us) :
    lineStringAtWith false t cs us = lineString (applyUpTo false t cs us).children := by
  rw [apply_exact false t cs us hr]
  simp only
  have hA : ∀ u ∈ applicable t us, u.version ≠ 0 := fun u h => hu u (List.mem_filter.mp h).1
  rw [lineString_fully _ (applyAll_annotated cs _ hf hA)]
  unfold lineStringAtWith
  have e : (fun (c : Child) => (c.lon, c.lat)) = pt := rfl
  simp only [e, lsLoop_continue t us cs hr]
  exact zip_filter_fully cs _ hf (by simp)

/-- **what holds of the source as it is now, whichever way the late-update branch reads**:
    for time-sorted update lists the two agree -/
theorem lineStringAt_eq_apply_partial (t : Int) (cs : List Child) (us : List Update)
    (hf : FullyAnnotated cs) (hu : AnnotatedUpdates us) (hr : InRange t cs.length us)
    (hs : us.Pairwise (fun a b => a.ts ≤ b.ts)) :
    lineStringAt t cs us = lineString (applyUpTo false t cs us).children := by
  rw [← lineStringAtWith_continue_eq_apply t cs us hf hu hr]
  unfold lineStringAt lineStringAtWith
  cases OsmVerif.Gen.Update.lineStringAtLateBreaks
  · rfl
  · rw [lsLoop_break_sorted t us _ hs]

/-- **C15, geometry clause at full strength** (holds of the source after the repair of way.go: the
    late-update branch is `continue`): for fully annotated ways the geometry-at-time-t query equals the
    geometry obtained by applying the updates up to t on a copy, in whatever order the list is stored. -/
theorem lineStringAt_eq_apply (t : Int) (cs : List Child) (us : List Update)
    (hf : FullyAnnotated cs) (hu : AnnotatedUpdates us) (hr : InRange t cs.length us) :
    lineStringAt t cs us = lineString (applyUpTo false t cs us).children := by
  have hgen : OsmVerif.Gen.Update.lineStringAtLateBreaks = false := by decide
  unfold lineStringAt
  rw [hgen]
  exact lineStringAtWith_continue_eq_apply t cs us hf hu hr

/-- regression witness: with `break` an index-sorted list (as annotation produces) gives the wrong
    geometry: node 0 updated at t+20, node 1 at t+5, query at t+7 -/
theorem lineStringAt_break_counterexample :
    let cs : List Child := [⟨1, 1, 1, 10, 10, 0⟩, ⟨2, 1, 1, 20, 20, 0⟩]
    let us : List Update := [⟨0, 2, 120, 2, 11, 11, false⟩, ⟨1, 2, 105, 2, 21, 21, false⟩]
    lineStringAtWith true 107 cs us = [(10, 10), (20, 20)] ∧
    lineString (applyUpTo false 107 cs us).children = [(10, 10), (21, 21)] ∧
    lineStringAtWith false 107 cs us = [(10, 10), (21, 21)] := by decide

/-! ## non-vacuity -/
example : InRange 5 2 [⟨0, 2, 3, 2, 1, 1, false⟩, ⟨7, 2, 9, 2, 1, 1, false⟩] := by
  intro u hu; simp at hu; rcases hu with rfl | rfl <;> simp
example : PerChildTimeOrdered [⟨0, 2, 9, 2, 1, 1, false⟩, ⟨1, 2, 3, 2, 1, 1, false⟩, ⟨0, 3, 12, 2, 1, 1, false⟩] := by
  intro i
  by_cases h0 : i = 0
  · subst h0; decide
  · by_cases h1 : i = 1
    · subst h1; decide
    · have : ∀ (a b c : Update), a.index = 0 → b.index = 1 → c.index = 0 →
          [a, b, c].filter (fun u => u.index = i) = [] := by
        intro a b c ha hb hc
        simp [List.filter_cons, ha, hb, hc, Ne.symm h0, Ne.symm h1]
      rw [this _ _ _ rfl rfl rfl]; exact List.Pairwise.nil

/-- the full hypothesis set of the geometry theorems: a fully annotated way, annotated updates, all in range
    (index-sorted with two updates of child 0, one stamped later than t) -/
def exWay : List Child := [⟨100, 1, 10, 5, 6, 0⟩, ⟨101, 1, 10, 7, 8, 0⟩]
def exUps : List Update := [⟨0, 2, 3, 11, 15, 16, false⟩, ⟨0, 3, 9, 12, 25, 26, false⟩, ⟨1, 2, 4, 11, 17, 18, false⟩]
example : FullyAnnotated exWay ∧ AnnotatedUpdates exUps ∧ InRange 5 exWay.length exUps := by
  refine ⟨?_, ?_, ?_⟩
  · intro c hc; simp only [exWay, List.mem_cons, List.not_mem_nil, or_false] at hc; rcases hc with rfl | rfl <;> decide
  · intro u hu; simp only [exUps, List.mem_cons, List.not_mem_nil, or_false] at hu; rcases hu with rfl | rfl | rfl <;> decide
  · intro u hu _; simp only [exUps, List.mem_cons, List.not_mem_nil, or_false] at hu; rcases hu with rfl | rfl | rfl <;> decide
example : lineStringAt 5 exWay exUps = [(16, 15), (18, 17)] ∧ lineString (applyUpTo false 5 exWay exUps).children = [(16, 15), (18, 17)] := by decide
/-- an applicable update out of range: the index is reported, nothing outside the list is touched -/
example : (applyUpTo false 5 exWay [⟨0, 2, 3, 11, 15, 16, false⟩, ⟨9, 2, 4, 11, 1, 1, false⟩]).err = some 9 := by decide

end OsmVerif.Props.C15
