import OsmVerif.Lemmas.Walk
import OsmVerif.Gen.Annotate
/-!
# C14 — child-first relation ordering: once, children first, always ends

Theorems about `Model.Walk` (hand-written model of annotate/order.go, tied to the code by the
differential stream of `./check C14`). `H` is an arbitrary finite or infinite reference graph:
cycles, self loops, missing histories and repeated members are all allowed.
-/
namespace OsmVerif.Props.C14
open OsmVerif.Model.Walk

/-- **never an id twice** — any graph, any request list, any fuel -/
theorem emitted_nodup (H : Hist) (f : Nat) (ids : List Nat) : (order H f ids).Nodup :=
  emitted_nodup' H f ids

theorem walk_extends (H : Hist) (f : Nat) (out : List Nat) (x : Nat) (p : List Nat) :
    ∃ new, walk H f out x p = out ++ new ∧ ∀ y ∈ new, ∃ ms, H y = some ms := by
  obtain ⟨new, h1, h2⟩ := walk_spec H f out x p
  exact ⟨new, h1, fun y hy => by obtain ⟨ms, hms, _⟩ := h2.2.2 y hy; exact ⟨ms, hms⟩⟩

theorem fold_extends (H : Hist) (f : Nat) (ids : List Nat) (out : List Nat) :
    ∃ new, ids.foldl (fun out id => walk H f out id []) out = out ++ new ∧ ∀ y ∈ new, ∃ ms, H y = some ms := by
  induction ids generalizing out with
  | nil => exact ⟨[], by simp, by simp⟩
  | cons id ids ih =>
    simp only [List.foldl_cons]
    obtain ⟨a, ha, ha2⟩ := walk_extends H f out id []
    obtain ⟨b, hb, hb2⟩ := ih (out ++ a)
    rw [ha, hb]
    refine ⟨a ++ b, by simp, ?_⟩
    intro y hy
    rcases List.mem_append.mp hy with h | h
    · exact ha2 y h
    · exact hb2 y h

/-- **never an id without history** -/
theorem emitted_have_history (H : Hist) (f : Nat) (ids : List Nat) :
    ∀ y ∈ order H f ids, ∃ ms, H y = some ms := by
  obtain ⟨new, h1, h2⟩ := fold_extends H f ids []
  intro y hy
  unfold order at hy
  rw [h1] at hy
  exact h2 y (by simpa using hy)

theorem loopMs_nil_path (w) : ∀ ms out, (loopMs w [] ms out).2 = false := by
  intro ms
  induction ms with
  | nil => intro out; rfl
  | cons m ms ih => intro out; unfold loopMs; simp [ih]

theorem walk_top_emits (H : Hist) (f : Nat) (out : List Nat) (x : Nat) (ms : List Nat) (h : H x = some ms) :
    x ∈ walk H (f + 1) out x [] := by
  unfold walk
  split
  · assumption
  · simp only [h, loopMs_nil_path, Bool.false_eq_true, if_false]
    simp

/-- **every requested relation that has a history is emitted** (cycles and self references included):
    the top-level call never takes the cycle cut, because the requested id is not on its own path -/
theorem requested_with_history_emitted (H : Hist) (f : Nat) (ids : List Nat) (x : Nat) (ms : List Nat)
    (hx : x ∈ ids) (h : H x = some ms) : x ∈ order H (f + 1) ids := by
  unfold order
  suffices key : ∀ out : List Nat, x ∈ ids.foldl (fun out id => walk H (f + 1) out id []) out from key []
  induction ids with
  | nil => cases hx
  | cons id ids ih =>
    intro out
    simp only [List.foldl_cons]
    rcases List.mem_cons.mp hx with e | e
    · subst e
      obtain ⟨new, h1, _⟩ := fold_extends H (f + 1) ids (walk H (f + 1) out x [])
      rw [h1]
      exact List.mem_append.mpr (Or.inl (walk_top_emits H f out x ms h))
    · exact ih e _

/-! ## children first on acyclic graphs -/

/-- `a` occurs before an occurrence of `b` -/
def Before (out : List Nat) (a b : Nat) : Prop := ∃ A B, out = A ++ b :: B ∧ a ∈ A

theorem Before.append {out : List Nat} {a b : Nat} (h : Before out a b) (new : List Nat) :
    Before (out ++ new) a b := by
  obtain ⟨A, B, h1, h2⟩ := h
  exact ⟨A, B ++ new, by rw [h1]; simp, h2⟩

/-- every emitted relation comes after each of its relation members that has a history -/
def ChildrenFirst (H : Hist) (out : List Nat) : Prop :=
  ∀ x ∈ out, ∀ ms, H x = some ms → ∀ m ∈ ms, H m ≠ none → Before out m x

def Acyclic (H : Hist) (rank : Nat → Nat) : Prop :=
  ∀ x ms, H x = some ms → ∀ m ∈ ms, rank m < rank x

theorem childrenFirst_append_old {H : Hist} {out new : List Nat} (h : ChildrenFirst H out)
    (hn : ∀ x ∈ new, ∀ ms, H x = some ms → ∀ m ∈ ms, H m ≠ none → Before (out ++ new) m x) :
    ChildrenFirst H (out ++ new) := by
  intro x hx ms hms m hm hne
  rcases List.mem_append.mp hx with h1 | h1
  · exact (h x h1 ms hms m hm hne).append new
  · exact hn x h1 ms hms m hm hne

theorem walk_acyclic (H : Hist) (rank : Nat → Nat) (hac : Acyclic H rank) :
    ∀ f out x p, rank x < f → (∀ q ∈ p, rank x ≤ rank q) → ChildrenFirst H out →
      ChildrenFirst H (walk H f out x p) ∧ (H x ≠ none → x ∈ walk H f out x p) ∧
      (∀ y ∈ out, y ∈ walk H f out x p) := by
  intro f
  induction f with
  | zero => intro out x p h; omega
  | succ f ih =>
    intro out x p hr hp hcf
    unfold walk
    split
    · rename_i hin; exact ⟨hcf, fun _ => hin, fun y hy => hy⟩
    · rename_i hnin
      split
      · rename_i hnone; exact ⟨hcf, fun h => absurd hnone h, fun y hy => hy⟩
      · rename_i ms hms
        -- the member loop
        have loop : ∀ ms' out1, (∀ m ∈ ms', m ∈ ms) → ChildrenFirst H out1 →
            (loopMs (walk H f) p ms' out1).2 = false ∧ ChildrenFirst H (loopMs (walk H f) p ms' out1).1 ∧
            (∀ y ∈ out1, y ∈ (loopMs (walk H f) p ms' out1).1) ∧
            (∀ m ∈ ms', H m ≠ none → m ∈ (loopMs (walk H f) p ms' out1).1) := by
          intro ms'
          induction ms' with
          | nil => intro out1 _ h1; exact ⟨rfl, h1, fun y hy => hy, fun m hm => by cases hm⟩
          | cons m rest ihl =>
            intro out1 hsub h1
            have hm : m ∈ ms := hsub m (by simp)
            have hrm : rank m < rank x := hac x ms hms m hm
            have hmp : m ∉ p := by
              intro hmem; have := hp m hmem; omega
            unfold loopMs
            simp only [hmp, if_false]
            obtain ⟨c1, c2, c3⟩ := ih out1 m (p ++ [m]) (by omega)
              (by intro q hq
                  rcases List.mem_append.mp hq with h | h
                  · have := hp q h; omega
                  · simp only [List.mem_singleton] at h; subst h; exact Nat.le_refl _) h1
            obtain ⟨d1, d2, d3, d4⟩ := ihl (walk H f out1 m (p ++ [m])) (fun m' hm' => hsub m' (by simp [hm'])) c1
            refine ⟨d1, d2, fun y hy => d3 y (c3 y hy), ?_⟩
            intro m' hm' hne
            rcases List.mem_cons.mp hm' with e | e
            · subst e; exact d3 _ (c2 hne)
            · exact d4 m' e hne
        obtain ⟨l1, l2, l3, l4⟩ := loop ms out (fun m hm => hm) hcf
        simp only [l1, Bool.false_eq_true, if_false]
        refine ⟨?_, fun _ => by simp, fun y hy => List.mem_append.mpr (Or.inl (l3 y hy))⟩
        apply childrenFirst_append_old l2
        intro y hy ms' hms' m hm hne
        simp only [List.mem_singleton] at hy
        subst hy
        rw [hms] at hms'; cases hms'
        exact ⟨_, [], rfl, l4 m hm hne⟩

/-- **children before parents**: on an acyclic member graph, with fuel above the graph's depth, every
    emitted relation comes after each of its relation members (of any version) that has a history;
    by transitivity after everything reachable from it through relations with history -/
theorem acyclic_children_first (H : Hist) (rank : Nat → Nat) (hac : Acyclic H rank) (f : Nat)
    (hf : ∀ x, rank x < f) (ids : List Nat) : ChildrenFirst H (order H f ids) := by
  unfold order
  suffices key : ∀ out, ChildrenFirst H out → ChildrenFirst H (ids.foldl (fun out id => walk H f out id []) out) from
    key [] (by intro x hx; cases hx)
  induction ids with
  | nil => intro out h; exact h
  | cons id ids ih =>
    intro out h
    simp only [List.foldl_cons]
    exact ih _ (walk_acyclic H rank hac f out id [] (hf id) (by intro q hq; cases hq) h).1

/-! ### … and after everything reachable from it -/

/-- `y` is reachable from `x` through relation members that have a history -/
inductive Reach (H : Hist) : Nat → Nat → Prop where
  | direct {x m : Nat} {ms : List Nat} : H x = some ms → m ∈ ms → H m ≠ none → Reach H x m
  | step {x m y : Nat} {ms : List Nat} : H x = some ms → m ∈ ms → H m ≠ none → Reach H m y → Reach H x y

theorem split_unique : ∀ (P A : List Nat) (m : Nat) (R B : List Nat), (P ++ m :: R).Nodup → P ++ m :: R = A ++ m :: B → P = A := by
  intro P
  induction P with
  | nil =>
    intro A m R B hnd h
    cases A with
    | nil => rfl
    | cons a A' =>
      simp only [List.nil_append, List.cons_append, List.cons.injEq] at h
      obtain ⟨rfl, h2⟩ := h
      have : m ∈ R := by rw [h2]; simp
      simp only [List.nil_append, List.nodup_cons] at hnd
      exact absurd this hnd.1
  | cons p P' ih =>
    intro A m R B hnd h
    cases A with
    | nil =>
      simp only [List.nil_append, List.cons_append, List.cons.injEq] at h
      obtain ⟨rfl, h2⟩ := h
      simp only [List.cons_append, List.nodup_cons] at hnd
      exact absurd (by simp) hnd.1
    | cons a A' =>
      simp only [List.cons_append, List.cons.injEq] at h
      obtain ⟨rfl, h2⟩ := h
      simp only [List.cons_append, List.nodup_cons] at hnd
      rw [ih A' m R B hnd.2 h2]

theorem Before.mem_left {out : List Nat} {a b : Nat} (h : Before out a b) : a ∈ out := by
  obtain ⟨A, B, rfl, ha⟩ := h
  exact List.mem_append.mpr (Or.inl ha)

theorem Before.trans {out : List Nat} (hnd : out.Nodup) {a b c : Nat} (h1 : Before out a b) (h2 : Before out b c) :
    Before out a c := by
  obtain ⟨A1, B1, e1, ha⟩ := h1
  obtain ⟨A2, B2, e2, hb⟩ := h2
  obtain ⟨P, Q, rfl⟩ := List.append_of_mem hb
  -- out = P ++ b :: (Q ++ c :: B2) = A1 ++ b :: B1
  have e3 : P ++ b :: (Q ++ c :: B2) = A1 ++ b :: B1 := by rw [← e1, e2]; simp
  have hnd' : (P ++ b :: (Q ++ c :: B2)).Nodup := by rw [e3, ← e1]; exact hnd
  have := split_unique P A1 b (Q ++ c :: B2) B1 hnd' e3
  subst this
  exact ⟨P ++ b :: Q, B2, e2, List.mem_append.mpr (Or.inl ha)⟩

/-- **children first, transitively**: when every emitted relation comes after its direct members with history,
    it comes after every relation reachable from it through members with history -/
theorem childrenFirst_transitive (H : Hist) (out : List Nat) (hnd : out.Nodup) (hcf : ChildrenFirst H out) :
    ∀ x y, Reach H x y → x ∈ out → Before out y x := by
  intro x y hr
  induction hr with
  | direct hms hm hne => intro hx; exact hcf _ hx _ hms _ hm hne
  | step hms hm hne _ ih =>
    intro hx
    have hb := hcf _ hx _ hms _ hm hne
    exact (ih hb.mem_left).trans hnd hb

/-- on an acyclic member graph every emitted relation comes after everything reachable from it -/
theorem acyclic_descendants_first (H : Hist) (rank : Nat → Nat) (hac : Acyclic H rank) (f : Nat)
    (hf : ∀ x, rank x < f) (ids : List Nat) :
    ∀ x y, Reach H x y → x ∈ order H f ids → Before (order H f ids) y x :=
  childrenFirst_transitive H _ (emitted_nodup H f ids) (acyclic_children_first H rank hac f hf ids)

/-! ## termination on every graph: the recursion is never deeper than the number of histories -/

theorem walk_nohist (H : Hist) (f : Nat) (out : List Nat) (x : Nat) (p : List Nat) (h : H x = none) :
    walk H f out x p = out := by
  cases f with
  | zero => rfl
  | succ f => unfold walk; split <;> simp [h]

theorem loopMs_congr (w1 w2 : List Nat → Nat → List Nat → List Nat) (path : List Nat) :
    ∀ ms out, (∀ out' m, m ∈ ms → m ∉ path → w1 out' m (path ++ [m]) = w2 out' m (path ++ [m])) →
      loopMs w1 path ms out = loopMs w2 path ms out := by
  intro ms
  induction ms with
  | nil => intro out _; rfl
  | cons m rest ih =>
    intro out h
    unfold loopMs
    split
    · rfl
    · rename_i hm
      rw [h out m (by simp) hm]
      exact ih _ (fun out' m' hm' hp => h out' m' (by simp [hm']) hp)

/-- with-history ids not yet on the path -/
def slack (D p : List Nat) : Nat := (D.filter (fun y => decide (y ∉ p))).length

theorem slack_step (D p : List Nat) (m : Nat) (hD : D.Nodup) (hm : m ∈ D) (hp : m ∉ p) :
    slack D (p ++ [m]) + 1 = slack D p := by
  unfold slack
  have e : D.filter (fun y => decide (y ∉ p ++ [m])) = (D.filter (fun y => decide (y ∉ p))).erase m := by
    rw [List.Nodup.erase_eq_filter (List.Pairwise.filter _ hD) m, List.filter_filter]
    apply List.filter_congr
    intro y _
    by_cases h1 : y ∈ p <;> by_cases h2 : y = m <;> simp [h1, h2]
  rw [e, List.length_erase_of_mem (List.mem_filter.mpr ⟨hm, by simpa using hp⟩)]
  have : 0 < (D.filter (fun y => decide (y ∉ p))).length :=
    List.length_pos_of_mem (List.mem_filter.mpr ⟨hm, by simpa using hp⟩)
  omega

theorem walk_fuel_step (H : Hist) (D : List Nat) (hD : D.Nodup) (hH : ∀ y ms, H y = some ms → y ∈ D) :
    ∀ f out x p, slack D p + 1 ≤ f → walk H (f + 1) out x p = walk H f out x p := by
  intro f
  induction f with
  | zero => intro out x p h; omega
  | succ f ih =>
    intro out x p hf
    conv => lhs; unfold walk
    conv => rhs; unfold walk
    split
    · rfl
    · cases hx : H x with
      | none => rfl
      | some ms =>
        simp only
        have : loopMs (walk H (f + 1)) p ms out = loopMs (walk H f) p ms out := by
          apply loopMs_congr
          intro out' m _ hmp
          cases hm : H m with
          | none => rw [walk_nohist H _ _ _ _ hm, walk_nohist H _ _ _ _ hm]
          | some mms =>
            have := slack_step D p m hD (hH m mms hm) hmp
            exact ih out' m (p ++ [m]) (by omega)
        rw [this]

/-- **the iteration ends on every graph** (cycles, self loops, shared children): once the fuel exceeds the
    number of relations that have a history, more fuel changes nothing — the recursion never gets deeper
    than that, so the fuel in the model is not a restriction and the walk terminates -/
theorem walk_fuel_sufficient (H : Hist) (D : List Nat) (hD : D.Nodup) (hH : ∀ y ms, H y = some ms → y ∈ D)
    (ids : List Nat) (k : Nat) : order H (D.length + 1 + k) ids = order H (D.length + 1) ids := by
  induction k with
  | zero => rfl
  | succ k ih =>
    rw [← ih]
    unfold order
    have hs : slack D [] = D.length := by simp [slack]
    have : (fun out id => walk H (D.length + 1 + (k + 1)) out id []) = (fun out id => walk H (D.length + 1 + k) out id []) := by
      funext out id
      exact walk_fuel_step H D hD hH (D.length + 1 + k) out id [] (by omega)
    rw [this]

/-- a strict upper bound of `rank` on a finite set -/
def rankBound (rank : Nat → Nat) : List Nat → Nat
  | [] => 0
  | x :: xs => max (rank x + 1) (rankBound rank xs)

theorem rankBound_gt (rank : Nat → Nat) : ∀ (D : List Nat) x, x ∈ D → rank x < rankBound rank D := by
  intro D
  induction D with
  | nil => intro x hx; cases hx
  | cons d ds ih =>
    intro x hx
    simp only [rankBound]
    rcases List.mem_cons.mp hx with rfl | h
    · omega
    · have := ih x h; omega

/-- **children before parents at the fuel that is proved sufficient**: on an acyclic member graph (any rank
    function, no bound assumed) whose relations with a history are the finite set `D`, the order computed with fuel
    `|D| + 1` — the fuel beyond which more fuel changes nothing (`walk_fuel_sufficient`) — emits every relation after
    everything reachable from it -/
theorem acyclic_children_first_sufficient_fuel (H : Hist) (D : List Nat) (hD : D.Nodup) (hH : ∀ y ms, H y = some ms → y ∈ D)
    (rank : Nat → Nat) (hac : Acyclic H rank) (ids : List Nat) :
    ChildrenFirst H (order H (D.length + 1) ids) ∧
    ∀ x y, Reach H x y → x ∈ order H (D.length + 1) ids → Before (order H (D.length + 1) ids) y x := by
  let B := rankBound rank D
  have hac' : Acyclic H (fun x => min (rank x) B) := by
    intro x ms hms m hm
    have hx := rankBound_gt rank D x (hH x ms hms)
    have := hac x ms hms m hm
    simp only
    omega
  have hf : ∀ x, (fun x => min (rank x) B) x < D.length + 1 + (B + 1) := by intro x; simp only; omega
  have hcf := acyclic_children_first H _ hac' (D.length + 1 + (B + 1)) hf ids
  have hdf := acyclic_descendants_first H _ hac' (D.length + 1 + (B + 1)) hf ids
  rw [walk_fuel_sufficient H D hD hH ids (B + 1)] at hcf hdf
  exact ⟨hcf, hdf⟩

/-! ## Close / cancellation: the producer goroutine always has an enabled step and ends

Transition system of the producer goroutine and the consumer's `Next` around the unbuffered channel
`out` and the context (order.go:40-72, 76-114, 159-164). `walking` = inside `walk` between sends
(datasource calls, recursion); `sending id` = blocked in `select { case o.out <- id: case <-o.ctx.Done(): }`;
`done` = returned (`close(o.out)`, `wg.Done()`). -/

inductive Prod | walking | sending (id : Nat) | done
  deriving DecidableEq

structure Sys where
  prod : Prod
  cancelled : Bool
  inNext : Bool            -- the consumer is blocked in Next's select
  deriving DecidableEq

/-- steps of the producer goroutine -/
inductive PStep : Sys → Sys → Prop
  /-- walk reaches the emit of some id; only possible while `o.ctx.Err() == nil` (order.go:155-157) -/
  | emit (s : Sys) (id : Nat) : s.prod = .walking → s.cancelled = false → PStep s { s with prod := .sending id }
  /-- walk over all ids finished, or returned an error (datasource error, or ctx.Err() after cancellation) -/
  | finish (s : Sys) : s.prod = .walking → PStep s { s with prod := .done }
  /-- the send meets a consumer blocked in Next -/
  | handoff (s : Sys) (id : Nat) : s.prod = .sending id → s.inNext = true →
      PStep s { s with prod := .walking, inNext := false }
  /-- the send's select takes `<-o.ctx.Done()` -/
  | abortSend (s : Sys) (id : Nat) : s.prod = .sending id → s.cancelled = true → PStep s { s with prod := .done }

def prank : Prod → Nat
  | .sending _ => 2
  | .walking => 1
  | .done => 0

/-- **no deadlock after Close / cancel**: whatever the consumer is doing, a producer that has not returned
    has an enabled step once the context is cancelled -/
theorem close_no_deadlock (s : Sys) (hc : s.cancelled = true) (hp : s.prod ≠ .done) : ∃ s', PStep s s' := by
  cases h : s.prod with
  | walking => exact ⟨_, PStep.finish s h⟩
  | sending id => exact ⟨_, PStep.abortSend s id h hc⟩
  | done => exact absurd h hp

/-- **and it ends**: after cancellation every producer step strictly lowers a rank bounded by 2, so the
    goroutine returns after at most two of its own steps (then `wg.Wait()` in `Close` returns) -/
theorem close_producer_terminates (s s' : Sys) (hc : s.cancelled = true) (h : PStep s s') :
    s'.cancelled = true ∧ prank s'.prod < prank s.prod := by
  cases h with
  | emit id hw hn => rw [hc] at hn; cases hn
  | finish hw => simp [hc, hw, prank]
  | handoff id hs hn => simp [hc, hs, prank]
  | abortSend id hs _ => simp [hc, hs, prank]

def infixOf (sub : List Char) : List Char → Bool
  | [] => sub.isEmpty
  | c :: cs => sub.isPrefixOf (c :: cs) || infixOf sub cs

def hasSub (sub s : String) : Bool := infixOf sub.toList s.toList

open OsmVerif.Gen.Annotate in
/-- the premises of the producer's transition system in the source (`Gen.Annotate`, regenerated from order.go):
    the walk has exactly one channel send; it is the last thing the walk does, inside a `select` whose other
    branch is `<-o.ctx.Done()` returning the context's error (`abortSend`), right after the `o.ctx.Err()` test
    (`emit` only while not cancelled); `Close` cancels and waits; the goroutine signals the wait group and closes
    `out` when it returns; `Next` waits on `out` or on `Done` -/
theorem producer_protocol_pinned :
    orderWalkBody.filter (hasSub "o.out <-") = ["case o.out <- id:"] ∧
    orderWalkBody.drop (orderWalkBody.length - 10) =
      ["if o.ctx.Err() != nil {", "return o.ctx.Err()", "}", "o.visited[id] = struct{}{}", "select {", "case o.out <- id:",
       "case <-o.ctx.Done():", "return o.ctx.Err()", "}", "return nil"] ∧
    orderCloseBody = ["o.done()", "o.wg.Wait()"] ∧
    orderNewBody.contains "o.wg.Add(1)" = true ∧ orderNewBody.contains "defer o.wg.Done()" = true ∧
    orderNewBody.contains "defer close(o.out)" = true ∧
    orderNextBody = ["if o.err != nil || o.ctx.Err() != nil {", "return false", "}", "select {", "case id, ok := <-o.out:",
      "if !ok {", "return false", "}", "o.id = id", "return true", "case <-o.ctx.Done():", "return false", "}"] := by
  decide +kernel

/-! ## non-vacuity: a 2-cycle with a self loop, and a DAG -/
def exCyc : Hist := fun n => if n = 1 then some [1, 2] else if n = 2 then some [1] else none
example : order exCyc 10 [1] = [2, 1] := by decide
example : order exCyc 10 [2, 1, 2] = [2, 1] := by decide
/-- `walk_fuel_sufficient` on the cycle: two relations have a history, fuel 3 is enough and more changes nothing -/
example : order exCyc (2 + 1) [2, 1, 2] = order exCyc (2 + 1 + 7) [2, 1, 2] := by decide
example : ∀ y ms, exCyc y = some ms → y ∈ [1, 2] := by
  intro y ms h
  unfold exCyc at h
  split at h
  · rename_i e; subst e; simp
  · split at h
    · rename_i e; subst e; simp
    · cases h
def exDag : Hist := fun n => if n = 3 then some [2, 1, 0] else if n = 2 then some [1] else if n = 1 then some [] else none
example : order exDag 10 [3, 1] = [1, 2, 3] := by decide
example : Acyclic exDag id := by
  intro x ms h m hm
  unfold exDag at h
  split at h
  · cases h; subst_vars; simp at hm; rcases hm with rfl | rfl | rfl <;> simp
  · split at h
    · cases h; subst_vars; simp at hm; subst hm; simp
    · split at h
      · cases h; cases hm
      · cases h

/-- the full hypothesis set of `acyclic_children_first`, with a bounded rank -/
example : Acyclic exDag (fun x => min x 4) := by
  intro x ms h m hm
  unfold exDag at h
  split at h
  · cases h; subst_vars; simp at hm; rcases hm with rfl | rfl | rfl <;> decide
  · split at h
    · cases h; subst_vars; simp at hm; subst hm; decide
    · split at h
      · cases h; cases hm
      · cases h
example : ∀ x, (fun x => min x 4) x < 5 := by intro x; simp only; omega
example : Reach exDag 3 1 := Reach.step (ms := [2, 1, 0]) (m := 2) (by decide) (by decide) (by decide)
  (Reach.direct (ms := [1]) (by decide) (by decide) (by decide))

end OsmVerif.Props.C14
