import OsmVerif.Model.PbfOffsets
/-!
# C09 — resuming a PBF scan at the reported byte offset loses no element

The bookkeeping statements of `decoder.Start`, `readFileBlock` and `Next` are read from the source
(`Model.PbfOffsets.rules`) and interpreted. For every stream (a header block or none, then any data
blocks of any sizes, some of them yielding no object) the offsets reported after each returned object are
the byte offset at which the object's block begins and the offset that was current before that block was
taken; a scan started at that offset yields the rest of the objects beginning with the first object of that
block.
-/
namespace OsmVerif.Props.C09
open OsmVerif.Gen.Pbf OsmVerif.Model.PbfOffsets

abbrev R : Rules := specRules

theorem rules_eq : rules = R := by decide +kernel

/-- the two public accessors read the cursor fields the rules speak of: `FullyScannedBytes` the current offset,
    `PreviousFullyScannedBytes` the previous one -/
theorem accessors_pinned :
    fullyScannedBytesBody = ["return atomic.LoadInt64(&s.decoder.cOffset)"] ∧
    previousFullyScannedBytesBody = ["return atomic.LoadInt64(&s.decoder.pOffset)"] := by decide

variable {α : Type}

/-- every block is accounted with its full length: 4-byte size prefix, BlobHeader, Blob -/
theorem accounted_eq_size (f : Frame α) : accounted R f = some f.size := by
  simp [accounted, R, specRules, Frame.size]

/-- the blocks with the byte offsets at which they begin, from position `pos` -/
def layout (pos : Nat) : List (Frame α) → List (Nat × List α)
  | [] => []
  | f :: rest => (pos, f.objs) :: layout (pos + f.size) rest

theorem feed_go_eq (hdr : Option (Frame α)) (pos : Nat) (first : Bool) (bs : List (Frame α))
    (h : first = true → hdr.isNone = true → pos = 0) : feed.go R hdr pos first bs = some (layout pos bs) := by
  induction bs generalizing pos first with
  | nil => simp [feed.go, layout]
  | cons f rest ih =>
    have hoff : (if first = true ∧ hdr.isNone = true then (if R.restartOffsetZero = true then 0 else pos)
        else if R.captureBeforeRead = true then pos else pos + f.size) = pos := by
      split
      · rename_i c; simp [R, specRules, h c.1 c.2]
      · simp [R, specRules]
    simp only [feed.go, accounted_eq_size, layout]
    rw [ih (pos + f.size) false (by simp), hoff]
    rfl

/-- **what the consumer receives**: every data block with the byte offset at which it begins — counted from
    where the reader started, the header block (if the stream has one) included -/
theorem feed_eq (hdr : Option (Frame α)) (bs : List (Frame α)) :
    feed R hdr bs = some (layout (match hdr with | some h => h.size | none => 0) bs) := by
  have hp : R.pairCarriesOffset = true := rfl
  unfold feed
  simp only [hp, not_true_eq_false, if_false]
  cases hdr with
  | none => simp only [Option.bind_some]; exact feed_go_eq none 0 true bs (by simp)
  | some h => simp only [accounted_eq_size, Option.bind_some]; exact feed_go_eq (some h) h.size true bs (by simp)

/-! ## the offsets reported by `Next` -/

/-- what is reported after each object: its block's offset, and the offset current before that block was taken -/
def expected (c : Nat) : List (Nat × List α) → List (α × Nat × Nat)
  | [] => []
  | (off, objs) :: q => objs.map (fun x => (x, off, c)) ++ expected off q

def total (q : List (Nat × List α)) : Nat := (q.map (·.2.length)).sum

theorem total_cons (off : Nat) (objs : List α) (q : List (Nat × List α)) :
    total ((off, objs) :: q) = objs.length + total q := by simp [total]

theorem shift_eq (p c off : Nat) : applyShift R.shift p c off = some (c, off) := by simp [applyShift, R, specRules]

theorem trace_cur (fuel p c : Nat) (cur : List α) (q : List (Nat × List α)) (hf : cur.length ≤ fuel) :
    trace R.shift fuel { p := p, c := c, cur := cur, queue := q } =
      cur.map (fun x => (x, c, p)) ++ trace R.shift (fuel - cur.length) { p := p, c := c, cur := [], queue := q } := by
  induction cur generalizing fuel with
  | nil => simp
  | cons x rest ih =>
    cases fuel with
    | zero => simp at hf
    | succ n =>
      simp only [List.length_cons] at hf
      rw [trace]
      simp only [Cursor.next, List.map_cons, List.cons_append, List.length_cons]
      rw [ih n (by omega)]
      have e : n + 1 - (rest.length + 1) = n - rest.length := by omega
      rw [e]

theorem next_skip_empty (p c off : Nat) (q : List (Nat × List α)) :
    Cursor.next R.shift ({ p := p, c := c, cur := [], queue := (off, []) :: q } : Cursor α) =
      Cursor.next R.shift ({ p := c, c := off, cur := [], queue := q } : Cursor α) := by
  simp [Cursor.next, Cursor.next.take, shift_eq]

theorem trace_empty (fuel p c : Nat) (q : List (Nat × List α)) (hf : total q < fuel) :
    trace R.shift fuel ({ p := p, c := c, cur := [], queue := q } : Cursor α) = expected c q := by
  induction q generalizing fuel p c with
  | nil =>
    cases fuel with
    | zero => simp at hf
    | succ n => simp [trace, Cursor.next, Cursor.next.take, expected]
  | cons b q ih =>
    obtain ⟨off, objs⟩ := b
    cases fuel with
    | zero => simp at hf
    | succ n =>
      cases objs with
      | nil =>
        rw [trace, next_skip_empty]
        have := ih (n + 1) c off (by rw [total_cons] at hf; simpa using hf)
        rw [trace] at this
        simpa [expected] using this
      | cons x rest =>
        have hlen : rest.length + total q < n := by rw [total_cons] at hf; simp only [List.length_cons] at hf; omega
        rw [trace]
        simp only [Cursor.next, Cursor.next.take, shift_eq, expected, List.map_cons, List.cons_append]
        rw [trace_cur n c off rest q (by omega), ih (n - rest.length) c off (by omega)]

/-- **the reported offsets, for every stream**: after each returned object the current offset is the byte
    offset of the block that holds it, the previous offset the one that was current before that block was
    taken (0 at the start) — empty blocks are taken and shift the offsets like any other -/
theorem scanTrace_eq (hdr : Option (Frame α)) (bs : List (Frame α)) :
    scanTrace R hdr bs = some (expected 0 (layout (match hdr with | some h => h.size | none => 0) bs)) := by
  unfold scanTrace
  rw [feed_eq]
  simp only [Option.map_some, Option.some.injEq]
  apply trace_empty
  have : ∀ (pos : Nat) (l : List (Frame α)), total (layout pos l) = (l.map (·.objs.length)).sum := by
    intro pos l
    induction l generalizing pos with
    | nil => rfl
    | cons f rest ih => simp [layout, total] at *; exact ih _
  rw [this]; omega

/-! ## resuming -/

theorem expected_objs (c : Nat) (q : List (Nat × List α)) : (expected c q).map (·.1) = (q.map (·.2)).flatten := by
  induction q generalizing c with
  | nil => rfl
  | cons b q ih => obtain ⟨off, objs⟩ := b; simp [expected, ih, Function.comp_def]

theorem layout_objs (pos : Nat) (bs : List (Frame α)) : (layout pos bs).map (·.2) = bs.map (·.objs) := by
  induction bs generalizing pos with
  | nil => rfl
  | cons f rest ih => simp [layout, ih]

/-- the scan returns the objects of the blocks in file order, whether the stream starts with a header or not -/
theorem scan_objects (hdr : Option (Frame α)) (bs : List (Frame α)) :
    (scanTrace R hdr bs).map (·.map (·.1)) = some (bs.map (·.objs)).flatten := by
  rw [scanTrace_eq]; simp [expected_objs, layout_objs]

theorem layout_drop (pos : Nat) (bs : List (Frame α)) (i : Nat) :
    (layout pos bs).drop i = layout (pos + ((bs.take i).map (·.size)).sum) (bs.drop i) := by
  induction bs generalizing pos i with
  | nil => simp [layout]
  | cons f rest ih =>
    cases i with
    | zero => simp
    | succ n => simp only [layout, List.drop_succ_cons, List.take_succ_cons, List.map_cons, List.sum_cons]; rw [ih]; congr 1; omega

/-- an object reported with current offset `c` lies in a block that begins at byte `c` of the stream: the
    blocks before it hold exactly the objects returned before that block's first object -/
theorem reported_offset_is_block_start (hdr : Option (Frame α)) (bs : List (Frame α)) (i : Nat) (hi : i < bs.length) :
    let s := match hdr with | some h => h.size | none => 0
    let start := s + ((bs.take i).map (·.size)).sum
    ∀ x ∈ bs[i].objs, ∃ p, (x, start, p) ∈ expected 0 (layout s bs) := by
  intro s start x hx
  have hsplit : layout s bs = (layout s bs).take i ++ (layout s bs).drop i := (List.take_append_drop i _).symm
  have hd : (layout s bs).drop i = (start, bs[i].objs) :: layout (start + bs[i].size) (bs.drop (i + 1)) := by
    rw [layout_drop]
    have : bs.drop i = bs[i] :: bs.drop (i + 1) := (List.drop_eq_getElem_cons hi)
    rw [this, layout]
  -- walk the prefix: membership in `expected` of an appended queue
  have key : ∀ (c : Nat) (pre : List (Nat × List α)) (q : List (Nat × List α)),
      ∃ c', ∀ e, e ∈ expected c' q → e ∈ expected c (pre ++ q) := by
    intro c pre q
    induction pre generalizing c with
    | nil => exact ⟨c, fun e he => by simpa using he⟩
    | cons b pre ih =>
      obtain ⟨off, objs⟩ := b
      obtain ⟨c', h'⟩ := ih off
      exact ⟨c', fun e he => by simp only [List.cons_append, expected, List.mem_append]; right; exact h' e he⟩
  obtain ⟨c', h'⟩ := key 0 ((layout s bs).take i) ((layout s bs).drop i)
  refine ⟨c', ?_⟩
  rw [hsplit]
  apply h'
  rw [hd]
  simp only [expected, List.mem_append, List.mem_map]
  left
  exact ⟨x, hx, rfl⟩

/-- **resuming loses nothing**: a new scan over the stream from block `i` on — its first block a data block,
    no header — yields exactly the objects of blocks `i, i+1, …`; together with the objects of the blocks
    before `i` that is the whole scan, so stopping after any object of block `i` and resuming at the
    reported offset re-reads that block from its first object and skips nothing -/
theorem resume_complete (hdr : Option (Frame α)) (bs : List (Frame α)) (i : Nat) :
    (scanTrace R none (bs.drop i)).map (·.map (·.1)) = some ((bs.drop i).map (·.objs)).flatten ∧
    (scanTrace R hdr bs).map (·.map (·.1)) =
      some (((bs.take i).map (·.objs)).flatten ++ ((bs.drop i).map (·.objs)).flatten) := by
  refine ⟨scan_objects none _, ?_⟩
  rw [scan_objects]
  congr 1
  rw [← List.flatten_append, ← List.map_append, List.take_append_drop]

/-- the part of the stream a reader positioned at byte `c` sees: the blocks from the one that begins at `c` on
    (`none` when `c` is not a block boundary) -/
def suffixAt (pos : Nat) : List (Frame α) → Nat → Option (List (Frame α))
  | [], c => if c = pos then some [] else none
  | f :: rest, c => if c = pos then some (f :: rest) else suffixAt (pos + f.size) rest c

theorem suffixAt_start (pos : Nat) (bs : List (Frame α)) : suffixAt pos bs pos = some bs := by
  cases bs <;> simp [suffixAt]

theorem suffixAt_drop (pos : Nat) (bs : List (Frame α)) (i : Nat) (hi : i ≤ bs.length) :
    suffixAt pos bs (pos + ((bs.take i).map (·.size)).sum) = some (bs.drop i) := by
  induction bs generalizing pos i with
  | nil => simp [suffixAt]
  | cons f rest ih =>
    cases i with
    | zero => simp [suffixAt]
    | succ n =>
      have hpos : 0 < f.size := by simp [Frame.size]; omega
      simp only [List.take_succ_cons, List.map_cons, List.sum_cons, List.drop_succ_cons, suffixAt]
      have hne : ¬ (pos + (f.size + ((rest.take n).map (·.size)).sum) = pos) := by omega
      simp only [hne, if_false]
      have := ih (pos + f.size) n (by simpa using hi)
      rw [← this]; congr 1; omega

/-- **stop anywhere, resume at the reported offset**: for every block `i` of every stream, every object of that block
    is reported (by the offset rules read from the source) with the byte offset `c` at which the block begins; the
    bytes of the stream from `c` on are the blocks `i, i+1, …`; and a new scan over them — first block a data block,
    no header — returns exactly the objects of those blocks, the first object of block `i` first -/
theorem resume_at_reported_offset (hdr : Option (Frame α)) (bs : List (Frame α)) (i : Nat) (hi : i < bs.length) :
    let s := match hdr with | some h => h.size | none => 0
    let c := s + ((bs.take i).map (·.size)).sum
    ∃ tr, scanTrace R hdr bs = some tr ∧ (∀ x ∈ bs[i].objs, ∃ p, (x, c, p) ∈ tr) ∧
      suffixAt s bs c = some (bs.drop i) ∧
      (scanTrace R none (bs.drop i)).map (·.map (·.1)) = some ((bs.drop i).map (·.objs)).flatten := by
  intro s c
  refine ⟨_, scanTrace_eq hdr bs, reported_offset_is_block_start hdr bs i hi, suffixAt_drop s bs i (by omega), scan_objects none _⟩

/-! ## non-vacuity -/
example : scanTrace R (some ⟨10, 20, ([] : List Nat)⟩) [⟨5, 50, [1, 2]⟩, ⟨5, 10, []⟩, ⟨5, 30, [3]⟩] =
    some [(1, 34, 0), (2, 34, 0), (3, 112, 93)] := by decide
example : scanTrace R none [⟨5, 10, ([] : List Nat)⟩, ⟨5, 30, [3]⟩] = some [(3, 19, 0)] := by decide

end OsmVerif.Props.C09
