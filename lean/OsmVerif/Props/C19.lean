import OsmVerif.Lemmas.Search19
import OsmVerif.Lemmas.Search19b
import OsmVerif.Model.Replication
/-!
# C19 — replication state lookup by time returns the first state at or after t

Theorems about `Model.Search` (hand-written model of replication/search.go after the repair of
the neighbour-probe loops, tied to the code by comparing the exact sequence of requested ids).
`av : seq → Option ts` is the directory (`none` = 404), `Mono av` says timestamps increase.
-/
namespace OsmVerif.Props.C19
open OsmVerif.Model.Search

/-- `n` is the first available state written at or after `t` -/
def IsFirstAtOrAfter (av : Avail) (t : Int) (n : Nat) : Prop :=
  (∃ c, av n = some c ∧ t ≤ c) ∧ ∀ j d, av j = some d → t ≤ d → n ≤ j

/-! ## findBound -/

/-- what `findBound` guarantees for its result, for every availability pattern -/
structure BoundOk (av : Avail) (t : Int) (lo hi : Nat) : Prop where
  lo_av : ∃ a, av lo = some a
  hi_av : ∃ b, av hi = some b ∧ t ≤ b
  le : lo ≤ hi

theorem findBound_ok (av : Avail) (t : Int) :
    ∀ f l u, l < u → (∃ b, av u = some b ∧ t ≤ b) →
      BoundOk av t (findBound av t f l u).1 (findBound av t f l u).2 := by
  intro f
  induction f with
  | zero =>
    intro l u _ hu
    obtain ⟨b, hb, hbt⟩ := hu
    exact ⟨⟨b, hb⟩, ⟨b, hb, hbt⟩, Nat.le_refl _⟩
  | succ f ih =>
    intro l u hlu hu
    unfold findBound boundStep
    cases hav : av l with
    | none =>
      simp only
      by_cases hn : (l + u) / 2 ≤ l
      · simp only [hn, if_true]
        obtain ⟨b, hb, hbt⟩ := hu
        exact ⟨⟨b, hb⟩, ⟨b, hb, hbt⟩, Nat.le_refl _⟩
      · simp only [hn, if_false]
        exact ih _ u (by omega) hu
    | some lts =>
      simp only
      by_cases hgt : lts > t
      · simp only [hgt, if_true]
        by_cases hadj : l + 1 ≥ u
        · simp only [hadj, if_true]
          exact ⟨⟨lts, hav⟩, hu, by omega⟩
        · simp only [hadj, if_false]
          by_cases hn : (1 + l) / 2 ≤ 1
          · simp only [hn, if_true]
            exact ⟨⟨lts, hav⟩, ⟨lts, hav, by omega⟩, Nat.le_refl _⟩
          · simp only [hn, if_false]
            exact ih _ l (by omega) ⟨lts, hav, by omega⟩
      · simp only [hgt, if_false]
        exact ⟨⟨lts, hav⟩, hu, by omega⟩

/-! ## searchTimestamp -/

/-- **later than every state: the newest state, after a single request** -/
theorem search_future_returns_current (av : Avail) (cur min : Nat) (t : Int) (c : Int)
    (hc : av cur = some c) (ht : t > c) :
    search av cur min t = cur ∧ searchL av cur min t = (cur, [0]) := by
  simp [search, searchL, hc, ht]

theorem first_of_lower (av : Avail) (hm : Mono av) (t : Int) (lo : Nat) (a : Int)
    (ha : av lo = some a) (hta : t ≤ a) (hbelow : ∀ j d, av j = some d → j < lo → d < t) :
    IsFirstAtOrAfter av t lo := by
  refine ⟨⟨a, ha, hta⟩, ?_⟩
  intro j d hj hd
  apply Nat.le_of_not_lt
  intro hlt
  have := hbelow j d hj hlt
  omega

/-- **minimum state available** (minute/hour/day replication on planet): for every pattern of
    missing files above it, every increasing timestamp assignment and every `t` not later than the
    current state, the search returns the first available state written at or after `t`. -/
theorem search_returns_first_at_or_after (av : Avail) (hm : Mono av) (cur min : Nat) (t : Int)
    (c m : Int) (hc : av cur = some c) (hmin : av min = some m) (hlt : min ≤ cur) (ht : t ≤ c)
    (hlow : ∀ j d, av j = some d → min ≤ j) :
    IsFirstAtOrAfter av t (search av cur min t) := by
  have hnt : ¬ t > c := by omega
  simp only [search, hc, hnt, if_false, hmin]
  by_cases htm : t > m
  · simp only [htm, not_true_eq_false, if_false]
    have hne : min ≠ cur := by
      intro e; rw [e, hc] at hmin; cases hmin; omega
    have hlt' : min < cur := by omega
    obtain ⟨c', h1, h2, h3⟩ := findInRange_first av t hm (cur - min) min cur m c (by omega) hlt' hmin hc (by omega) ht
    exact ⟨⟨c', h1, h2⟩, h3⟩
  · simp only [htm, not_false_eq_true, if_true]
    apply first_of_lower av hm t min m hmin (by omega)
    intro j d hj hjl
    have := hlow j d hj
    omega

/-- **minimum state missing** (changeset replication; mirrors that pruned old files): the answer is
    always an available state written at or after `t`, and it is the *first* such state whenever the
    geometric ascent of `findBound` ends on a state that is not after `t`. (The remaining case — the
    ascent gives up on a state after `t` although earlier files exist — is the recorded known finding
    C19/findBound-sparse-low-end; the full statement `IsFirstAtOrAfter` is what is claimed.) -/
theorem search_returns_first_partial (av : Avail) (hm : Mono av) (cur min : Nat) (t : Int)
    (c : Int) (hc : av cur = some c) (hmin : av min = none) (h1 : 1 < cur) (ht : t ≤ c) :
    let b := findBound av t (cur * cur + cur + 2) 1 cur
    (∃ r, av (search av cur min t) = some r ∧ t ≤ r) ∧
    ((∃ a, av b.1 = some a ∧ a ≤ t) → IsFirstAtOrAfter av t (search av cur min t)) := by
  intro b
  have hb : BoundOk av t b.1 b.2 := findBound_ok av t (cur * cur + cur + 2) 1 cur h1 ⟨c, hc, ht⟩
  obtain ⟨a, ha⟩ := hb.lo_av
  obtain ⟨bb, hbb, hbt⟩ := hb.hi_av
  have hnt : ¬ t > c := by omega
  have hs : search av cur min t =
      (if ¬ t > a then b.1 else findInRange av t (b.2 - b.1) b.1 b.2) := by
    simp only [search, hc, hnt, if_false, hmin]
    show (match av b.1 with
      | none => b.1
      | some lts => if ¬ t > lts then b.1 else findInRange av t (b.2 - b.1) b.1 b.2) = _
    rw [ha]
  rw [hs]
  by_cases hta : t > a
  · simp only [hta, not_true_eq_false, if_false]
    have hne : b.1 ≠ b.2 := by
      intro e; rw [e, hbb] at ha; cases ha; omega
    have hlt : b.1 < b.2 := by have := hb.le; omega
    obtain ⟨c', h1', h2', h3'⟩ := findInRange_first av t hm (b.2 - b.1) b.1 b.2 a bb (by omega) hlt ha hbb (by omega) hbt
    exact ⟨⟨c', h1', h2'⟩, fun _ => ⟨⟨c', h1', h2'⟩, h3'⟩⟩
  · simp only [hta, not_false_eq_true, if_true]
    refine ⟨⟨a, ha, by omega⟩, ?_⟩
    rintro ⟨a', ha', hat⟩
    rw [ha] at ha'; cases ha'
    apply first_of_lower av hm t b.1 a ha (by omega)
    intro j d hj hjl
    have := hm j b.1 d a hjl hj ha
    omega

/-! ## requests -/

theorem probeDownL_fst (av : Avail) (lo s : Nat) : (probeDownL av lo s).1 = probeDown av lo s := by
  induction s with
  | zero => rfl
  | succ s ih =>
    unfold probeDownL probeDown
    split
    · cases av (s + 1) <;> simp [ih]
    · rfl

theorem probeUpL_fst (av : Avail) (hi f s : Nat) : (probeUpL av hi f s).1 = probeUp av hi f s := by
  induction f generalizing s with
  | zero => rfl
  | succ f ih =>
    unfold probeUpL probeUp
    split
    · cases av s <;> simp [ih]
    · rfl

theorem pickSplitL_fst (av : Avail) (lo hi : Nat) : (pickSplitL av lo hi).1 = pickSplit av lo hi := by
  unfold pickSplitL pickSplit
  simp only
  rw [← probeDownL_fst av lo ((lo + hi) / 2)]
  rcases probeDownL av lo ((lo + hi) / 2) with ⟨r, l⟩
  cases r with
  | none => simp [probeUpL_fst]
  | some r => simp

/-- the logging twin computes the same answer -/
theorem findInRangeL_fst (av : Avail) (t : Int) (f lo hi : Nat) :
    (findInRangeL av t f lo hi).1 = findInRange av t f lo hi := by
  induction f generalizing lo hi with
  | zero => rfl
  | succ f ih =>
    unfold findInRangeL findInRange
    split
    · rw [← pickSplitL_fst av lo hi]
      rcases pickSplitL av lo hi with ⟨r, l⟩
      cases r with
      | none => simp
      | some p =>
        obtain ⟨s, ts⟩ := p
        simp only
        split <;> simp [ih]
    · rfl

/-- probes stay strictly inside the interval and never repeat within one iteration:
    an iteration over `(lo, hi)` makes at most `hi - lo - 1` requests -/
theorem probeDownL_len (av : Avail) (lo s : Nat) : (probeDownL av lo s).2.length ≤ s - lo := by
  induction s with
  | zero => simp [probeDownL]
  | succ s ih =>
    unfold probeDownL
    split
    · cases av (s + 1) with
      | some ts => simp; omega
      | none => simp; omega
    · simp

theorem probeUpL_len (av : Avail) (hi f s : Nat) : (probeUpL av hi f s).2.length ≤ hi - s := by
  induction f generalizing s with
  | zero => simp [probeUpL]
  | succ f ih =>
    unfold probeUpL
    split
    · cases av s with
      | some ts => simp; omega
      | none => have := ih (s + 1); simp; omega
    · simp

theorem pickSplitL_len (av : Avail) (lo hi : Nat) (h : lo + 1 < hi) :
    (pickSplitL av lo hi).2.length ≤ hi - lo - 1 := by
  unfold pickSplitL
  simp only
  have h1 := probeDownL_len av lo ((lo + hi) / 2)
  cases hd : probeDownL av lo ((lo + hi) / 2) with
  | mk r l =>
    rw [hd] at h1
    cases r with
    | some r => simp only; simp only at h1; omega
    | none =>
      simp only
      have h2 := probeUpL_len av hi (hi - (lo + hi) / 2) ((lo + hi) / 2 + 1)
      simp only [List.length_append]
      simp only at h1
      omega

/-- **termination with an explicit bound** (every availability pattern): the binary search over
    `(lo, hi)` issues at most `(hi-lo)²` requests; with the fuel `hi - lo` used by `search` it never
    runs out of fuel before the interval is closed (see `findInRange_first`). -/
theorem findInRangeL_requests (av : Avail) (t : Int) :
    ∀ f lo hi, hi ≤ lo + f → (findInRangeL av t f lo hi).2.length ≤ (hi - lo) * (hi - lo) := by
  intro f
  induction f with
  | zero => intro lo hi _; simp [findInRangeL]
  | succ f ih =>
    intro lo hi hf
    unfold findInRangeL
    split
    · rename_i hgap
      have hl := pickSplitL_len av lo hi hgap
      have hs := pickSplitL_fst av lo hi
      cases hp : pickSplitL av lo hi with
      | mk r l =>
        rw [hp] at hl hs
        simp only at hl hs
        cases r with
        | none =>
          simp only
          have : hi - lo - 1 ≤ (hi - lo) * (hi - lo) := by
            have : hi - lo ≥ 1 := by omega
            calc hi - lo - 1 ≤ (hi - lo) * 1 := by omega
              _ ≤ (hi - lo) * (hi - lo) := Nat.mul_le_mul_left _ this
          omega
        | some p =>
          obtain ⟨s, ts⟩ := p
          have hsp := pickSplit_some av lo hi hgap (s, ts) hs.symm
          simp only at hsp
          simp only
          have key : ∀ w w' : Nat, w' < w → w - 1 + w' * w' ≤ w * w := by
            intro w w' h
            have h1 : w' ≤ w - 1 := by omega
            have h2 : w' * w' ≤ (w - 1) * (w - 1) := Nat.mul_le_mul h1 h1
            have h3 : w - 1 + (w - 1) * (w - 1) = (w - 1) * w := by
              cases w with
              | zero => omega
              | succ n => simp [Nat.mul_succ, Nat.add_comm]
            have h4 : (w - 1) * w ≤ w * w := Nat.mul_le_mul_right _ (by omega)
            omega
          split
          · have := ih s hi (by omega)
            simp only [List.length_append]
            have := key (hi - lo) (hi - s) (by omega)
            omega
          · have := ih lo s (by omega)
            simp only [List.length_append]
            have := key (hi - lo) (s - lo) (by omega)
            omega
    · simp

/-- a directory without gaps is searched with one request per halving: for a range of width
    `w = hi - lo ≥ 2` the number of requests `k` satisfies `2^k ≤ 2(w-1)`, i.e. `k ≤ log₂(w-1) + 1` -/
theorem findInRangeL_requests_gapfree (av : Avail) (t : Int)
    (hfull : ∀ n, ∃ ts, av n = some ts) :
    ∀ f lo hi, (hi - lo ≤ 1 → (findInRangeL av t f lo hi).2.length = 0) ∧
      (2 ≤ hi - lo → 2 ^ (findInRangeL av t f lo hi).2.length ≤ 2 * (hi - lo - 1)) := by
  intro f
  induction f with
  | zero => intro lo hi; simp [findInRangeL]; omega
  | succ f ih =>
    intro lo hi
    unfold findInRangeL
    split
    · rename_i hgap
      have hmid : lo < (lo + hi) / 2 := by omega
      obtain ⟨mts, hmts⟩ := hfull ((lo + hi) / 2)
      have hp : pickSplitL av lo hi = (some ((lo + hi) / 2, mts), [(lo + hi) / 2]) := by
        unfold pickSplitL
        simp only
        have : probeDownL av lo ((lo + hi) / 2) = (some ((lo + hi) / 2, mts), [(lo + hi) / 2]) := by
          cases hm : (lo + hi) / 2 with
          | zero => omega
          | succ k =>
            rw [hm] at hmts hmid
            unfold probeDownL
            simp [hmid, hmts]
        rw [this]
      rw [hp]
      simp only
      refine ⟨by omega, fun _ => ?_⟩
      split
      · obtain ⟨i0, i1⟩ := ih ((lo + hi) / 2) hi
        simp only [List.length_append, List.length_cons, List.length_nil]
        by_cases hw : hi - (lo + hi) / 2 ≤ 1
        · rw [i0 hw]; simp; omega
        · have := i1 (by omega)
          rw [Nat.add_comm, Nat.pow_succ]
          omega
      · obtain ⟨i0, i1⟩ := ih lo ((lo + hi) / 2)
        simp only [List.length_append, List.length_cons, List.length_nil]
        by_cases hw : (lo + hi) / 2 - lo ≤ 1
        · rw [i0 hw]; simp; omega
        · have := i1 (by omega)
          rw [Nat.add_comm, Nat.pow_succ]
          omega
    · simp; omega

/-! ## the sum-form request bound -/

/-- **requests of the binary search = O(log range) + O(missing files), as a SUM** — for every availability
    pattern (no monotonicity needed), every query time and any fuel: at most `⌈log₂(hi-lo)⌉ + 3·(missing files
    strictly between the bounds) + 1` requests. Each run of missing files is stepped over at most three
    times (once from the midpoint, once more when it has become adjacent to the lower bound, once in the
    final pass over an all-missing interval); the potential `⌈log₂(width − run adjacent to lo)⌉ + 3·missing −
    run` decreases by at least the number of requests of every iteration (`Lemmas/Search19b.lean`). -/
theorem findInRange_requests_sum (av : Avail) (t : Int) (f lo hi : Nat) (h : lo < hi) :
    (findInRangeL av t f lo hi).2.length ≤ clog (hi - lo) + 3 * missing av lo hi + 1 :=
  findInRangeL_requests_sum av t f lo hi h

/-- the whole lookup when the stater's minimum state exists (the regular case): the current state, the minimum,
    and the binary search between them -/
theorem search_requests_sum (av : Avail) (cur min : Nat) (t : Int) (m : Int) (hmin : av min = some m) (hlt : min < cur) :
    (searchL av cur min t).2.length ≤ clog (cur - min) + 3 * missing av min cur + 3 := by
  unfold searchL
  cases hc : av cur with
  | none => simp
  | some cts =>
    simp only
    split
    · simp
    · simp only [hmin]
      split
      · simp
      · have := findInRangeL_requests_sum av t (cur - min) min cur hlt
        simp only [List.length_cons, List.length_append, List.length_nil]
        omega

/-- the ascent of `findBound` (minimum state missing): requests that hit an existing file ≤ ⌈log₂ upper⌉ + requests that hit
    a missing file + 2 -/
theorem findBound_requests (av : Avail) (t : Int) (f l u : Nat) (hl : 1 ≤ l) (hlu : l < u) :
    countAv av (findBoundL av t f l u).2 ≤ clog u + countMiss av (findBoundL av t f l u).2 + 2 := by
  have := findBoundL_requests av t f l u hl hlu
  split at this <;> omega

/-- **the whole lookup with the minimum state missing, as a sum**: 2·⌈log₂ cur⌉ + 2·(requests of the ascent that hit a
    missing file) + 3·(missing files between the bounds it found) + 5 -/
theorem search_requests_sum_min_missing (av : Avail) (cur min : Nat) (t : Int) (hmin : av min = none) (h1 : 1 < cur) :
    (searchL av cur min t).2.length ≤
      2 * clog cur + 2 * countMiss av (findBoundL av t (cur * cur + cur + 2) 1 cur).2 +
        3 * missing av (findBoundL av t (cur * cur + cur + 2) 1 cur).1.1 (findBoundL av t (cur * cur + cur + 2) 1 cur).1.2 + 5 :=
  searchL_requests_min_missing av cur min t hmin h1

/-- `clog` is the ceiling of the binary logarithm -/
theorem clog_spec (n k : Nat) (hn : 1 ≤ n) : clog n ≤ k ↔ n ≤ 2 ^ k := clog_le_iff n k hn

/-! ## non-vacuity, and the gap pattern on which the unrepaired loop never returned -/
def exAv : Avail := fun n => if n = 1 then some 10 else if n = 3 then some 30 else if n = 4 then some 40 else none
example : search exAv 4 1 15 = 3 ∧ searchL exAv 4 1 15 = (3, [0, 1, 2, 3, 2]) := by decide
example : search exAv 4 1 5 = 1 := by decide
example : search exAv 4 1 40 = 4 := by decide
example : search exAv 4 1 41 = 4 := by decide
/-- the hypotheses of the theorems on this directory: time stamps increase with the sequence number -/
example : Mono exAv := by
  intro i j a b hij hi hj
  unfold exAv at hi hj
  have hi' : (i = 1 ∧ a = 10) ∨ (i = 3 ∧ a = 30) ∨ (i = 4 ∧ a = 40) := by
    split at hi
    · left; simp_all
    · split at hi
      · right; left; simp_all
      · split at hi
        · right; right; simp_all
        · cases hi
  have hj' : (j = 1 ∧ b = 10) ∨ (j = 3 ∧ b = 30) ∨ (j = 4 ∧ b = 40) := by
    split at hj
    · left; simp_all
    · split at hj
      · right; left; simp_all
      · split at hj
        · right; right; simp_all
        · cases hj
  rcases hi' with ⟨rfl, rfl⟩ | ⟨rfl, rfl⟩ | ⟨rfl, rfl⟩ <;> rcases hj' with ⟨rfl, rfl⟩ | ⟨rfl, rfl⟩ | ⟨rfl, rfl⟩ <;> omega
/-- the minimum missing (the stater starts at 2, which is not there): the ascent finds its bounds and the answer is
    the first state at or after t -/
example : exAv 2 = none ∧ search exAv 4 2 15 = 3 ∧ findBound exAv 15 (4 * 4 + 4 + 2) 1 4 = (1, 4) := by decide

/-! ## the planet layout -/
section Layout
open OsmVerif.Gen.Replication OsmVerif.Model.Replication

/-- the URL recipes, suffixes, directory names, time formats and the changeset off-by-one rule found in
    the source are the ones of the planet server's layout (pinned here) -/
theorem formats_eq_planet_layout :
    baseSeqURLFormat = "%s/replication/%s/%03d/%03d/%03d" ∧
    baseSeqURLArgs = ["ds.baseURL()", "sn.Dir()", "n / 1000000", "(n % 1000000) / 1000", "n % 1000"] ∧
    baseChangesetURLFormat = "%s/replication/%s/%03d/%03d/%03d" ∧
    baseChangesetURLArgs = ["ds.baseURL()", "cn.Dir()", "n / 1000000", "(n % 1000000) / 1000", "n % 1000"] ∧
    fetchStateLiterals = [".state.txt", "%s/replication/%s/state.txt"] ∧
    fetchChangesetStateLiterals = [".state.txt", "%s/replication/%s/state.yaml", "GET"] ∧
    changeURLLiterals = [".osc.gz"] ∧ changesetReaderLiterals = [".osm.gz", "GET"] ∧
    [dirMinuteSeqNum, dirHourSeqNum, dirDaySeqNum, dirChangesetSeqNum] = ["minute", "hour", "day", "changesets"] ∧
    timeFormats = ["2006-01-02 15:04:05.999999999 Z", "2006-01-02 15:04:05.999999999 +00:00", "2006-01-02T15\\:04\\:05Z"] ∧
    changesetSeqRule = "s.SeqNum++ | s.SeqNum = uint64(n)" ∧
    BaseURL = "https://planet.osm.org" := by decide

/-- which minimum each lookup starts from, as the source has it: 1 for minute, hour and day replication — and the
    day minimum for changesets too (`minChangeset` = 2007990 is declared but `ChangesetStateAt` passes `minDay`), so a
    changeset lookup always finds its minimum missing and goes through `findBound`; the theorems for a missing minimum
    are the ones that apply to it -/
theorem stater_minima :
    [stateAtMinMinute, stateAtMinHour, stateAtMinDay, stateAtMinChangeset] = ["minMinute", "minHour", "minDay", "minDay"] ∧
    [minMinute, minHour, minDay, minChangeset] = [1, 1, 1, 2007990] := by decide

theorem pad3_table : ∀ a : Fin 1000, (pad3 a.val).length = 3 ∧ Nat.ofDigitChars 10 (pad3 a.val) 0 = a.val ∧
    '/' ∉ pad3 a.val := by decide +kernel

theorem pad3_inj {a b : Nat} (ha : a < 1000) (hb : b < 1000) (h : pad3 a = pad3 b) : a = b := by
  have h1 := (pad3_table ⟨a, ha⟩).2.1
  have h2 := (pad3_table ⟨b, hb⟩).2.1
  simp only at h1 h2
  rw [← h1, ← h2, h]

/-- **three zero-padded levels**, and distinct sequence numbers below 10⁹ get distinct paths -/
theorem seqPath_layout (dir : String) (n : Nat) (hn : n < 1000000000) :
    seqPath dir n = ("/replication/".toList ++ dir.toList) ++ ('/' :: (pad3 (n / 1000000) ++ ('/' :: (pad3 (n % 1000000 / 1000) ++ ('/' :: pad3 (n % 1000)))))) ∧
    (pad3 (n / 1000000)).length = 3 ∧ (pad3 (n % 1000000 / 1000)).length = 3 ∧ (pad3 (n % 1000)).length = 3 :=
  ⟨rfl, (pad3_table ⟨n / 1000000, by omega⟩).1, (pad3_table ⟨n % 1000000 / 1000, by omega⟩).1,
    (pad3_table ⟨n % 1000, by omega⟩).1⟩

theorem seqPath_injective (dir : String) (n m : Nat) (hn : n < 1000000000) (hm : m < 1000000000)
    (h : seqPath dir n = seqPath dir m) : n = m := by
  unfold seqPath at h
  have h1 := List.append_cancel_left h
  simp only [List.cons.injEq, true_and] at h1
  have la := (pad3_table ⟨n / 1000000, by omega⟩).1
  have la' := (pad3_table ⟨m / 1000000, by omega⟩).1
  have lb := (pad3_table ⟨n % 1000000 / 1000, by omega⟩).1
  have lb' := (pad3_table ⟨m % 1000000 / 1000, by omega⟩).1
  simp only at la la' lb lb'
  have h2 := List.append_inj h1 (by rw [la, la'])
  have ea := pad3_inj (by omega) (by omega) h2.1
  have h3 := h2.2
  simp only [List.cons.injEq, true_and] at h3
  have h4 := List.append_inj h3 (by rw [lb, lb'])
  have eb := pad3_inj (by omega) (by omega) h4.1
  have h5 := h4.2
  simp only [List.cons.injEq, true_and] at h5
  have ec := pad3_inj (by omega) (by omega) h5
  omega

/-- the changeset state's off-by-one sequence: the current state is one more than the file says,
    a numbered state is the number it was requested under -/
theorem changeset_seq_off_by_one (n s : Nat) :
    changesetSeq 0 s = s + 1 ∧ (n ≠ 0 → changesetSeq n s = n) := by
  simp [changesetSeq]; intro h h2; exact absurd h2 h

example : String.ofList (seqPath "minute" 2010580) = "/replication/minute/002/010/580" := by decide
example : String.ofList (statePath "day" 0) = "/replication/day/state.txt" := by decide
end Layout

end OsmVerif.Props.C19
