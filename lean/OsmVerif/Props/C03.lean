import OsmVerif.Lemmas.Schema
/-!
# C03 — OSM XML decoding is faithful; the streaming scan equals the whole-document decode

Theorems over the regenerated schema (`Gen.Schema`: struct tags, the scanner's and the diff action's
dispatch labels) interpreted by `Model.Schema`. encoding/xml's tokenizer (entities, whitespace,
comments, self-closing tags) and reflection decoder are trusted; they are exercised by an independent
XML writer in the harness.
-/
namespace OsmVerif.Props.C03
open OsmVerif.Gen.Schema OsmVerif.Model.Schema OsmVerif.Spec.OsmSchema

/-- every struct field is decoded from the OSM XML element / attribute name (pinned vocabulary) -/
theorem names_eq_osm_xml :
    structs.filter (fun e => codecTypes.contains e.1) = pinnedStructs.filter (fun e => codecTypes.contains e.1) :=
  schema_eq_pinned

/-! ## attributes: order and unknown attributes do not matter -/

theorem filterMap_congr_mem {α β} (l : List α) (f g : α → Option β) (h : ∀ x ∈ l, f x = g x) :
    l.filterMap f = l.filterMap g := by
  induction l with
  | nil => rfl
  | cons x xs ih =>
    simp only [List.filterMap_cons, h x (by simp)]
    rw [ih (fun y hy => h y (by simp [hy]))]

theorem find_perm {l1 l2 : List (String × String)} (hp : l1.Perm l2) (hn : (l1.map (·.1)).Nodup) (k : String) :
    l1.find? (·.1 = k) = l2.find? (·.1 = k) := by
  induction hp with
  | nil => rfl
  | cons x _ ih =>
    simp only [List.map_cons, List.nodup_cons] at hn
    simp only [List.find?_cons]
    split
    · rfl
    · exact ih hn.2
  | swap x y l =>
    simp only [List.map_cons, List.nodup_cons, List.mem_cons, not_or] at hn
    simp only [List.find?_cons]
    by_cases hx : x.1 = k <;> by_cases hy : y.1 = k
    · exact absurd (hy.trans hx.symm) (fun e => hn.1.1 e)
    · simp [hx, hy]
    · simp [hx, hy]
    · simp [hx, hy]
  | trans h1 _ ih1 ih2 =>
    have hn2 := (h1.map (·.1)).nodup_iff.mp hn
    exact (ih1 hn).trans (ih2 hn2)

/-- **independent of attribute order** (attribute names within one element are distinct in well-formed XML) -/
theorem unmarshal_attr_perm (t : String) (a1 a2 : List (String × String)) (hp : a1.Perm a2)
    (hn : (a1.map (·.1)).Nodup) : decodeAttrs t a1 = decodeAttrs t a2 := by
  unfold decodeAttrs
  congr 1
  funext f
  simp only [find_perm hp hn]

/-- **unknown attributes are ignored** -/
theorem unmarshal_ignores_unknown (t : String) (attrs : List (String × String)) (k v : String)
    (hk : k ∉ attrNames t) : decodeAttrs t ((k, v) :: attrs) = decodeAttrs t attrs := by
  unfold decodeAttrs
  apply filterMap_congr_mem
  intro f hf
  by_cases ha : (parseXmlTag f).attr = true ∧ (parseXmlTag f).skip = false
  · have hne : ¬ k = (parseXmlTag f).name := by
      intro e
      apply hk
      unfold attrNames
      exact List.mem_filterMap.mpr ⟨f, hf, by simp [ha.1, ha.2, e]⟩
    simp [ha.1, ha.2, List.find?_cons, hne]
  · by_cases a : (parseXmlTag f).attr = true <;> by_cases s : (parseXmlTag f).skip = true <;> simp_all

/-! ## the streaming scanner and the whole-document decode see the same elements -/

/-- a top-level child of `<osm>` (or of an osmChange block): its element name and an opaque payload -/
structure Ev where
  name : String
  payload : Nat
  deriving DecidableEq, Repr

/-- what the whole-document decode stores under the `OSM` field tagged `k`: those children, in order -/
def whole (evs : List Ev) (k : String) : List Ev := evs.filter (·.name = k)

/-- what the scanner yields: every child whose name it dispatches on, in document order -/
def stream (evs : List Ev) : List Ev := evs.filter (fun e => scannerCases.contains e.name)

/-- the scanner's dispatch compares the element's own local name — not a lower-cased or otherwise normalised
    copy — with its case labels, as `stream` assumes (XML names are case sensitive and so is the struct decoder:
    an unknown `<Node>` must not reach the node decoder) -/
theorem scanner_dispatch_exact : scannerSwitchTags = ["se.Name.Local"] := by decide

/-- **unknown elements are skipped as a whole, by both decoders**: below the document element the scanner descends
    only into the containers of osmChange (`create`, `modify`, `delete`, the block fields of `Change`) and of augmented
    diffs (`action`, `old`, `new`, what `Diff` and the action decoder read); any other element it does not decode is
    skipped with everything in it (`Decoder.Skip`), as `xml.Unmarshal` does for a child no field matches — and the
    diff action decoder does the same for a child it does not know -/
theorem unknown_elements_skipped :
    scannerContainerCases = ["create", "modify", "delete", "action", "old", "new"] ∧
    (["create", "modify", "delete"].all fun n => (decodableChildren "Change").contains n) = true ∧
    (decodableChildren "Diff").contains "action" = true ∧
    (["old", "new"].all fun n => actionUnmarshalCases.contains n) = true ∧
    scannerDefault = ["if !s.inDocument {", "s.inDocument = true", "continue Loop", "}",
      "if err := s.decoder.Skip(); err != nil {", "s.err = err", "return false", "}", "continue Loop"] ∧
    actionUnmarshalDefault = ["if err := d.Skip(); err != nil {", "return err", "}"] := by decide

/-- the scanner dispatches on exactly the element names the `OSM` struct decodes -/
theorem scanner_cases_eq_osm_fields : scannerCases = decodableChildren "OSM" := by decide

/-- the diff action decoder reads its own elements plus `old` / `new` -/
theorem action_cases : actionUnmarshalCases = ["old", "new", "node", "way", "relation"] := by decide

/-- **the streaming scanner yields the same objects, in document order, as decoding the whole document**:
    per kind the scanner's subsequence is the collection the whole-document decode builds, and every
    decoded child is yielded -/
theorem stream_eq_whole (evs : List Ev) (k : String) (hk : k ∈ decodableChildren "OSM") :
    (stream evs).filter (·.name = k) = whole evs k := by
  unfold stream whole
  rw [List.filter_filter]
  apply List.filter_congr
  intro e _
  by_cases h : e.name = k
  · have hc : scannerCases.contains k = true := by
      rw [scanner_cases_eq_osm_fields]; simpa using hk
    rw [h]
    simp only [hc, decide_true, Bool.and_self]
  · simp [h]

theorem stream_only_known (evs : List Ev) : ∀ e ∈ stream evs, e.name ∈ decodableChildren "OSM" := by
  intro e he
  have := (List.mem_filter.mp he).2
  rw [scanner_cases_eq_osm_fields] at this
  simpa using this

/-! ## osmChange blocks accumulate -/

/-- a block of an osmChange document: the action name and its children -/
abbrev Block := String × List Ev

/-- whole-document decode of an osmChange: each action's `*OSM` accumulates the children of all its blocks
    (encoding/xml appends into the same struct; validated against the real decoder by the harness) -/
def changeWhole (blocks : List Block) (action k : String) : List Ev :=
  (blocks.filter (·.1 = action)).flatMap (fun b => whole b.2 k)

/-- **any interleaving and repetition of create/modify/delete blocks**: per action and kind, the decoded
    collection is the concatenation over that action's blocks in document order, and the scanner's
    sequence restricted to that action and kind is the same list -/
theorem change_blocks_accumulate (blocks : List Block) (action k : String) (hk : k ∈ decodableChildren "OSM") :
    ((blocks.filter (·.1 = action)).flatMap (fun b => (stream b.2).filter (·.name = k))) = changeWhole blocks action k := by
  unfold changeWhole
  congr 1
  funext b
  exact stream_eq_whole b.2 k hk

/-- the streaming scanner reads with the same (strict, default) decoder configuration as whole-document
    decoding: it changes no decoder setting -/
theorem scanner_decoder_default : scannerDecoderSettings = [] := by decide

/-! ## non-vacuity -/
example : decodeAttrs "Bounds" [("maxlon", "4"), ("minlat", "1"), ("x-unknown", "z"), ("minlon", "3"), ("maxlat", "2")] =
    [("MinLat", "1"), ("MaxLat", "2"), ("MinLon", "3"), ("MaxLon", "4")] := by decide
example : stream [⟨"node", 1⟩, ⟨"x-extension", 2⟩, ⟨"way", 3⟩, ⟨"node", 4⟩] = [⟨"node", 1⟩, ⟨"way", 3⟩, ⟨"node", 4⟩] := by decide

end OsmVerif.Props.C03
