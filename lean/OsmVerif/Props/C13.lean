import OsmVerif.Model.Change
/-!
# C13 — annotating a change yields the exact old/new diff for every element

Theorems about `Model.Change` (hand-written model of annotate/change.go, tied to the code by
the differential stream of `./check C13`).
-/
namespace OsmVerif.Props.C13
open OsmVerif.Model.Change

/-! ## the previous-version scan -/

/-- invariant of the scan: `best` is in the already scanned part, has version `max`, and is the
    greatest eligible one there -/
theorem scan_spec (cur : Int) (l : List Elem) (best : Option Elem) (max : Int)
    (seen : List Elem)
    (hmax : -1 ≤ max)
    (hbest : match best with
      | none => max = -1 ∧ ∀ e ∈ seen, ¬ (0 ≤ e.version ∧ e.version < cur)
      | some b => b ∈ seen ∧ b.version = max ∧ b.version < cur ∧ 0 ≤ b.version ∧
          ∀ e ∈ seen, e.version < cur → e.version ≤ max) :
    match scan cur l best max with
    | none => ∀ e ∈ seen ++ l, ¬ (0 ≤ e.version ∧ e.version < cur)
    | some b => b ∈ seen ++ l ∧ b.version < cur ∧ 0 ≤ b.version ∧
        ∀ e ∈ seen ++ l, e.version < cur → e.version ≤ b.version := by
  induction l generalizing best max seen with
  | nil =>
    simp only [scan, List.append_nil]
    cases best with
    | none => exact hbest.2
    | some b =>
      obtain ⟨h1, h2, h3, h4, h5⟩ := hbest
      exact ⟨h1, h3, h4, fun e he hc => h2 ▸ h5 e he hc⟩
  | cons x xs ih =>
    simp only [scan]
    have hrw : seen ++ x :: xs = (seen ++ [x]) ++ xs := by simp
    rw [hrw]
    by_cases hc : x.version < cur ∧ x.version > max
    · simp only [hc, and_self, if_true]
      apply ih (some x) x.version (seen ++ [x]) (by omega)
      refine ⟨by simp, rfl, hc.1, by omega, ?_⟩
      intro e he hec
      rcases List.mem_append.mp he with h | h
      · cases best with
        | none =>
          have := hbest.2 e h
          have : ¬ (0 ≤ e.version) := fun h0 => this ⟨h0, hec⟩
          omega
        | some b =>
          have := hbest.2.2.2.2 e h hec
          omega
      · simp only [List.mem_singleton] at h; subst h; exact Int.le_refl _
    · simp only [hc, if_false]
      apply ih best max (seen ++ [x]) hmax
      cases best with
      | none =>
        refine ⟨hbest.1, ?_⟩
        intro e he
        rcases List.mem_append.mp he with h | h
        · exact hbest.2 e h
        · simp only [List.mem_singleton] at h; subst h
          have := hbest.1
          intro hh; apply hc; constructor <;> omega
      | some b =>
        obtain ⟨h1, h2, h3, h4, h5⟩ := hbest
        refine ⟨by simp [h1], h2, h3, h4, ?_⟩
        intro e he hec
        rcases List.mem_append.mp he with h | h
        · exact h5 e h hec
        · simp only [List.mem_singleton] at h; subst h
          by_cases hlt : e.version > max
          · exact absurd ⟨hec, hlt⟩ hc
          · omega

/-- **the old state is the history version with the greatest version number below the new one**,
    for every history: unsorted, with gaps, with later versions, with duplicates. -/
theorem previous_is_greatest_below (cur : Int) (h : List Elem) (o : Elem)
    (hf : findPrevious cur h = some o) :
    o ∈ h ∧ o.version < cur ∧ ∀ e ∈ h, e.version < cur → e.version ≤ o.version := by
  have := scan_spec cur h none (-1) [] (by omega) (by simp)
  unfold findPrevious at hf
  rw [hf] at this
  simp only [List.nil_append] at this
  exact ⟨this.1, this.2.1, this.2.2.2⟩

/-- a previous version is found exactly when the history has some (non-negative) version below -/
theorem previous_exists_iff (cur : Int) (h : List Elem) :
    (findPrevious cur h).isSome ↔ ∃ e ∈ h, 0 ≤ e.version ∧ e.version < cur := by
  have := scan_spec cur h none (-1) [] (by omega) (by simp)
  unfold findPrevious
  cases hs : scan cur h none (-1) with
  | none =>
    rw [hs] at this
    simp only [List.nil_append] at this
    simp only [Option.isSome_none, Bool.false_eq_true, false_iff, not_exists, not_and]
    intro e he h0 hc; exact this e he ⟨h0, hc⟩
  | some b =>
    rw [hs] at this
    simp only [List.nil_append] at this
    simp only [Option.isSome_some, true_iff]
    exact ⟨b, this.1, this.2.2.1, this.2.1⟩

/-! ## the actions -/

theorem addUpdate_length (ds : Datasource) (ig : Bool) (t : ActType) (l : List Elem) (as : List Action)
    (h : addUpdate ds ig t l = .ok as) : as.length = l.length := by
  induction l generalizing as with
  | nil => simp [addUpdate] at h; cases h; rfl
  | cons e rest ih =>
    simp only [addUpdate, bind, Except.bind] at h
    cases h1 : updateOne ds ig t e with
    | error err => simp [h1] at h
    | ok a =>
      simp only [h1] at h
      cases h2 : addUpdate ds ig t rest with
      | error err => simp [h2] at h
      | ok as' =>
        simp only [h2, pure, Except.pure] at h
        cases h
        simp [ih as' h2]

/-- what one successful modify/delete step produces -/
theorem updateOne_ok (ds : Datasource) (ig : Bool) (t : ActType) (e : Elem) (a : Action)
    (h : updateOne ds ig t e = .ok a) :
    (a.new.kind = e.kind ∧ a.new.id = e.id ∧ a.new.version = e.version ∧ a.new.mark = e.mark) ∧
    ((a.type = t ∧ a.new.visible = decide (t ≠ .delete) ∧
        ∃ hist o, ds e.kind e.id = .found hist ∧ findPrevious e.version hist = some o ∧ a.old = some o)
     ∨ (ig = true ∧ a.type = .create ∧ a.old = none ∧ a.new.visible = true ∧
        (ds e.kind e.id = .notFound ∨ ∃ hist, ds e.kind e.id = .found hist ∧ findPrevious e.version hist = none))) := by
  unfold updateOne at h
  cases hd : ds e.kind e.id with
  | otherErr => simp [hd] at h
  | notFound =>
    simp only [hd] at h
    by_cases hi : ig = true
    · simp only [hi, if_true, Except.ok.injEq] at h
      subst h
      exact ⟨by simp [createAction], Or.inr ⟨hi, rfl, rfl, rfl, Or.inl rfl⟩⟩
    · simp [hi] at h
  | found hist =>
    simp only [hd] at h
    cases hp : findPrevious e.version hist with
    | none =>
      simp only [hp] at h
      by_cases hi : ig = true
      · simp only [hi, if_true, Except.ok.injEq] at h
        subst h
        exact ⟨by simp [createAction], Or.inr ⟨hi, rfl, rfl, rfl, Or.inr ⟨hist, rfl, hp⟩⟩⟩
      · simp [hi] at h
    | some o =>
      simp only [hp, Except.ok.injEq] at h
      subst h
      exact ⟨by simp, Or.inl ⟨rfl, rfl, hist, o, rfl, hp, rfl⟩⟩

/-- the documented typed errors -/
theorem missing_history_error (ds : Datasource) (t : ActType) (e : Elem) (h : ds e.kind e.id = .notFound) :
    updateOne ds false t e = .error (.noVisibleChild e.kind e.id) := by
  simp [updateOne, h]
theorem missing_previous_error (ds : Datasource) (t : ActType) (e : Elem) (hist : List Elem)
    (h : ds e.kind e.id = .found hist) (hp : findPrevious e.version hist = none) :
    updateOne ds false t e = .error (.noVisibleChild e.kind e.id) := by
  simp [updateOne, h, hp]
theorem other_error_propagates (ds : Datasource) (ig : Bool) (t : ActType) (e : Elem) (h : ds e.kind e.id = .otherErr) :
    updateOne ds ig t e = .error .other := by
  simp [updateOne, h]
theorem ignore_missing_creates (ds : Datasource) (t : ActType) (e : Elem)
    (h : ds e.kind e.id = .notFound ∨ ∃ hist, ds e.kind e.id = .found hist ∧ findPrevious e.version hist = none) :
    updateOne ds true t e = .ok (createAction e) := by
  rcases h with h | ⟨hist, h, hp⟩
  · simp [updateOne, h]
  · simp [updateOne, h, hp]

/-- elements of the actions, in order -/
def newKeys (as : List Action) : List (Kind × Int × Int × Nat) :=
  as.map fun a => (a.new.kind, a.new.id, a.new.version, a.new.mark)
def elemKeys (l : List Elem) : List (Kind × Int × Int × Nat) :=
  l.map fun e => (e.kind, e.id, e.version, e.mark)

theorem addUpdate_keys (ds : Datasource) (ig : Bool) (t : ActType) (l : List Elem) (as : List Action)
    (h : addUpdate ds ig t l = .ok as) : newKeys as = elemKeys l := by
  induction l generalizing as with
  | nil => simp [addUpdate] at h; cases h; rfl
  | cons e rest ih =>
    simp only [addUpdate, bind, Except.bind] at h
    cases h1 : updateOne ds ig t e with
    | error err => simp [h1] at h
    | ok a =>
      simp only [h1] at h
      cases h2 : addUpdate ds ig t rest with
      | error err => simp [h2] at h
      | ok as' =>
        simp only [h2, pure, Except.pure] at h
        cases h
        have := (updateOne_ok ds ig t e a h1).1
        simp [newKeys, elemKeys, this] at *
        exact ih as' h2

theorem annotate_split (ds : Datasource) (ig : Bool) (c : Change) (as : List Action)
    (h : annotateChange ds ig c = .ok as) :
    ∃ m d, addUpdate ds ig .modify c.modify.all = .ok m ∧ addUpdate ds ig .delete c.delete.all = .ok d ∧
      as = c.create.all.map createAction ++ m ++ d := by
  simp only [annotateChange, bind, Except.bind] at h
  cases h1 : addUpdate ds ig .modify c.modify.all with
  | error err => simp [h1] at h
  | ok m =>
    simp only [h1] at h
    cases h2 : addUpdate ds ig .delete c.delete.all with
    | error err => simp [h2] at h
    | ok d =>
      simp only [h2, pure, Except.pure] at h
      cases h
      exact ⟨m, d, rfl, rfl, rfl⟩

/-- **exactly one action per changed element, in create, modify, delete order and
    node, way, relation order within each** -/
theorem actions_order (ds : Datasource) (ig : Bool) (c : Change) (as : List Action)
    (h : annotateChange ds ig c = .ok as) :
    newKeys as = elemKeys (c.create.nodes ++ c.create.ways ++ c.create.relations ++
      (c.modify.nodes ++ c.modify.ways ++ c.modify.relations) ++
      (c.delete.nodes ++ c.delete.ways ++ c.delete.relations)) := by
  obtain ⟨m, d, hm, hd, rfl⟩ := annotate_split ds ig c as h
  have km := addUpdate_keys _ _ _ _ _ hm
  have kd := addUpdate_keys _ _ _ _ _ hd
  simp only [newKeys, elemKeys, List.map_append, Group.all] at *
  rw [km, kd]
  simp [createAction, Function.comp_def]

theorem actions_length (ds : Datasource) (ig : Bool) (c : Change) (as : List Action)
    (h : annotateChange ds ig c = .ok as) :
    as.length = c.create.all.length + c.modify.all.length + c.delete.all.length := by
  obtain ⟨m, d, hm, hd, rfl⟩ := annotate_split ds ig c as h
  simp [addUpdate_length _ _ _ _ _ hm, addUpdate_length _ _ _ _ _ hd]
  omega

/-- created elements become create actions marked visible -/
theorem create_visible (ds : Datasource) (ig : Bool) (c : Change) (as : List Action)
    (h : annotateChange ds ig c = .ok as) :
    ∀ i, (hi : i < c.create.all.length) → ∃ a, as[i]? = some a ∧ a.type = .create ∧ a.old = none ∧ a.new.visible = true := by
  obtain ⟨m, d, hm, hd, rfl⟩ := annotate_split ds ig c as h
  intro i hi
  refine ⟨createAction c.create.all[i], ?_, rfl, rfl, rfl⟩
  rw [List.append_assoc, List.getElem?_append_left (by simpa using hi)]
  simp [hi]

theorem addUpdate_mem (ds : Datasource) (ig : Bool) (t : ActType) (l : List Elem) (as : List Action)
    (h : addUpdate ds ig t l = .ok as) : ∀ a ∈ as, ∃ e ∈ l, updateOne ds ig t e = .ok a := by
  induction l generalizing as with
  | nil => simp [addUpdate] at h; cases h; simp
  | cons e rest ih =>
    simp only [addUpdate, bind, Except.bind] at h
    cases h1 : updateOne ds ig t e with
    | error err => simp [h1] at h
    | ok a =>
      simp only [h1] at h
      cases h2 : addUpdate ds ig t rest with
      | error err => simp [h2] at h
      | ok as' =>
        simp only [h2, pure, Except.pure] at h
        cases h
        intro b hb
        rcases List.mem_cons.mp hb with e1 | e1
        · subst e1; exact ⟨e, by simp, h1⟩
        · obtain ⟨e', he', hu⟩ := ih as' h2 b e1
          exact ⟨e', by simp [he'], hu⟩

/-- **every modify/delete action pairs its element with the greatest history version below its own;
    new state visible for modify, not visible for delete** (without the ignore option no action
    of the modify/delete blocks is a create) -/
theorem visible_flags_and_old (ds : Datasource) (c : Change) (as : List Action)
    (h : annotateChange ds false c = .ok as) :
    ∃ m d, as = c.create.all.map createAction ++ m ++ d ∧
      (∀ a ∈ m, a.type = .modify ∧ a.new.visible = true ∧ ∃ hist o, ds a.new.kind a.new.id = .found hist ∧
          a.old = some o ∧ o ∈ hist ∧ o.version < a.new.version ∧ ∀ e ∈ hist, e.version < a.new.version → e.version ≤ o.version) ∧
      (∀ a ∈ d, a.type = .delete ∧ a.new.visible = false ∧ ∃ hist o, ds a.new.kind a.new.id = .found hist ∧
          a.old = some o ∧ o ∈ hist ∧ o.version < a.new.version ∧ ∀ e ∈ hist, e.version < a.new.version → e.version ≤ o.version) := by
  obtain ⟨m, d, hm, hd, rfl⟩ := annotate_split ds false c as h
  refine ⟨m, d, rfl, ?_, ?_⟩
  · intro a ha
    obtain ⟨e, _, hu⟩ := addUpdate_mem _ _ _ _ _ hm a ha
    obtain ⟨hk, hcase⟩ := updateOne_ok _ _ _ _ _ hu
    rcases hcase with ⟨ht, hv, hist, o, hds, hp, ho⟩ | ⟨hi, _⟩
    · have := previous_is_greatest_below _ _ _ hp
      refine ⟨ht, by simpa using hv, hist, o, by rw [hk.1, hk.2.1]; exact hds, ho, ?_⟩
      rw [hk.2.2.1]; exact this
    · cases hi
  · intro a ha
    obtain ⟨e, _, hu⟩ := addUpdate_mem _ _ _ _ _ hd a ha
    obtain ⟨hk, hcase⟩ := updateOne_ok _ _ _ _ _ hu
    rcases hcase with ⟨ht, hv, hist, o, hds, hp, ho⟩ | ⟨hi, _⟩
    · have := previous_is_greatest_below _ _ _ hp
      refine ⟨ht, by simpa using hv, hist, o, by rw [hk.1, hk.2.1]; exact hds, ho, ?_⟩
      rw [hk.2.2.1]; exact this
    · cases hi

/-- the same for either value of the ignore option: an action of the modify (delete) block is a modify (delete)
    paired with the greatest history version below its own — or, only with the option set, a visible create for an
    element whose history or earlier version is missing -/
theorem block_actions (ds : Datasource) (ig : Bool) (c : Change) (as : List Action)
    (h : annotateChange ds ig c = .ok as) :
    ∃ m d, as = c.create.all.map createAction ++ m ++ d ∧
      (∀ a ∈ m, (a.type = .modify ∧ a.new.visible = true ∧ ∃ hist o, ds a.new.kind a.new.id = .found hist ∧
          a.old = some o ∧ o ∈ hist ∧ o.version < a.new.version ∧ ∀ e ∈ hist, e.version < a.new.version → e.version ≤ o.version)
        ∨ (ig = true ∧ a.type = .create ∧ a.old = none ∧ a.new.visible = true)) ∧
      (∀ a ∈ d, (a.type = .delete ∧ a.new.visible = false ∧ ∃ hist o, ds a.new.kind a.new.id = .found hist ∧
          a.old = some o ∧ o ∈ hist ∧ o.version < a.new.version ∧ ∀ e ∈ hist, e.version < a.new.version → e.version ≤ o.version)
        ∨ (ig = true ∧ a.type = .create ∧ a.old = none ∧ a.new.visible = true)) := by
  obtain ⟨m, d, hm, hd, rfl⟩ := annotate_split ds ig c as h
  refine ⟨m, d, rfl, ?_, ?_⟩
  · intro a ha
    obtain ⟨e, _, hu⟩ := addUpdate_mem _ _ _ _ _ hm a ha
    obtain ⟨hk, hcase⟩ := updateOne_ok _ _ _ _ _ hu
    rcases hcase with ⟨ht, hv, hist, o, hds, hp, ho⟩ | ⟨hi, ht, ho, hv, _⟩
    · left
      have := previous_is_greatest_below _ _ _ hp
      refine ⟨ht, by simpa using hv, hist, o, by rw [hk.1, hk.2.1]; exact hds, ho, ?_⟩
      rw [hk.2.2.1]; exact this
    · exact Or.inr ⟨hi, ht, ho, hv⟩
  · intro a ha
    obtain ⟨e, _, hu⟩ := addUpdate_mem _ _ _ _ _ hd a ha
    obtain ⟨hk, hcase⟩ := updateOne_ok _ _ _ _ _ hu
    rcases hcase with ⟨ht, hv, hist, o, hds, hp, ho⟩ | ⟨hi, ht, ho, hv, _⟩
    · left
      have := previous_is_greatest_below _ _ _ hp
      refine ⟨ht, by simpa using hv, hist, o, by rw [hk.1, hk.2.1]; exact hds, ho, ?_⟩
      rw [hk.2.2.1]; exact this
    · exact Or.inr ⟨hi, ht, ho, hv⟩

/-! ## errors at the level of the whole change -/

/-- the error one element of a modify/delete block raises, if any (it does not depend on the block) -/
def updateErr (ds : Datasource) (ig : Bool) (e : Elem) : Option Err :=
  match ds e.kind e.id with
  | .otherErr => some .other
  | .notFound => if ig then none else some (.noVisibleChild e.kind e.id)
  | .found h =>
    match findPrevious e.version h with
    | none => if ig then none else some (.noVisibleChild e.kind e.id)
    | some _ => none

theorem updateOne_error_iff (ds : Datasource) (ig : Bool) (t : ActType) (e : Elem) :
    (∀ err, updateOne ds ig t e = .error err ↔ updateErr ds ig e = some err) ∧
    ((∃ a, updateOne ds ig t e = .ok a) ↔ updateErr ds ig e = none) := by
  unfold updateOne updateErr
  cases ds e.kind e.id with
  | otherErr => simp
  | notFound => cases ig <;> simp
  | found h =>
    simp only
    cases findPrevious e.version h with
    | none => cases ig <;> simp
    | some o => simp

theorem addUpdate_error (ds : Datasource) (ig : Bool) (t : ActType) (l : List Elem) :
    (∀ err, addUpdate ds ig t l = .error err ↔ (l.filterMap (updateErr ds ig)).head? = some err) ∧
    ((∃ as, addUpdate ds ig t l = .ok as) ↔ l.filterMap (updateErr ds ig) = []) := by
  induction l with
  | nil => simp [addUpdate]
  | cons e rest ih =>
    obtain ⟨h1, h2⟩ := updateOne_error_iff ds ig t e
    simp only [addUpdate, bind, Except.bind, List.filterMap_cons]
    cases hu : updateOne ds ig t e with
    | error err0 =>
      have he := (h1 err0).mp hu
      simp only [he, List.head?_cons, Option.some.injEq]
      constructor
      · intro err; constructor
        · intro h; cases h; rfl
        · intro h; rw [h]
      · simp
    | ok a =>
      have he := h2.mp ⟨a, hu⟩
      simp only [he]
      cases hr : addUpdate ds ig t rest with
      | error err1 =>
        constructor
        · intro err
          rw [← ih.1 err, hr]
        · have : ¬ ∃ as, addUpdate ds ig t rest = .ok as := by rw [hr]; simp
          rw [ih.2] at this
          simp [this]
      | ok as' =>
        have hnil := ih.2.mp ⟨as', hr⟩
        simp [pure, Except.pure, hnil]

/-- **the change as a whole**: annotation succeeds exactly when no element of the modify and delete blocks raises an
    error, and otherwise reports the error of the first such element — modify block before delete block, and
    node, way, relation order within each (`NoVisibleChildError` for a missing history or missing earlier version
    without the ignore option, the datasource's own error otherwise) -/
theorem change_error (ds : Datasource) (ig : Bool) (c : Change) :
    (∀ err, annotateChange ds ig c = .error err ↔
      ((c.modify.all ++ c.delete.all).filterMap (updateErr ds ig)).head? = some err) ∧
    ((∃ as, annotateChange ds ig c = .ok as) ↔ (c.modify.all ++ c.delete.all).filterMap (updateErr ds ig) = []) := by
  obtain ⟨m1, m2⟩ := addUpdate_error ds ig .modify c.modify.all
  obtain ⟨d1, d2⟩ := addUpdate_error ds ig .delete c.delete.all
  simp only [annotateChange, bind, Except.bind, List.filterMap_append]
  cases hm : addUpdate ds ig .modify c.modify.all with
  | error e0 =>
    have := (m1 e0).mp hm
    have hne : List.filterMap (updateErr ds ig) c.modify.all ≠ [] := by intro e; rw [e] at this; cases this
    have hhead : ∀ l2 : List Err, (List.filterMap (updateErr ds ig) c.modify.all ++ l2).head? =
        (List.filterMap (updateErr ds ig) c.modify.all).head? := by
      intro l2
      cases hl : List.filterMap (updateErr ds ig) c.modify.all with
      | nil => exact absurd hl hne
      | cons x xs => rfl
    constructor
    · intro err
      rw [hhead, ← m1 err, hm]
    · simp [hne]
  | ok m =>
    have hnil := m2.mp ⟨m, hm⟩
    simp only [hnil, List.nil_append]
    cases hd : addUpdate ds ig .delete c.delete.all with
    | error e1 =>
      constructor
      · intro err; rw [← d1 err, hd]
      · have : ¬ ∃ as, addUpdate ds ig .delete c.delete.all = .ok as := by rw [hd]; simp
        rw [d2] at this
        simp [this]
    | ok d =>
      have := d2.mp ⟨d, hd⟩
      simp [pure, Except.pure, this]

/-! ## non-vacuity -/
def exDs : Datasource := fun k id =>
  if k = .node ∧ id = 5 then .found [⟨.node, 5, 3, 0, true⟩, ⟨.node, 5, 1, 1, true⟩, ⟨.node, 5, 7, 2, true⟩, ⟨.node, 5, 2, 3, true⟩]
  else .notFound
example : findPrevious 4 [⟨.node, 5, 3, 0, true⟩, ⟨.node, 5, 1, 1, true⟩, ⟨.node, 5, 7, 2, true⟩] = some ⟨.node, 5, 3, 0, true⟩ := by decide
example : (annotateChange exDs false ⟨⟨[], [], []⟩, ⟨[⟨.node, 5, 4, 9, false⟩], [], []⟩, ⟨[], [], []⟩⟩).toOption.isSome = true := by decide

/-- with the option: the element without history becomes a visible create; without it: the typed error of that element -/
example : (match annotateChange exDs true ⟨⟨[], [], []⟩, ⟨[⟨.node, 5, 4, 9, false⟩], [⟨.way, 8, 2, 1, false⟩], []⟩, ⟨[], [], []⟩⟩ with
    | .ok as => as.map (fun a => (a.type, a.new.id, a.new.visible, a.old.map (·.version)))
    | .error _ => []) = [(.modify, 5, true, some 3), (.create, 8, true, none)] := by decide
example : (match annotateChange exDs false ⟨⟨[], [], []⟩, ⟨[⟨.node, 5, 4, 9, false⟩], [⟨.way, 8, 2, 1, false⟩], []⟩, ⟨[⟨.node, 6, 2, 0, false⟩], [], []⟩⟩ with
    | .error (.noVisibleChild k id) => some (k, id)
    | _ => none) = some (.way, 8) := by decide

end OsmVerif.Props.C13
