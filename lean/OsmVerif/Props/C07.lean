import OsmVerif.Model.ScanState
import OsmVerif.Model.PipelineStop
/-!
# C07 — Close and cancellation stop PBF/XML scans promptly and cleanly

* the call-history contract of `Scan` / `Err` / `Close` / cancellation as a state machine, for ALL histories:
  after Close or cancellation every Scan is false; Err reports the recorded error first, then closed, then
  the context's error, and nil only after a complete scan; the Scan/Err/Close bodies of both scanners are
  pinned to the statements the state machine describes;
* the reader goroutine starts no new read once the cancellation is visible at its loop head (loop condition
  read from the source), and the serializer goroutine never writes the consumer's `cData`.
Goroutine termination, bytes consumed and race freedom of the real runtime are what the correspondence
observes (counting reader, goroutine dump, race detector).
-/
namespace OsmVerif.Props.C07
open OsmVerif.Gen.Pbf OsmVerif.Model.ScanState OsmVerif.Model.PbfScan

/-- position of the first occurrence of a statement -/
def posOf (l : List String) (s : String) : Option Nat :=
  let i := (l.takeWhile (· ≠ s)).length
  if i < l.length then some i else none

def infixOf (sub : List Char) : List Char → Bool
  | [] => sub.isEmpty
  | c :: cs => sub.isPrefixOf (c :: cs) || infixOf sub cs

def containsSub (sub s : String) : Bool := infixOf sub.toList s.toList

/-- the statement right after `line` -/
def segmentAfter (body : List String) (line : String) : Option String := ((body.dropWhile (· ≠ line)).drop 1).head?

/-! ## all call histories -/

theorem call_keeps_stop (s : S) (c : Call) (h : s.closed = true ∨ s.cancelled = true) :
    (call s c).1.closed = true ∨ (call s c).1.cancelled = true := by
  cases c <;> simp only [call]
  · have : s.err.isSome = true ∨ s.closed = true ∨ s.cancelled = true := by rcases h with h | h <;> simp [h]
    simp [this, h]
  · exact h
  · simp
  · simp

/-- **after Close or cancellation every later Scan returns false**, whatever else is called in between -/
theorem no_scan_after_stop (s : S) (calls : List Call) (h : s.closed = true ∨ s.cancelled = true) :
    ∀ o ∈ runCalls s calls, ∀ b, o = .bool b → b = false := by
  induction calls generalizing s with
  | nil => intro o ho; cases ho
  | cons c cs ih =>
    intro o ho b hb
    simp only [runCalls, List.mem_cons] at ho
    rcases ho with e | e
    · subst e
      cases c <;> simp only [call] at hb
      · have : s.err.isSome = true ∨ s.closed = true ∨ s.cancelled = true := by rcases h with h | h <;> simp [h]
        simp [this] at hb; exact hb
      · cases hb
      · cases hb
      · cases hb
    · exact ih (call s c).1 (call_keeps_stop s c h) o e b hb

/-- a recorded error is never replaced or cleared -/
theorem recorded_error_sticky (s : S) (calls : List Call) (e : Rec) (h : s.err = some e) :
    (finalState s calls).err = some e := by
  induction calls generalizing s with
  | nil => exact h
  | cons c cs ih =>
    apply ih
    cases c <;> simp [call, h]

/-- **what Err reports**: an error recorded earlier first (the regular end of input as nil), otherwise the
    scanner-closed error after Close, otherwise the context's error after cancellation, otherwise nil -/
theorem err_precedence (s : S) :
    report s = (match s.err with
      | some .eof => .nil_ | some .failure => .failure | some .ctx => .ctx
      | none => if s.closed then .closed else if s.cancelled then .ctx else .nil_) := rfl

/-- **nil only after a complete scan** once the scanner was closed or cancelled -/
theorem nil_only_after_complete (s : S) (h : s.closed = true ∨ s.cancelled = true) (hn : report s = .nil_) :
    s.err = some .eof := by
  unfold report at hn
  rcases s with ⟨_, _, err, closed, cancelled⟩
  cases err with
  | none =>
    rcases h with h | h
    · simp_all
    · cases closed <;> simp_all
  | some e => cases e <;> simp_all

/-- the bodies of Scan / Err / Close of both scanners are the ones the state machine describes -/
theorem scanner_bodies :
    scanBody = ["if !s.started {", "s.started = true", "s.err = s.decoder.Start(s.procs)", "}",
      "if s.err != nil || s.closed || s.ctx.Err() != nil {", "return false", "}", "s.next, s.err = s.decoder.Next()", "return s.err == nil"] ∧
    errBody = ["if s.err == io.EOF {", "return nil", "}", "if s.err != nil {", "return s.err", "}", "if s.closed {",
      "return osm.ErrScannerClosed", "}", "return s.ctx.Err()"] ∧
    closeBody = ["s.closed = true", "return s.decoder.Close()"] ∧
    decoderCloseBody = ["dec.cancel()", "dec.wg.Wait()", "return nil"] ∧
    xmlErrBody = errBody ∧
    xmlCloseBody = ["s.closed = true", "s.done()", "return nil"] ∧
    xmlScanBody.take 8 = ["if s.err != nil {", "return false", "}", "Loop:", "for {", "if s.ctx.Err() != nil {", "return false", "}"] := by
  decide +kernel

/-! ## the pipeline stops -/

/-- the reader loop runs only while the context is live AND no error was met -/
theorem reader_loop_condition : loopCond = .and_ := by decide +kernel

theorem reads_go_le (t fuel iter left : Nat) (e : Bool) (n : Nat) :
    reads.go .and_ t fuel iter left e n ≤ n + (t - iter) := by
  induction fuel generalizing iter left e n with
  | zero => simp [reads.go]
  | succ f ih =>
    simp only [reads.go, continues]
    by_cases c : iter < t
    · cases e
      · simp [c]
      · simp only [c, decide_true, Bool.and_self, if_true]
        by_cases l : left > 0
        · simp only [l, if_true]
          have := ih (iter + 1) (left - 1) true (n + 1)
          omega
        · simp only [l, if_false]
          have := ih (iter + 1) 0 false n
          omega
    · simp [c]

/-- **prompt stop**: with that condition, once the cancellation is visible after `t` loop iterations the reader
    has read at most `t` blocks — it does not go on to consume the rest of the input (a read already in
    progress when the context is cancelled is the one block the model's `t` counts) -/
theorem reader_stops_after_cancel (blocks t : Nat) : reads loopCond blocks t ≤ t := by
  rw [reader_loop_condition]
  have := reads_go_le t (blocks + t + 2) 0 blocks true 0
  simpa [reads] using this

/-- the serializer goroutine reports its end through its own field; no statement of `Start` (reader, decoders,
    serializer) writes the consumer's current block `dec.cData`, and `Next` reads the serializer's error only
    after it has seen the queue closed -/
theorem consumer_state_private :
    startBody.all (fun l => !hasPrefix "dec.cData" l) = true ∧
    startBody.contains "dec.sErr = dec.ctx.Err()" = true ∧
    (match ifBranches nextBody "if !ok || cd.Err == io.EOF {" with
     | some (t, _) => t.contains "if !ok && dec.sErr != nil {" | none => false) = true := by
  decide +kernel

/-! ## all goroutines end -/

open OsmVerif.Model.PipelineStop in
/-- **after the context is cancelled every goroutine of the pipeline ends, under every schedule**: in the
    transition system of `Model.PipelineStop` (reader before its loop in the bare send of a resumed scan's first
    block, at its loop head or in its select, decoders draining their queues, serializer in either select; any
    queue contents) every step lowers a measure, so no run is
    longer than the measure of its first state; while a goroutine is alive some step is enabled; hence a run
    that cannot be extended has ended reader, all decoders and serializer — `wg.Wait()` in Close returns.
    Fairness of `select` is needed only for receives from already closed output queues and is explicit in
    the state (`spurious`). -/
theorem goroutines_end (n : Nat) (hn : 0 < n) (s s' : St) (as : List Step) (hc : Consistent s) (h : Run n s as s')
    (hmax : ∀ a, step n s' a = none) : allDone n s' ∧ as.length ≤ mu n s :=
  ⟨maximal_run_ends n hn s s' as hc h hmax, by have := run_bounded n s s' as h; omega⟩

def countOf (l : List String) (x : String) : Nat := (l.filter (· = x)).length

/-- the transition system's premises in the source: every channel operation of `Start`'s goroutines is a `case`
    of a `select` with a `<-dec.ctx.Done()` branch (four selects, four Done branches, no other branch kinds) —
    except one: the send of a resumed scan's first block to decoder 0, which stands before the reader's loop
    (state `first` of the model) and is received by a `for p := range input` that only ends when the queue is closed; the reader closes every input queue when it returns, every decoder ranges over its input queue
    and closes its output queue when it returns, the serializer closes the consumer's queue and cancels -/
theorem blocking_ops_have_done_branch :
    countOf startBody "select {" = 4 ∧ countOf startBody "case <-dec.ctx.Done():" = 4 ∧
    countOf startBody "case output <- out:" = 1 ∧ countOf startBody "case input <- pair:" = 1 ∧
    countOf startBody "case p = <-output:" = 1 ∧ countOf startBody "case dec.serializer <- p:" = 1 ∧
    (startBody.filter fun l => hasPrefix "case " l).length = 8 ∧
    (startBody.filter fun l => containsSub "<-" l && !hasPrefix "case " l) = ["dec.inputs[0] <- iPair{Offset: 0, Blob: blob, Err: err}"] ∧
    (match posOf startBody "dec.inputs[0] <- iPair{Offset: 0, Blob: blob, Err: err}", posOf startBody "for dec.ctx.Err() == nil && err == nil {" with
     | some a, some b => decide (a < b) | _, _ => false) = true ∧
    startBody.contains "defer close(output)" = true ∧ startBody.contains "for p := range input {" = true ∧
    segmentAfter startBody "for _, input := range dec.inputs {" = some "close(input)" ∧
    segmentAfter startBody "close(dec.serializer)" = some "dec.cancel()" := by
  decide +kernel

/-! ## non-vacuity -/
example : runCalls { remaining := 2, failsAtEnd := false } [.scan, .err, .close, .scan, .err, .cancel, .err] =
    [.bool true, .report .nil_, .unit, .bool false, .report .closed, .unit, .report .closed] := by decide
example : runCalls { remaining := 1, failsAtEnd := false } [.scan, .scan, .close, .err] =
    [.bool true, .bool false, .unit, .report .nil_] := by decide
example : reads .or_ 10 3 = 10 ∧ reads .and_ 10 3 = 3 := by decide

open OsmVerif.Model.PipelineStop in
/-- a resumed scan cancelled at once, two decoders: reader still in its bare first send, one result waiting -/
def exStop : St :=
  { reader := .first, inputsClosed := false, inputs := (fun _ => 0), worker := (fun _ => .idle),
    outputs := (fun w => if w = 1 then 1 else 0), ser := .waiting, spurious := 1 }
open OsmVerif.Model.PipelineStop in
def exSteps : List Step := [.readerFirstSent, .serRecv 1, .readerExit, .workerTake 0, .serSent, .workerSent 0 false,
  .workerExit 0, .workerExit 1, .serDone]
open OsmVerif.Model.PipelineStop in
def runSteps (n : Nat) : St → List Step → Option St
  | s, [] => some s
  | s, a :: as => match step n s a with
    | some s' => runSteps n s' as
    | none => none
open OsmVerif.Model.PipelineStop in
theorem runSteps_run (n : Nat) : ∀ (as : List Step) (s s' : St), runSteps n s as = some s' → Run n s as s' := by
  intro as
  induction as with
  | nil => intro s s' h; simp only [runSteps, Option.some.injEq] at h; subst h; exact Run.nil s
  | cons a as ih =>
    intro s s' h
    simp only [runSteps] at h
    cases hs : step n s a with
    | none => simp [hs] at h
    | some s1 => simp only [hs] at h; exact Run.cons s s1 s' a as hs (ih s1 s' h)
open OsmVerif.Model.PipelineStop in
example : Consistent exStop := ⟨by decide, by intro _; rfl, by intro _ w; simp [exStop]⟩
open OsmVerif.Model.PipelineStop in
example : (runSteps 2 exStop exSteps).map (fun s => (s.reader, s.worker 0, s.worker 1, s.ser)) =
    some (.done, .done, .done, .done) := by decide

end OsmVerif.Props.C07
