import OsmVerif.Model.OsmApi
import OsmVerif.Spec.OsmApiDocumented
import OsmVerif.Lemmas.Text
/-!
# C20 — osmapi calls hit the documented endpoint and map statuses to typed errors

`Gen.OsmApi` (URL recipe, option kind, result selector and guard of every exported `*Datasource`
method; `getFromAPI`'s status chain; facts about the single GET and the limiter) is regenerated
from osmapi/*.go on every run.
-/
namespace OsmVerif.Props.C20
open OsmVerif.Gen.OsmApi OsmVerif.Model.OsmApi OsmVerif.Spec.OsmApi OsmVerif.Model.Text

/-- every exported call uses the documented API v0.6 path recipe, takes the documented kind of options
    and returns the documented part of the response -/
theorem endpoints_eq_documented : endpoints = documented := by decide

/-- exactly one `client.Do`, not inside a loop, and after the limiter wait -/
theorem one_get_after_wait : doCalls = 1 ∧ doInLoop = false ∧ limiterWaitBeforeDo = true := by decide

/-- the request as it stands in the source: the limiter is waited on only when one is set, the request is a GET of
    the given URL carrying the caller's context, and the body is decoded only after every status test has been
    passed — each status branch returns its error without touching `item`, so no partial data comes back -/
theorem request_shape :
    getFromAPIBody = ["client := ds.Client", "if client == nil {", "client = DefaultDatasource.Client", "}",
      "if client == nil {", "client = http.DefaultClient", "}",
      "if ds.Limiter != nil {", "err := ds.Limiter.Wait(ctx)", "if err != nil {", "return err", "}", "}",
      "req, err := http.NewRequest(\"GET\", url, nil)", "if err != nil {", "return err", "}",
      "resp, err := client.Do(req.WithContext(ctx))", "if err != nil {", "return err", "}", "defer resp.Body.Close()",
      "if resp.StatusCode == http.StatusNotFound {", "return &NotFoundError{URL: url}", "}",
      "if resp.StatusCode == http.StatusForbidden {", "return &ForbiddenError{URL: url}", "}",
      "if resp.StatusCode == http.StatusGone {", "return &GoneError{URL: url}", "}",
      "if resp.StatusCode == http.StatusRequestURITooLong {", "return &RequestURITooLongError{URL: url}", "}",
      "if resp.StatusCode != http.StatusOK {", "return &UnexpectedStatusCodeError{ Code: resp.StatusCode, URL: url, }", "}",
      "return xml.NewDecoder(resp.Body).Decode(item)"] := by decide

/-- **every status other than 200 is an error** -/
theorem status_total (code : Nat) (h : code ≠ 200) : classify code ≠ "ok" := by
  unfold classify
  simp only [statusChain, classifyWith]
  by_cases h1 : code = 404 <;> by_cases h2 : code = 403 <;> by_cases h3 : code = 410 <;>
    by_cases h4 : code = 414 <;> simp [h, h1, h2, h3, h4]

theorem status_ok : classify 200 = "ok" := by decide

/-- **404, 403, 410, 414 map to their own distinct typed errors, anything else to the generic one** -/
theorem status_typed (code : Nat) :
    classify code =
      if code = 404 then "NotFoundError" else if code = 403 then "ForbiddenError"
      else if code = 410 then "GoneError" else if code = 414 then "RequestURITooLongError"
      else if code = 200 then "ok" else "UnexpectedStatusCodeError" := by
  unfold classify
  simp only [statusChain, classifyWith]
  by_cases h1 : code = 404 <;> by_cases h2 : code = 403 <;> by_cases h3 : code = 410 <;>
    by_cases h4 : code = 414 <;> by_cases h5 : code = 200 <;> simp [h1, h2, h3, h4, h5] <;> omega

/-- **the not-found test is true only for 404** (`Datasource.NotFound` tests for exactly the 404 error type) -/
theorem notFound_iff (code : Nat) : classify code = notFoundTests ↔ code = 404 := by
  rw [status_typed]
  have : notFoundTests = "NotFoundError" := by decide
  rw [this]
  by_cases h1 : code = 404 <;> by_cases h2 : code = 403 <;> by_cases h3 : code = 410 <;>
    by_cases h4 : code = 414 <;> by_cases h5 : code = 200 <;> simp [h1, h2, h3, h4, h5]

/-- single-element calls (selector `X[0]`) are exactly the ones guarded by `len(X) != 1` -/
def stripIdx0 (l : List Char) : Option (List Char) :=
  match l.reverse with
  | ']' :: '0' :: '[' :: r => some r.reverse
  | _ => none

def guardOk (e : Endpoint) : Bool :=
  match stripIdx0 e.selector.toList with
  | some x => e.guard.toList = "len(".toList ++ x ++ ") != 1".toList
  | none => e.guard = ""

theorem single_element_guard : endpoints.all guardOk = true := by decide

/-! ### the multi-fetch id list -/

theorem comma_not_digit : (',' : Char).isDigit = false := by decide

/-- **multi-fetch ids**: splitting the `nodes=` / `ways=` / `relations=` value at the commas gives back
    exactly the requested ids (none lost, merged or reordered) -/
theorem multi_fetch_ids_joined (ids : List Nat) (h : ids ≠ []) (hb : ∀ n ∈ ids, n < 2^63) :
    (splitOn ',' (joinIds (ids.map Int.ofNat))).map parseInt64 = ids.map (fun n => some (Int.ofNat n)) := by
  induction ids with
  | nil => exact absurd rfl h
  | cons i rest ih =>
    have hi := hb i (by simp)
    cases rest with
    | nil =>
      simp only [List.map_cons, List.map_nil, joinIds, Int.ofNat_eq_natCast, showInt_natCast]
      rw [splitOn_of_not_mem _ _ (sep_not_mem_toDigits _ _ comma_not_digit)]
      simp [parseInt64_showNat i hi]
    | cons j rest' =>
      have ih' := ih (by simp) (fun n hn => hb n (by simp [hn]))
      simp only [List.map_cons, joinIds, Int.ofNat_eq_natCast, showInt_natCast] at ih' ⊢
      rw [splitOn_append _ _ _ (sep_not_mem_toDigits _ _ comma_not_digit)]
      simp only [List.map_cons, parseInt64_showNat i hi]
      rw [ih']

/-! ### non-vacuity: URLs built from the regenerated recipes -/
example : (endpoints.find? (·.name = "NodeVersion")).map (fun e => buildURL e ⟨"http://x/api/0.6", [5, 3], [], "", ""⟩)
    = some "http://x/api/0.6/node/5/3" := by decide

end OsmVerif.Props.C20
