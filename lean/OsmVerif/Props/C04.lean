import OsmVerif.Lemmas.Schema
/-!
# C04 — XML marshal/unmarshal round-trips; the marshalled names are the ones the decoders expect

Theorems over the regenerated struct-tag schema and the extracted `Encode` call lists of the custom
container marshalers (`Gen.Schema`), interpreted with encoding/xml's rules (`Model.Schema`). The
reflection codec itself (encoding/xml) is trusted; what is specific to this library — tags, XMLName
fields, the custom marshalers' element names — is what these theorems pin down.
-/
namespace OsmVerif.Props.C04
open OsmVerif.Gen.Schema OsmVerif.Model.Schema OsmVerif.Spec.OsmSchema

/-- every struct field carries the OSM XML element / attribute name (pinned vocabulary) -/
theorem names_eq_osm_xml :
    structs.filter (fun e => codecTypes.contains e.1) = pinnedStructs.filter (fun e => codecTypes.contains e.1) :=
  schema_eq_pinned

/-- **the marshalled text uses the element names the decoders expect**: every collection that
    `marshalInnerXML` encodes on its own comes out under a name that the `OSM` struct decodes (and the
    streaming scanner dispatches on), in particular the top-level bounds inside `<osm>` and inside every
    osmChange block -/
theorem marshal_names_decodable :
    (emittedBy marshalInnerXMLCalls).all (fun n => (decodableChildren "OSM").contains n && scannerCases.contains n) = true ∧
    (emittedBy marshalInnerElementsXMLCalls).all (fun n => actionUnmarshalCases.contains n) = true := by
  decide

/-- every collection of `OSM` is written by `marshalInnerXML` (nothing is silently dropped) -/
theorem marshal_covers_all_collections :
    (decodableChildren "OSM").all (fun n => (emittedBy marshalInnerXMLCalls).contains n) = true := by decide

/-- nothing present is left out: the top-level bounds are written exactly when there are bounds (a non-nil
    pointer, whatever its coordinates) and every collection is encoded unconditionally -/
theorem marshal_guards :
    marshalInnerXMLGuards = ["o.Bounds != nil", "", "", "", "", "", ""] ∧ marshalInnerElementsXMLGuards = ["", "", ""] := by
  decide

/-- the osmChange block names and the diff `old`/`new` wrappers written by the custom marshalers are the
    ones the decoders read -/
theorem block_names_decodable :
    (["create", "modify", "delete"].all fun n => changeMarshalXMLNames.contains n && (decodableChildren "Change").contains n) = true ∧
    (["old", "new"].all fun n => actionMarshalXMLNames.contains n && actionUnmarshalCases.contains n) = true ∧
    osmMarshalXMLNames.head? = some "osm" ∧ changeMarshalXMLNames.head? = some "osmChange" ∧
    discussionMarshalXMLNames = ["comment"] ∧ (decodableChildren "ChangesetDiscussion") = ["comment"] := by decide

/-- the call structure of the custom container marshalers, statement by statement: `<osm>` wraps
    `marshalInnerXML`; `<osmChange>` writes its three blocks, each through `marshalInnerChange`, which wraps the
    same `marshalInnerXML`; a diff action writes its own elements and the `old`/`new` wrappers the same way — so the
    names proved decodable above are what every container writes, and nothing else writes a container -/
theorem container_call_structure :
    osmMarshalXMLCalls = ["e.EncodeToken(start)", "o.marshalInnerXML(e)", "e.EncodeToken(start.End())"] ∧
    changeMarshalXMLCalls = ["e.EncodeToken(start)", "marshalInnerChange(e, \"create\", c.Create)",
      "marshalInnerChange(e, \"modify\", c.Modify)", "marshalInnerChange(e, \"delete\", c.Delete)", "e.EncodeToken(start.End())"] ∧
    marshalInnerChangeCalls = ["e.EncodeToken(t)", "o.marshalInnerXML(e)", "e.EncodeToken(t.End())"] ∧
    actionMarshalXMLCalls = ["e.EncodeToken(start)", "a.OSM.marshalInnerElementsXML(e)", "marshalInnerChange(e, \"old\", a.Old)",
      "marshalInnerChange(e, \"new\", a.New)", "e.EncodeToken(start.End())"] ∧
    marshalInnerElementsXMLCalls = ["e.Encode(o.Nodes)", "e.Encode(o.Ways)", "e.Encode(o.Relations)"] := by decide

/-- the types that replace the reflection codec by a method of their own are exactly these (XML: the containers,
    the changeset discussion, note dates, and Bounds, which only renames its element); any other type is written
    and read from its struct tags alone, as the schema model assumes -/
theorem custom_xml_methods_pinned :
    customMethods.filter (fun m => "XML".toList.isSuffixOf m.toList) =
      ["Action.MarshalXML", "Action.UnmarshalXML", "Bounds.MarshalXML", "Change.MarshalXML", "ChangesetDiscussion.MarshalXML",
       "Date.MarshalXML", "Date.UnmarshalXML", "OSM.MarshalXML"] := by decide

/-! ## the attribute part of every record round-trips -/

theorem find_attr_of_nodup (fs : List Field) (r : Rec) (f : Field)
    (hnd : ((fs.filter fun f => (parseXmlTag f).attr ∧ ¬ (parseXmlTag f).skip).map fun f => (parseXmlTag f).name).Nodup)
    (hf : f ∈ fs) (ha : (parseXmlTag f).attr = true) (hs : (parseXmlTag f).skip = false)
    (hkeep : ¬ ((parseXmlTag f).omitempty = true ∧ r.get f.name = zeroText f.type)) :
    ((fs.filterMap fun g =>
        let tg := parseXmlTag g
        if ¬ tg.attr ∨ tg.skip then none
        else if tg.omitempty ∧ r.get g.name = zeroText g.type then none
        else some (tg.name, r.get g.name)).find? (·.1 = (parseXmlTag f).name)) = some ((parseXmlTag f).name, r.get f.name) := by
  induction fs with
  | nil => cases hf
  | cons g rest ih =>
    simp only [List.filterMap_cons]
    by_cases hg : g = f
    · subst hg
      simp [ha, hs, hkeep]
    · have hfr : f ∈ rest := by
        rcases List.mem_cons.mp hf with h | h
        · exact absurd h.symm hg
        · exact h
      by_cases hga : (parseXmlTag g).attr = true ∧ (parseXmlTag g).skip = false
      · -- g is an attribute with a different name
        have hne : (parseXmlTag g).name ≠ (parseXmlTag f).name := by
          simp only [List.filter_cons, hga.1, hga.2, Bool.not_false, decide_true, Bool.and_self, if_true, List.map_cons,
            List.nodup_cons, Bool.false_eq_true, not_false_eq_true, and_self] at hnd
          intro e
          apply hnd.1
          rw [e]
          exact List.mem_map.mpr ⟨f, List.mem_filter.mpr ⟨hfr, by simp [ha, hs]⟩, rfl⟩
        have hnd' : ((rest.filter fun f => (parseXmlTag f).attr ∧ ¬ (parseXmlTag f).skip).map fun f => (parseXmlTag f).name).Nodup := by
          simp only [List.filter_cons, hga.1, hga.2, Bool.not_false, decide_true, Bool.and_self, if_true, List.map_cons,
            List.nodup_cons, Bool.false_eq_true, not_false_eq_true, and_self] at hnd
          exact hnd.2
        by_cases hom : (parseXmlTag g).omitempty = true ∧ r.get g.name = zeroText g.type
        · simp only [hga.1, hga.2, hom, not_true_eq_false, Bool.false_eq_true, or_self, if_false, and_self, if_true]
          exact ih hnd' hfr
        · simp only [hga.1, hga.2, hom, not_true_eq_false, Bool.false_eq_true, or_self, if_false, List.find?_cons]
          have : ¬ (parseXmlTag g).name = (parseXmlTag f).name := hne
          simp only [this, decide_false]
          exact ih hnd' hfr
      · have hskipg : (¬ (parseXmlTag g).attr = true ∨ (parseXmlTag g).skip = true) := by
          by_cases a : (parseXmlTag g).attr = true
          · right; by_cases s : (parseXmlTag g).skip = true
            · exact s
            · exact absurd ⟨a, by simpa using s⟩ hga
          · left; exact a
        have hnd' : ((rest.filter fun f => (parseXmlTag f).attr ∧ ¬ (parseXmlTag f).skip).map fun f => (parseXmlTag f).name).Nodup := by
          have : (decide ((parseXmlTag g).attr = true ∧ ¬ (parseXmlTag g).skip = true)) = false := by
            rcases hskipg with h | h <;> simp [h]
          simp only [List.filter_cons, this, Bool.false_eq_true, if_false] at hnd
          exact hnd
        simp only [hskipg, if_true]
        exact ih hnd' hfr


theorem inj_of_nodup_map {α β} (l : List α) (f : α → β) (h : (l.map f).Nodup) :
    ∀ a ∈ l, ∀ b ∈ l, f a = f b → a = b := by
  induction l with
  | nil => intro a ha; cases ha
  | cons x xs ih =>
    simp only [List.map_cons, List.nodup_cons] at h
    intro a ha b hb e
    rcases List.mem_cons.mp ha with ha' | ha' <;> rcases List.mem_cons.mp hb with hb' | hb'
    · rw [ha', hb']
    · subst ha'; exact absurd (List.mem_map.mpr ⟨b, hb', e.symm⟩) h.1
    · subst hb'; exact absurd (List.mem_map.mpr ⟨a, ha', e⟩) h.1
    · exact ih h.2 a ha' b hb' e

theorem find_attr_none_of_omitted (fs : List Field) (r : Rec) (f : Field)
    (hnd : ((fs.filter fun f => (parseXmlTag f).attr ∧ ¬ (parseXmlTag f).skip).map fun f => (parseXmlTag f).name).Nodup)
    (hf : f ∈ fs) (ha : (parseXmlTag f).attr = true) (hs : (parseXmlTag f).skip = false)
    (hom : (parseXmlTag f).omitempty = true ∧ r.get f.name = zeroText f.type) :
    ((fs.filterMap fun g =>
        let tg := parseXmlTag g
        if ¬ tg.attr ∨ tg.skip then none
        else if tg.omitempty ∧ r.get g.name = zeroText g.type then none
        else some (tg.name, r.get g.name)).find? (·.1 = (parseXmlTag f).name)) = none := by
  rw [List.find?_eq_none]
  intro x hx
  obtain ⟨g, hg, hgx⟩ := List.mem_filterMap.mp hx
  simp only at hgx
  split at hgx
  · cases hgx
  · rename_i hga
    split at hgx
    · cases hgx
    · rename_i hgom
      cases hgx
      simp only [decide_eq_true_eq]
      intro e
      -- g and f are attribute fields with the same name: by distinctness g = f, but f is omitted
      have hga' : (parseXmlTag g).attr = true ∧ (parseXmlTag g).skip = false := by
        by_cases a : (parseXmlTag g).attr = true <;> by_cases s : (parseXmlTag g).skip = true <;> simp_all
      have hmemg : g ∈ fs.filter (fun f => (parseXmlTag f).attr ∧ ¬ (parseXmlTag f).skip) :=
        List.mem_filter.mpr ⟨hg, by simp [hga'.1, hga'.2]⟩
      have hmemf : f ∈ fs.filter (fun f => (parseXmlTag f).attr ∧ ¬ (parseXmlTag f).skip) :=
        List.mem_filter.mpr ⟨hf, by simp [ha, hs]⟩
      have : g = f := by
        exact inj_of_nodup_map _ _ hnd g hmemg f hmemf e
      subst this
      exact hgom hom

theorem filterMap_congr_mem {α β} (l : List α) (f g : α → Option β) (h : ∀ x ∈ l, f x = g x) :
    l.filterMap f = l.filterMap g := by
  induction l with
  | nil => rfl
  | cons x xs ih =>
    simp only [List.filterMap_cons, h x (by simp)]
    rw [ih (fun y hy => h y (by simp [hy]))]

/-- **attributes round-trip for every record type whose attribute names are distinct**: decoding the
    attributes written for a record gives back every attribute field, including the ones `omitempty`
    left out (their zero value) -/
theorem attrs_roundtrip (t : String) (r : Rec) (hnd : (attrNames t).Nodup) :
    decodeAttrs t (encodeAttrs t r) =
      (fieldsOf t).filterMap (fun f => if (parseXmlTag f).attr ∧ ¬ (parseXmlTag f).skip then some (f.name, r.get f.name) else none) := by
  have hnd' : (((fieldsOf t).filter fun f => (parseXmlTag f).attr ∧ ¬ (parseXmlTag f).skip).map fun f => (parseXmlTag f).name).Nodup := by
    have e : attrNames t = ((fieldsOf t).filter fun f => (parseXmlTag f).attr ∧ ¬ (parseXmlTag f).skip).map fun f => (parseXmlTag f).name := by
      unfold attrNames
      rw [← List.filterMap_eq_map, List.filterMap_filter]
      apply filterMap_congr_mem
      intro f _
      by_cases a : (parseXmlTag f).attr = true <;> by_cases s : (parseXmlTag f).skip = true <;> simp [a, s]
    rw [← e]; exact hnd
  unfold decodeAttrs
  apply filterMap_congr_mem
  intro f hf
  by_cases a : (parseXmlTag f).attr = true
  · by_cases s : (parseXmlTag f).skip = true
    · simp [a, s]
    · have s' : (parseXmlTag f).skip = false := by simpa using s
      simp only [a, s', not_true_eq_false, Bool.false_eq_true, or_self, if_false, not_false_eq_true, and_self, if_true,
        Option.some.injEq, Prod.mk.injEq, true_and]
      by_cases hom : (parseXmlTag f).omitempty = true ∧ r.get f.name = zeroText f.type
      · have := find_attr_none_of_omitted (fieldsOf t) r f hnd' hf a s' hom
        unfold encodeAttrs
        rw [this]
        simp [hom.2]
      · have := find_attr_of_nodup (fieldsOf t) r f hnd' hf a s' hom
        unfold encodeAttrs
        rw [this]
        simp
  · simp [a]

/-- the hypothesis holds for every struct of the codec: no record type uses an attribute name twice -/
theorem codec_attr_names_distinct : ∀ t ∈ codecTypes, (attrNames t).Nodup := by decide

/-! ## non-vacuity -/
example : encodeAttrs "Member" [("Type", "way"), ("Ref", "7"), ("Role", ""), ("Version", "0"), ("ChangesetID", "0"), ("Lat", "0"),
    ("Lon", "0"), ("Orientation", "0")] = [("type", "way"), ("ref", "7"), ("role", "")] := by decide
example : emittedBy marshalInnerXMLCalls = ["bounds", "node", "way", "relation", "changeset", "note", "user"] := by decide

end OsmVerif.Props.C04
