import OsmVerif.Model.Pipeline
import OsmVerif.Gen.Pbf
/-!
# C02 — parallel decoding preserves file order under every schedule

For every number of decoders, every number of blocks and EVERY schedule of the reader, the decoders and the
serializer, what the consumer is given is `0, 1, 2, …` — the blocks in file order, none lost, duplicated or
swapped — and when nothing more can happen every block has been given. The shape of the pipeline the model
describes (round-robin dispatch and collection with the same modulus, one private decoder and one fresh
object slice per block, results forwarded unconditionally) is pinned against the statements regenerated
from `decoder.Start`.
-/
namespace OsmVerif.Props.C02
open OsmVerif.Model.Pipeline OsmVerif.Gen.Pbf

/-- the blocks `m ≤ b < next` that belong to decoder `w` -/
def owed (n m next w : Nat) : List Nat := (List.range' m (next - m)).filter (fun b => b % n = w)

structure Inv (n : Nat) (s : PState) : Prop where
  le : s.emitted.length ≤ s.next
  emitted : s.emitted = List.range s.emitted.length
  sr : s.sr = s.emitted.length % n
  rr : s.rr = s.next % n
  held : ∀ w, w < n → held s w = owed n s.emitted.length s.next w

theorem owed_snoc (n m next w : Nat) (h : m ≤ next) :
    owed n m (next + 1) w = owed n m next w ++ (if next % n = w then [next] else []) := by
  unfold owed
  have e : next + 1 - m = (next - m) + 1 := by omega
  rw [e, List.range'_concat, List.filter_append]
  have : m + 1 * (next - m) = next := by omega
  rw [this]
  by_cases c : next % n = w <;> simp [c]

theorem owed_head (n m next : Nat) (h : m < next) :
    owed n m next (m % n) = m :: owed n (m + 1) next (m % n) := by
  unfold owed
  have e : next - m = (next - (m + 1)) + 1 := by omega
  rw [e, List.range'_succ]
  simp

theorem owed_skip (n m next w : Nat) (h : m < next) (hw : m % n ≠ w) : owed n m next w = owed n (m + 1) next w := by
  unfold owed
  have e : next - m = (next - (m + 1)) + 1 := by omega
  rw [e, List.range'_succ]
  simp [hw]

theorem owed_empty (n m w : Nat) : owed n m m w = [] := by simp [owed]

theorem inv_init (n : Nat) : Inv n init := by
  refine ⟨by simp [init], by simp [init], by simp [init], by simp [init], ?_⟩
  intro w _
  simp [held, init, owed]

theorem inv_step (n B : Nat) (hn : 0 < n) (s s' : PState) (a : Action) (hi : Inv n s) (hs : step n B s a = some s') :
    Inv n s' := by
  obtain ⟨hle, hem, hsr, hrr, hheld⟩ := hi
  cases a with
  | read =>
    simp only [step] at hs
    split at hs
    · cases hs
      refine ⟨by simp; omega, hem, hsr, ?_, ?_⟩
      · simp only [hrr]; exact (Nat.add_mod _ _ _).symm ▸ by simp [Nat.add_mod]
      · intro w hw
        simp only [held, upd]
        rw [owed_snoc n _ _ w hle, ← hheld w hw]
        by_cases c : w = s.rr
        · subst c
          have : s.next % n = s.rr := hrr.symm
          simp [this, held, List.append_assoc]
        · have : ¬ s.next % n = w := by rw [← hrr]; exact fun e => c e.symm
          simp [c, this, held]
    · cases hs
  | take w =>
    simp only [step] at hs
    split at hs
    · rename_i hw
      split at hs
      · rename_i b rest hb hin
        cases hs
        refine ⟨hle, hem, hsr, hrr, ?_⟩
        intro v hv
        rw [← hheld v hv]
        by_cases c : v = w
        · subst c; simp [held, upd, hb, hin]
        · simp [held, upd, c]
      · cases hs
    · cases hs
  | finish w =>
    simp only [step] at hs
    split at hs
    · rename_i hw
      split at hs
      · rename_i b hb
        cases hs
        refine ⟨hle, hem, hsr, hrr, ?_⟩
        intro v hv
        rw [← hheld v hv]
        by_cases c : v = w
        · subst c; simp [held, upd, hb]
        · simp [held, upd, c]
      · cases hs
    · cases hs
  | emit =>
    simp only [step] at hs
    split at hs
    · rename_i b rest hout
      cases hs
      have hsrlt : s.sr < n := by rw [hsr]; exact Nat.mod_lt _ hn
      -- the head of the current output queue is the next block in file order
      have hh := hheld s.sr hsrlt
      have hne : held s s.sr = b :: (rest ++ (s.busy s.sr).toList ++ s.inputs s.sr) := by simp [held, hout]
      have hlt : s.emitted.length < s.next := by
        rcases Nat.lt_or_ge s.emitted.length s.next with h | h
        · exact h
        · have : s.emitted.length = s.next := by omega
          rw [this, owed_empty] at hh
          rw [hne] at hh; cases hh
      rw [hsr, owed_head n _ _ hlt, ← hsr, hne] at hh
      injection hh with hb htail
      refine ⟨by simp; omega, ?_, ?_, hrr, ?_⟩
      · simp only [List.length_append, List.length_singleton]
        rw [List.range_succ, ← hem, hb]
      · simp only [List.length_append, List.length_singleton, hsr]
        exact (Nat.add_mod _ _ _).symm ▸ by simp [Nat.add_mod]
      · intro v hv
        simp only [List.length_append, List.length_singleton]
        by_cases c : v = s.sr
        · subst c
          simp only [held, upd, if_true]
          rw [hsr] at htail ⊢
          simpa [held, List.append_assoc] using htail
        · have hmod : s.emitted.length % n ≠ v := by rw [← hsr]; exact fun e => c e.symm
          rw [← owed_skip n _ _ v hlt hmod, ← hheld v hv]
          simp [held, upd, c]
    · cases hs

theorem step_next_le (n B : Nat) (s s' : PState) (a : Action) (h : step n B s a = some s') (hb : s.next ≤ B) : s'.next ≤ B := by
  cases a <;> simp only [step] at h
  · split at h
    · cases h; simp; omega
    · cases h
  · split at h
    · split at h
      · cases h; exact hb
      · cases h
    · cases h
  · split at h
    · split at h
      · cases h; exact hb
      · cases h
    · cases h
  · split at h
    · cases h; exact hb
    · cases h

theorem inv_run (n B : Nat) (hn : 0 < n) (s : PState) (hi : Inv n s) (hb : s.next ≤ B) (sched : List Action) :
    Inv n (run n B s sched) ∧ (run n B s sched).next ≤ B := by
  induction sched generalizing s with
  | nil => exact ⟨hi, hb⟩
  | cons a as ih =>
    simp only [run]
    cases h : step n B s a with
    | none => simpa using ih s hi hb
    | some s' => simpa using ih s' (inv_step n B hn s s' a hi h) (step_next_le n B s s' a h hb)

/-- **every schedule**: whatever interleaving of reader, decoders and serializer, the consumer has been given
    exactly the blocks `0 … m-1` in file order -/
theorem order_under_every_schedule (n B : Nat) (hn : 0 < n) (sched : List Action) :
    ∃ m, (run n B init sched).emitted = List.range m ∧ m ≤ B := by
  obtain ⟨hi, hb⟩ := inv_run n B hn init (inv_init n) (by simp [init]) sched
  exact ⟨_, hi.emitted, Nat.le_trans hi.le hb⟩

/-- **nothing is lost**: when, after any schedule, no step is enabled any more, every block of the file has
    been given to the consumer -/
theorem complete_when_quiescent (n B : Nat) (hn : 0 < n) (sched : List Action)
    (hq : ∀ a, step n B (run n B init sched) a = none) : (run n B init sched).emitted = List.range B := by
  obtain ⟨⟨hle, hem, hsr, hrr, hheld⟩, hb⟩ := inv_run n B hn init (inv_init n) (by simp [init]) sched
  generalize run n B init sched = s at *
  -- the reader is done
  have hnext : ¬ s.next < B := by
    intro h; have := hq .read; simp [step, h] at this
  -- the decoder the serializer waits for holds nothing, so nothing is owed to it
  have hsrlt : s.sr < n := by rw [hsr]; exact Nat.mod_lt _ hn
  have hout : s.outputs s.sr = [] := by
    have := hq .emit
    simp only [step] at this
    split at this
    · cases this
    · rename_i h; exact h
  have hbusy : s.busy s.sr = none := by
    have := hq (.finish s.sr)
    simp only [step, hsrlt, if_true] at this
    split at this
    · cases this
    · rename_i h; exact h
  have hin : s.inputs s.sr = [] := by
    have := hq (.take s.sr)
    simp only [step, hsrlt, if_true, hbusy] at this
    cases hc : s.inputs s.sr with
    | nil => rfl
    | cons b rest => simp [hc] at this
  have hh := hheld s.sr hsrlt
  simp only [held, hout, hbusy, hin, Option.toList_none, List.append_nil] at hh
  have hm : s.emitted.length = s.next := by
    rcases Nat.lt_or_ge s.emitted.length s.next with h | h
    · rw [hsr, owed_head n _ _ h] at hh; cases hh
    · omega
  have : s.next = B := by omega
  rw [hem, hm, this]

/-- progress: as long as a block is missing some step is enabled (no schedule can get stuck before the end) -/
theorem not_stuck (n B : Nat) (hn : 0 < n) (sched : List Action)
    (hm : (run n B init sched).emitted ≠ List.range B) : ∃ a, step n B (run n B init sched) a ≠ none := by
  apply Classical.byContradiction
  intro h
  apply hm
  apply complete_when_quiescent n B hn sched
  intro a
  cases hs : step n B (run n B init sched) a with
  | none => rfl
  | some s' => exact absurd ⟨a, by simp [hs]⟩ h

/-! ## bounded channels: the same order, and still no deadlock

Go's channels are bounded (`numChanels = 10 / n` slots; for more than ten decoders none: a send then completes only
when its receiver takes). A bounded queue only disables steps, so every bounded schedule is one of the schedules
above and the order theorem applies. Progress is NOT inherited — fewer enabled steps could mean new stuck states —
and is proved separately: with room for at least one item per queue (an unbuffered channel counts as one: the
item in the sender's hand) some step is always enabled while a block is missing. -/

/-- one step with at most `cap` items per input and output queue -/
def stepB (n B cap : Nat) (s : PState) (a : Action) : Option PState :=
  match a with
  | .read => if (s.inputs s.rr).length < cap then step n B s .read else none
  | .finish w => if (s.outputs w).length < cap then step n B s (.finish w) else none
  | a => step n B s a

theorem stepB_is_step (n B cap : Nat) (s s' : PState) (a : Action) (h : stepB n B cap s a = some s') :
    step n B s a = some s' := by
  unfold stepB at h
  cases a with
  | read => simp only at h; split at h; exact h; cases h
  | finish w => simp only at h; split at h; exact h; cases h
  | take w => exact h
  | emit => exact h

def runB (n B cap : Nat) (s : PState) : List Action → PState
  | [] => s
  | a :: as => runB n B cap ((stepB n B cap s a).getD s) as

theorem inv_runB (n B cap : Nat) (hn : 0 < n) : ∀ (sched : List Action) (s : PState), Inv n s → s.next ≤ B →
    Inv n (runB n B cap s sched) ∧ (runB n B cap s sched).next ≤ B := by
  intro sched
  induction sched with
  | nil => intro s hi hb; exact ⟨hi, hb⟩
  | cons a as ih =>
    intro s hi hb
    simp only [runB]
    cases h : stepB n B cap s a with
    | none => simpa using ih s hi hb
    | some s' =>
      have hs := stepB_is_step n B cap s s' a h
      simpa using ih s' (inv_step n B hn s s' a hi hs) (step_next_le n B s s' a hs hb)

/-- **bounded channels, every schedule**: file order, nothing lost, duplicated or swapped -/
theorem order_under_every_bounded_schedule (n B cap : Nat) (hn : 0 < n) (sched : List Action) :
    ∃ m, (runB n B cap init sched).emitted = List.range m ∧ m ≤ B := by
  obtain ⟨hi, hb⟩ := inv_runB n B cap hn sched init (inv_init n) (by simp [init])
  exact ⟨_, hi.emitted, Nat.le_trans hi.le hb⟩

/-- **bounded channels, no deadlock**: with at least one slot per queue, in every reachable state in which a block
    is still missing some step is enabled — the serializer can forward the block it waits for, or the decoder that
    holds it can finish or take it (its output queue is empty: everything older has been forwarded), or the reader
    can read (the queue it is about to use is empty) -/
theorem not_stuck_bounded (n B cap : Nat) (hn : 0 < n) (hcap : 0 < cap) (sched : List Action)
    (hm : (runB n B cap init sched).emitted.length < B) : ∃ a, (stepB n B cap (runB n B cap init sched) a).isSome = true := by
  obtain ⟨⟨hle, hem, hsr, hrr, hheld⟩, hb⟩ := inv_runB n B cap hn sched init (inv_init n) (by simp [init])
  generalize runB n B cap init sched = s at *
  have hsrlt : s.sr < n := by rw [hsr]; exact Nat.mod_lt _ hn
  rcases Nat.lt_or_ge s.emitted.length s.next with hlt | hge
  · -- the block the serializer waits for has been read: decoder `sr` holds it, at the front
    have hh := hheld s.sr hsrlt
    rw [hsr, owed_head n _ _ hlt] at hh
    rw [← hsr] at hh
    cases ho : s.outputs s.sr with
    | cons b rest => exact ⟨.emit, by simp [stepB, step, ho]⟩
    | nil =>
      cases hbz : s.busy s.sr with
      | some b => exact ⟨.finish s.sr, by simp [stepB, step, ho, hcap, hsrlt, hbz]⟩
      | none =>
        simp only [held, ho, hbz, Option.toList_none, List.nil_append] at hh
        cases hi : s.inputs s.sr with
        | nil => rw [hi] at hh; cases hh
        | cons b rest => exact ⟨.take s.sr, by simp [stepB, step, hsrlt, hbz, hi]⟩
  · -- everything read has been forwarded: the reader's next queue is empty
    have hnext : s.next < B := by omega
    have hrrlt : s.rr < n := by rw [hrr]; exact Nat.mod_lt _ hn
    have hh := hheld s.rr hrrlt
    have he : s.emitted.length = s.next := by omega
    rw [he, owed_empty] at hh
    have hin : s.inputs s.rr = [] := by
      simp only [held] at hh
      have := List.append_eq_nil_iff.mp hh
      exact this.2
    exact ⟨.read, by simp [stepB, step, hin, hcap, hnext]⟩

/-! ## the shape of the pipeline in the source -/

def segment (body : List String) (start stop : String) : List String :=
  ((body.dropWhile (· ≠ start)).drop 1).takeWhile (· ≠ stop)

def startsWith (pre s : String) : Bool := pre.toList.isPrefixOf s.toList

/-- the statements after the first line that begins with `pre`, up to `stop` -/
def segmentFrom (body : List String) (pre stop : String) : List String :=
  ((body.dropWhile (fun l => !startsWith pre l)).drop 1).takeWhile (· ≠ stop)

/-- reader and serializer walk the decoders with the same rule `i = (i + 1) % n`; every decoder goroutine has a
    private `dataDecoder`, handles one block at a time and forwards every result (objects or error) in the
    order taken; a restarted stream's first block goes to decoder 0 and the pointer moves on -/
theorem pipeline_shape :
    segmentFrom startBody "for dec.ctx.Err() == nil " "offset := dec.bytesRead" = ["input := dec.inputs[i]", "i = (i + 1) % n"] ∧
    startBody.contains "for i := 0; ; i = (i + 1) % n {" = true ∧
    segment startBody "for i := 0; ; i = (i + 1) % n {" "var p oPair" = ["output := dec.outputs[i]"] ∧
    segment startBody "if blobHeader.GetType() != osmHeaderType {" "}" =
      ["dec.inputs[0] <- iPair{Offset: 0, Blob: blob, Err: err}", "i = (i + 1) % n"] ∧
    segment startBody "for i := 0; i < n; i++ {" "go func() {" =
      ["input := make(chan iPair, numChanels)", "output := make(chan oPair, numChanels)", "dd := &dataDecoder{scanner: dec.scanner}"] ∧
    segment startBody "for p := range input {" "select {" =
      ["var out oPair", "if p.Err == nil {", "objects, err := dd.Decode(p.Blob)", "out = oPair{Offset: p.Offset, Objects: objects, Err: err}",
       "} else {", "out = oPair{Err: p.Err}", "}"] ∧
    (segment startBody "for p := range input {" "dec.inputs = append(dec.inputs, input)").drop 7 =
      ["select {", "case output <- out:", "case <-dec.ctx.Done():", "}", "}", "}()"] ∧
    decodeBody.contains "dec.q = make([]osm.Object, 0, 8000)" = true := by
  decide +kernel

/-! ## non-vacuity -/
example : (run 3 5 init [.read, .read, .read, .take 1, .finish 1, .take 0, .read, .take 2, .finish 2, .finish 0, .emit, .emit, .emit,
    .read, .take 0, .take 1, .finish 1, .finish 0, .emit, .emit]).emitted = [0, 1, 2, 3, 4] := by decide
example : (runB 3 5 1 init [.read, .read, .read, .read, .take 0, .read, .finish 0, .emit, .take 0, .finish 0, .take 1, .finish 1, .emit]).emitted = [0, 1] := by
  decide   -- one slot per queue: the fourth read (queue 0 full) is not enabled and is skipped
example : (run 3 5 init [.read, .read, .take 1, .finish 1, .emit]).emitted = [] := by decide   -- block 1 is ready, block 0 is not

end OsmVerif.Props.C02
