import OsmVerif.Props.C10
import OsmVerif.Model.IdText
import OsmVerif.Lemmas.Text
/-!
# C10 (text) — the textual form of an id parses back to it; only `kind/ref[:version]` is accepted

Theorems about the hand-written model `Model.IdText` of `String()` / `Parse*ID`
(tied to the code by the differential stream of `./check C10`), on top of the
regenerated bit-level model `Gen.Ids`.
-/
namespace OsmVerif.Props.C10Text
open OsmVerif.Gen.Ids OsmVerif.Model.Text OsmVerif.Model.IdText OsmVerif.Props.C10

theorem name_no_slash (k : Kind) : '/' ∉ k.name.toList := by cases k <;> decide

theorem toInt_of_small (x : BitVec 64) (h : x.toNat < 2^63) : x.toInt = (x.toNat : Int) :=
  BitVec.toInt_eq_toNat_of_lt (by omega)

/-- `%d` of a small non-negative id component, parsed back by `ParseInt`, converted back -/
theorem show_parse_small (x : BitVec 64) (h : x.toNat < 2^63) :
    showInt x.toInt = Nat.toDigits 10 x.toNat ∧ parseInt64 (Nat.toDigits 10 x.toNat) = some x.toInt := by
  rw [toInt_of_small x h]
  exact ⟨showInt_natCast _, parseInt64_showNat _ h⟩

theorem slash_not_digit : ('/' : Char).isDigit = false := by decide
theorem colon_not_digit : (':' : Char).isDigit = false := by decide

theorem parseRefVersion_dash (r : BitVec 64) (hr : r.toNat < 2^63) :
    parseRefVersion (Nat.toDigits 10 r.toNat ++ [':', '-']) = some (r.toInt, 0) := by
  unfold parseRefVersion
  have h1 : splitOn ':' (Nat.toDigits 10 r.toNat ++ [':', '-']) = [Nat.toDigits 10 r.toNat, ['-']] := by
    rw [splitOn_append _ _ _ (sep_not_mem_toDigits _ _ colon_not_digit)]
    rw [splitOn_of_not_mem _ _ (by decide)]
  rw [h1]
  simp [(show_parse_small r hr).2]

theorem parseRefVersion_ver (r v : BitVec 64) (hr : r.toNat < 2^63) (hv : v.toNat < 2^63) :
    parseRefVersion (Nat.toDigits 10 r.toNat ++ ':' :: Nat.toDigits 10 v.toNat) = some (r.toInt, v.toInt) := by
  unfold parseRefVersion
  have h1 : splitOn ':' (Nat.toDigits 10 r.toNat ++ ':' :: Nat.toDigits 10 v.toNat)
      = [Nat.toDigits 10 r.toNat, Nat.toDigits 10 v.toNat] := by
    rw [splitOn_append _ _ _ (sep_not_mem_toDigits _ _ colon_not_digit)]
    rw [splitOn_of_not_mem _ _ (sep_not_mem_toDigits _ _ colon_not_digit)]
  rw [h1]
  have hne : Nat.toDigits 10 v.toNat ≠ ['-'] := by
    obtain ⟨d, ds, hd, hdig⟩ := toDigits_head_isDigit v.toNat
    rw [hd]; intro e; cases e; revert hdig; decide
  simp [(show_parse_small r hr).2, (show_parse_small v hv).2, hne]

/-- the text after `kind/` never contains a slash -/
theorem split_kind (k : Kind) (rest : List Char) (h : '/' ∉ rest) :
    splitOn '/' (k.name.toList ++ '/' :: rest) = [k.name.toList, rest] := by
  rw [splitOn_append _ _ _ (name_no_slash k), splitOn_of_not_mem _ _ h]

theorem rest_no_slash_dash (n : Nat) : '/' ∉ Nat.toDigits 10 n ++ [':', '-'] := by
  simp only [List.mem_append, not_or]
  exact ⟨sep_not_mem_toDigits _ _ slash_not_digit, by decide⟩
theorem rest_no_slash_ver (n m : Nat) : '/' ∉ Nat.toDigits 10 n ++ ':' :: Nat.toDigits 10 m := by
  simp only [List.mem_append, List.mem_cons, not_or]
  exact ⟨sep_not_mem_toDigits _ _ slash_not_digit, by decide, sep_not_mem_toDigits _ _ slash_not_digit⟩

theorem lt63_of_lt40 {x : BitVec 64} (h : x.toNat < 2^40) : x.toNat < 2^63 := by omega
theorem lt63_of_lt16 {x : BitVec 64} (h : x.toNat < 2^16) : x.toNat < 2^63 := by omega

/-! ## String ∘ Parse = id -/

/-- `ParseElementID(id.String()) = id` for every node/way/relation element id in range. -/
theorem parse_show_element (k : Kind) (hk : k.isElement) (r v : BitVec 64)
    (hr : r.toNat < 2^40) (hv : v.toNat < 2^16) :
    ∃ s, showElement (layout k r v) = some s ∧ parseElement s = some (layout k r v) := by
  unfold showElement
  rw [element_type k hk r v hr, element_ref k r v hr, element_version k r v hv]
  have hr' := lt63_of_lt40 hr
  have hv' := lt63_of_lt16 hv
  by_cases h0 : v = 0#64
  · subst h0
    refine ⟨k.name.toList ++ '/' :: (showInt r.toInt ++ [':', '-']), by simp, ?_⟩
    rw [(show_parse_small r hr').1]
    unfold parseElement
    rw [split_kind k _ (rest_no_slash_dash _)]
    simp only [parseRefVersion_dash r hr', String.ofList_toList, BitVec.ofInt_toInt]
    rw [type_featureID k r]
    simp only [hk, if_true]
    have := feature_to_element k r 0#64 (by decide)
    simpa using this
  · refine ⟨k.name.toList ++ '/' :: (showInt r.toInt ++ ':' :: showInt v.toInt), by simp [h0], ?_⟩
    rw [(show_parse_small r hr').1, (show_parse_small v hv').1]
    unfold parseElement
    rw [split_kind k _ (rest_no_slash_ver _ _)]
    simp only [parseRefVersion_ver r v hr' hv', String.ofList_toList, BitVec.ofInt_toInt]
    rw [type_featureID k r]
    simp only [hk, if_true]
    rw [feature_to_element k r v hv]

/-- the packed object id `Type.objectID` builds for a kind (elements carry a version, bounds no ref) -/
def objectId (k : Kind) (r v : BitVec 64) : BitVec 64 :=
  if k.isElement then layout k r v else if k = .bounds then layout k 0#64 0#64 else layout k r 0#64

/-- `ParseObjectID(id.String()) = id` for every object id in range, all seven kinds. -/
theorem parse_show_object (k : Kind) (r v : BitVec 64) (hr : r.toNat < 2^40) (hv : v.toNat < 2^16) :
    ∃ s, showObject (objectId k r v) = some s ∧ parseObject s = some (objectId k r v) := by
  -- reduce to a layout with explicit components
  obtain ⟨r', v', hr', hv', hid, hobj⟩ :
      ∃ r' v' : BitVec 64, r'.toNat < 2^40 ∧ v'.toNat < 2^16 ∧ objectId k r v = layout k r' v' ∧
        Type_objectID k.name r' v' = some (layout k r' v') := by
    by_cases hk : k.isElement
    · exact ⟨r, v, hr, hv, by simp [objectId, hk], by rw [type_objectID]; simp [hk]⟩
    · by_cases hb : k = .bounds
      · exact ⟨0#64, 0#64, by decide, by decide, by simp [objectId, hb, Kind.isElement], by rw [type_objectID]; simp [hb, Kind.isElement]⟩
      · exact ⟨r, 0#64, hr, by decide, by simp [objectId, hk, hb], by rw [type_objectID]; simp [hk, hb]⟩
  rw [hid]
  unfold showObject
  rw [object_type k r' v' hr', object_ref k r' v' hr', object_version k r' v' hv']
  have hr63 := lt63_of_lt40 hr'
  have hv63 := lt63_of_lt16 hv'
  by_cases h0 : v' = 0#64
  · subst h0
    refine ⟨k.name.toList ++ '/' :: (showInt r'.toInt ++ [':', '-']), by simp, ?_⟩
    rw [(show_parse_small r' hr63).1]
    unfold parseObject
    rw [split_kind k _ (rest_no_slash_dash _)]
    simp only [parseRefVersion_dash r' hr63, String.ofList_toList, BitVec.ofInt_toInt]
    simpa using hobj
  · refine ⟨k.name.toList ++ '/' :: (showInt r'.toInt ++ ':' :: showInt v'.toInt), by simp [h0], ?_⟩
    rw [(show_parse_small r' hr63).1, (show_parse_small v' hv63).1]
    unfold parseObject
    rw [split_kind k _ (rest_no_slash_ver _ _)]
    simp only [parseRefVersion_ver r' v' hr63 hv63, String.ofList_toList, BitVec.ofInt_toInt]
    exact hobj

/-- `ParseFeatureID(id.String()) = id` for every node/way/relation feature id in range. -/
theorem parse_show_feature (k : Kind) (hk : k.isElement) (r : BitVec 64) (hr : r.toNat < 2^40) :
    parseFeature (showFeature (layout k r 0#64)) = some (layout k r 0#64) := by
  unfold showFeature
  have hne : k.name ≠ "" := by cases k <;> decide
  rw [feature_type k hk r hr, feature_ref k r _ hr]
  simp only [hne, if_false]
  have hr' := lt63_of_lt40 hr
  rw [(show_parse_small r hr').1]
  unfold parseFeature
  rw [split_kind k _ (sep_not_mem_toDigits _ _ slash_not_digit)]
  simp only [(show_parse_small r hr').2, String.ofList_toList, BitVec.ofInt_toInt]
  rw [type_featureID k r]
  simp [hk]

/-! ## only the `kind/ref[:version]` shape with a known kind is accepted -/

theorem objectID_known {s : String} {r v x : BitVec 64} (h : Type_objectID s r v = some x) :
    ∃ k : Kind, s = k.name := by
  by_cases h1 : s = TypeNode; · exact ⟨.node, h1⟩
  by_cases h2 : s = TypeWay; · exact ⟨.way, h2⟩
  by_cases h3 : s = TypeRelation; · exact ⟨.relation, h3⟩
  by_cases h4 : s = TypeChangeset; · exact ⟨.changeset, h4⟩
  by_cases h5 : s = TypeNote; · exact ⟨.note, h5⟩
  by_cases h6 : s = TypeUser; · exact ⟨.user, h6⟩
  by_cases h7 : s = TypeBounds; · exact ⟨.bounds, h7⟩
  have := type_objectID_unknown s r v (by intro k; cases k <;> simp [Kind.name, *])
  rw [this] at h; cases h

theorem featureID_known {s : String} {r x : BitVec 64} (h : Type_FeatureID s r = some x) :
    ∃ k : Kind, k.isElement ∧ s = k.name := by
  by_cases h1 : s = TypeNode; · exact ⟨.node, rfl, h1⟩
  by_cases h2 : s = TypeWay; · exact ⟨.way, rfl, h2⟩
  by_cases h3 : s = TypeRelation; · exact ⟨.relation, rfl, h3⟩
  have := type_featureID_unknown s r (by intro k hk; cases k <;> simp_all [Kind.name, Kind.isElement])
  rw [this] at h; cases h

/-- the accepted `ref[:version]` texts -/
def IsRefVersion (rest : List Char) : Prop :=
  IsNumeral rest ∨ ∃ rs vs, rest = rs ++ ':' :: vs ∧ IsNumeral rs ∧ (vs = ['-'] ∨ IsNumeral vs)

theorem parseRefVersion_shape {rest : List Char} {p : Int × Int} (h : parseRefVersion rest = some p) :
    IsRefVersion rest := by
  unfold parseRefVersion at h
  split at h
  · rename_i r hs
    have := (splitOn_one hs).1
    subst this
    cases hp : parseInt64 rest with
    | none => simp [hp] at h
    | some ref => exact Or.inl (parseInt64_numeral hp)
  · rename_i r v hs
    have hsp := (splitOn_two hs).1
    cases hp : parseInt64 r with
    | none => simp [hp] at h
    | some ref =>
      simp only [hp] at h
      right
      refine ⟨r, v, hsp, parseInt64_numeral hp, ?_⟩
      by_cases hv : v = ['-']
      · exact Or.inl hv
      · simp only [hv, if_false] at h
        cases hp2 : parseInt64 v with
        | none => simp [hp2] at h
        | some ver => exact Or.inr (parseInt64_numeral hp2)
  · cases h

theorem ofList_eq_name {l : List Char} {k : Kind} (h : String.ofList l = k.name) : l = k.name.toList := by
  rw [← h]; simp

/-- `ParseObjectID` succeeds only on `kind/ref[:version|-]` with one of the seven kinds. -/
theorem parseObject_shape {s : List Char} {x : BitVec 64} (h : parseObject s = some x) :
    ∃ (k : Kind) (rest : List Char), s = k.name.toList ++ '/' :: rest ∧ IsRefVersion rest := by
  unfold parseObject at h
  split at h
  · rename_i kk rest hs
    have hsp := (splitOn_two hs).1
    cases hp : parseRefVersion rest with
    | none => simp [hp] at h
    | some p =>
      simp only [hp] at h
      obtain ⟨k, hk⟩ := objectID_known h
      exact ⟨k, rest, by rw [hsp, ofList_eq_name hk], parseRefVersion_shape hp⟩
  · cases h

/-- `ParseElementID` succeeds only on `kind/ref[:version|-]` with kind node, way or relation. -/
theorem parseElement_shape {s : List Char} {x : BitVec 64} (h : parseElement s = some x) :
    ∃ (k : Kind) (rest : List Char), k.isElement ∧ s = k.name.toList ++ '/' :: rest ∧ IsRefVersion rest := by
  unfold parseElement at h
  split at h
  · rename_i kk rest hs
    have hsp := (splitOn_two hs).1
    cases hp : parseRefVersion rest with
    | none => simp [hp] at h
    | some p =>
      simp only [hp] at h
      cases hf : Type_FeatureID (String.ofList kk) (BitVec.ofInt 64 p.1) with
      | none => simp [hf] at h
      | some fid =>
        obtain ⟨k, hke, hk⟩ := featureID_known hf
        exact ⟨k, rest, hke, by rw [hsp, ofList_eq_name hk], parseRefVersion_shape hp⟩
  · cases h

/-- `ParseFeatureID` succeeds only on `kind/ref` with kind node, way or relation. -/
theorem parseFeature_shape {s : List Char} {x : BitVec 64} (h : parseFeature s = some x) :
    ∃ (k : Kind) (rest : List Char), k.isElement ∧ s = k.name.toList ++ '/' :: rest ∧ IsNumeral rest := by
  unfold parseFeature at h
  split at h
  · rename_i kk rest hs
    have hsp := (splitOn_two hs).1
    cases hp : parseInt64 rest with
    | none => simp [hp] at h
    | some ref =>
      simp only [hp] at h
      obtain ⟨k, hke, hk⟩ := featureID_known h
      exact ⟨k, rest, hke, by rw [hsp, ofList_eq_name hk], parseInt64_numeral hp⟩
  · cases h

/-- accepted text yields exactly the packed id of its parts (no "wrong id") -/
theorem parseFeature_value {s : List Char} {x : BitVec 64} (h : parseFeature s = some x) :
    ∃ (k : Kind) (rest : List Char) (ref : Int), k.isElement ∧ s = k.name.toList ++ '/' :: rest ∧
      parseInt64 rest = some ref ∧ x = layout k (BitVec.ofInt 64 ref) 0#64 := by
  unfold parseFeature at h
  split at h
  · rename_i kk rest hs
    have hsp := (splitOn_two hs).1
    cases hp : parseInt64 rest with
    | none => simp [hp] at h
    | some ref =>
      simp only [hp] at h
      obtain ⟨k, hke, hk⟩ := featureID_known h
      refine ⟨k, rest, ref, hke, by rw [hsp, ofList_eq_name hk], hp, ?_⟩
      rw [hk, type_featureID] at h
      simp only [hke, if_true, Option.some.injEq] at h
      exact h.symm
  · cases h

/-! ## non-vacuity -/
example : parseObject "node/5:3".toList = some (layout .node 5#64 3#64) := by decide
example : parseObject "user/7:-".toList = some (layout .user 7#64 0#64) := by decide
example : parseElement "changeset/5:3".toList = none := by decide
example : parseObject "node/5:3:1".toList = none := by decide
example : parseObject "nodes/5".toList = none := by decide
example : showElement (layout .way 12#64 0#64) = some "way/12:-".toList := by decide

end OsmVerif.Props.C10Text
