import OsmVerif.Props.C10
import OsmVerif.Model.IdText
namespace OsmVerif.Props.C10Text
end OsmVerif.Props.C10Text
