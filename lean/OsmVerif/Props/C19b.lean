import OsmVerif.Props.C19
/-!
# C19 (continued) — the ascent of `findBound` terminates; the fuel of the model is never the reason for its answer

`findBound` in the model carries a fuel argument and `search` starts it with `cur² + cur + 2`. Here: every
iteration that continues lowers the potential `upper² + (upper - lowerID)` (the ascent moves `lowerID` up below an
unchanged `upper`, or restarts below a strictly smaller `upper`), so with any fuel above the potential the result
is the same — the real loop, which has no fuel, ends after at most `cur² + cur` iterations with exactly the
model's answer.
-/
namespace OsmVerif.Props.C19
open OsmVerif.Model.Search

def phi (l u : Nat) : Nat := u * u + (u - l)

theorem boundStep_phi (av : Avail) (t : Int) (l u l' u' : Nat) (h : boundStep av t l u = .next l' u') :
    phi l' u' < phi l u := by
  unfold boundStep at h
  unfold phi
  cases hav : av l with
  | some lts =>
    simp only [hav] at h
    split at h
    · split at h
      · cases h
      · rename_i hlu
        split at h
        · cases h
        · rename_i hn
          cases h
          -- u' = l < u, l' = (1 + l) / 2 ≥ 2
          have h1 : l + 2 ≤ u := by omega
          have h2 : (l + 1) * (l + 1) ≤ u * u := Nat.mul_le_mul (by omega) (by omega)
          have h3 : (l + 1) * (l + 1) = l * l + 2 * l + 1 := by
            rw [Nat.add_mul, Nat.mul_add]; omega
          omega
    · cases h
  | none =>
    simp only [hav] at h
    split at h
    · cases h
    · rename_i hn
      cases h
      omega

/-- **the fuel is never the reason**: with any two amounts of fuel above the potential the ascent gives the same
    bounds -/
theorem findBound_fuel_stable (av : Avail) (t : Int) :
    ∀ (n l u : Nat), phi l u < n → ∀ f, n ≤ f → findBound av t f l u = findBound av t n l u := by
  intro n
  induction n with
  | zero => intro l u h; omega
  | succ n ih =>
    intro l u hphi f hf
    obtain ⟨f', rfl⟩ : ∃ f', f = f' + 1 := ⟨f - 1, by omega⟩
    unfold findBound
    cases hb : boundStep av t l u with
    | done lo hi => rfl
    | next l' u' =>
      simp only
      have := boundStep_phi av t l u l' u' hb
      exact ih l' u' (by omega) f' (by omega)

/-- `search` gives `findBound` more fuel than it can use: the lookup's answer is the unbounded loop's answer -/
theorem search_fuel_sufficient (av : Avail) (t : Int) (cur k : Nat) :
    findBound av t (cur * cur + cur + 2 + k) 1 cur = findBound av t (cur * cur + cur + 2) 1 cur :=
  findBound_fuel_stable av t (cur * cur + cur + 2) 1 cur (by unfold phi; omega) _ (by omega)

/-- the binary search between the bounds: every iteration that continues narrows `hi - lo`, so fuel `hi - lo`
    (what `search` passes) is never exhausted: more fuel gives the same answer, for every availability pattern -/
theorem findInRange_fuel_stable (av : Avail) (t : Int) :
    ∀ (n lo hi : Nat), hi - lo ≤ n → ∀ f, n ≤ f → findInRange av t f lo hi = findInRange av t n lo hi := by
  intro n
  induction n with
  | zero =>
    intro lo hi h f _
    have hnot : ¬ lo + 1 < hi := by omega
    cases f with
    | zero => rfl
    | succ f' => simp [findInRange, hnot]
  | succ n ih =>
    intro lo hi h f hf
    obtain ⟨f', rfl⟩ : ∃ f', f = f' + 1 := ⟨f - 1, by omega⟩
    unfold findInRange
    by_cases hlt : lo + 1 < hi
    · simp only [hlt, if_true]
      cases hp : pickSplit av lo hi with
      | none => rfl
      | some r =>
        obtain ⟨s, ts⟩ := r
        have hs := OsmVerif.Model.Search.pickSplit_some av lo hi hlt (s, ts) hp
        simp only at hs ⊢
        split
        · exact ih s hi (by omega) f' (by omega)
        · exact ih lo s (by omega) f' (by omega)
    · simp [hlt]

end OsmVerif.Props.C19
