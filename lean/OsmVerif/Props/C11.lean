import OsmVerif.Model.Annotate
namespace OsmVerif.Props.C11
open OsmVerif.Model.Annotate
theorem findVisible_nil (cid a e : Int) : findVisible [] cid a e = none := rfl
end OsmVerif.Props.C11
