import OsmVerif.Lemmas.Annotate
import OsmVerif.Lemmas.AnnotateTs
/-!
# C11 — annotation reconstructs, for any time, the child versions that were current

Theorems about `Model.Annotate` (hand-written model of the annotation core, tied to the code by the
differential stream through `annotate.Ways` / `annotate.Relations` and by a ground-truth time-travel
oracle on simulated edit timelines).

The unconditional statements are for the **commit-time regime** (every version of parent and child
carries a commit time at or after `osm.CommitInfoStart`), where `currentAt cl t` — the last version
committed at or before `t`, if visible — is the ground truth. In that regime the code does not apply
the grouping threshold at all (`timeThresholdParent` returns the commit time unchanged), so the window
proved here, `[commit pᵢ, commit pᵢ₊₁)`, contains the one the property states.
-/
namespace OsmVerif.Props.C11
open OsmVerif.Model.Annotate

/-- a child history as the datasource hands it over, in the commit-time regime -/
structure Timeline (cl : List Child) : Prop where
  regime : CommitRegime cl
  sorted : CommitSorted cl
  indexed : WellIndexed cl

def ParentCommit (p : ParentV) (P : Int) : Prop := p.committed = some P ∧ commitInfoStart ≤ P

theorem parentTime {p : ParentV} {P : Int} (h : ParentCommit p P) (esp : Int) : timeThresholdParent p esp = P := by
  have : beforeStart (some P) = false := by simp [beforeStart]; exact h.2
  simp [timeThresholdParent, h.1, this]

/-! ## which version the child reference gets -/

/-- **each child reference carries the child version that was current when the parent version was committed** -/
theorem child_is_current_at_commit (cl : List Child) (tl : Timeline cl) (cid P eps : Int) :
    findVisible cl cid P eps = currentAt cl P :=
  findVisible_commit cl cid P eps tl.regime tl.sorted

theorem currentAt_position {cl : List Child} (tl : Timeline cl) {t : Int} {c : Child} (h : currentAt cl t = some c) :
    countAt cl t ≠ 0 ∧ cl[countAt cl t - 1]? = some c ∧ c.vindex = countAt cl t - 1 ∧ c.visible = true ∧ commitOf c ≤ t := by
  unfold currentAt at h
  cases hl : lastAt cl t with
  | none => simp [hl] at h
  | some d =>
    simp only [hl] at h
    by_cases hv : d.visible = true
    · simp only [hv, if_true, Option.some.injEq] at h
      subst h
      rw [lastAt_eq_getElem cl t tl.sorted] at hl
      by_cases h0 : countAt cl t = 0
      · simp [h0] at hl
      · simp only [h0, if_false] at hl
        refine ⟨h0, hl, tl.indexed _ _ hl, hv, ?_⟩
        exact (commit_le_iff_lt_count cl t tl.sorted _ _ hl).mpr (by omega)
    · simp [hv] at h

theorem countAt_mono (cl : List Child) {t u : Int} (h : t ≤ u) : countAt cl t ≤ countAt cl u := by
  unfold countAt
  induction cl with
  | nil => simp
  | cons c rest ih =>
    simp only [List.filter_cons]
    by_cases h1 : commitOf c ≤ t
    · have : commitOf c ≤ u := by omega
      simp [h1, this]; exact ih
    · by_cases h2 : commitOf c ≤ u
      · simp [h1, h2]; omega
      · simp [h1, h2]; exact ih

theorem countAt_le_countBefore (cl : List Child) {t u : Int} (h : t < u) : countAt cl t ≤ countBefore cl u := by
  unfold countAt countBefore
  induction cl with
  | nil => simp
  | cons c rest ih =>
    simp only [List.filter_cons]
    by_cases h1 : commitOf c ≤ t
    · have : commitOf c < u := by omega
      simp [h1, this]; exact ih
    · by_cases h2 : commitOf c < u
      · simp [h1, h2]; omega
      · simp [h1, h2]; exact ih

/-! ## which versions become updates -/

/-- **the update range reaches every version committed before the next parent version**: for `t` in
    `[commit pᵢ, commit pᵢ₊₁)` (all later times if there is no next version) every version committed at or
    before `t` lies below `nextVersionIndex` -/
theorem nextVersion_covers (cl : List Child) (tl : Timeline cl) (o : Options) (ch : Child) (P : Int)
    (hch : currentAt cl P = some ch) (np : Option ParentV) (t : Int) (hPt : P ≤ t)
    (hnp : match np with
      | none => True
      | some n => ∃ N, ParentCommit n N ∧ t < N) :
    countAt cl t ≤ nextVersionIndex (some ch) cl np o := by
  obtain ⟨hc0, hcpos, hcidx, hcvis, hcle⟩ := currentAt_position tl hch
  cases np with
  | none =>
    -- all future versions
    unfold nextVersionIndex
    have hne : cl ≠ [] := by intro e; subst e; simp [countAt] at hc0
    cases hl : cl.getLast? with
    | none => simp [List.getLast?_eq_none_iff] at hl; exact absurd hl hne
    | some l =>
      simp only
      have hpos : cl[cl.length - 1]? = some l := by rw [← List.getLast?_eq_getElem?]; exact hl
      have := tl.indexed _ _ hpos
      have := countAt_le_length cl t
      have : cl.length ≠ 0 := by intro e; exact hne (List.length_eq_zero_iff.mp e)
      omega
  | some n =>
    obtain ⟨N, hN, htN⟩ := hnp
    unfold nextVersionIndex
    simp only [parentTime hN, child_is_current_at_commit cl tl]
    cases hnx : currentAt cl N with
    | some nx =>
      obtain ⟨n0, npos, nidx, nvis, nle⟩ := currentAt_position tl hnx
      obtain ⟨tn, htn, htn2⟩ := tl.regime nx (List.mem_of_getElem? npos)
      have hcn : commitOf nx = tn := by simp [commitOf, htn]
      simp only [timeThreshold_commit htn htn2]
      by_cases hlt : tn < N
      · simp only [hlt, if_true]
        have := countAt_mono cl (Int.le_of_lt htN)
        omega
      · simp only [hlt, if_false]
        -- nx was committed exactly with the next parent: it is not ≤ t
        have : ¬ (countAt cl N - 1 < countAt cl t) := by
          intro hh
          have := (commit_le_iff_lt_count cl t tl.sorted _ _ npos).mpr hh
          omega
        omega
    | none =>
      simp only
      obtain ⟨tc, htc, htc2⟩ := tl.regime ch (List.mem_of_getElem? hcpos)
      have hcc : commitOf ch = tc := by simp [commitOf, htc]
      simp only [timeThreshold_commit htc htc2]
      have hgt : N > tc := by omega
      simp only [hgt, not_true_eq_false, if_false]
      rw [versionBefore_commit cl N tl.regime tl.sorted, sorted_filter_lt_eq_take cl N tl.sorted]
      have hcb := countAt_le_countBefore cl htN
      have hbl := countBefore_le_length cl N
      cases hg : (cl.take (countBefore cl N)).getLast? with
      | none =>
        have : cl.take (countBefore cl N) = [] := List.getLast?_eq_none_iff.mp hg
        have : countBefore cl N = 0 ∨ cl = [] := by
          rcases List.take_eq_nil_iff.mp this with h | h
          · exact Or.inl h
          · exact Or.inr h
        rcases this with h | h
        · simp; omega
        · subst h; simp [countAt] at hc0
      | some b =>
        simp only
        rw [List.getLast?_eq_getElem?, List.length_take, Nat.min_eq_left hbl] at hg
        have hb0 : countBefore cl N ≠ 0 := by
          intro e; rw [e] at hg; simp at hg
        rw [List.getElem?_take_of_lt (by omega)] at hg
        have := tl.indexed _ _ hg
        omega

theorem countBefore_le_countAt (cl : List Child) (t : Int) : countBefore cl t ≤ countAt cl t := by
  unfold countAt countBefore
  induction cl with
  | nil => simp
  | cons c rest ih =>
    simp only [List.filter_cons]
    by_cases h1 : commitOf c < t
    · have : commitOf c ≤ t := by omega
      simp [h1, this]; exact ih
    · by_cases h2 : commitOf c ≤ t
      · simp [h1, h2]; omega
      · simp [h1, h2]; exact ih

/-- **and no further**: the update range ends at or before the versions committed up to the next parent version's
    commit — no version committed after the next parent version is ever put into this version's update list
    (whatever child reference `cur` the step started from) -/
theorem nextVersion_upper (cl : List Child) (tl : Timeline cl) (o : Options) (cur : Option Child) (n : ParentV) (N : Int)
    (hN : ParentCommit n N) : nextVersionIndex cur cl (some n) o ≤ countAt cl N := by
  unfold nextVersionIndex
  simp only [parentTime hN, child_is_current_at_commit cl tl]
  have hvb : (match versionBefore cl N with | some b => b.vindex + 1 | none => 0) ≤ countAt cl N := by
    rw [versionBefore_commit cl N tl.regime tl.sorted, sorted_filter_lt_eq_take cl N tl.sorted]
    have hbl := countBefore_le_length cl N
    have hba := countBefore_le_countAt cl N
    cases hg : (cl.take (countBefore cl N)).getLast? with
    | none => simp
    | some b =>
      simp only
      rw [List.getLast?_eq_getElem?, List.length_take, Nat.min_eq_left hbl] at hg
      have hb0 : countBefore cl N ≠ 0 := by intro e; rw [e] at hg; simp at hg
      rw [List.getElem?_take_of_lt (by omega)] at hg
      have := tl.indexed _ _ hg
      omega
  cases hnx : currentAt cl N with
  | some nx =>
    obtain ⟨n0, _, nidx, _, _⟩ := currentAt_position tl hnx
    simp only
    split <;> omega
  | none =>
    simp only
    cases cur with
    | none => exact hvb
    | some c =>
      simp only
      split
      · omega
      · exact hvb

/-- what one (child, parent version) step produces in the commit-time regime when the child is consistent -/
theorem groupEffect_commit (o : Options) (parents : List ParentV) (fid : Nat) (cl : List Child) (tl : Timeline cl)
    (pidx : Nat) (idxs : List Nat) (p : ParentV) (hp : parents[pidx]? = some p) (hvis : p.visible = true)
    (P : Int) (hP : ParentCommit p P) (ch : Child) (hch : currentAt cl P = some ch)
    (hcons : ∀ k c, countAt cl P ≤ k → k < nextVersionIndex (some ch) cl parents[pidx + 1]? o →
      cl[k]? = some c → c.visible = true) :
    groupEffect o parents fid cl pidx idxs = .ok (some
      { parent := pidx, sets := idxs.map (fun i => (i, ch)),
        updates := (versionRange (countAt cl P) (nextVersionIndex (some ch) cl parents[pidx + 1]? o)).flatMap
          (versionUpdates cl idxs) }) := by
  obtain ⟨hc0, hcpos, hcidx, hcvis, hcle⟩ := currentAt_position tl hch
  unfold groupEffect
  simp only [hp, hvis, not_true_eq_false, if_false, parentTime hP, child_is_current_at_commit cl tl, hch,
    Option.isNone_some, Bool.false_eq_true, false_and]
  have hstart : ch.vindex + 1 = countAt cl P := by omega
  rw [hstart, rangeUpdates_ok o pidx fid cl idxs _ _ hcons]

theorem flatMap_if_all {l : List Nat} (f : Nat → Option Update) (m : Nat) (hall : ∀ k ∈ l, k < m) :
    l.flatMap (fun k => if k < m then (f k).toList else []) = l.filterMap f := by
  induction l with
  | nil => rfl
  | cons k ks ih =>
    have hk := hall k (by simp)
    simp only [List.flatMap_cons, hk, if_true, List.filterMap_cons]
    rw [ih (fun k' hk' => hall k' (by simp [hk']))]
    cases f k <;> simp

theorem filter_eq_singleton (idxs : List Nat) (hnd : idxs.Nodup) (j : Nat) (hj : j ∈ idxs) :
    idxs.filter (fun i => decide (i = j)) = [j] := by
  induction idxs with
  | nil => cases hj
  | cons x xs ih =>
    have hx := List.nodup_cons.mp hnd
    by_cases e : x = j
    · subst e
      have : xs.filter (fun i => decide (i = x)) = [] := by
        rw [List.filter_eq_nil_iff]; intro y hy; simp; intro e2; subst e2; exact hx.1 hy
      simp [List.filter_cons, this]
    · have hj' : j ∈ xs := by
        rcases List.mem_cons.mp hj with h | h
        · exact absurd h.symm e
        · exact h
      simp [List.filter_cons, e, ih hx.2 hj']

/-- **time travel**: for every time `t` from the commit of this parent version up to (not including) the
    commit of the next one, the updates addressed to child slot `j` and stamped at or before `t` are exactly
    the child versions committed after the parent version and at or before `t`, oldest first — each stamped
    with its commit time — so applying them leaves the version that was current at `t` -/
theorem time_travel (o : Options) (parents : List ParentV) (fid : Nat) (cl : List Child) (tl : Timeline cl)
    (pidx : Nat) (idxs : List Nat) (hnd : idxs.Nodup) (p : ParentV) (hp : parents[pidx]? = some p) (hvis : p.visible = true)
    (P : Int) (hP : ParentCommit p P) (ch : Child) (hch : currentAt cl P = some ch)
    (hcons : ∀ k c, countAt cl P ≤ k → k < nextVersionIndex (some ch) cl parents[pidx + 1]? o →
      cl[k]? = some c → c.visible = true)
    (t : Int) (hPt : P ≤ t)
    (hnext : match parents[pidx + 1]? with
      | none => True
      | some n => ∃ N, ParentCommit n N ∧ t < N)
    (j : Nat) (hj : j ∈ idxs) :
    ∃ e, groupEffect o parents fid cl pidx idxs = .ok (some e) ∧
      e.sets = idxs.map (fun i => (i, ch)) ∧
      e.updates.filter (fun u => decide (u.index = j ∧ u.ts ≤ t)) =
        (versionRange (countAt cl P) (countAt cl t)).filterMap (fun k => cl[k]?.map (fun c => c.update j)) := by
  refine ⟨_, groupEffect_commit o parents fid cl tl pidx idxs p hp hvis P hP ch hch hcons, rfl, ?_⟩
  simp only
  have hcov := nextVersion_covers cl tl o ch P hch parents[pidx + 1]? t hPt hnext
  generalize nextVersionIndex (some ch) cl parents[pidx + 1]? o = stop at hcov
  -- per version: the updates of version k that are addressed to j and stamped ≤ t
  have hver : ∀ k, (versionUpdates cl idxs k).filter (fun u => decide (u.index = j ∧ u.ts ≤ t)) =
      if k < countAt cl t then (cl[k]?.map (fun c => c.update j)).toList else [] := by
    intro k
    unfold versionUpdates
    cases hk : cl[k]? with
    | none => simp
    | some c =>
      obtain ⟨tc, htc, htc2⟩ := tl.regime c (List.mem_of_getElem? hk)
      have hf := fun i => update_fields c i tc htc htc2
      have hiff := commit_le_iff_lt_count cl t tl.sorted k c hk
      have hco : commitOf c = tc := by simp [commitOf, htc]
      rw [hco] at hiff
      simp only [Option.map_some, Option.toList_some]
      by_cases hlt : k < countAt cl t
      · have hle : tc ≤ t := hiff.mpr hlt
        simp only [hlt, if_true]
        -- among idxs (nodup) exactly j passes
        rw [List.filter_map]
        have : idxs.filter ((fun u => decide (u.index = j ∧ u.ts ≤ t)) ∘ fun i => c.update i) = [j] := by
          have hfun : ((fun u => decide (u.index = j ∧ u.ts ≤ t)) ∘ fun i => c.update i) = fun i => decide (i = j) := by
            funext i
            simp [(hf i).1, (hf i).2.2.2.2.2, hle]
          rw [hfun]
          exact filter_eq_singleton idxs hnd j hj
        rw [this]; rfl
      · simp only [hlt, if_false]
        rw [List.filter_eq_nil_iff]
        intro u hu
        obtain ⟨i, _, rfl⟩ := List.mem_map.mp hu
        have : ¬ tc ≤ t := fun h => hlt (hiff.mp h)
        simp [(hf i).2.2.2.2.2, this]
  rw [List.filter_flatMap]
  simp only [hver]
  -- now split the range at countAt t
  clear hver hcons
  have hmono := countAt_mono cl hPt
  induction stop with
  | zero =>
    have : countAt cl t = 0 := by omega
    simp [versionRange, this]
  | succ s ih =>
    rw [versionRange_succ, List.flatMap_append]
    by_cases hs : countAt cl t ≤ s
    · rw [ih hs]
      by_cases h1 : countAt cl P ≤ s
      · have : ¬ s < countAt cl t := by omega
        simp [h1, this]
      · simp [h1]
    · have hs' : countAt cl t = s + 1 := by omega
      -- every k in the range is below countAt t
      have hall : ∀ k ∈ versionRange (countAt cl P) s, k < countAt cl t := by
        intro k hk; have := (mem_versionRange _ _ _).mp hk; omega
      have e1 := flatMap_if_all (fun k => cl[k]?.map (fun c => c.update j)) (countAt cl t) hall
      rw [e1, hs', versionRange_succ, List.filterMap_append]
      by_cases h1 : countAt cl P ≤ s
      · have : s < s + 1 := by omega
        simp only [h1, if_true, List.flatMap_cons, List.flatMap_nil, List.append_nil, hs', this, List.filterMap_cons, List.filterMap_nil]
        cases cl[s]? <;> simp
      · simp [h1]

/-! ## deleted parents, missing and inconsistent histories -/

/-- **deleted parent versions receive no annotations** -/
theorem deleted_parent_untouched (o : Options) (parents : List ParentV) (fid : Nat) (cl : List Child) (pidx : Nat)
    (idxs : List Nat) (p : ParentV) (hp : parents[pidx]? = some p) (hvis : p.visible = false) :
    groupEffect o parents fid cl pidx idxs = .ok none := by
  simp [groupEffect, hp, hvis]

/-- **missing child history**: the documented typed error, unless the option says to ignore it -/
theorem no_history_error (o : Options) (parents : List ParentV) (hist : Nat → Option (List Child)) (fid : Nat)
    (h : hist fid = none) :
    childEffects o parents hist fid = if o.ignoreMissing then .ok [] else .error (.noHistory fid) := by
  simp [childEffects, h]

/-- **no visible child at the parent's time**: the documented typed error carrying that time, unless ignored -/
theorem no_visible_child_error (o : Options) (parents : List ParentV) (fid : Nat) (cl : List Child) (tl : Timeline cl)
    (pidx : Nat) (idxs : List Nat) (p : ParentV) (hp : parents[pidx]? = some p) (hvis : p.visible = true)
    (P : Int) (hP : ParentCommit p P) (hno : currentAt cl P = none) (hig : o.ignoreInconsistency = false) :
    groupEffect o parents fid cl pidx idxs = .error (.noVisibleChild fid P) := by
  unfold groupEffect
  simp [hp, hvis, parentTime hP, child_is_current_at_commit cl tl, hno, hig]

/-- **child deleted between parent versions**: an invisible version inside the update range is an error
    unless inconsistencies are ignored, in which case it is skipped -/
theorem child_deleted_between_error (o : Options) (pidx fid : Nat) (cl : List Child) (idxs : List Nat)
    (start k : Nat) (c : Child) (hk : cl[k]? = some c) (hs : start ≤ k) (hinv : c.visible = false)
    (hbefore : ∀ k' c', start ≤ k' → k' < k → cl[k']? = some c' → c'.visible = true) :
    rangeUpdates o pidx fid cl idxs start (k + 1) =
      if o.ignoreInconsistency then .ok ((versionRange start k).flatMap (versionUpdates cl idxs))
      else .error (.deletedBetween pidx fid) := by
  unfold rangeUpdates
  have : ¬ start > k := by omega
  simp only [this, if_false]
  rw [rangeUpdates_ok o pidx fid cl idxs k start hbefore]
  simp [bind, Except.bind, hk, hinv]

/-! ## the timestamp regime (no commit times): time travel once the grouping threshold has passed

Before `osm.CommitInfoStart` there are no commit times: the child reference is chosen by `FindVisible`'s
grouping heuristic (closest visible version within the threshold around the parent's time stamp, versions
stamped after it only when they belong to the parent's changeset), so *which* version the reference carries in
`[ts pᵢ, ts pᵢ + threshold)` is the heuristic's choice and nothing is claimed there. From `ts pᵢ + threshold`
up to `ts pᵢ₊₁ - threshold` ("before the next version, less the grouping threshold") the claim is the same as
in the commit-time regime, with time stamps as ground truth. -/

/-- a child history as the datasource hands it over, in the timestamp regime -/
structure TsTimeline (cl : List Child) : Prop where
  regime : TsRegime cl
  sorted : TsSorted cl
  indexed : WellIndexed cl

def ParentTs (p : ParentV) : Prop := beforeStart p.committed = true

theorem parentTimeTs {p : ParentV} (h : ParentTs p) (esp : Int) : timeThresholdParent p esp = p.ts + esp := by
  unfold ParentTs at h
  simp [timeThresholdParent, h]

theorem countTs_mono (cl : List Child) {t u : Int} (h : t ≤ u) : countTs cl t ≤ countTs cl u := by
  unfold countTs
  induction cl with
  | nil => simp
  | cons c rest ih =>
    simp only [List.filter_cons]
    by_cases h1 : tsOf c ≤ t
    · have : tsOf c ≤ u := by omega
      simp [h1, this]; exact ih
    · by_cases h2 : tsOf c ≤ u
      · simp [h1, h2]; omega
      · simp [h1, h2]; exact ih

theorem countTs_le_countTsBefore (cl : List Child) {t u : Int} (h : t < u) : countTs cl t ≤ countTsBefore cl u := by
  unfold countTs countTsBefore
  induction cl with
  | nil => simp
  | cons c rest ih =>
    simp only [List.filter_cons]
    by_cases h1 : tsOf c ≤ t
    · have : tsOf c < u := by omega
      simp [h1, this]; exact ih
    · by_cases h2 : tsOf c < u
      · simp [h1, h2]; omega
      · simp [h1, h2]; exact ih

/-- **the version the child reference gets in the timestamp regime**: a visible version of the child stamped no
    later than the parent's time stamp plus the threshold, and no later than the parent's time stamp itself
    unless it belongs to the parent's changeset (forward grouping is same-changeset only) -/
theorem child_choice_ts (cl : List Child) (tl : TsTimeline cl) (cid T eps : Int) (heps : 0 ≤ eps) (a : Child)
    (h : findVisible cl cid T eps = some a) :
    a ∈ cl ∧ a.visible = true ∧ a.ts ≤ T + eps ∧ (a.ts ≤ T ∨ a.changeset = cid) :=
  findVisible_ts_sound cl cid T eps heps tl.regime a h

/-- the update range reaches every version stamped before the next parent version less the threshold -/
theorem nextVersion_covers_ts (cl : List Child) (tl : TsTimeline cl) (o : Options) (heps : 0 ≤ o.threshold)
    (a : Child) (ha : a ∈ cl) (t : Int) (hat : a.ts ≤ t) (np : Option ParentV)
    (hnp : match np with
      | none => True
      | some n => ParentTs n ∧ t < n.ts - o.threshold) :
    countTs cl t ≤ nextVersionIndex (some a) cl np o := by
  cases np with
  | none =>
    unfold nextVersionIndex
    have hne : cl ≠ [] := by intro e; subst e; cases ha
    cases hl : cl.getLast? with
    | none => simp [List.getLast?_eq_none_iff] at hl; exact absurd hl hne
    | some l =>
      simp only
      have hpos : cl[cl.length - 1]? = some l := by rw [← List.getLast?_eq_getElem?]; exact hl
      have := tl.indexed _ _ hpos
      have := countTs_le_length cl t
      have : cl.length ≠ 0 := by intro e; exact hne (List.length_eq_zero_iff.mp e)
      omega
  | some n =>
    obtain ⟨hn, htN⟩ := hnp
    unfold nextVersionIndex
    simp only [parentTimeTs hn]
    cases hnx : findVisible cl n.changeset (n.ts + 0) o.threshold with
    | some nx =>
      simp only
      obtain ⟨hmem, _, _, _⟩ := findVisible_ts_sound cl _ _ _ heps tl.regime nx hnx
      have hpos := mem_position cl tl.indexed nx hmem
      rw [timeThreshold_ts (tl.regime nx hmem)]
      by_cases hlt : nx.ts + 0 < n.ts + -o.threshold
      · simp only [hlt, if_true]
        -- nx is stamped before the window: it is the last such version
        unfold findVisible at hnx
        rcases fvLoop_ts_before _ _ _ _ heps cl (-1) none nx tl.regime tl.sorted (wellIndexed_pairwise cl tl.indexed) hnx
            (by omega) with ⟨e, _⟩ | ⟨_, hall⟩
        · cases e
        · apply Nat.le_of_not_lt
          intro hh
          have hlen := countTs_le_length cl t
          have hk : nx.vindex + 1 < cl.length := by omega
          have hx := List.getElem?_eq_getElem hk
          have hle := (ts_le_iff_lt_count cl t tl.sorted _ _ hx).mpr hh
          have hxi := tl.indexed _ _ hx
          have hts : tsOf cl[nx.vindex + 1] = cl[nx.vindex + 1].ts := rfl
          have := hall _ (List.getElem_mem hk) (by omega)
          omega
      · simp only [hlt, if_false]
        apply Nat.le_of_not_lt
        intro hh
        have hle := (ts_le_iff_lt_count cl t tl.sorted _ _ hpos).mpr hh
        have hts : tsOf nx = nx.ts := rfl
        omega
    | none =>
      simp only
      rw [timeThreshold_ts (tl.regime a ha)]
      have hgt : n.ts + -o.threshold > a.ts + 0 := by omega
      simp only [hgt, not_true_eq_false, if_false]
      rw [versionBefore_ts cl _ tl.regime tl.sorted, ts_filter_lt_eq_take cl _ tl.sorted]
      have hcb := countTs_le_countTsBefore cl (show t < n.ts + -o.threshold by omega)
      have hbl := countTsBefore_le_length cl (n.ts + -o.threshold)
      cases hg : (cl.take (countTsBefore cl (n.ts + -o.threshold))).getLast? with
      | none =>
        have h0 : cl.take (countTsBefore cl (n.ts + -o.threshold)) = [] := List.getLast?_eq_none_iff.mp hg
        rcases List.take_eq_nil_iff.mp h0 with h | h
        · simp; omega
        · subst h; cases ha
      | some b =>
        simp only
        rw [List.getLast?_eq_getElem?, List.length_take, Nat.min_eq_left hbl] at hg
        have hb0 : countTsBefore cl (n.ts + -o.threshold) ≠ 0 := by
          intro e; rw [e] at hg; simp at hg
        rw [List.getElem?_take_of_lt (by omega)] at hg
        have := tl.indexed _ _ hg
        omega

/-- splitting an ascending version range at `m` -/
theorem range_split (f : Nat → Option Update) (start m : Nat) (hsm : start ≤ m) :
    ∀ stop, m ≤ stop →
      (versionRange start stop).flatMap (fun k => if k < m then (f k).toList else []) = (versionRange start m).filterMap f := by
  intro stop
  induction stop with
  | zero =>
    intro h
    have : m = 0 := by omega
    simp [versionRange, this]
  | succ s ih =>
    intro hcov
    rw [versionRange_succ, List.flatMap_append]
    by_cases hs : m ≤ s
    · rw [ih hs]
      by_cases h1 : start ≤ s
      · have : ¬ s < m := by omega
        simp [h1, this]
      · simp [h1]
    · have hs' : m = s + 1 := by omega
      have hall : ∀ k ∈ versionRange start s, k < m := by
        intro k hk; have := (mem_versionRange _ _ _).mp hk; omega
      have e1 := flatMap_if_all f m hall
      rw [e1, hs', versionRange_succ, List.filterMap_append]
      by_cases h1 : start ≤ s
      · have : s < s + 1 := by omega
        simp only [h1, if_true, List.flatMap_cons, List.flatMap_nil, List.append_nil, this, List.filterMap_cons, List.filterMap_nil]
        cases f s <;> simp
      · simp [h1]

/-- **time travel in the timestamp regime**: once the grouping threshold has passed (`ts pᵢ + threshold ≤ t`) and
    up to the next parent version less the threshold (`t < ts pᵢ₊₁ - threshold`), the child reference `a` was
    stamped at or before `t`, and the updates addressed to child slot `j` and stamped at or before `t` are exactly
    the child versions after `a` stamped at or before `t`, oldest first, each stamped with its own time stamp —
    so applying them leaves the last version stamped at or before `t`, the one that was current at `t` -/
theorem time_travel_ts (o : Options) (heps : 0 ≤ o.threshold) (parents : List ParentV) (fid : Nat) (cl : List Child)
    (tl : TsTimeline cl) (pidx : Nat) (idxs : List Nat) (hnd : idxs.Nodup) (p : ParentV) (hp : parents[pidx]? = some p)
    (hvis : p.visible = true) (hP : ParentTs p) (a : Child)
    (hch : findVisible cl p.changeset p.ts o.threshold = some a)
    (hcons : ∀ k c, a.vindex + 1 ≤ k → k < nextVersionIndex (some a) cl parents[pidx + 1]? o →
      cl[k]? = some c → c.visible = true)
    (t : Int) (hPt : p.ts + o.threshold ≤ t)
    (hnext : match parents[pidx + 1]? with
      | none => True
      | some n => ParentTs n ∧ t < n.ts - o.threshold)
    (j : Nat) (hj : j ∈ idxs) :
    ∃ e, groupEffect o parents fid cl pidx idxs = .ok (some e) ∧
      e.sets = idxs.map (fun i => (i, a)) ∧
      a.vindex + 1 ≤ countTs cl t ∧
      e.updates.filter (fun u => decide (u.index = j ∧ u.ts ≤ t)) =
        (versionRange (a.vindex + 1) (countTs cl t)).filterMap (fun k => cl[k]?.map (fun c => c.update j)) := by
  obtain ⟨hmem, hav, hats, _⟩ := findVisible_ts_sound cl _ _ _ heps tl.regime a hch
  have hpos := mem_position cl tl.indexed a hmem
  have hat : a.ts ≤ t := by omega
  have hstart : a.vindex + 1 ≤ countTs cl t := by
    have := (ts_le_iff_lt_count cl t tl.sorted _ _ hpos).mp (by simpa [tsOf] using hat)
    omega
  have hge : groupEffect o parents fid cl pidx idxs = .ok (some
      { parent := pidx, sets := idxs.map (fun i => (i, a)),
        updates := (versionRange (a.vindex + 1) (nextVersionIndex (some a) cl parents[pidx + 1]? o)).flatMap
          (versionUpdates cl idxs) }) := by
    unfold groupEffect
    have h0 : p.ts + 0 = p.ts := by omega
    simp only [hp, hvis, not_true_eq_false, if_false, parentTimeTs hP, h0, hch,
      Option.isNone_some, Bool.false_eq_true, false_and]
    rw [rangeUpdates_ok o pidx fid cl idxs _ _ hcons]
  refine ⟨_, hge, rfl, hstart, ?_⟩
  simp only
  have hcov := nextVersion_covers_ts cl tl o heps a hmem t hat parents[pidx + 1]? hnext
  generalize nextVersionIndex (some a) cl parents[pidx + 1]? o = stop at hcov
  have hver : ∀ k, (versionUpdates cl idxs k).filter (fun u => decide (u.index = j ∧ u.ts ≤ t)) =
      if k < countTs cl t then (cl[k]?.map (fun c => c.update j)).toList else [] := by
    intro k
    unfold versionUpdates
    cases hk : cl[k]? with
    | none => simp
    | some c =>
      have hst : updateTimestamp c.ts c.committed = c.ts := by
        simp [updateTimestamp, tl.regime c (List.mem_of_getElem? hk)]
      have hf : ∀ i, (c.update i).index = i ∧ (c.update i).ts = c.ts := fun i => by simp [Child.update, hst]
      have hiff := ts_le_iff_lt_count cl t tl.sorted k c hk
      have hco : tsOf c = c.ts := rfl
      rw [hco] at hiff
      simp only [Option.map_some, Option.toList_some]
      by_cases hlt : k < countTs cl t
      · have hle : c.ts ≤ t := hiff.mpr hlt
        simp only [hlt, if_true]
        rw [List.filter_map]
        have : idxs.filter ((fun u => decide (u.index = j ∧ u.ts ≤ t)) ∘ fun i => c.update i) = [j] := by
          have hfun : ((fun u => decide (u.index = j ∧ u.ts ≤ t)) ∘ fun i => c.update i) = fun i => decide (i = j) := by
            funext i
            simp [(hf i).1, (hf i).2, hle]
          rw [hfun]
          exact filter_eq_singleton idxs hnd j hj
        rw [this]; rfl
      · simp only [hlt, if_false]
        rw [List.filter_eq_nil_iff]
        intro u hu
        obtain ⟨i, _, rfl⟩ := List.mem_map.mp hu
        have : ¬ c.ts ≤ t := fun h => hlt (hiff.mp h)
        simp [(hf i).2, this]
  rw [List.filter_flatMap]
  simp only [hver]
  exact range_split _ _ _ hstart stop hcov

/-- the last element of "reference, then the applied updates" is the version at position `countTs t - 1`,
    i.e. the last version stamped at or before `t` (`lastTs`) -/
theorem time_travel_ts_last (cl : List Child) (tl : TsTimeline cl) (t : Int) (h0 : countTs cl t ≠ 0) :
    lastTs cl t = cl[countTs cl t - 1]? := by
  rw [lastTs_eq_getElem cl t tl.sorted]; simp [h0]

/-! ## non-vacuity: a three-version node under two way versions -/
def exCl : List Child := [
  ⟨1, 10, 0, 1400000000, some 1400000000, 1, 1, true, false⟩,
  ⟨2, 11, 1, 1400000100, some 1400000100, 2, 2, true, false⟩,
  ⟨3, 12, 2, 1400000300, some 1400000300, 3, 3, true, false⟩]
def exParents : List ParentV := [⟨10, true, 1400000050, some 1400000050, [(7, false)]⟩, ⟨12, true, 1400000300, some 1400000300, [(7, false)]⟩]
example : Timeline exCl := by
  refine ⟨?_, by unfold CommitSorted; decide, ?_⟩
  · intro c hc
    simp only [exCl, List.mem_cons, List.not_mem_nil, or_false] at hc
    rcases hc with rfl | rfl | rfl
    · exact ⟨1400000000, rfl, by decide⟩
    · exact ⟨1400000100, rfl, by decide⟩
    · exact ⟨1400000300, rfl, by decide⟩
  · intro k c h
    match k with
    | 0 => simp [exCl] at h; subst h; rfl
    | 1 => simp [exCl] at h; subst h; rfl
    | 2 => simp [exCl] at h; subst h; rfl
    | k + 3 => simp [exCl] at h
/-- a history with a deleted version inside the update range: the documented error, or skipped when ignored -/
def exDel : List Child := [
  ⟨1, 10, 0, 1400000000, some 1400000000, 1, 1, true, false⟩,
  ⟨2, 11, 1, 1400000100, some 1400000100, 0, 0, false, false⟩,
  ⟨3, 12, 2, 1400000200, some 1400000200, 3, 3, true, false⟩]
example : (match groupEffect ⟨1800, false, false, 0⟩ exParents 7 exDel 0 [0] with
    | .error (.deletedBetween p f) => some (p, f)
    | _ => none) = some (0, 7) := by decide
example : (match groupEffect ⟨1800, true, false, 0⟩ exParents 7 exDel 0 [0] with
    | .ok (some e) => e.updates.map (·.version)
    | _ => []) = [3] := by decide
example : currentAt exCl 1400000050 = some ⟨1, 10, 0, 1400000000, some 1400000000, 1, 1, true, false⟩ := by decide
example : (match groupEffect ⟨1800, false, false, 0⟩ exParents 7 exCl 0 [0] with
    | .ok (some e) => e.updates.map (·.version)
    | _ => []) = [2] := by decide

/-! non-vacuity in the timestamp regime: 2009 data, threshold 30 min; the node's second version belongs to the
way's changeset and follows it by 5 s (grouped forward), the third comes an hour later -/
def exTs : List Child := [
  ⟨1, 10, 0, 1250000000, none, 1, 1, true, false⟩,
  ⟨2, 11, 1, 1250001005, none, 2, 2, true, false⟩,
  ⟨3, 12, 2, 1250004600, none, 3, 3, true, false⟩]
def exTsParents : List ParentV := [⟨11, true, 1250001000, none, [(7, false)]⟩, ⟨13, true, 1250010000, none, [(7, false)]⟩]
example : TsTimeline exTs := by
  refine ⟨by unfold TsRegime; decide, by unfold TsSorted; decide, ?_⟩
  intro k c h
  match k with
  | 0 => simp [exTs] at h; subst h; rfl
  | 1 => simp [exTs] at h; subst h; rfl
  | 2 => simp [exTs] at h; subst h; rfl
  | k + 3 => simp [exTs] at h
example : findVisible exTs 11 1250001000 1800 = some ⟨2, 11, 1, 1250001005, none, 2, 2, true, false⟩ := by decide
example : (match groupEffect ⟨1800, false, false, 0⟩ exTsParents 7 exTs 0 [0] with
    | .ok (some e) => e.updates.map (fun u => (u.version, u.ts))
    | _ => []) = [(3, 1250004600)] := by decide
example : countTs exTs 1250005000 = 3 := by decide

theorem exTs_timeline : TsTimeline exTs := by
  refine ⟨by unfold TsRegime; decide, by unfold TsSorted; decide, ?_⟩
  intro k c h
  match k with
  | 0 => simp [exTs] at h; subst h; rfl
  | 1 => simp [exTs] at h; subst h; rfl
  | 2 => simp [exTs] at h; subst h; rfl
  | k + 3 => simp [exTs] at h

/-- every hypothesis of `time_travel_ts` is met by this history at `t = 1250005000`: the conclusion is the single
    update of version 3 -/
example : ∃ e, groupEffect ⟨1800, false, false, 0⟩ exTsParents 7 exTs 0 [0] = .ok (some e) ∧
    e.updates.filter (fun u => decide (u.index = 0 ∧ u.ts ≤ 1250005000)) =
      (versionRange 2 3).filterMap (fun k => exTs[k]?.map (fun c => c.update 0)) := by
  have h := time_travel_ts ⟨1800, false, false, 0⟩ (by decide) exTsParents 7 exTs exTs_timeline 0 [0] (by decide)
    ⟨11, true, 1250001000, none, [(7, false)]⟩ rfl rfl (by unfold ParentTs; decide)
    ⟨2, 11, 1, 1250001005, none, 2, 2, true, false⟩ (by decide)
    (by
      intro k c h1 _ h3
      match k with
      | 0 => simp at h1
      | 1 => simp at h1
      | 2 => simp [exTs] at h3; subst h3; rfl
      | k + 3 => simp [exTs] at h3)
    1250005000 (by decide) (by
      show ParentTs _ ∧ _
      exact ⟨by unfold ParentTs; decide, by decide⟩) 0 (by simp)
  obtain ⟨e, he, _, _, hu⟩ := h
  refine ⟨e, he, ?_⟩
  have hc : countTs exTs 1250005000 = 3 := by decide
  rw [hc] at hu
  exact hu

theorem exCl_timeline : Timeline exCl := by
  refine ⟨?_, by unfold CommitSorted; decide, ?_⟩
  · intro c hc
    simp only [exCl, List.mem_cons, List.not_mem_nil, or_false] at hc
    rcases hc with rfl | rfl | rfl
    · exact ⟨1400000000, rfl, by decide⟩
    · exact ⟨1400000100, rfl, by decide⟩
    · exact ⟨1400000300, rfl, by decide⟩
  · intro k c h
    match k with
    | 0 => simp [exCl] at h; subst h; rfl
    | 1 => simp [exCl] at h; subst h; rfl
    | 2 => simp [exCl] at h; subst h; rfl
    | k + 3 => simp [exCl] at h

/-- every hypothesis of `time_travel` (commit-time regime) is met by `exCl` under the first way version at
    `t = 1400000200`: the way shows version 1 at its commit, and exactly the update of version 2 up to `t` -/
example : ∃ e, groupEffect ⟨1800, false, false, 0⟩ exParents 7 exCl 0 [0] = .ok (some e) ∧
    e.updates.filter (fun u => decide (u.index = 0 ∧ u.ts ≤ 1400000200)) =
      (versionRange 1 2).filterMap (fun k => exCl[k]?.map (fun c => c.update 0)) := by
  have h := time_travel ⟨1800, false, false, 0⟩ exParents 7 exCl exCl_timeline 0 [0] (by decide)
    ⟨10, true, 1400000050, some 1400000050, [(7, false)]⟩ rfl rfl 1400000050 ⟨rfl, by decide⟩
    ⟨1, 10, 0, 1400000000, some 1400000000, 1, 1, true, false⟩ (by decide)
    (by
      intro k c _ _ h3
      match k with
      | 0 => simp [exCl] at h3; subst h3; rfl
      | 1 => simp [exCl] at h3; subst h3; rfl
      | 2 => simp [exCl] at h3; subst h3; rfl
      | k + 3 => simp [exCl] at h3)
    1400000200 (by decide) (by
      show ∃ N, ParentCommit _ N ∧ _
      exact ⟨1400000300, ⟨rfl, by decide⟩, by decide⟩) 0 (by simp)
  obtain ⟨e, he, _, hu⟩ := h
  refine ⟨e, he, ?_⟩
  have h1 : countAt exCl 1400000050 = 1 := by decide
  have h2 : countAt exCl 1400000200 = 2 := by decide
  rw [h1, h2] at hu
  exact hu

end OsmVerif.Props.C11
