import OsmVerif.Model.PbfScan
import OsmVerif.Lemmas.Pbf
/-!
# C08 — skip flags and filters select an unmodified subsequence

`Model.PbfScan.scanBlock` follows `scanPrimitiveGroup` / `extractDenseNodes`: one accumulator per kind,
messages set what they carry, an accepted element is handed out and the accumulator replaced, a rejected
one is overwritten by the literal found in the source. The theorems show that for every selection and every
valid block this is exactly the filter of the unfiltered decode.
-/
namespace OsmVerif.Props.C08
open OsmVerif.Gen.Pbf OsmVerif.Model.Pbf OsmVerif.Model.PbfScan

/-- the replacement / overwrite statements, as read from the source -/
abbrev RU : Reuses := specReuses

theorem reuses_eq : reuses = some RU := by decide

/-- each element kind is skipped by its own flag, at the level of the primitive group field -/
theorem skip_guards :
    skipGuards = [("1", ""), ("2", "!dec.scanner.SkipNodes"), ("3", "!dec.scanner.SkipWays"), ("4", "!dec.scanner.SkipRelations")] := by
  decide

/-- the accumulators the element loops start from are new objects with only `Visible` set, as `freshWay` /
    `freshRel` / `freshNode` are -/
theorem initial_accumulators_fresh :
    initialAccumulators = ["way := &osm.Way{Visible: true}", "relation := &osm.Relation{Visible: true}", "n := &osm.Node{Visible: true}"] := by
  decide

/-- **a reused accumulator carries nothing over**: after an accepted and after a rejected element the
    accumulator is indistinguishable from a new one, whatever the element held -/
theorem reuse_is_fresh (w : Way) (r : Rel) (n : Node) :
    applyWay RU.way.accept w = freshWay ∧ applyWay RU.way.reject w = freshWay ∧
    applyRel RU.rel.accept r = freshRel ∧ applyRel RU.rel.reject r = freshRel ∧
    applyNode RU.node.accept n = freshNode ∧ applyNode RU.node.reject n = freshNode := by
  refine ⟨?_, ?_, ?_, ?_, ?_, ?_⟩ <;> rfl

/-! ## a message on top of a fresh accumulator is the decoded element -/

theorem mergeMeta_fresh (dg : Int) (st : List String) (info : Option Info) (m : Meta) (h : decodeInfo dg st info = some m) :
    mergeMeta {} info m = m := by
  cases info with
  | none => simp [decodeInfo] at h; simp [mergeMeta, h]
  | some i =>
    simp only [decodeInfo, Option.map_eq_some_iff] at h
    obtain ⟨user, _, hm⟩ := h
    subst hm
    rcases i with ⟨ver, ts, cs, uid, sid, vis⟩
    cases ver <;> cases ts <;> cases cs <;> cases uid <;> cases sid <;> cases vis <;> simp_all [mergeMeta]

theorem decodeWay_parts (gran dg la lo : Int) (st : List String) (w : WayMsg) (d : Way)
    (h : decodeWay gran dg la lo st w = some d) :
    decodeInfo dg st w.info = some d.md ∧ decodeTags st w.keys w.vals = some d.tags ∧ d.id = w.id ∧
    (w.refs = none → d.nodes = []) := by
  unfold decodeWay at h
  simp only at h
  split at h
  · rename_i m tags lats lons hm ht _ _
    cases h
    refine ⟨hm, ht, rfl, ?_⟩
    intro hr
    simp [hr, undelta]
  · cases h

theorem decodeTags_absent (st : List String) (k v : Option (List Int)) (tags : List (String × String))
    (h : decodeTags st k v = some tags) (hn : ¬ (k.isSome ∧ v.isSome)) : tags = [] := by
  cases k <;> cases v
  · simp [decodeTags] at h; exact h
  · simp only [decodeTags] at h
    split at h
    · cases h; rfl
    · cases h
  · simp only [decodeTags] at h
    split at h
    · cases h; rfl
    · cases h
  · simp at hn

theorem mergeWay_fresh (gran dg la lo : Int) (st : List String) (w : WayMsg) :
    mergeWay gran dg la lo st freshWay w = decodeWay gran dg la lo st w := by
  unfold mergeWay
  cases h : decodeWay gran dg la lo st w with
  | none => rfl
  | some d =>
    obtain ⟨hm, ht, hid, hn⟩ := decodeWay_parts _ _ _ _ _ _ _ h
    simp only [Option.map_some, Option.some.injEq]
    have e1 : mergeMeta freshWay.md w.info d.md = d.md := mergeMeta_fresh dg st w.info d.md hm
    have e2 : (if w.keys.isSome ∧ w.vals.isSome then d.tags else freshWay.tags) = d.tags := by
      by_cases c : w.keys.isSome ∧ w.vals.isSome
      · simp [c]
      · simp only [c, if_false]; exact (decodeTags_absent st _ _ _ ht c).symm
    have e3 : (if w.refs.isSome then d.nodes else freshWay.nodes) = d.nodes := by
      cases hr : w.refs with
      | none => simp [hn hr, freshWay]
      | some _ => simp
    rw [e1, e2, e3]

theorem decodeRel_parts (dg : Int) (st : List String) (r : RelMsg) (d : Rel) (h : decodeRel dg st r = some d) :
    decodeInfo dg st r.info = some d.md ∧ decodeTags st r.keys r.vals = some d.tags ∧
    (¬ (r.roles.isSome ∧ r.memids.isSome ∧ r.types.isSome) → d.members = []) := by
  unfold decodeRel at h
  simp only at h
  split at h
  · cases h
  · rename_i hlen
    split at h
    · rename_i m tags members hm ht hmem
      cases h
      refine ⟨hm, ht, ?_⟩
      intro hnot
      -- one of the three columns is absent, so (lengths agree) there are no members
      have hz : (undelta (r.memids.getD [])).length = 0 := by
        simp only [not_or, Decidable.not_not] at hlen
        rcases r with ⟨_, _, _, _, roles, memids, types⟩
        cases roles <;> cases memids <;> cases types <;> simp_all [undelta]
      rw [hz] at hmem
      simp at hmem
      exact hmem
    · cases h

theorem mergeRel_fresh (dg : Int) (st : List String) (r : RelMsg) : mergeRel dg st freshRel r = decodeRel dg st r := by
  unfold mergeRel
  cases h : decodeRel dg st r with
  | none => rfl
  | some d =>
    obtain ⟨hm, ht, hn⟩ := decodeRel_parts _ _ _ _ h
    have hid : d.id = r.id := by
      unfold decodeRel at h
      simp only at h
      split at h
      · cases h
      · split at h
        · cases h; rfl
        · cases h
    simp only [Option.map_some, Option.some.injEq]
    have e1 : mergeMeta freshRel.md r.info d.md = d.md := mergeMeta_fresh dg st r.info d.md hm
    have e2 : (if r.keys.isSome ∧ r.vals.isSome then d.tags else freshRel.tags) = d.tags := by
      by_cases c : r.keys.isSome ∧ r.vals.isSome
      · simp [c]
      · simp only [c, if_false]; exact (decodeTags_absent st _ _ _ ht c).symm
    have e3 : (if r.roles.isSome ∧ r.memids.isSome ∧ r.types.isSome then d.members else freshRel.members) = d.members := by
      by_cases c : r.roles.isSome ∧ r.memids.isSome ∧ r.types.isSome
      · simp [c]
      · simp only [c, if_false]; exact (hn c).symm
    rw [e1, e2, e3]

theorem getCol_absent (hasInfo : Bool) (c : Option (List Int)) (i : Nat) (v : Option Int)
    (h : getCol (if hasInfo then c else none) i = some v) (hn : ¬ (hasInfo = true ∧ c.isSome = true)) : v = none := by
  cases hasInfo
  · simp [getCol] at h; exact h.symm
  · cases c with
    | none => simp [getCol] at h; exact h.symm
    | some _ => simp at hn

theorem getCol_absent' (hasInfo : Bool) (c : Option (List Int)) (i : Nat) (v : Option Int)
    (h : getCol (Option.map undelta (if hasInfo then c else none)) i = some v) (hn : ¬ (hasInfo = true ∧ c.isSome = true)) : v = none := by
  cases hasInfo
  · simp [getCol] at h; exact h.symm
  · cases c with
    | none => simp [getCol] at h; exact h.symm
    | some _ => simp at hn

theorem mergeNode_fresh (gran dg la lo : Int) (st : List String) (d : Dense) (ns : List Node)
    (h : decodeDense gran dg la lo st d = some ns) : ∀ n ∈ ns, mergeNode d freshNode n = n := by
  unfold decodeDense at h
  simp only at h
  split at h
  · cases h
  · split at h
    · cases h
    · intro n hn
      obtain ⟨i, _, hf⟩ := mapM_mem _ _ _ h n hn
      clear h hn
      split at hf
      · rename_i v t c u s vi hv ht hc hu hs hvi
        simp only [Option.map_eq_some_iff] at hf
        obtain ⟨user, huser, hn'⟩ := hf
        subst hn'
        have e1 := getCol_absent _ _ _ _ hv
        have e2 := getCol_absent' _ _ _ _ ht
        have e3 := getCol_absent' _ _ _ _ hc
        have e4 := getCol_absent' _ _ _ _ hu
        have e5 := getCol_absent' _ _ _ _ hs
        have e6 := getCol_absent _ _ _ _ hvi
        clear hv ht hc hu hs hvi
        unfold mergeNode
        simp only [freshNode, List.nil_append]
        congr 1
        by_cases c1 : d.hasInfo = true ∧ d.ver.isSome = true <;> by_cases c2 : d.hasInfo = true ∧ d.ts.isSome = true <;>
        by_cases c3 : d.hasInfo = true ∧ d.cs.isSome = true <;> by_cases c4 : d.hasInfo = true ∧ d.uid.isSome = true <;>
        by_cases c5 : d.hasInfo = true ∧ d.sid.isSome = true <;> by_cases c6 : d.hasInfo = true ∧ d.vis.isSome = true <;>
          simp_all
      · cases hf

theorem scanWays_eq (keep : Way → Bool) (merge : Way → WayMsg → Option Way) (dec : WayMsg → Option Way)
    (hm : ∀ w, merge freshWay w = dec w) (ws : List WayMsg) :
    scanWays RU.way keep merge freshWay ws = (ws.mapM dec).map (·.filter keep) := by
  induction ws with
  | nil => simp [scanWays]
  | cons m ms ih =>
    rw [scanWays, hm, List.mapM_cons]
    cases hd : dec m with
    | none => simp
    | some w =>
      have e1 := (reuse_is_fresh w freshRel freshNode).1
      have e2 := (reuse_is_fresh w freshRel freshNode).2.1
      simp only [e1, e2, ih]
      cases ms.mapM dec with
      | none => by_cases k : keep w = true <;> simp [k]
      | some r => by_cases k : keep w = true <;> simp [k, List.filter_cons]

theorem scanRels_eq (keep : Rel → Bool) (merge : Rel → RelMsg → Option Rel) (dec : RelMsg → Option Rel)
    (hm : ∀ r, merge freshRel r = dec r) (rs : List RelMsg) :
    scanRels RU.rel keep merge freshRel rs = (rs.mapM dec).map (·.filter keep) := by
  induction rs with
  | nil => simp [scanRels]
  | cons m ms ih =>
    rw [scanRels, hm, List.mapM_cons]
    cases hd : dec m with
    | none => simp
    | some r =>
      have e1 := (reuse_is_fresh freshWay r freshNode).2.2.1
      have e2 := (reuse_is_fresh freshWay r freshNode).2.2.2.1
      simp only [e1, e2, ih]
      cases ms.mapM dec with
      | none => by_cases k : keep r = true <;> simp [k]
      | some l => by_cases k : keep r = true <;> simp [k, List.filter_cons]

theorem scanNodes_eq (keep : Node → Bool) (d : Dense) (ns : List Node) (hm : ∀ n ∈ ns, mergeNode d freshNode n = n) :
    scanNodes RU.node keep d freshNode ns = ns.filter keep := by
  induction ns with
  | nil => simp [scanNodes]
  | cons n rest ih =>
    rw [scanNodes]
    simp only [hm n (by simp)]
    have e1 := (reuse_is_fresh freshWay freshRel n).2.2.2.2.1
    have e2 := (reuse_is_fresh freshWay freshRel n).2.2.2.2.2
    simp only [e1, e2, ih (fun x hx => hm x (by simp [hx])), List.filter_cons]

theorem filter_map_node (s : Select) (ns : List Node) :
    (ns.map Obj.node).filter s.keep = if s.skipNodes then [] else (ns.filter s.node).map Obj.node := by
  induction ns with
  | nil => simp
  | cons n rest ih =>
    simp only [List.map_cons, List.filter_cons, ih, Select.keep]
    cases s.skipNodes <;> cases s.node n <;> simp

theorem filter_map_way (s : Select) (ws : List Way) :
    (ws.map Obj.way).filter s.keep = if s.skipWays then [] else (ws.filter s.way).map Obj.way := by
  induction ws with
  | nil => simp
  | cons n rest ih =>
    simp only [List.map_cons, List.filter_cons, ih, Select.keep]
    cases s.skipWays <;> cases s.way n <;> simp

theorem filter_map_rel (s : Select) (rs : List Rel) :
    (rs.map Obj.rel).filter s.keep = if s.skipRels then [] else (rs.filter s.rel).map Obj.rel := by
  induction rs with
  | nil => simp
  | cons n rest ih =>
    simp only [List.map_cons, List.filter_cons, ih, Select.keep]
    cases s.skipRels <;> cases s.rel n <;> simp

/-- one group -/
theorem scanGroup_eq_filter (s : Select) (gran dg la lo : Int) (st : List String) (g : Group) (os : List Obj)
    (h : decodeGroup gran dg la lo st g = some os) : scanGroup RU s gran dg la lo st g = some (os.filter s.keep) := by
  cases g with
  | dense d =>
    simp only [decodeGroup, Option.map_eq_some_iff] at h
    obtain ⟨ns, hns, e⟩ := h
    subst e
    simp only [scanGroup, hns, Option.map_some, filter_map_node]
    cases s.skipNodes
    · simp [scanNodes_eq s.node d ns (mergeNode_fresh _ _ _ _ _ _ _ hns)]
    · simp
  | ways ws =>
    simp only [decodeGroup, Option.map_eq_some_iff] at h
    obtain ⟨l, hl, e⟩ := h
    subst e
    simp only [scanGroup, filter_map_way]
    cases s.skipWays
    · simp [scanWays_eq s.way _ _ (mergeWay_fresh gran dg la lo st) ws, hl]
    · simp
  | rels rs =>
    simp only [decodeGroup, Option.map_eq_some_iff] at h
    obtain ⟨l, hl, e⟩ := h
    subst e
    simp only [scanGroup, filter_map_rel]
    cases s.skipRels
    · simp [scanRels_eq s.rel _ _ (mergeRel_fresh dg st) rs, hl]
    · simp

theorem mapM_filter {α} (f g : α → Option (List Obj)) (keep : Obj → Bool) (l : List α) (r : List (List Obj))
    (h : l.mapM f = some r) (hg : ∀ x os, f x = some os → g x = some (os.filter keep)) :
    l.mapM g = some (r.map (·.filter keep)) := by
  induction l generalizing r with
  | nil => simp at h; subst h; simp
  | cons a rest ih =>
    rw [List.mapM_cons] at h
    cases ha : f a with
    | none => simp [ha] at h
    | some os =>
      cases hr : rest.mapM f with
      | none => simp [ha, hr] at h
      | some rs =>
        simp [ha, hr] at h
        subst h
        rw [List.mapM_cons, hg a os ha, ih rs hr]
        simp

/-- **the scan of a block under any selection is the filter of its unfiltered decode** -/
theorem scanBlock_eq_filter (s : Select) (b : Block) (os : List Obj) (h : decodeBlock b = some os) :
    scanBlock RU s b = some (os.filter s.keep) := by
  unfold decodeBlock at h
  simp only [Option.map_eq_some_iff] at h
  obtain ⟨r, hr, e⟩ := h
  subst e
  unfold scanBlock
  rw [mapM_filter _ _ s.keep _ _ hr (fun g os hg => scanGroup_eq_filter s _ _ _ _ _ g os hg)]
  simp [List.filter_flatten]

/-- hence a subsequence, in the same order, of unmodified elements -/
theorem scanBlock_sublist (s : Select) (b : Block) (os : List Obj) (h : decodeBlock b = some os) :
    ∃ sel, scanBlock RU s b = some sel ∧ sel.Sublist os ∧ ∀ o ∈ sel, o ∈ os ∧ s.keep o = true :=
  ⟨os.filter s.keep, scanBlock_eq_filter s b os h, List.filter_sublist, fun o ho => by simpa using ho⟩

/-- a whole file: the scan under any selection, any number of blocks, is the filter of the unfiltered scan -/
theorem scanFile_eq_filter (s : Select) (bs : List Block) (os : List Obj) (h : decodeFile bs = some os) :
    (bs.mapM (scanBlock RU s)).map List.flatten = some (os.filter s.keep) := by
  unfold decodeFile at h
  simp only [Option.map_eq_some_iff] at h
  obtain ⟨r, hr, e⟩ := h
  subst e
  rw [mapM_filter _ _ s.keep _ _ hr (fun b os hb => scanBlock_eq_filter s b os hb)]
  simp [List.filter_flatten]

/-! ## non-vacuity -/
example : scanBlock RU { way := fun w => w.id % 2 == 0 }
    { strings := ["", "k", "v"], groups := [.ways [{ id := 1, keys := some [1], vals := some [2], refs := some [5, 1] }, { id := 2 }, { id := 4, refs := some [] }]] } =
    some [.way { id := 2 }, .way { id := 4 }] := by decide

/-- dense nodes and relations: a block that decodes (hypothesis of `scanBlock_eq_filter`), filtered by both kinds -/
def exB : Block := { strings := ["", "k", "v", "r"], groups := [
  .dense { ids := [1, 1, 1], lat := [10, 1, 1], lon := [20, 1, 1], kv := some [1, 2, 0, 0, 1, 2, 0] },
  .rels [{ id := 7, roles := some [3], memids := some [2], types := some [0] }, { id := 8 }]] }
example : (decodeBlock exB).map (·.length) = some 5 := by decide
example : (scanBlock RU { node := fun n => n.id % 2 == 1, rel := fun r => r.id == 8 } exB).map
    (·.map fun o => match o with | .node n => ("n", n.id) | .way w => ("w", w.id) | .rel r => ("r", r.id)) =
    some [("n", 1), ("n", 3), ("r", 8)] := by decide

end OsmVerif.Props.C08
