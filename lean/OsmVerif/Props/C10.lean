import OsmVerif.Gen.Ids
import OsmVerif.Lemmas.Bits
/-!
# C10 — packed object / element / feature ids are lossless, ordered and parseable

Theorems about the *regenerated* translation `OsmVerif.Gen.Ids` of the bit-layout
code of feature.go, object.go, element.go, node.go, way.go, relation.go,
changeset.go, note.go, user.go, bounds.go. References and versions are `BitVec 64`
(Go `int64` / `int`), ranges are hypotheses `r.toNat < 2^40`, `v.toNat < 2^16`.
-/
namespace OsmVerif.Props.C10
open OsmVerif.Gen.Ids OsmVerif.Bits

/-! ## mask shapes (each a `decide` over the 64 bit positions of the generated constant) -/
theorem versionBits_eq : versionBits_n = 16 := by decide
theorem refMask_bits (i : Nat) : refMask.getLsbD i = decide (16 ≤ i ∧ i < 56) :=
  mask_bits _ (fun i => decide (16 ≤ i ∧ i < 56)) (by decide) (by intro i h; simp; omega) i
theorem versionMask_bits (i : Nat) : versionMask.getLsbD i = decide (i < 16) :=
  mask_bits _ (fun i => decide (i < 16)) (by decide) (by intro i h; simp; omega) i
theorem featureMask_bits (i : Nat) : featureMask.getLsbD i = decide (16 ≤ i ∧ i < 63) :=
  mask_bits _ (fun i => decide (16 ≤ i ∧ i < 63)) (by decide) (by intro i h; simp; omega) i
theorem typeMask_bits (i : Nat) : typeMask.getLsbD i = decide (56 ≤ i ∧ i < 63) :=
  mask_bits _ (fun i => decide (56 ≤ i ∧ i < 63)) (by decide) (by intro i h; simp; omega) i

/-- The seven object kinds. -/
inductive Kind | bounds | node | way | relation | changeset | note | user
  deriving DecidableEq, Repr

def Kind.name : Kind → String
  | .bounds => TypeBounds | .node => TypeNode | .way => TypeWay | .relation => TypeRelation
  | .changeset => TypeChangeset | .note => TypeNote | .user => TypeUser

def Kind.mask : Kind → BitVec 64
  | .bounds => boundsMask | .node => nodeMask | .way => wayMask | .relation => relationMask
  | .changeset => changesetMask | .note => noteMask | .user => userMask

/-- node < way < relation < changeset < note < user, bounds first. -/
def Kind.rank : Kind → Nat
  | .bounds => 0 | .node => 1 | .way => 2 | .relation => 3 | .changeset => 4 | .note => 5 | .user => 6

def Kind.isElement : Kind → Bool
  | .node | .way | .relation => true
  | _ => false

theorem names_distinct : ∀ k k' : Kind, k.name = k'.name → k = k' := by
  intro k k'; cases k <;> cases k' <;> decide

/-- Every kind mask lives in the type field (bits 56..62) only. -/
theorem kind_mask_in_type (k : Kind) : k.mask &&& typeMask = k.mask := by
  cases k <;> decide
theorem kind_mask_bits_low (k : Kind) (i : Nat) (hi : i < 56) : k.mask.getLsbD i = false := by
  have h : ∀ k : Kind, ∀ j : Fin 56, k.mask.getLsbD j.val = false := by
    intro k; cases k <;> decide
  exact h k ⟨i, hi⟩
theorem kind_mask_bit63 (k : Kind) : k.mask.getLsbD 63 = false := by cases k <;> decide
theorem kind_masks_distinct : ∀ k k' : Kind, k.mask = k'.mask → k = k' := by
  intro k k'; cases k <;> cases k' <;> decide
theorem kind_mask_order : ∀ k k' : Kind, k.mask.toNat < k'.mask.toNat ↔ k.rank < k'.rank := by
  intro k k'; cases k <;> cases k' <;> decide

/-- The generic packed layout: kind nibble, 40 bit reference, 16 bit version. -/
def layout (k : Kind) (r v : BitVec 64) : BitVec 64 := (k.mask ||| (r <<< 16)) ||| (versionMask &&& v)

/-! ## the generated constructors all produce `layout` -/
theorem node_element (r v) : NodeID_ElementID r v = layout .node r v := rfl
theorem way_element (r v) : WayID_ElementID r v = layout .way r v := rfl
theorem relation_element (r v) : RelationID_ElementID r v = layout .relation r v := rfl
theorem node_object (r v) : NodeID_ObjectID r v = layout .node r v := rfl
theorem way_object (r v) : WayID_ObjectID r v = layout .way r v := rfl
theorem relation_object (r v) : RelationID_ObjectID r v = layout .relation r v := rfl

theorem layout_zero_version (k r) : layout k r 0#64 = k.mask ||| (r <<< 16) := by
  simp [layout]

theorem node_feature (r) : NodeID_FeatureID r = layout .node r 0#64 := by rw [layout_zero_version]; rfl
theorem way_feature (r) : WayID_FeatureID r = layout .way r 0#64 := by rw [layout_zero_version]; rfl
theorem relation_feature (r) : RelationID_FeatureID r = layout .relation r 0#64 := by rw [layout_zero_version]; rfl
theorem changeset_object (r) : ChangesetID_ObjectID r = layout .changeset r 0#64 := by rw [layout_zero_version]; rfl
theorem note_object (r) : NoteID_ObjectID r = layout .note r 0#64 := by rw [layout_zero_version]; rfl
theorem user_object (r) : UserID_ObjectID r = layout .user r 0#64 := by rw [layout_zero_version]; rfl
theorem bounds_object : Bounds_ObjectID () = layout .bounds 0#64 0#64 := by
  rw [layout_zero_version]; simp [Bounds_ObjectID, Kind.mask]

/-- `Type.objectID` (used by `ParseObjectID`) and `Type.FeatureID` dispatch on the kind's name. -/
theorem type_objectID (k : Kind) (r v) :
    Type_objectID k.name r v =
      some (if k.isElement then layout k r v else if k = .bounds then layout k 0#64 0#64 else layout k r 0#64) := by
  cases k <;> simp [Type_objectID, Kind.name, Kind.isElement, node_object, way_object, relation_object,
    changeset_object, note_object, user_object, bounds_object,
    TypeNode, TypeWay, TypeRelation, TypeChangeset, TypeNote, TypeUser, TypeBounds]

theorem type_objectID_unknown (s : String) (r v) (h : ∀ k : Kind, s ≠ k.name) :
    Type_objectID s r v = none := by
  have h1 := h .node; have h2 := h .way; have h3 := h .relation; have h4 := h .changeset
  have h5 := h .note; have h6 := h .user; have h7 := h .bounds
  simp only [Kind.name] at h1 h2 h3 h4 h5 h6 h7
  simp [Type_objectID, h1, h2, h3, h4, h5, h6, h7]

theorem type_featureID (k : Kind) (r) :
    Type_FeatureID k.name r = if k.isElement then some (layout k r 0#64) else none := by
  cases k <;> simp [Type_FeatureID, Kind.name, Kind.isElement, node_feature, way_feature, relation_feature,
    TypeNode, TypeWay, TypeRelation, TypeChangeset, TypeNote, TypeUser, TypeBounds]

theorem type_featureID_unknown (s : String) (r) (h : ∀ k : Kind, k.isElement → s ≠ k.name) :
    Type_FeatureID s r = none := by
  have h1 := h .node rfl; have h2 := h .way rfl; have h3 := h .relation rfl
  simp only [Kind.name] at h1 h2 h3
  simp [Type_FeatureID, h1, h2, h3]

/-! ## decoding the layout -/

theorem layout_and_typeMask (k r v) (hr : r.toNat < 2^40) : layout k r v &&& typeMask = k.mask := by
  apply BitVec.eq_of_getLsbD_eq
  intro i hi
  simp only [layout, BitVec.getLsbD_and, BitVec.getLsbD_or, BitVec.getLsbD_shiftLeft,
    typeMask_bits, versionMask_bits]
  by_cases h56 : i < 56
  · have := kind_mask_bits_low k i h56
    have a : ¬ (56 ≤ i ∧ i < 63) := by omega
    simp [this, a]
  · by_cases h63 : i = 63
    · have := kind_mask_bit63 k
      rw [← h63] at this
      have a : ¬ (56 ≤ i ∧ i < 63) := by omega
      simp only [this]
      simp [a]
    · have a : (56 ≤ i ∧ i < 63) := by omega
      have b : ¬ i < 16 := by omega
      have c := small_bits r 40 hr (i - 16) (by omega)
      simp [a, b, c]

theorem layout_version (k r v) (hv : v.toNat < 2^16) : layout k r v &&& versionMask = v := by
  apply BitVec.eq_of_getLsbD_eq
  intro i hi
  simp only [layout, BitVec.getLsbD_and, BitVec.getLsbD_or, BitVec.getLsbD_shiftLeft, versionMask_bits]
  by_cases h16 : i < 16
  · have := kind_mask_bits_low k i (by omega)
    simp [h16, this]
  · have := small_bits v 16 hv i (by omega)
    simp [h16, this]

theorem and_refMask_msb (x : BitVec 64) : (x &&& refMask).msb = false := by
  have h : refMask[63] = false := by decide
  rw [BitVec.msb_eq_getLsbD_last, BitVec.getLsbD_and]
  simp
  intro _; exact h

theorem layout_ref (k r v) (hr : r.toNat < 2^40) :
    BitVec.sshiftRight (layout k r v &&& refMask) versionBits_n = r := by
  rw [BitVec.sshiftRight_eq_of_msb_false (and_refMask_msb _), versionBits_eq]
  apply BitVec.eq_of_getLsbD_eq
  intro i hi
  simp only [layout, BitVec.getLsbD_ushiftRight, BitVec.getLsbD_and, BitVec.getLsbD_or,
    BitVec.getLsbD_shiftLeft, refMask_bits, versionMask_bits]
  by_cases h40 : i < 40
  · have m := kind_mask_bits_low k (16 + i) (by omega)
    have b : (16 + i < 64) := by omega
    have c : ¬ (16 + i < 16) := by omega
    have d : (16 ≤ 16 + i ∧ 16 + i < 56) := by omega
    have e : 16 + i - 16 = i := by omega
    simp only [m]
    simp [b, c, d, e]
  · have := small_bits r 40 hr i (by omega)
    have d : ¬ (16 + i < 56) := by omega
    simp [this, d]

theorem layout_feature (k r v) (hr : r.toNat < 2^40) : layout k r v &&& featureMask = layout k r 0#64 := by
  apply BitVec.eq_of_getLsbD_eq
  intro i hi
  simp only [layout, BitVec.getLsbD_and, BitVec.getLsbD_or, BitVec.getLsbD_shiftLeft,
    featureMask_bits, versionMask_bits]
  by_cases h16 : i < 16
  · have := kind_mask_bits_low k i (by omega)
    have a : ¬ (16 ≤ i ∧ i < 63) := by omega
    simp [this, a, h16]
  · by_cases h63 : i = 63
    · have := kind_mask_bit63 k
      rw [← h63] at this
      have c := small_bits r 40 hr (i - 16) (by omega)
      have a : ¬ (16 ≤ i ∧ i < 63) := by omega
      simp only [this, c]
      simp [a]
    · have a : (16 ≤ i ∧ i < 63) := by omega
      simp [a, h16]

/-! ## C10 part 1: decode ∘ encode = id (type, ref, version), for all three id types -/

theorem element_type (k : Kind) (hk : k.isElement) (r v) (hr : r.toNat < 2^40) :
    ElementID_Type (layout k r v) = some k.name := by
  unfold ElementID_Type
  rw [layout_and_typeMask k r v hr]
  cases k <;> first | decide | (cases hk)

theorem object_type (k : Kind) (r v) (hr : r.toNat < 2^40) :
    ObjectID_Type (layout k r v) = some k.name := by
  unfold ObjectID_Type
  rw [layout_and_typeMask k r v hr]
  cases k <;> decide

theorem feature_type (k : Kind) (hk : k.isElement) (r) (hr : r.toNat < 2^40) :
    FeatureID_Type (layout k r 0#64) = k.name := by
  unfold FeatureID_Type
  rw [layout_and_typeMask k r _ hr]
  cases k <;> first | decide | (cases hk)

theorem element_ref (k r v) (hr : r.toNat < 2^40) : ElementID_Ref (layout k r v) = r := layout_ref k r v hr
theorem object_ref (k r v) (hr : r.toNat < 2^40) : ObjectID_Ref (layout k r v) = r := layout_ref k r v hr
theorem feature_ref (k r v) (hr : r.toNat < 2^40) : FeatureID_Ref (layout k r v) = r := layout_ref k r v hr
theorem element_version (k r v) (hv : v.toNat < 2^16) : ElementID_Version (layout k r v) = v := layout_version k r v hv
theorem object_version (k r v) (hv : v.toNat < 2^16) : ObjectID_Version (layout k r v) = v := layout_version k r v hv

/-- conversions between the id types -/
theorem element_to_feature (k r v) (hr : r.toNat < 2^40) :
    ElementID_FeatureID (layout k r v) = layout k r 0#64 := layout_feature k r v hr
theorem element_to_object (x) : ElementID_ObjectID x = x := rfl
theorem feature_to_element (k r v) (hv : v.toNat < 2^16) :
    FeatureID_ElementID (layout k r 0#64) v = layout k r v := by
  have : versionMask &&& v = v := by
    apply BitVec.eq_of_getLsbD_eq; intro i hi
    simp only [BitVec.getLsbD_and, versionMask_bits]
    by_cases h : i < 16
    · simp [h]
    · simp [h, small_bits v 16 hv i (by omega)]
  simp [FeatureID_ElementID, layout]
theorem feature_to_object (k r v) (hv : v.toNat < 2^16) :
    FeatureID_ObjectID (layout k r 0#64) v = layout k r v := feature_to_element k r v hv

theorem and_kind_mask (k : Kind) (r v) (hr : r.toNat < 2^40) :
    layout k r v &&& k.mask = k.mask := by
  have h1 : layout k r v &&& k.mask = (layout k r v &&& typeMask) &&& k.mask := by
    rw [BitVec.and_assoc, BitVec.and_comm typeMask, kind_mask_in_type]
  rw [h1, layout_and_typeMask k r v hr, BitVec.and_self]

theorem feature_nodeID (r v) (hr : r.toNat < 2^40) : FeatureID_NodeID (layout .node r v) = some r := by
  have := and_kind_mask .node r v hr
  simp only [Kind.mask] at this
  simp [FeatureID_NodeID, this, feature_ref .node r v hr]
theorem feature_wayID (r v) (hr : r.toNat < 2^40) : FeatureID_WayID (layout .way r v) = some r := by
  have := and_kind_mask .way r v hr
  simp only [Kind.mask] at this
  simp [FeatureID_WayID, this, feature_ref .way r v hr]
theorem feature_relationID (r v) (hr : r.toNat < 2^40) : FeatureID_RelationID (layout .relation r v) = some r := by
  have := and_kind_mask .relation r v hr
  simp only [Kind.mask] at this
  simp [FeatureID_RelationID, this, feature_ref .relation r v hr]
theorem element_nodeID (r v) (hr : r.toNat < 2^40) : ElementID_NodeID (layout .node r v) = some r := by
  have := and_kind_mask .node r v hr
  simp only [Kind.mask] at this
  simp [ElementID_NodeID, this, element_ref .node r v hr]
theorem element_wayID (r v) (hr : r.toNat < 2^40) : ElementID_WayID (layout .way r v) = some r := by
  have := and_kind_mask .way r v hr
  simp only [Kind.mask] at this
  simp [ElementID_WayID, this, element_ref .way r v hr]
theorem element_relationID (r v) (hr : r.toNat < 2^40) : ElementID_RelationID (layout .relation r v) = some r := by
  have := and_kind_mask .relation r v hr
  simp only [Kind.mask] at this
  simp [ElementID_RelationID, this, element_ref .relation r v hr]

/-! ## C10 part 2: distinct inputs give distinct identifiers -/

theorem pack_injective (k k' : Kind) (r r' v v' : BitVec 64)
    (hr : r.toNat < 2^40) (hr' : r'.toNat < 2^40) (hv : v.toNat < 2^16) (hv' : v'.toNat < 2^16)
    (h : layout k r v = layout k' r' v') : k = k' ∧ r = r' ∧ v = v' := by
  refine ⟨?_, ?_, ?_⟩
  · apply kind_masks_distinct
    rw [← layout_and_typeMask k r v hr, ← layout_and_typeMask k' r' v' hr', h]
  · rw [← layout_ref k r v hr, ← layout_ref k' r' v' hr', h]
  · rw [← layout_version k r v hv, ← layout_version k' r' v' hv', h]

/-! ## C10 part 3: integer order = (kind, ref, version) order -/

theorem layout_toNat (k r v) (hr : r.toNat < 2^40) (hv : v.toNat < 2^16) :
    (layout k r v).toNat = k.mask.toNat + r.toNat * 65536 + v.toNat := by
  have hvm : versionMask &&& v = v := by
    apply BitVec.eq_of_getLsbD_eq; intro i hi
    simp only [BitVec.getLsbD_and, versionMask_bits]
    by_cases h : i < 16
    · simp [h]
    · simp [h, small_bits v 16 hv i (by omega)]
  have d1 : k.mask &&& (r <<< 16) = 0#64 := by
    apply BitVec.eq_of_getLsbD_eq; intro i hi
    simp only [BitVec.getLsbD_and, BitVec.getLsbD_shiftLeft]
    by_cases h56 : i < 56
    · simp [kind_mask_bits_low k i h56]
    · simp [small_bits r 40 hr (i - 16) (by omega)]
  have d2 : (k.mask ||| (r <<< 16)) &&& v = 0#64 := by
    apply BitVec.eq_of_getLsbD_eq; intro i hi
    simp only [BitVec.getLsbD_and, BitVec.getLsbD_or, BitVec.getLsbD_shiftLeft]
    by_cases h16 : i < 16
    · simp [kind_mask_bits_low k i (by omega), h16]
    · simp [small_bits v 16 hv i (by omega)]
  have hm : k.mask.toNat ≤ 0x6000000000000000 := by cases k <;> decide
  unfold layout
  rw [hvm, ← BitVec.add_eq_or_of_and_eq_zero _ _ d2, ← BitVec.add_eq_or_of_and_eq_zero _ _ d1]
  simp only [BitVec.toNat_add, BitVec.toNat_shiftLeft, Nat.shiftLeft_eq]
  omega

theorem layout_toInt (k r v) (hr : r.toNat < 2^40) (hv : v.toNat < 2^16) :
    (layout k r v).toInt = ((k.mask.toNat + r.toNat * 65536 + v.toNat : Nat) : Int) := by
  have hm : k.mask.toNat ≤ 0x6000000000000000 := by cases k <;> decide
  have := layout_toNat k r v hr hv
  rw [BitVec.toInt_eq_toNat_cond, this]
  split
  · rfl
  · omega

/-- lexicographic order on (kind rank, ref, version) -/
def lexLt (k : Kind) (r v : Nat) (k' : Kind) (r' v' : Nat) : Prop :=
  k.rank < k'.rank ∨ (k.rank = k'.rank ∧ (r < r' ∨ (r = r' ∧ v < v')))

/-- Go's `<` on the int64-based ids is signed comparison. -/
theorem pack_lt_iff (k k' : Kind) (r r' v v' : BitVec 64)
    (hr : r.toNat < 2^40) (hr' : r'.toNat < 2^40) (hv : v.toNat < 2^16) (hv' : v'.toNat < 2^16) :
    (layout k r v).toInt < (layout k' r' v').toInt ↔ lexLt k r.toNat v.toNat k' r'.toNat v'.toNat := by
  rw [layout_toInt k r v hr hv, layout_toInt k' r' v' hr' hv']
  have ho := kind_mask_order k k'
  have ho' := kind_mask_order k' k
  have hstep : ∀ a b : Kind, a.rank < b.rank → a.mask.toNat + 0x0100000000000000 ≤ b.mask.toNat := by
    intro a b; cases a <;> cases b <;> decide
  have heq : ∀ a b : Kind, a.rank = b.rank → a.mask.toNat = b.mask.toNat := by
    intro a b; cases a <;> cases b <;> decide
  unfold lexLt
  constructor
  · intro h
    have h : k.mask.toNat + r.toNat * 65536 + v.toNat < k'.mask.toNat + r'.toNat * 65536 + v'.toNat := by
      exact_mod_cast h
    by_cases c1 : k.rank < k'.rank
    · exact Or.inl c1
    · by_cases c2 : k'.rank < k.rank
      · have := hstep k' k c2; omega
      · have e : k.rank = k'.rank := by omega
        have := heq k k' e
        right; refine ⟨e, ?_⟩; omega
  · intro h
    have : k.mask.toNat + r.toNat * 65536 + v.toNat < k'.mask.toNat + r'.toNat * 65536 + v'.toNat := by
      rcases h with h | ⟨e, h⟩
      · have := hstep k k' h; omega
      · have := heq k k' e; omega
    exact_mod_cast this

/-- the comparison functions of the provided sorts, as they stand in the source: element and id lists compare the
    packed identifier with `<`; the per-kind lists compare id, then version -/
theorem sort_less_functions :
    less_elementsSort = ["return es[i].ElementID() < es[j].ElementID()"] ∧
    less_elementIDsSort = ["return ids[i] < ids[j]"] ∧ less_featureIDsSort = ["return ids[i] < ids[j]"] ∧
    less_nodesSort = ["if ns[i].ID == ns[j].ID {", "return ns[i].Version < ns[j].Version", "}", "return ns[i].ID < ns[j].ID"] ∧
    less_waysSort = ["if ws[i].ID == ws[j].ID {", "return ws[i].Version < ws[j].Version", "}", "return ws[i].ID < ws[j].ID"] ∧
    less_relationsSort = ["if rs[i].ID == rs[j].ID {", "return rs[i].Version < rs[j].Version", "}", "return rs[i].ID < rs[j].ID"] := by
  decide

/-- A list sorted by the integer value (what `Elements.Sort`, `ElementIDs.Sort`, `FeatureIDs.Sort`
    establish through `sort.Sort` with `Less = <`) is sorted by (type, id, version). -/
theorem int_sorted_is_type_id_version_sorted
    (l : List (Kind × BitVec 64 × BitVec 64))
    (hb : ∀ x ∈ l, x.2.1.toNat < 2^40 ∧ x.2.2.toNat < 2^16)
    (hs : (l.map fun x => (layout x.1 x.2.1 x.2.2).toInt).Pairwise (· ≤ ·)) :
    l.Pairwise (fun a b => ¬ lexLt b.1 b.2.1.toNat b.2.2.toNat a.1 a.2.1.toNat a.2.2.toNat) := by
  rw [List.pairwise_map] at hs
  rw [List.pairwise_iff_forall_sublist] at hs ⊢
  intro a b hab
  have hle := hs hab
  have ha := hb a (hab.subset (by simp))
  have hb' := hb b (hab.subset (by simp))
  intro hlt
  have := (pack_lt_iff b.1 a.1 b.2.1 a.2.1 b.2.2 a.2.2 hb'.1 ha.1 hb'.2 ha.2).mpr hlt
  omega

/-! ## non-vacuity -/
example : (⟨1099511627775, by decide⟩ : BitVec 64).toNat < 2^40 ∧ (65535#64).toNat < 2^16 := by decide
example : ObjectID_Type (layout .user 1099511627775#64 0#64) = some "user" := by decide
example : (layout .node 1099511627775#64 65535#64).toInt < (layout .way 0#64 0#64).toInt := by decide

end OsmVerif.Props.C10
