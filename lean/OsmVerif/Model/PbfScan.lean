import OsmVerif.Model.PbfCache
/-!
Skip flags, filters and the reuse of rejected elements in `scanPrimitiveGroup` / `extractDenseNodes`
(decode_data.go), and the scan of a whole file under a selection.

The decoder fills one accumulator object per element kind: a message sets the fields it carries and leaves
the others as they are. After an accepted element the accumulator is replaced by a new object, after a
rejected one it is overwritten by a composite literal. Both statements are read from the source
(`Gen.Pbf.scanPrimitiveGroupBody`, `denseAcceptReject`) and interpreted here.
-/
namespace OsmVerif.Model.PbfScan
open OsmVerif.Gen.Pbf OsmVerif.Model.Pbf OsmVerif.Model.PbfCache OsmVerif.Model.Text

/-! ### reading the accept / reject statements -/

def trim (s : String) : String := String.ofList ((s.toList.dropWhile (· = ' ')).reverse.dropWhile (· = ' ')).reverse
def hasSuffix (suf s : String) : Bool := suf.toList.isSuffixOf s.toList
def hasPrefix (pre s : String) : Bool := pre.toList.isPrefixOf s.toList
def dropPrefix (pre s : String) : String := String.ofList (s.toList.drop pre.length)
def dropSuffix (suf s : String) : String := String.ofList (s.toList.take (s.length - suf.length))

/-- the then- and else-lines of the `if` whose header line is `hdr` (flattened statement list with `{`/`}` lines) -/
def ifBranches (body : List String) (hdr : String) : Option (List String × List String) :=
  let rest := (body.dropWhile (· ≠ hdr)).drop 1
  if rest.isEmpty then none else
  let rec go (fuel : Nat) (ls : List String) (depth : Nat) (inElse : Bool) (t e : List String) : Option (List String × List String) :=
    match fuel, ls with
    | 0, _ => none
    | _, [] => none
    | f + 1, l :: ls =>
      if depth = 0 ∧ l = "}" then some (t.reverse, e.reverse)
      else if depth = 0 ∧ l = "} else {" then go f ls 0 true t e
      else
        let depth' := if hasSuffix "{" l then depth + 1 else if l = "}" then depth - 1 else depth
        if inElse then go f ls depth' inElse t (l :: e) else go f ls depth' inElse (l :: t) e
  go (rest.length + 1) rest 0 false [] []

/-- how one field of the accumulator is set by an overwrite `*x = T{…}` / replacement `x = &T{…}` -/
inductive Kind where
  | zero       -- not named in the literal: the zero value
  | true_      -- the literal `true`
  | emptied    -- `old[:0]`: the old slice cut to length 0 (no content)
  | kept       -- the old value
  deriving DecidableEq, Repr

/-- `Name: expr, …` of a composite literal, with the aliases `a := x.F` that precede it resolved -/
def literalFields (var typ : String) (stmts : List String) : Option (List (String × Kind)) :=
  let aliases : List (String × String) := stmts.filterMap fun l =>
    match splitS ':' l with
    | [a, rhs] =>
      let r := trim (dropPrefix "=" rhs)
      if hasPrefix "=" rhs ∧ hasPrefix (var ++ ".") r then some (trim a, dropPrefix (var ++ ".") r) else none
    | _ => none
  let lit := stmts.getLast?.getD ""
  let open1 := "*" ++ var ++ " = " ++ typ ++ "{"
  let open2 := var ++ " = &" ++ typ ++ "{"
  let inner : Option String :=
    if hasPrefix open1 lit ∧ hasSuffix "}" lit then some (dropSuffix "}" (dropPrefix open1 lit))
    else if hasPrefix open2 lit ∧ hasSuffix "}" lit then some (dropSuffix "}" (dropPrefix open2 lit))
    else none
  match inner with
  | none => none
  | some inner =>
    ((splitS ',' inner).map trim |>.filter (· ≠ "")).mapM fun kv =>
      -- split at the first ':' (the expression may contain one, as in `x[:0]`)
      let nameCs := kv.toList.takeWhile (· ≠ ':')
      let rest := kv.toList.drop nameCs.length
      match rest with
      | ':' :: exprCs =>
        let e := trim (String.ofList exprCs)
        let name := trim (String.ofList nameCs)
        if e = "true" then some (name, Kind.true_)
        else if hasSuffix "[:0]" e then
          let base := dropSuffix "[:0]" e
          -- `alias[:0]` with alias := var.Name, or `var.Name[:0]`
          if aliases.contains (base, name) ∨ base = var ++ "." ++ name then some (name, Kind.emptied) else none
        else if aliases.contains (e, name) ∨ e = var ++ "." ++ name then some (name, Kind.kept)
        else none
      | _ => none

def kindOf (spec : List (String × Kind)) (field : String) : Kind := ((spec.find? (·.1 = field)).map (·.2)).getD .zero

/-- names a literal may mention for each type (anything else is not understood) -/
def knownFields (typ : String) : List String :=
  match typ with
  | "osm.Way" => ["ID", "User", "UserID", "Visible", "Version", "ChangesetID", "Timestamp", "Nodes", "Tags"]
  | "osm.Relation" => ["ID", "User", "UserID", "Visible", "Version", "ChangesetID", "Timestamp", "Members", "Tags"]
  | "osm.Node" => ["ID", "Lat", "Lon", "User", "UserID", "Visible", "Version", "ChangesetID", "Timestamp", "Tags"]
  | _ => []

structure Reuse where
  accept : List (String × Kind)   -- the object that replaces the accumulator after an accepted element
  reject : List (String × Kind)   -- the overwrite after a rejected one
  deriving DecidableEq, Repr

def reuseOf (body : List String) (hdr var typ : String) : Option Reuse :=
  match ifBranches body hdr with
  | none => none
  | some (t, e) =>
    -- the accepted element is appended to the queue, then the accumulator is replaced
    if t.head? ≠ some ("dec.q = append(dec.q, " ++ var ++ ")") then none else
    match literalFields var typ t, literalFields var typ e with
    | some a, some r =>
      if (a ++ r).all (fun f => (knownFields typ).contains f.1) then some { accept := a, reject := r } else none
    | _, _ => none

def wayReuse : Option Reuse :=
  reuseOf scanPrimitiveGroupBody "if dec.scanner.FilterWay == nil || dec.scanner.FilterWay(way) {" "way" "osm.Way"
def relReuse : Option Reuse :=
  reuseOf scanPrimitiveGroupBody "if dec.scanner.FilterRelation == nil || dec.scanner.FilterRelation(relation) {" "relation" "osm.Relation"
def nodeReuse : Option Reuse :=
  reuseOf denseAcceptReject "if dec.scanner.FilterNode == nil || dec.scanner.FilterNode(n) {" "n" "osm.Node"

/-- which scanner flag guards which primitive-group field: `if fn == N && !dec.scanner.SkipX {` -/
def skipGuards : List (String × String) :=
  scanPrimitiveGroupBody.filterMap fun l =>
    if hasPrefix "if fn == " l ∧ hasSuffix " {" l then
      match splitS '&' (dropSuffix " {" (dropPrefix "if fn == " l)) with
      | [n, _, flag] => some (trim n, trim flag)
      | [n] => some (trim n, "")
      | _ => none
    else none

/-! ### accumulators -/

def applyMeta (k : String → Kind) (old : Meta) : Meta :=
  { ver := if k "Version" = .kept then old.ver else 0,
    ts := if k "Timestamp" = .kept then old.ts else none,
    cs := if k "ChangesetID" = .kept then old.cs else 0,
    uid := if k "UserID" = .kept then old.uid else 0,
    user := if k "User" = .kept then old.user else "",
    vis := if k "Visible" = .kept then old.vis else k "Visible" = .true_ }

def applyWay (spec : List (String × Kind)) (old : Way) : Way :=
  let k := kindOf spec
  { id := if k "ID" = .kept then old.id else 0, md := applyMeta k old.md,
    tags := if k "Tags" = .kept then old.tags else [], nodes := if k "Nodes" = .kept then old.nodes else [] }

def applyRel (spec : List (String × Kind)) (old : Rel) : Rel :=
  let k := kindOf spec
  { id := if k "ID" = .kept then old.id else 0, md := applyMeta k old.md,
    tags := if k "Tags" = .kept then old.tags else [], members := if k "Members" = .kept then old.members else [] }

def applyNode (spec : List (String × Kind)) (old : Node) : Node :=
  let k := kindOf spec
  { id := if k "ID" = .kept then old.id else 0, md := applyMeta k old.md,
    lat := if k "Lat" = .kept then old.lat else 0, lon := if k "Lon" = .kept then old.lon else 0,
    tags := if k "Tags" = .kept then old.tags else [] }

/-- the accumulator a group starts with: `&osm.Way{Visible: true}` -/
def freshWay : Way := { id := 0 }
def freshRel : Rel := { id := 0 }
def freshNode : Node := { id := 0, lat := 0, lon := 0 }

def mergeMeta (acc : Meta) (info : Option Info) (d : Meta) : Meta :=
  match info with
  | none => acc
  | some i =>
    { ver := if i.ver.isSome then d.ver else acc.ver, ts := if i.ts.isSome then d.ts else acc.ts,
      cs := if i.cs.isSome then d.cs else acc.cs, uid := if i.uid.isSome then d.uid else acc.uid,
      user := if i.sid.isSome then d.user else acc.user, vis := if i.vis.isSome then d.vis else acc.vis }

/-- `scanWays(data, way)`: the message sets what it carries on top of the accumulator -/
def mergeWay (gran dg latOff lonOff : Int) (st : List String) (acc : Way) (w : WayMsg) : Option Way :=
  (decodeWay gran dg latOff lonOff st w).map fun d =>
    { id := d.id, md := mergeMeta acc.md w.info d.md,
      tags := if w.keys.isSome ∧ w.vals.isSome then d.tags else acc.tags,
      nodes := if w.refs.isSome then d.nodes else acc.nodes }

def mergeRel (dg : Int) (st : List String) (acc : Rel) (r : RelMsg) : Option Rel :=
  (decodeRel dg st r).map fun d =>
    { id := d.id, md := mergeMeta acc.md r.info d.md,
      tags := if r.keys.isSome ∧ r.vals.isSome then d.tags else acc.tags,
      members := if r.roles.isSome ∧ r.memids.isSome ∧ r.types.isSome then d.members else acc.members }

/-- dense nodes: id, lat, lon always come from the message; an info column sets its field only when present;
    tags are appended to what the accumulator holds -/
def mergeNode (d : Dense) (acc : Node) (n : Node) : Node :=
  let has (c : Option (List Int)) := d.hasInfo ∧ c.isSome
  { id := n.id, lat := n.lat, lon := n.lon,
    md := { ver := if has d.ver then n.md.ver else acc.md.ver, ts := if has d.ts then n.md.ts else acc.md.ts,
            cs := if has d.cs then n.md.cs else acc.md.cs, uid := if has d.uid then n.md.uid else acc.md.uid,
            user := if has d.sid then n.md.user else acc.md.user, vis := if has d.vis then n.md.vis else acc.md.vis },
    tags := acc.tags ++ n.tags }

/-! ### the scan of a group, a block, a file under a selection -/

def scanWays (ru : Reuse) (keep : Way → Bool) (merge : Way → WayMsg → Option Way) : Way → List WayMsg → Option (List Way)
  | _, [] => some []
  | acc, m :: ms =>
    match merge acc m with
    | none => none
    | some w =>
      if keep w then (scanWays ru keep merge (applyWay ru.accept w) ms).map (w :: ·)
      else scanWays ru keep merge (applyWay ru.reject w) ms

def scanRels (ru : Reuse) (keep : Rel → Bool) (merge : Rel → RelMsg → Option Rel) : Rel → List RelMsg → Option (List Rel)
  | _, [] => some []
  | acc, m :: ms =>
    match merge acc m with
    | none => none
    | some r =>
      if keep r then (scanRels ru keep merge (applyRel ru.accept r) ms).map (r :: ·)
      else scanRels ru keep merge (applyRel ru.reject r) ms

def scanNodes (ru : Reuse) (keep : Node → Bool) (d : Dense) : Node → List Node → List Node
  | _, [] => []
  | acc, n :: ns =>
    let x := mergeNode d acc n
    if keep x then x :: scanNodes ru keep d (applyNode ru.accept x) ns
    else scanNodes ru keep d (applyNode ru.reject x) ns

structure Reuses where
  node : Reuse
  way : Reuse
  rel : Reuse
  deriving DecidableEq, Repr

def reuses : Option Reuses :=
  match nodeReuse, wayReuse, relReuse with
  | some n, some w, some r => some { node := n, way := w, rel := r }
  | _, _, _ => none

/-- the reuse discipline under which a filtered scan is the filter of the unfiltered one (`Props.C08.reuses_eq`) -/
def specReuses : Reuses :=
  { node := { accept := [("Visible", .true_)], reject := [("Visible", .true_), ("Tags", .emptied)] },
    way := { accept := [("Visible", .true_)], reject := [("Visible", .true_), ("Nodes", .emptied), ("Tags", .emptied)] },
    rel := { accept := [("Visible", .true_)], reject := [("Visible", .true_), ("Members", .emptied), ("Tags", .emptied)] } }

/-- one primitive group as `scanPrimitiveGroup` handles it: a skipped kind is not decoded at all -/
def scanGroup (ru : Reuses) (s : Select) (gran dg latOff lonOff : Int) (st : List String) : Group → Option (List Obj)
  | .dense d =>
    if s.skipNodes then some []
    else (decodeDense gran dg latOff lonOff st d).map fun ns => (scanNodes ru.node s.node d freshNode ns).map Obj.node
  | .ways ws =>
    if s.skipWays then some []
    else (scanWays ru.way s.way (mergeWay gran dg latOff lonOff st) freshWay ws).map (·.map Obj.way)
  | .rels rs =>
    if s.skipRels then some []
    else (scanRels ru.rel s.rel (mergeRel dg st) freshRel rs).map (·.map Obj.rel)

def scanBlock (ru : Reuses) (s : Select) (b : Block) : Option (List Obj) :=
  (b.groups.mapM (scanGroup ru s (b.gran.getD 100) (b.dateGran.getD 1000) (b.latOff.getD 0) (b.lonOff.getD 0) b.strings)).map
    List.flatten

end OsmVerif.Model.PbfScan
