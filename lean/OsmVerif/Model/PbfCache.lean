import OsmVerif.Gen.Pbf
import OsmVerif.Model.Pbf
import OsmVerif.Model.Text
/-!
The per-decoder iterator cache of `dataDecoder` (decode_data.go): every column iterator is a field of the
decoder that survives from block to block. `scanDenseNodes` assigns an iterator when the field is in the
message, sets a `found…` flag, and afterwards clears or rejects by the flags; `extractDenseNodes` then
reads an iterator either unconditionally or under `if dec.X != nil`. The tables that drive this model are
regenerated from the source (`Gen.Pbf`); the interpretation is written here.
-/
namespace OsmVerif.Model.PbfCache
open OsmVerif.Gen.Pbf OsmVerif.Model.Pbf OsmVerif.Model.Text

def splitS (c : Char) (s : String) : List String := (splitOn c s.toList).map String.ofList

abbrev Col := List Int

structure Cache where
  ids : Option Col := none
  versions : Option Col := none
  timestamps : Option Col := none
  changesets : Option Col := none
  uids : Option Col := none
  usids : Option Col := none
  visibles : Option Col := none
  lats : Option Col := none
  lons : Option Col := none
  keyvals : Option Col := none
  deriving DecidableEq, Repr

/-- the iterator fields of `dataDecoder` used for dense nodes -/
inductive It where
  | ids | versions | timestamps | changesets | uids | usids | visibles | lats | lons | keyvals
  deriving DecidableEq, Repr

/-- `none` = the table names an iterator this model does not know -/
def It.ofString (s : String) : Option It :=
  match s with
  | "ids" => some .ids | "versions" => some .versions | "timestamps" => some .timestamps | "changesets" => some .changesets
  | "uids" => some .uids | "usids" => some .usids | "visibles" => some .visibles | "lats" => some .lats | "lons" => some .lons
  | "keyvals" => some .keyvals
  | _ => none

/-- the `found…` locals of `scanDenseNodes` (named after what they are set for) -/
inductive Flag where
  | ids | versions | timestamps | changesets | uids | usids | visibles | lats | lons | keyvals | info
  deriving DecidableEq, Repr

def Flag.ofString (s : String) : Option Flag :=
  match s with
  | "foundIds" => some .ids | "foundVersions" => some .versions | "foundTimestamps" => some .timestamps
  | "foundChangesets" => some .changesets | "foundUids" => some .uids | "foundUsids" => some .usids
  | "foundVisibles" => some .visibles | "foundLats" => some .lats | "foundLons" => some .lons
  | "foundKeyVals" => some .keyvals | "foundInfo" => some .info
  | _ => none

def Cache.get (c : Cache) : It → Option Col
  | .ids => c.ids | .versions => c.versions | .timestamps => c.timestamps | .changesets => c.changesets
  | .uids => c.uids | .usids => c.usids | .visibles => c.visibles | .lats => c.lats | .lons => c.lons
  | .keyvals => c.keyvals

def Cache.set (c : Cache) (it : It) (v : Option Col) : Cache :=
  match it with
  | .ids => { c with ids := v } | .versions => { c with versions := v }
  | .timestamps => { c with timestamps := v } | .changesets => { c with changesets := v }
  | .uids => { c with uids := v } | .usids => { c with usids := v } | .visibles => { c with visibles := v }
  | .lats => { c with lats := v } | .lons => { c with lons := v } | .keyvals => { c with keyvals := v }

def Cache.setAll (c : Cache) (its : List It) (v : Option Col) : Cache := its.foldl (fun c it => c.set it v) c

/-- one `case N:` of a field switch: field number, iterators assigned, flags set -/
structure Case where
  num : Nat
  iters : List It
  flags : List Flag
  deriving DecidableEq, Repr

def list0 (s : String) : List String := if s = "" then [] else splitS ',' s

def parseCase (s : String) : Option Case :=
  match splitS '|' s with
  | [n, its, fl] =>
    match parseNat n.toList, (list0 its).mapM It.ofString, (list0 fl).mapM Flag.ofString with
    | some n, some its, some fl => some { num := n, iters := its, flags := fl }
    | _, _, _ => none
  | _ => none

/-- a post check `cond|error` or `cond|it1,it2`; cond is a disjunction of `!flag` and `len(dec.X.Data) == 0` -/
inductive Atom where
  | notFlag (f : Flag)
  | emptyData (it : It)
  deriving DecidableEq, Repr

structure Check where
  cond : List Atom          -- disjunction, evaluated left to right (short circuit)
  isError : Bool
  clears : List It
  deriving DecidableEq, Repr

def parseAtom (s : String) : Option Atom :=
  let cs := s.toList
  if cs.head? = some '!' then (Flag.ofString (String.ofList cs.tail)).map .notFlag
  else
    let pre := "len(dec.".toList
    let suf := ".Data) == 0".toList
    if pre.isPrefixOf cs ∧ suf.isSuffixOf cs then
      (It.ofString (String.ofList ((cs.drop pre.length).take (cs.length - pre.length - suf.length)))).map .emptyData
    else none

/-- split on " || " -/
def splitOr (s : String) : List String :=
  (splitS '|' s).filter (· ≠ "") |>.map fun p => String.ofList ((p.toList.dropWhile (· = ' ')).reverse.dropWhile (· = ' ')).reverse

def parseCheck (s : String) : Option Check :=
  -- the last '|' separates the target; the condition itself may contain "||"
  let cs := s.toList
  let tgt := String.ofList (cs.reverse.takeWhile (· ≠ '|')).reverse
  let cond := String.ofList (cs.take (cs.length - tgt.length - 1))
  match (splitOr cond).mapM parseAtom, (if tgt = "error" then some [] else (list0 tgt).mapM It.ofString) with
  | some atoms, some cl => some { cond := atoms, isError := tgt = "error", clears := cl }
  | _, _ => none

structure Tables where
  fieldCases : List Case
  infoCases : List Case
  infoResets : List Check
  postChecks : List Check
  guarded : List It
  unguarded : List It
  deriving DecidableEq, Repr

def tables : Option Tables :=
  match denseFieldCases.mapM (fun s =>
          match splitS '|' s with
          | [n, "<info>", fl] => parseCase (n ++ "||" ++ fl)      -- the case that holds the DenseInfo message assigns no iterator itself
          | _ => parseCase s),
        denseInfoCases.mapM parseCase, denseInfoResets.mapM parseCheck, densePostChecks.mapM parseCheck,
        denseExtractGuarded.mapM It.ofString, denseExtractUnguarded.mapM It.ofString with
  | some fc, some ic, some ir, some pc, some g, some u =>
    some { fieldCases := fc, infoCases := ic, infoResets := ir, postChecks := pc, guarded := g, unguarded := u }
  | _, _, _, _, _, _ => none

/-- the field number that carries the DenseInfo message (the case marked `<info>`) -/
def infoFieldNum : Option Nat :=
  (denseFieldCases.find? fun s => (splitS (Char.ofNat 124) s).getD 1 "" = "<info>").bind fun s => parseNat ((splitS (Char.ofNat 124) s).headD "").toList

/-! ### running the tables on a message -/

structure St where
  cache : Cache
  flags : List Flag
  deriving DecidableEq, Repr

def runCases (cases : List Case) (fields : List (Nat × Col)) (s : St) : St :=
  fields.foldl (fun s (f : Nat × Col) =>
    match cases.find? (·.num = f.1) with
    | none => s                                        -- default: msg.Skip()
    | some c => { cache := s.cache.setAll c.iters (some f.2), flags := s.flags ++ c.flags }) s

def evalAtom (s : St) : Atom → Bool
  | .notFlag f => !s.flags.contains f
  | .emptyData it => match s.cache.get it with | some col => col.isEmpty | none => true

/-- `none` = the scan of this group ends with an error -/
def runChecks (checks : List Check) (s : St) : Option St :=
  checks.foldl (fun (o : Option St) ch =>
    match o with
    | none => none
    | some s =>
      if ch.cond.any (evalAtom s) then
        if ch.isError then none
        else some { s with cache := s.cache.setAll ch.clears none }
      else some s) (some s)

/-- the fields of a dense message, in the order a canonical writer emits them -/
def outerFields (d : Dense) : List (Nat × Col) :=
  [(1, d.ids)] ++ [(8, d.lat), (9, d.lon)] ++ (match d.kv with | some kv => [(10, kv)] | none => [])

def infoFields (d : Dense) : List (Nat × Col) :=
  (match d.ver with | some c => [(1, c)] | none => []) ++ (match d.ts with | some c => [(2, c)] | none => []) ++
  (match d.cs with | some c => [(3, c)] | none => []) ++ (match d.uid with | some c => [(4, c)] | none => []) ++
  (match d.sid with | some c => [(5, c)] | none => []) ++ (match d.vis with | some c => [(6, c)] | none => [])

/-- `scanDenseNodes` up to the call of `extractDenseNodes`; `none` = the group is rejected with an error -/
def scanDense (t : Tables) (infoNum : Nat) (c : Cache) (d : Dense) : Option Cache :=
  -- flags are locals: they start cleared on every call
  let s1 := runCases t.fieldCases (outerFields d) { cache := c, flags := [] }
  let s2 : Option St :=
    if d.hasInfo then
      -- inside the info case: the info switch, the per-column resets, then the case's own flag
      match runChecks t.infoResets (runCases t.infoCases (infoFields d) s1) with
      | none => none
      | some sr => some { sr with flags := sr.flags ++ ((t.fieldCases.find? (·.num = infoNum)).map (·.flags)).getD [] }
    else some s1
  match s2 with
  | none => none
  | some s2 => (runChecks t.postChecks s2).map (·.cache)

/-- what `extractDenseNodes` sees of the cache: the guarded iterators as optional columns -/
structure Seen where
  ids : Option Col
  lats : Option Col
  lons : Option Col
  versions : Option Col
  timestamps : Option Col
  changesets : Option Col
  uids : Option Col
  usids : Option Col
  visibles : Option Col
  keyvals : Option Col
  deriving DecidableEq, Repr

def seen (c : Cache) : Seen :=
  { ids := c.ids, lats := c.lats, lons := c.lons, versions := c.versions, timestamps := c.timestamps,
    changesets := c.changesets, uids := c.uids, usids := c.usids, visibles := c.visibles, keyvals := c.keyvals }

/-- what the format says the group holds (the columns `Model.Pbf.decodeDense` reads) -/
def expected (d : Dense) : Seen :=
  let col (c : Option Col) := if d.hasInfo then c else none
  { ids := some d.ids, lats := some d.lat, lons := some d.lon,
    versions := col d.ver, timestamps := col d.ts, changesets := col d.cs, uids := col d.uid, usids := col d.sid,
    visibles := col d.vis,
    keyvals := match d.kv with | some kv => if kv.isEmpty then none else some kv | none => none }

end OsmVerif.Model.PbfCache
