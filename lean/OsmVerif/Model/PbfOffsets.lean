import OsmVerif.Model.PbfScan
/-!
Byte-offset bookkeeping of a PBF scan (decode.go): `bytesRead` accounts every file block, the reader
captures the offset of a block before reading it and the offset travels with the block's objects to `Next`,
which shifts `pOffset`/`cOffset` whenever it takes a new block. The statements are read from the source
(`Gen.Pbf.startBody`, `nextBody`, `readFileBlockBody`) and interpreted here.
-/
namespace OsmVerif.Model.PbfOffsets
open OsmVerif.Gen.Pbf OsmVerif.Model.PbfScan OsmVerif.Model.PbfCache

def idxOf (l : List String) (s : String) : Option Nat :=
  let i := (l.takeWhile (· ≠ s)).length
  if i < l.length then some i else none

structure Rules where
  captureBeforeRead : Bool      -- `offset := dec.bytesRead` stands before the read of the block
  pairCarriesOffset : Bool      -- the block is sent with that offset, the worker passes it on
  restartOffsetZero : Bool      -- a first block that is not a header is sent with offset 0
  accountTerms : List String    -- summands added to bytesRead per block
  shift : List String           -- the offset assignments of Next, in order
  deriving DecidableEq, Repr

def rules : Rules :=
  let cap := idxOf startBody "offset := dec.bytesRead"
  let rd := idxOf startBody "blobHeader, blob, err = dec.readFileBlock(sizeBuf, headerBuf, blobBuf)"
  let acc := readFileBlockBody.filterMap fun l =>
    if hasPrefix "dec.bytesRead += " l then some ((splitS '+' (dropPrefix "dec.bytesRead += " l)).map trim |>.filter (· ≠ "=")) else none
  { captureBeforeRead := match cap, rd with | some a, some b => a < b | _, _ => false,
    pairCarriesOffset := startBody.contains "pair := iPair{Offset: offset, Blob: blob}" ∧
      startBody.contains "out = oPair{Offset: p.Offset, Objects: objects, Err: err}",
    restartOffsetZero := startBody.contains "dec.inputs[0] <- iPair{Offset: 0, Blob: blob, Err: err}",
    accountTerms := acc.flatten,
    shift := nextBody.filter fun l => hasPrefix "dec.pOffset = " l ∨ hasPrefix "dec.cOffset = " l }

/-- the bookkeeping the property describes (what `rules` must come out as; `Props.C09.rules_eq`) -/
def specRules : Rules :=
  { captureBeforeRead := true, pairCarriesOffset := true, restartOffsetZero := true,
    accountTerms := ["4", "int64(blobHeaderSize)", "int64(blobHeader.GetDatasize())"],
    shift := ["dec.pOffset = dec.cOffset", "dec.cOffset = cd.Offset"] }

/-- a file block as the reader sees it -/
structure Frame (α : Type) where
  hlen : Nat           -- BlobHeader bytes
  blen : Nat           -- Blob bytes
  objs : List α        -- objects the block yields (after skip flags and filters; may be empty)

def Frame.size {α} (f : Frame α) : Nat := 4 + f.hlen + f.blen

/-- bytes the decoder accounts for one block, by the extracted summands -/
def accounted {α} (r : Rules) (f : Frame α) : Option Nat :=
  r.accountTerms.foldl (fun acc t => acc.bind fun n =>
    if t = "4" then some (n + 4)
    else if t = "int64(blobHeaderSize)" then some (n + f.hlen)
    else if t = "int64(blobHeader.GetDatasize())" then some (n + f.blen)
    else none) (some 0)

/-- what the reader sends down the pipeline: (offset, objects) per data block. `hdr` = the header block when
    the stream starts with one (consumed by Start), else the first block is data (a resumed scan). -/
def feed {α} (r : Rules) (hdr : Option (Frame α)) (blocks : List (Frame α)) : Option (List (Nat × List α)) :=
  if ¬ r.pairCarriesOffset then none else
  let start : Option Nat := match hdr with | some h => accounted r h | none => some 0
  let rec go (pos : Nat) (first : Bool) : List (Frame α) → Option (List (Nat × List α))
    | [] => some []
    | f :: rest =>
      match accounted r f with
      | none => none
      | some sz =>
        let off := if first ∧ hdr.isNone then (if r.restartOffsetZero then 0 else pos)
                   else if r.captureBeforeRead then pos else pos + sz
        (go (pos + sz) false rest).map ((off, f.objs) :: ·)
  start.bind fun s => go s true blocks

/-- the consumer side: `Next` -/
structure Cursor (α : Type) where
  p : Nat := 0
  c : Nat := 0
  cur : List α := []
  queue : List (Nat × List α)

/-- the offset assignments of `Next`, executed in order -/
def applyShift (shift : List String) (p c off : Nat) : Option (Nat × Nat) :=
  shift.foldl (fun acc l => acc.bind fun (pc : Nat × Nat) =>
    if l = "dec.pOffset = dec.cOffset" then some (pc.2, pc.2)
    else if l = "dec.cOffset = cd.Offset" then some (pc.1, off)
    else if l = "dec.pOffset = cd.Offset" then some (off, pc.2)
    else if l = "dec.cOffset = dec.pOffset" then some (pc.1, pc.1)
    else none) (some (p, c))

/-- one call of `Next`: take blocks until one has an object; `none` = end of input -/
def Cursor.next {α} (shift : List String) (k : Cursor α) : Option (α × Cursor α) :=
  match k.cur with
  | x :: rest => some (x, { k with cur := rest })
  | [] =>
    let rec take (p c : Nat) : List (Nat × List α) → Option (α × Cursor α)
      | [] => none
      | (off, objs) :: q =>
        match applyShift shift p c off with
        | none => none
        | some (p', c') =>
          match objs with
          | x :: rest => some (x, { p := p', c := c', cur := rest, queue := q })
          | [] => take p' c' q
    take k.p k.c k.queue

/-- the whole scan: every returned object with the offsets reported right after it -/
def trace {α} (shift : List String) : Nat → Cursor α → List (α × Nat × Nat)
  | 0, _ => []
  | fuel + 1, k =>
    match k.next shift with
    | none => []
    | some (x, k') => (x, k'.c, k'.p) :: trace shift fuel k'

def scanTrace {α} (r : Rules) (hdr : Option (Frame α)) (blocks : List (Frame α)) : Option (List (α × Nat × Nat)) :=
  (feed r hdr blocks).map fun q => trace r.shift ((blocks.map (·.objs.length)).sum + 1) { queue := q }

end OsmVerif.Model.PbfOffsets
