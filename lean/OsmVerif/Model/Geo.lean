/-! Hand-written model of internal/mputil (Segment, MultiSegment, Join, compact, Ring, Orientation)
over lattice points. `full` is a ghost field (not in the Go struct): the segment's complete oriented
line, which `Join` trims at the glued end; it lets the theorems speak about what was joined. -/
namespace OsmVerif.Model.Geo

abbrev P := Int × Int

structure Seg where
  idx : Nat
  orientation : Int        -- orb.Orientation: 1 = CCW, -1 = CW, 0 = unknown
  reversed : Bool
  line : List P
  full : List P
  deriving Repr, DecidableEq

def Seg.mk' (idx : Nat) (o : Int) (line : List P) : Seg :=
  { idx := idx, orientation := o, reversed := false, line := line, full := line }

/-- `Segment.Reverse` -/
def Seg.rev (s : Seg) : Seg :=
  { s with reversed := !s.reversed, line := s.line.reverse, full := s.full.reverse }

/-- `MultiSegment.First` / `Last` (`none` where Go would index out of range) -/
def msFirst (ms : List Seg) : Option P := ms.head? >>= (·.line.head?)
def msLast (ms : List Seg) : Option P := ms.getLast? >>= (·.line.getLast?)

/-- one pass of the inner `for i, segment := range segments`: first match wins, four cases in code order -/
def findMatch (cur : List Seg) : List Seg → Nat → Option (Nat × List Seg)
  | [], _ => none
  | s :: rest, i =>
    let first := msFirst cur
    let last := msLast cur
    if last.isSome ∧ last = s.line.head? then
      some (i, cur ++ [{ s with line := s.line.tail }])
    else if last.isSome ∧ last = s.line.getLast? then
      let r := s.rev
      some (i, cur ++ [{ r with line := r.line.tail }])
    else if first.isSome ∧ first = s.line.getLast? then
      some (i, { s with line := s.line.dropLast } :: cur)
    else if first.isSome ∧ first = s.line.head? then
      let r := s.rev
      some (i, { r with line := r.line.dropLast } :: cur)
    else findMatch cur rest (i + 1)

/-- inner `for len(segments) != 0 && !current.First().Equal(current.Last())` -/
def grow : Nat → List Seg → List Seg → List Seg × List Seg
  | 0, cur, segs => (cur, segs)
  | f + 1, cur, segs =>
    if segs = [] ∨ msFirst cur = msLast cur then (cur, segs) else
    match findMatch cur segs 0 with
    | none => (cur, segs)
    | some (i, cur') => grow f cur' (segs.eraseIdx i)

def compact (segs : List Seg) : List Seg := segs.filter (fun s => 1 < s.line.length)

/-- outer loop: the LAST remaining segment seeds the next group -/
def joinAux : Nat → List Seg → List (List Seg) → List (List Seg)
  | 0, _, acc => acc
  | f + 1, segs, acc =>
    match segs.getLast? with
    | none => acc
    | some s =>
      let (cur, rest) := grow segs.length [s] segs.dropLast
      joinAux f rest (acc ++ [cur])

/-- `mputil.Join` -/
def join (segs : List Seg) : List (List Seg) :=
  let c := compact segs
  joinAux c.length c []

/-- `MultiSegment.LineString` -/
def lineOf (ms : List Seg) : List P := (ms.map (·.line)).flatten

/-- twice the signed area accumulated by `MultiSegment.Orientation` / `orb.Ring.Orientation`
    (shoelace relative to the first point) -/
def area2 (pts : List P) : Int :=
  match pts with
  | [] => 0
  | o :: _ =>
    let rec go : P → List P → Int → Int
      | _, [], acc => acc
      | prev, p :: rest, acc =>
        go p rest (acc + ((prev.1 - o.1) * (p.2 - o.2) - (p.1 - o.1) * (prev.2 - o.2)))
    go o pts 0

/-- `MultiSegment.Orientation`: CCW (1) when the area is positive, else CW (-1) -/
def msOrientation (ms : List Seg) : Int := if area2 (lineOf ms) > 0 then 1 else -1

/-- `orb.Ring.Orientation` (orb v0.1.3: sign of the shoelace area; 0 for degenerate rings) -/
def ringOrientation (r : List P) : Int :=
  let a := area2 r
  if a > 0 then 1 else if a < 0 then -1 else 0

/-- `MultiSegment.Ring(o)`: uses member orientations when any is known, else the computed orientation -/
def ringOf (ms : List Seg) (o : Int) : List P :=
  let ring := lineOf ms
  let haveOrient := ms.any (fun s => s.orientation ≠ 0)
  let reversed := ms.any (fun s => s.orientation ≠ 0 ∧ (decide (s.orientation = o) = s.reversed))
  if (haveOrient ∧ reversed) ∨ (¬ haveOrient ∧ ringOrientation ring ≠ o) then ring.reverse else ring

end OsmVerif.Model.Geo
