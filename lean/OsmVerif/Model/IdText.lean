import OsmVerif.Gen.Ids
import OsmVerif.Model.Text
/-! Hand-written model of the textual forms of ids: `ObjectID.String`, `ElementID.String`,
`FeatureID.String`, `ParseObjectID`, `ParseElementID`, `ParseFeatureID`
(object.go, element.go, feature.go). Bit-level work is delegated to the generated `Gen.Ids`.
`none` stands for a Go error (parsers) or a panic (`String` on an unknown type). -/
namespace OsmVerif.Model.IdText
open OsmVerif.Gen.Ids OsmVerif.Model.Text

def showObject (id : BitVec 64) : Option (List Char) :=
  match ObjectID_Type id with
  | none => none
  | some t =>
    if ObjectID_Version id = 0#64 then
      some (t.toList ++ '/' :: showInt (ObjectID_Ref id).toInt ++ [':', '-'])
    else
      some (t.toList ++ '/' :: showInt (ObjectID_Ref id).toInt ++ ':' :: showInt (ObjectID_Version id).toInt)

def showElement (id : BitVec 64) : Option (List Char) :=
  match ElementID_Type id with
  | none => none
  | some t =>
    if ElementID_Version id = 0#64 then
      some (t.toList ++ '/' :: showInt (ElementID_Ref id).toInt ++ [':', '-'])
    else
      some (t.toList ++ '/' :: showInt (ElementID_Ref id).toInt ++ ':' :: showInt (ElementID_Version id).toInt)

def showFeature (id : BitVec 64) : List Char :=
  let t := if FeatureID_Type id = "" then "unknown" else FeatureID_Type id
  t.toList ++ '/' :: showInt (FeatureID_Ref id).toInt

/-- ref and optional version part of `ref[:version|-]`; shared by ParseObjectID / ParseElementID.
    Returns (ref, version) as Go int64/int values. -/
def parseRefVersion (rest : List Char) : Option (Int × Int) :=
  match splitOn ':' rest with
  | [r] => match parseInt64 r with
      | some ref => some (ref, 0)
      | none => none
  | [r, v] => match parseInt64 r with
      | none => none
      | some ref =>
        if v = ['-'] then some (ref, 0)
        else match parseInt64 v with
          | some ver => some (ref, ver)
          | none => none
  | _ => none

def parseObject (s : List Char) : Option (BitVec 64) :=
  match splitOn '/' s with
  | [k, rest] => match parseRefVersion rest with
      | some (ref, ver) => Type_objectID (String.ofList k) (BitVec.ofInt 64 ref) (BitVec.ofInt 64 ver)
      | none => none
  | _ => none

def parseElement (s : List Char) : Option (BitVec 64) :=
  match splitOn '/' s with
  | [k, rest] => match parseRefVersion rest with
      | some (ref, ver) =>
        match Type_FeatureID (String.ofList k) (BitVec.ofInt 64 ref) with
        | some fid => some (FeatureID_ElementID fid (BitVec.ofInt 64 ver))
        | none => none
      | none => none
  | _ => none

def parseFeature (s : List Char) : Option (BitVec 64) :=
  match splitOn '/' s with
  | [k, r] => match parseInt64 r with
      | some ref => Type_FeatureID (String.ofList k) (BitVec.ofInt 64 ref)
      | none => none
  | _ => none

end OsmVerif.Model.IdText
