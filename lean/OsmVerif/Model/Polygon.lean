import OsmVerif.Gen.Polygon
/-! Hand-written model of `Way.Polygon`, `Relation.Polygon`, `Tags.Find` (polygon.go, tag.go),
over the regenerated rule table `Gen.Polygon.table`. `sort.Search` is modelled as the actual
binary search (so that an unsorted list is searched the way the code searches it). -/
namespace OsmVerif.Model.Polygon
open OsmVerif.Gen.Polygon

abbrev Tags := List (String × String)

/-- `Tags.Find`: value of the first tag with this key, "" if none -/
def find : Tags → String → String
  | [], _ => ""
  | (k, v) :: rest, key => if k = key then v else find rest key

/-- insertion sort; the result of `sort.Sort` on strings is the unique sorted permutation -/
def insert (x : String) : List String → List String
  | [] => [x]
  | y :: ys => if x ≤ y then x :: y :: ys else y :: insert x ys
def isort : List String → List String
  | [] => []
  | x :: xs => insert x (isort xs)

/-- `sort.Search(n, f)` with fuel -/
def bsearch (f : Nat → Bool) : Nat → Nat → Nat → Nat
  | 0, i, _ => i
  | fuel + 1, i, j =>
    if i < j then
      let h := (i + j) / 2
      if !f h then bsearch f fuel (h + 1) j else bsearch f fuel i h
    else i

/-- `sort.SearchStrings(a, x)` -/
def searchStrings (a : List String) (x : String) : Nat :=
  bsearch (fun h => decide (a.getD h "" ≥ x)) a.length 0 a.length

/-- the value list as it is at run time (after `init`) -/
def effectiveValues (c : Cond) : List String :=
  if initSortsValues then isort c.values else c.values

def condMatches (c : Cond) (v : String) : Bool :=
  match c.kind with
  | .all => true
  | .whitelist =>
    let vs := effectiveValues c
    let i := searchStrings vs v
    i ≠ vs.length && vs.getD i "" = v
  | .blacklist =>
    let vs := effectiveValues c
    let i := searchStrings vs v
    i = vs.length || vs.getD i "" ≠ v
  | .other => false

/-- `Tags.FindTag(key) != nil` -/
def has : Tags → String → Bool
  | [], _ => false
  | (k, _) :: rest, key => k == key || has rest key

def ruleLoop (tags : Tags) : List Cond → Bool
  | [] => false
  | c :: rest =>
    let v := find tags c.key
    if !(has tags c.key) || v = "no" then ruleLoop tags rest
    else if condMatches c v then true else ruleLoop tags rest

/-- `Way.Polygon` on the way's node ids and tags -/
def wayPolygon (nodes : List Int) (tags : Tags) : Bool :=
  if nodes.length ≤ 3 then false
  else if nodes.head? ≠ nodes.getLast? then false
  else
    let area := find tags "area"
    if area = "no" then false
    else if area ≠ "" then true
    else ruleLoop tags table

/-- `Relation.Polygon` -/
def relationPolygon (tags : Tags) : Bool :=
  let t := find tags "type"
  t = "multipolygon" || t = "boundary"

end OsmVerif.Model.Polygon
