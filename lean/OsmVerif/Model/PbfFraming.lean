import OsmVerif.Model.PbfScan
/-!
The framing reader of decode.go on a stream that ends early: `readBlobHeaderSize`, `readBlobHeader`,
`readBlob` each fill a buffer with `io.ReadFull`, whose contract (assumed, standard library) is: asked for 0
bytes it succeeds; at end of input with no byte read it returns `io.EOF`; with some but not all bytes read
`io.ErrUnexpectedEOF`. The scanner treats `io.EOF` as the regular end of the file. Whether the header and
blob readers turn an `io.EOF` into an error is read from the source.
-/
namespace OsmVerif.Model.PbfFraming
open OsmVerif.Gen.Pbf OsmVerif.Model.PbfScan

inductive Rd where
  | ok | eof | short
  deriving DecidableEq, Repr

/-- io.ReadFull on a stream with `avail` bytes left, asked for `want` -/
def readFull (avail want : Nat) : Rd :=
  if want = 0 then .ok else if avail = 0 then .eof else if avail < want then .short else .ok

/-- does a reader turn `io.EOF` from ReadFull into an error? (`if err == io.EOF { err = io.ErrUnexpectedEOF }`
    inside the error branch of the ReadFull call) -/
def convertsEOF (body : List String) : Bool :=
  match ifBranches body "if _, err := io.ReadFull(dec.r, buf); err != nil {" with
  | some (t, _) =>
    match ifBranches t "if err == io.EOF {" with
    | some (c, _) => c.contains "err = io.ErrUnexpectedEOF" || c.contains "return nil, io.ErrUnexpectedEOF"
    | none => false
  | none => false

structure Conv where
  sizeEOFisEnd : Bool       -- EOF while reading the 4-byte length is the regular end of input
  headerEOFisError : Bool
  blobEOFisError : Bool
  deriving DecidableEq, Repr

def conv : Conv :=
  { sizeEOFisEnd := !convertsEOF readBlobHeaderSizeBody,
    headerEOFisError := convertsEOF readBlobHeaderBody,
    blobEOFisError := convertsEOF readBlobBody }

/-- the behaviour the property asks for -/
def specConv : Conv := { sizeEOFisEnd := true, headerEOFisError := true, blobEOFisError := true }

inductive FrameRes where
  | full | cleanEnd | error
  deriving DecidableEq, Repr

/-- reading one file block with `avail` bytes left in the stream -/
def readFrame (cv : Conv) (avail hlen blen : Nat) : FrameRes :=
  match readFull avail 4 with
  | .eof => if cv.sizeEOFisEnd then .cleanEnd else .error
  | .short => .error
  | .ok =>
    match readFull (avail - 4) hlen with
    | .eof => if cv.headerEOFisError then .error else .cleanEnd
    | .short => .error
    | .ok =>
      match readFull (avail - 4 - hlen) blen with
      | .eof => if cv.blobEOFisError then .error else .cleanEnd
      | .short => .error
      | .ok => .full

structure Frame (α : Type) where
  hlen : Nat
  blen : Nat
  objs : List α

def Frame.size {α} (f : Frame α) : Nat := 4 + f.hlen + f.blen

/-- the scan of a stream of frames cut to `avail` bytes: the objects delivered and whether it ends in success -/
def scanCut {α} (cv : Conv) : Nat → List (Frame α) → List α × Bool
  | _, [] => ([], true)          -- (only reached when nothing was cut: the reader then sees EOF on the size read)
  | avail, f :: rest =>
    match readFrame cv avail f.hlen f.blen with
    | .cleanEnd => ([], true)
    | .error => ([], false)
    | .full => let (os, ok) := scanCut cv (avail - f.size) rest; (f.objs ++ os, ok)

end OsmVerif.Model.PbfFraming
