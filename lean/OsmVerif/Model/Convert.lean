import OsmVerif.Model.Geo
/-! Hand-written model of osmgeojson (convert.go, build_polygon.go, options.go) on top of the
`mputil` model. Coordinates are lattice points (lon, lat); a way node / node "has no location" when
both coordinates are 0 (and, for nodes, version 0), exactly as the code tests. -/
namespace OsmVerif.Model.Convert
open OsmVerif.Model.Geo

abbrev Tags := List (String × String)

structure Meta where
  hasTimestamp : Bool := false
  version : Int := 0
  changeset : Int := 0
  user : String := ""
  uid : Int := 0
  deriving Repr, DecidableEq

structure NodeE where
  id : Int
  lon : Int
  lat : Int
  tags : Tags
  md : Meta
  deriving Repr

structure WayNode where
  id : Int
  lon : Int := 0
  lat : Int := 0
  deriving Repr, DecidableEq

structure WayE where
  id : Int
  nodes : List WayNode
  tags : Tags
  md : Meta
  deriving Repr

inductive MType | node | way | relation
  deriving Repr, DecidableEq

structure Member where
  type : MType
  ref : Int
  role : String
  orientation : Int := 0
  nodes : List WayNode := []
  deriving Repr

structure RelationE where
  id : Int
  members : List Member
  tags : Tags
  md : Meta
  deriving Repr

structure Data where
  nodes : List NodeE
  ways : List WayE
  relations : List RelationE
  deriving Repr

structure Opts where
  noID : Bool := false
  noMeta : Bool := false
  noRelationMembership : Bool := false
  includeInvalidPolygons : Bool := false
  deriving Repr, DecidableEq

inductive Geom
  | point (p : P)
  | lineString (l : List P)
  | multiLineString (l : List (List P))
  | polygon (rings : List (List P))
  | multiPolygon (ps : List (List (List P)))
  deriving Repr, DecidableEq

structure RelSummary where
  id : Int
  role : String
  tags : Tags          -- as a map: sorted by key
  deriving Repr, DecidableEq

structure Feature where
  kind : String        -- "node" | "way" | "relation": the `type` property
  id : Int
  idSet : Bool         -- the feature `ID` string is set
  geom : Geom
  tags : Tags          -- as a map: sorted by key
  tainted : Bool
  relations : Option (List RelSummary)
  metaKeys : Option (List String)
  deriving Repr, DecidableEq

/-- `Tags.Find` -/
def findTag (ts : Tags) (k : String) : String :=
  match ts with
  | [] => ""
  | (a, v) :: rest => if a = k then v else findTag rest k

def insertTag (kv : String × String) : Tags → Tags
  | [] => [kv]
  | (a, v) :: rest => if kv.1 < a then kv :: (a, v) :: rest else if kv.1 = a then kv :: rest else (a, v) :: insertTag kv rest

/-- `Tags.Map()` rendered canonically: later duplicates win, keys sorted -/
def tagMap (ts : Tags) : Tags := ts.foldl (fun acc kv => insertTag kv acc) []

def uninteresting : List String :=
  ["source", "source_ref", "source:ref", "history", "attribution", "created_by", "tiger:county", "tiger:tlid", "tiger:upload_uuid"]

/-- the value a tag map has for a key, if it has the key -/
def lookupTag (ts : Tags) (k : String) : Option String :=
  match ts with
  | [] => none
  | (a, v) :: rest => if a = k then some v else lookupTag rest k

/-- `hasInterestingTags(tags, ignore)`; a tag that `ignore` has with this very value adds nothing -/
def hasInterestingTags (tags : Tags) (ignore : Option Tags) : Bool :=
  tags.any fun (k, v) =>
    !(uninteresting.contains k) &&
      match ignore with
      | none => true
      | some ig => !(lookupTag ig k = some v)

def metaKeys (m : Meta) : List String :=
  (if m.hasTimestamp then ["timestamp"] else []) ++ (if m.version ≠ 0 then ["version"] else []) ++
  (if m.changeset ≠ 0 then ["changeset"] else []) ++ (if m.user ≠ "" then ["user"] else []) ++ (if m.uid ≠ 0 then ["uid"] else [])

/-- `ctx.wayToLineString`: inline way-node coordinates first, else the node object; tainted if neither -/
def wlStep (d : Data) (acc : List P × Bool) (wn : WayNode) : List P × Bool :=
  if wn.lon ≠ (0 : Int) ∨ wn.lat ≠ (0 : Int) then (acc.1 ++ [((wn.lon, wn.lat) : P)], acc.2)
  else match (d.nodes.filter (fun n => n.id = wn.id)).getLast? with
    | some n => (acc.1 ++ [((n.lon, n.lat) : P)], acc.2)
    | none => (acc.1, true)

def wayToLineString (d : Data) (w : WayE) : List P × Bool := w.nodes.foldl (wlStep d) ([], false)

def findWay (d : Data) (id : Int) : Option WayE := (d.ways.filter (·.id = id)).getLast?

/-- relation membership map entry for one feature -/
def membership (o : Opts) (d : Data) (t : MType) (ref : Int) : List RelSummary :=
  d.relations.flatMap fun r =>
    r.members.filterMap fun m =>
      if o.noRelationMembership ∧ m.type ≠ .node then none
      else if m.type = .way ∧ (findWay d m.ref).isNone then none
      else if m.type = t ∧ m.ref = ref then some { id := r.id, role := m.role, tags := tagMap r.tags }
      else none

def relationsProp (o : Opts) (d : Data) (t : MType) (ref : Int) : Option (List RelSummary) :=
  if o.noRelationMembership then none else some (membership o d t ref)

def metaProp (o : Opts) (m : Meta) : Option (List String) := if o.noMeta then none else some (metaKeys m)

/-- `toRing` + `reorient` of a single ring used as an outer -/
def toRing (ls : List P) : List P :=
  if ls.length < 2 then ls
  else if ls.head? ≠ ls.getLast? then ls ++ ls.take 1 else ls

def reorientOuter (r : List P) : List P := if ringOrientation r ≠ 1 then r.reverse else r

/-- exact ray casting of `polygonContains`: some point of `r` strictly inside `outer` by the crossing rule -/
def crosses (p : P) (a b : P) : Bool :=
  -- edge from b (=j) to a (=i):  ((yi > y) != (yj > y)) && (x < (xj - xi) * (y - yi) / (yj - yi) + xi)
  let (x, y) := p; let (xi, yi) := a; let (xj, yj) := b
  (decide (yi > y) != decide (yj > y)) &&
    -- x - xi < (xj - xi) * (y - yi) / (yj - yi), cross-multiplied with the sign of (yj - yi)
    (if yj - yi > 0 then decide ((x - xi) * (yj - yi) < (xj - xi) * (y - yi))
     else decide ((x - xi) * (yj - yi) > (xj - xi) * (y - yi)))

def pointInside (outer : List P) (p : P) : Bool :=
  match outer.getLast? with
  | none => false
  | some last =>
    let rec go : List P → P → Bool → Bool
      | [], _, inside => inside
      | a :: rest, prev, inside => go rest a (if crosses p a prev then !inside else inside)
    go outer last false

def polygonContains (outer r : List P) : Bool := r.any (pointInside outer)

/-- `addToMultiPolygon` -/
def addToMultiPolygon (mp : List (List (List P))) (ring : List P) (includeInvalid : Bool) : List (List (List P)) :=
  let rec place : List (List (List P)) → Option (List (List (List P)))
    | [] => none
    | poly :: rest =>
      if polygonContains (poly.headD []) ring then some ((poly ++ [ring]) :: rest)
      else (place rest).map (poly :: ·)
  match place mp with
  | some r => r
  | none =>
    if ¬ includeInvalid then mp
    else
      match mp with
      | first :: rest =>
        let fr := first.headD []
        if fr ≠ [] ∧ fr.head? ≠ fr.getLast? then (first ++ [ring]) :: rest
        else
          let rec placeEmpty : List (List (List P)) → Option (List (List (List P)))
            | [] => none
            | poly :: rest => if (poly.headD []) = [] then some ((poly ++ [ring]) :: rest) else (placeEmpty rest).map (poly :: ·)
          match placeEmpty mp with
          | some r => r
          | none => mp ++ [[[], ring]]
      | [] => mp ++ [[[], ring]]

/-- state threaded through the relation pass: the `skippable` way ids -/
abbrev Skip := List Int

structure PolyParts where
  outer : List Seg
  inner : List Seg
  tainted : Bool
  outerCount : Nat
  outerWay : Option WayE
  skip : Skip

/-- the member loop of `buildPolygon` -/
def polyMembers (d : Data) (relTags : Tags) (ms : List Member) (skip : Skip) : PolyParts :=
  ms.foldl (fun (st : PolyParts) m =>
    if m.type ≠ .way then st
    else if m.role ≠ "inner" ∧ m.role ≠ "outer" then st
    else
      let st := if m.role = "outer" then { st with outerCount := st.outerCount + 1 } else st
      let way? : Option WayE := match findWay d m.ref with
        | some w => some w
        | none => if m.nodes ≠ [] then some { id := m.ref, nodes := m.nodes, tags := [], md := {} } else none
      match way? with
      | none => { st with tainted := true }
      | some way =>
        let interesting := if m.role = "outer" then hasInterestingTags way.tags (some relTags) else hasInterestingTags way.tags none
        let st := if interesting then st else { st with skip := st.skip ++ [way.id] }
        let (ls, t) := wayToLineString d way
        let st := if t then { st with tainted := true } else st
        if ls = [] then st
        else
          let seg : Seg := Seg.mk' 0 m.orientation ls
          if m.role = "outer" then
            let seg := if seg.orientation = -1 then seg.rev else seg
            { st with outerWay := some way, outer := st.outer ++ [seg] }
          else
            let seg := if seg.orientation = 1 then seg.rev else seg
            { st with inner := st.inner ++ [seg] })
    { outer := [], inner := [], tainted := false, outerCount := 0, outerWay := none, skip := skip }

def ringValid (r : List P) : Bool := decide (r.length ≥ 4) && decide (r.head? = r.getLast?)

/-- `buildPolygon`: the feature (if any) and the updated skippable set -/
def buildPolygon (o : Opts) (d : Data) (r : RelationE) (skip : Skip) : Option Feature × Skip :=
  let tags := tagMap r.tags
  let pp := polyMembers d tags r.members skip
  let mk (geom : Geom) (kind : String) (id : Int) (tg : Tags) (mt : MType) (md : Meta) (skip : Skip) : Option Feature × Skip :=
    (some { kind := kind, id := id, idSet := !o.noID, geom := geom, tags := tg, tainted := pp.tainted,
            relations := relationsProp o d mt id, metaKeys := metaProp o md }, skip)
  if pp.outer = [] ∧ ¬ o.includeInvalidPolygons then (none, pp.skip)
  else if pp.outer.length = 1 ∧ pp.outerCount = 1 then
    let outerRing := ringOf pp.outer 1
    if ¬ ringValid outerRing then (none, pp.skip)
    else
      let polygon := [outerRing] ++ (join pp.inner).map (fun is => ringOf is (-1))
      match pp.outerWay with
      | some ow =>
        if ¬ hasInterestingTags r.tags (some [("type", findTag r.tags "type")]) then
          mk (.polygon polygon) "way" ow.id (tagMap ow.tags) .way ow.md (pp.skip ++ [ow.id])
        else mk (.polygon polygon) "relation" r.id tags .relation r.md pp.skip
      | none => mk (.polygon polygon) "relation" r.id tags .relation r.md pp.skip
  else
    let outerRings := (join pp.outer).filterMap fun os =>
      let ring := ringOf os 1
      if ¬ o.includeInvalidPolygons ∧ ¬ ringValid ring then none else some [ring]
    if outerRings = [] ∧ ¬ o.includeInvalidPolygons then (none, pp.skip)
    else
      let mp := (join pp.inner).foldl (fun mp is => addToMultiPolygon mp (ringOf is (-1)) o.includeInvalidPolygons) outerRings
      match mp with
      | [] => (none, pp.skip)
      | [single] => mk (.polygon single) "relation" r.id tags .relation r.md pp.skip
      | _ => mk (.multiPolygon mp) "relation" r.id tags .relation r.md pp.skip

/-- `buildRouteLineString` -/
def buildRoute (o : Opts) (d : Data) (r : RelationE) (skip : Skip) : Option Feature × Skip :=
  let st := r.members.foldl (fun (st : List Seg × Bool × Skip) m =>
    if m.type ≠ .way then st
    else match findWay d m.ref with
      | none => (st.1, true, st.2.2)
      | some way =>
        let skip := if hasInterestingTags way.tags none then st.2.2 else st.2.2 ++ [way.id]
        let (ls, t) := wayToLineString d way
        let tainted := st.2.1 || t
        if ls = [] then (st.1, tainted, skip)
        else (st.1 ++ [Seg.mk' 0 m.orientation ls], tainted, skip)) ([], false, skip)
  let (lines, tainted, skip) := st
  if lines = [] then (none, skip)
  else
    let sections := join lines
    let geom := match sections with
      | [one] => Geom.lineString (lineOf one)
      | _ => Geom.multiLineString (sections.map lineOf)
    (some { kind := "relation", id := r.id, idSet := !o.noID, geom := geom, tags := tagMap r.tags, tainted := tainted,
            relations := relationsProp o d .relation r.id, metaKeys := metaProp o r.md }, skip)

def wayToFeature (o : Opts) (d : Data) (isPolygon : WayE → Bool) (w : WayE) : Option Feature :=
  let (ls, tainted) := wayToLineString d w
  if ls.length ≤ 1 then none
  else
    let geom := if isPolygon w then Geom.polygon [reorientOuter (toRing ls)] else Geom.lineString ls
    some { kind := "way", id := w.id, idSet := !o.noID, geom := geom, tags := tagMap w.tags, tainted := tainted,
           relations := relationsProp o d .way w.id, metaKeys := metaProp o w.md }

def nodeToFeature (o : Opts) (d : Data) (n : NodeE) : Option Feature :=
  if n.lon = 0 ∧ n.lat = 0 ∧ n.md.version = 0 then none
  else some { kind := "node", id := n.id, idSet := !o.noID, geom := .point (n.lon, n.lat), tags := tagMap n.tags, tainted := false,
              relations := relationsProp o d .node n.id, metaKeys := metaProp o n.md }

/-- the relation pass: route relations and multipolygons/boundaries, threading the skippable way ids -/
def relationPass (o : Opts) (d : Data) : List Feature × Skip :=
  d.relations.foldl (fun (st : List Feature × Skip) r =>
    let tt := findTag r.tags "type"
    if tt = "route" then
      let (f, s) := buildRoute o d r st.2
      (st.1 ++ f.toList, s)
    else if tt = "multipolygon" ∨ tt = "boundary" then
      let (f, s) := buildPolygon o d r st.2
      (st.1 ++ f.toList, s)
    else st) ([], [])

def isWayMember (d : Data) (id : Int) : Bool := d.ways.any fun w => w.nodes.any (·.id = id)

/-- the way pass for one way -/
def wayPass (o : Opts) (d : Data) (isPolygon : WayE → Bool) (skip : Skip) (w : WayE) : Option Feature :=
  if skip.contains w.id then none else wayToFeature o d isPolygon w

/-- the node pass for one node: skipped when it is only a vertex of some way -/
def nodePass (o : Opts) (d : Data) (n : NodeE) : Option Feature :=
  if isWayMember d n.id ∧ (membership o d .node n.id) = [] ∧ ¬ hasInterestingTags n.tags none then none
  else nodeToFeature o d n

/-- `Convert`: relation pass, way pass, node pass -/
def convert (o : Opts) (isPolygon : WayE → Bool) (d : Data) : List Feature :=
  let rp := relationPass o d
  rp.1 ++ d.ways.filterMap (wayPass o d isPolygon rp.2) ++ d.nodes.filterMap (nodePass o d)

end OsmVerif.Model.Convert

namespace OsmVerif.Model.Convert
open OsmVerif.Model.Geo

/-- `mputil.Group` for annotated ways without pending updates: outer and inner segments with member indices -/
def groupSegs (d : Data) (members : List Member) : List Seg × List Seg :=
  members.zipIdx.foldl (fun (acc : List Seg × List Seg) (mi : Member × Nat) =>
    let (m, i) := mi
    if m.type ≠ .way then acc
    else match findWay d m.ref with
      | none => acc
      | some w =>
        let line : List P := w.nodes.map (fun wn => ((wn.lon, wn.lat) : P))
        if line = [] then acc
        else
          let seg : Seg := Seg.mk' i m.orientation line
          if m.role = "outer" then (acc.1 ++ [if seg.orientation = -1 then seg.rev else seg], acc.2)
          else if m.role = "inner" then (acc.1, acc.2 ++ [if seg.orientation = 1 then seg.rev else seg])
          else acc) ([], [])

/-- `annotateOrientation`: the value written to each member of one joined group -/
def annotateOrientation (ms : List Seg) (o : Int) : List (Nat × Int) :=
  let factor : Int := if msOrientation ms ≠ o then -1 else 1
  ms.map fun s => (s.idx, if s.reversed then -1 * factor * o else factor * o)

/-- annotate/geo.go `orientation`: member orientations after annotation (members not in any group keep theirs) -/
def orientations (d : Data) (members : List Member) : List Int :=
  let (outer, inner) := groupSegs d members
  let writes := (join outer).flatMap (fun ms => annotateOrientation ms 1) ++ (join inner).flatMap (fun ms => annotateOrientation ms (-1))
  members.zipIdx.map fun (m, i) =>
    match (writes.filter (·.1 = i)).getLast? with
    | some (_, v) => v
    | none => m.orientation

end OsmVerif.Model.Convert
