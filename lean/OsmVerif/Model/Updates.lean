import OsmVerif.Gen.Update
/-! Hand-written model of `Way.ApplyUpdatesUpTo`, `Relation.ApplyUpdatesUpTo`, `Way.LineString`,
`Way.LineStringAt`, `Updates.UpTo` (way.go, relation.go, update.go).
Coordinates are opaque values that are only copied and compared with zero: `Int` stands in for
float64. Times are `Int` (seconds). A child (way node or relation member) keeps its identity
(`key`) and carries the annotated fields. -/
namespace OsmVerif.Model.Updates

structure Child where
  key : Int            -- node id / member (type, ref, role): never changed by updates
  version : Int
  changeset : Int
  lat : Int
  lon : Int
  orientation : Int := 0
  deriving DecidableEq, Repr

structure Update where
  index : Nat
  version : Int
  ts : Int
  changeset : Int
  lat : Int
  lon : Int
  reverse : Bool := false
  deriving DecidableEq, Repr

/-- field assignment of `applyUpdate` (`isRel`: relations also flip the orientation on `Reverse`) -/
def Child.apply (isRel : Bool) (c : Child) (u : Update) : Child :=
  { c with version := u.version, changeset := u.changeset, lat := u.lat, lon := u.lon,
           orientation := if isRel && u.reverse then c.orientation * -1 else c.orientation }

/-- `applyUpdate`: `none` = `UpdateIndexOutOfRangeError` -/
def applyUpdate (isRel : Bool) (cs : List Child) (u : Update) : Option (List Child) :=
  if u.index ≥ cs.length then none
  else some (cs.modify u.index (fun c => c.apply isRel u))

structure Result where
  children : List Child
  updates : List Update
  err : Option Nat          -- index reported by UpdateIndexOutOfRangeError
  deriving DecidableEq, Repr

/-- the loop of `ApplyUpdatesUpTo`; `pending` accumulates `notApplied` (reversed) -/
def applyLoop (isRel : Bool) (t : Int) : List Update → List Child → List Update → (List Child × List Update × Option Nat)
  | [], cs, pending => (cs, pending.reverse, none)
  | u :: rest, cs, pending =>
    if u.ts > t then applyLoop isRel t rest cs (u :: pending)
    else match applyUpdate isRel cs u with
      | none => (cs, [], some u.index)
      | some cs' => applyLoop isRel t rest cs' pending

/-- `ApplyUpdatesUpTo(t)`: on error the children updated so far stay updated and `Updates` is untouched -/
def applyUpTo (isRel : Bool) (t : Int) (cs : List Child) (us : List Update) : Result :=
  match applyLoop isRel t us cs [] with
  | (cs', _, some i) => { children := cs', updates := us, err := some i }
  | (cs', pend, none) => { children := cs', updates := pend, err := none }

/-- `Updates.UpTo` -/
def upTo (t : Int) (us : List Update) : List Update := us.filter (fun u => !(u.ts > t))

def Child.isZero (c : Child) : Bool := c.version = 0 && c.lon = 0 && c.lat = 0

/-- `Way.LineString` : points (lon, lat) of the annotated nodes -/
def lineString (cs : List Child) : List (Int × Int) :=
  (cs.filter (fun c => !c.isZero)).map (fun c => (c.lon, c.lat))

/-- the update loop of `LineStringAt` over the point list -/
def lsLoop (late_breaks : Bool) (t : Int) : List Update → List (Int × Int) → List (Int × Int)
  | [], ls => ls
  | u :: rest, ls =>
    if u.ts > t then (if late_breaks then ls else lsLoop late_breaks t rest ls)
    else if u.index ≥ ls.length then lsLoop late_breaks t rest ls
    else lsLoop late_breaks t rest (ls.set u.index (u.lon, u.lat))

def lineStringAtWith (late_breaks : Bool) (t : Int) (cs : List Child) (us : List Update) : List (Int × Int) :=
  let ls := lsLoop late_breaks t us (cs.map (fun c => (c.lon, c.lat)))
  ((cs.zip ls).filter (fun p => !p.1.isZero)).map (·.2)

/-- `Way.LineStringAt(t)` as the source has it now (the late-update branch is regenerated) -/
def lineStringAt (t : Int) (cs : List Child) (us : List Update) : List (Int × Int) :=
  lineStringAtWith OsmVerif.Gen.Update.lineStringAtLateBreaks t cs us

end OsmVerif.Model.Updates
