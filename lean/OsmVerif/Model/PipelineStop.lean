/-!
The pipeline of `decoder.Start` after the context was cancelled (Close, cancellation, or the serializer's own
deferred cancel): every blocking operation of the three kinds of goroutines is a `select` with a
`<-dec.ctx.Done()` branch, the reader's loop condition is false, decoders drain their input queue and end
when it is closed. The one blocking operation that is not a `select` is the reader's send of a resumed scan's
first data block to decoder 0 before its loop (`first`): it completes because a decoder leaves its receive loop
only when the input queues are closed, which only the reader does, after its loop. Shown: every step lowers a measure (no infinite run) and while a goroutine is alive
some step is enabled (no deadlock) — so all goroutines end, whatever the schedule.

Fairness is needed at exactly one place and is made explicit: a receive from an already closed output
queue succeeds at once with a zero value, so the serializer's `select` could keep preferring it to the
`Done` branch; `spurious` bounds how often it does (Go picks uniformly among ready cases).
-/
namespace OsmVerif.Model.PipelineStop

inductive RPC where
  | first | head | sending | done
  deriving DecidableEq, Repr

inductive WPC where
  | idle | sending | done
  deriving DecidableEq, Repr

inductive SPC where
  | waiting | forwarding | done
  deriving DecidableEq, Repr

structure St where
  reader : RPC
  inputsClosed : Bool
  inputs : Nat → Nat          -- per decoder: number of blocks waiting
  worker : Nat → WPC
  outputs : Nat → Nat         -- per decoder: number of results waiting
  ser : SPC
  spurious : Nat

inductive Step where
  | readerFirstSent            -- the bare send before the loop (resumed scan): handed to decoder 0
  | readerExit                 -- loop condition false: leave the loop, close all input queues (deferred)
  | readerSent (w : Nat) (enq : Bool)   -- the select after a read: queued to decoder w, or Done
  | workerTake (w : Nat)
  | workerExit (w : Nat)       -- input queue closed and empty: leave the range loop, close the output queue
  | workerSent (w : Nat) (enq : Bool)   -- the select after a decode: result queued, or Done
  | serDone                    -- the Done branch of either select of the serializer
  | serRecv (w : Nat)          -- a result received from decoder w
  | serRecvClosed (w : Nat)    -- a zero value received from a closed output queue
  | serSent                    -- forwarded to the consumer's queue
  deriving DecidableEq, Repr

def upd (f : Nat → α) (i : Nat) (v : α) : Nat → α := fun j => if j = i then v else f j

/-- one step with `n` decoders; `none` = not enabled -/
def step (n : Nat) (s : St) : Step → Option St
  | .readerFirstSent =>
    -- decoder 0 receives with `for p := range input`: it takes the block as long as it has not returned
    if s.reader = .first ∧ 0 < n ∧ s.worker 0 ≠ .done then
      some { s with reader := .head, inputs := upd s.inputs 0 (s.inputs 0 + 1) }
    else none
  | .readerExit => if s.reader = .head then some { s with reader := .done, inputsClosed := true } else none
  | .readerSent w enq =>
    if s.reader = .sending ∧ w < n then
      some { s with reader := .head, inputs := if enq then upd s.inputs w (s.inputs w + 1) else s.inputs }
    else none
  | .workerTake w =>
    if w < n ∧ s.worker w = .idle ∧ 0 < s.inputs w then
      some { s with worker := upd s.worker w .sending, inputs := upd s.inputs w (s.inputs w - 1) }
    else none
  | .workerExit w =>
    if w < n ∧ s.worker w = .idle ∧ s.inputs w = 0 ∧ s.inputsClosed then some { s with worker := upd s.worker w .done } else none
  | .workerSent w enq =>
    if w < n ∧ s.worker w = .sending then
      some { s with worker := upd s.worker w .idle, outputs := if enq then upd s.outputs w (s.outputs w + 1) else s.outputs }
    else none
  | .serDone => if s.ser ≠ .done then some { s with ser := .done } else none
  | .serRecv w =>
    if s.ser = .waiting ∧ w < n ∧ 0 < s.outputs w then
      some { s with ser := .forwarding, outputs := upd s.outputs w (s.outputs w - 1) }
    else none
  | .serRecvClosed w =>
    if s.ser = .waiting ∧ w < n ∧ s.worker w = .done ∧ s.outputs w = 0 ∧ 0 < s.spurious then
      some { s with ser := .forwarding, spurious := s.spurious - 1 }
    else none
  | .serSent => if s.ser = .forwarding then some { s with ser := .waiting } else none

def allDone (n : Nat) (s : St) : Prop := s.reader = .done ∧ (∀ w, w < n → s.worker w = .done) ∧ s.ser = .done

def rW : RPC → Nat | .first => 7 | .head => 1 | .sending => 6 | .done => 0
def wW : WPC → Nat | .idle => 1 | .sending => 4 | .done => 0
def sW : SPC → Nat | .waiting => 2 | .forwarding => 3 | .done => 0

def sumTo (n : Nat) (f : Nat → Nat) : Nat := ((List.range n).map f).sum

/-- the measure: what every goroutine still has to do, every queued item weighted by how far it is from the end -/
def mu (n : Nat) (s : St) : Nat :=
  rW s.reader + sumTo n (fun w => wW (s.worker w) + 4 * s.inputs w + 2 * s.outputs w) + sW s.ser + 2 * s.spurious

theorem sumTo_congr (n : Nat) (f g : Nat → Nat) (h : ∀ w, w < n → f w = g w) : sumTo n f = sumTo n g := by
  unfold sumTo
  congr 1
  apply List.map_congr_left
  intro w hw
  exact h w (List.mem_range.mp hw)

theorem sumTo_succ (n : Nat) (f : Nat → Nat) : sumTo (n + 1) f = sumTo n f + f n := by
  simp [sumTo, List.range_succ]

/-- changing one summand -/
theorem sumTo_upd (n : Nat) (f g : Nat → Nat) (w : Nat) (hw : w < n) (h : ∀ v, v ≠ w → f v = g v) :
    sumTo n f + g w = sumTo n g + f w := by
  induction n with
  | zero => omega
  | succ k ih =>
    rw [sumTo_succ, sumTo_succ]
    by_cases c : w = k
    · subst c
      have : sumTo w f = sumTo w g := sumTo_congr w f g (fun v hv => h v (by omega))
      omega
    · have := ih (by omega)
      have e : f k = g k := h k (fun e => c e.symm)
      omega

def summand (s : St) (v : Nat) : Nat := wW (s.worker v) + 4 * s.inputs v + 2 * s.outputs v

theorem mu_eq (n : Nat) (s : St) : mu n s = rW s.reader + sumTo n (summand s) + sW s.ser + 2 * s.spurious := rfl

/-- two states that differ only in what decoder `w` holds -/
theorem sum_change (n w : Nat) (hw : w < n) (s s' : St) (h : ∀ v, v ≠ w → summand s v = summand s' v) :
    sumTo n (summand s) + summand s' w = sumTo n (summand s') + summand s w :=
  sumTo_upd n (summand s) (summand s') w hw h

/-- **every step lowers the measure** -/
theorem step_decreases (n : Nat) (s s' : St) (a : Step) (h : step n s a = some s') : mu n s' < mu n s := by
  rw [mu_eq, mu_eq]
  cases a with
  | readerFirstSent =>
    simp only [step] at h
    split at h
    · rename_i hc
      cases h
      have := sum_change n 0 hc.2.1 s { s with reader := .head, inputs := upd s.inputs 0 (s.inputs 0 + 1) }
        (fun v hv => by simp [summand, upd, hv])
      have e : summand { s with reader := RPC.head, inputs := upd s.inputs 0 (s.inputs 0 + 1) } 0 = summand s 0 + 4 := by
        simp [summand, upd]; omega
      simp only [hc.1, rW]
      omega
    · cases h
  | readerExit =>
    simp only [step] at h
    split at h
    · rename_i hr; cases h
      have : sumTo n (summand { s with reader := .done, inputsClosed := true }) = sumTo n (summand s) := rfl
      simp [hr, rW, this]
    · cases h
  | readerSent w enq =>
    simp only [step] at h
    split at h
    · rename_i hc
      cases h
      cases enq
      · have : sumTo n (summand { s with reader := .head, inputs := s.inputs }) = sumTo n (summand s) := rfl
        simp [hc.1, rW, this]
      · have := sum_change n w hc.2 s { s with reader := .head, inputs := upd s.inputs w (s.inputs w + 1) }
          (fun v hv => by simp [summand, upd, hv])
        have e : summand { s with reader := RPC.head, inputs := upd s.inputs w (s.inputs w + 1) } w = summand s w + 4 := by
          simp [summand, upd]; omega
        simp only [hc.1, rW, if_true]
        omega
    · cases h
  | workerTake w =>
    simp only [step] at h
    split at h
    · rename_i hc
      cases h
      have := sum_change n w hc.1 s { s with worker := upd s.worker w .sending, inputs := upd s.inputs w (s.inputs w - 1) }
        (fun v hv => by simp [summand, upd, hv])
      have e : summand { s with worker := upd s.worker w .sending, inputs := upd s.inputs w (s.inputs w - 1) } w + 1 = summand s w := by
        simp [summand, upd, hc.2.1, wW]; omega
      simp only
      omega
    · cases h
  | workerExit w =>
    simp only [step] at h
    split at h
    · rename_i hc
      cases h
      have := sum_change n w hc.1 s { s with worker := upd s.worker w .done } (fun v hv => by simp [summand, upd, hv])
      have e : summand { s with worker := upd s.worker w .done } w + 1 = summand s w := by
        simp [summand, upd, hc.2.1, wW]; omega
      simp only
      omega
    · cases h
  | workerSent w enq =>
    simp only [step] at h
    split at h
    · rename_i hc
      cases h
      cases enq
      · have := sum_change n w hc.1 s { s with worker := upd s.worker w .idle, outputs := s.outputs } (fun v hv => by simp [summand, upd, hv])
        have e : summand { s with worker := upd s.worker w .idle, outputs := s.outputs } w + 3 = summand s w := by
          simp [summand, upd, hc.2, wW]; omega
        simp only [Bool.false_eq_true, if_false]
        omega
      · have := sum_change n w hc.1 s { s with worker := upd s.worker w .idle, outputs := upd s.outputs w (s.outputs w + 1) }
          (fun v hv => by simp [summand, upd, hv])
        have e : summand { s with worker := upd s.worker w .idle, outputs := upd s.outputs w (s.outputs w + 1) } w + 1 = summand s w := by
          simp [summand, upd, hc.2, wW]; omega
        simp only [if_true]
        omega
    · cases h
  | serDone =>
    simp only [step] at h
    split at h
    · rename_i hc
      cases h
      have : sumTo n (summand { s with ser := .done }) = sumTo n (summand s) := rfl
      simp only [this, sW]
      cases hs : s.ser <;> simp_all [sW]
    · cases h
  | serRecv w =>
    simp only [step] at h
    split at h
    · rename_i hc
      cases h
      have := sum_change n w hc.2.1 s { s with ser := .forwarding, outputs := upd s.outputs w (s.outputs w - 1) }
        (fun v hv => by simp [summand, upd, hv])
      have e : summand { s with ser := .forwarding, outputs := upd s.outputs w (s.outputs w - 1) } w + 2 = summand s w := by
        simp [summand, upd]; omega
      simp only [hc.1, sW]
      omega
    · cases h
  | serRecvClosed w =>
    simp only [step] at h
    split at h
    · rename_i hc
      cases h
      have : sumTo n (summand { s with ser := .forwarding, spurious := s.spurious - 1 }) = sumTo n (summand s) := rfl
      simp only [this, hc.1, sW]
      omega
    · cases h
  | serSent =>
    simp only [step] at h
    split at h
    · rename_i hc; cases h
      have : sumTo n (summand { s with ser := .waiting }) = sumTo n (summand s) := rfl
      simp [this, hc, sW]
    · cases h

/-- consistency that every reachable state has: a reader that has left its loop has closed the input queues; a
    reader still before its loop has not; and no decoder has returned while the input queues are open -/
def Consistent (s : St) : Prop :=
  (s.reader = .done → s.inputsClosed = true) ∧ (s.reader = .first → s.inputsClosed = false) ∧
  (s.inputsClosed = false → ∀ w, s.worker w ≠ .done)

theorem consistent_step (n : Nat) (s s' : St) (a : Step) (hc : Consistent s) (h : step n s a = some s') : Consistent s' := by
  unfold Consistent at *
  obtain ⟨c1, c2, c3⟩ := hc
  cases a <;> simp only [step] at h <;> split at h
  case readerFirstSent.isTrue hcnd =>
    cases h
    exact ⟨fun hr => by simp at hr, fun hr => by simp at hr, fun hi => c3 hi⟩
  case readerExit.isTrue => cases h; exact ⟨fun _ => rfl, fun hr => by simp at hr, fun hi => by simp at hi⟩
  case readerSent.isTrue => cases h; exact ⟨fun hr => by simp at hr, fun hr => by simp at hr, fun hi => c3 hi⟩
  case workerTake.isTrue hcnd =>
    cases h
    refine ⟨c1, c2, fun hi w => ?_⟩
    simp only [upd]
    split
    · simp
    · exact c3 hi w
  case workerExit.isTrue hcnd =>
    cases h
    refine ⟨c1, fun hr => ?_, fun hi => ?_⟩
    · have := c2 hr; rw [hcnd.2.2.2] at this; cases this
    · rw [hcnd.2.2.2] at hi; cases hi
  case workerSent.isTrue hcnd =>
    cases h
    refine ⟨c1, c2, fun hi w => ?_⟩
    simp only [upd]
    split
    · simp
    · exact c3 hi w
  case serDone.isTrue => cases h; exact ⟨c1, c2, c3⟩
  case serRecv.isTrue => cases h; exact ⟨c1, c2, c3⟩
  case serRecvClosed.isTrue => cases h; exact ⟨c1, c2, c3⟩
  case serSent.isTrue => cases h; exact ⟨c1, c2, c3⟩
  all_goals cases h

/-- **no deadlock**: while some goroutine is alive, some step is enabled -/
theorem progress (n : Nat) (hn : 0 < n) (s : St) (hcs : Consistent s) (h : ¬ allDone n s) : ∃ a, (step n s a).isSome = true := by
  by_cases hs : s.ser = .done
  · by_cases hr : s.reader = .done
    · -- some decoder is alive
      have : ¬ ∀ w, w < n → s.worker w = .done := fun hw => h ⟨hr, hw, hs⟩
      obtain ⟨w, hw⟩ := Classical.not_forall.mp this
      obtain ⟨hwn, hwd⟩ := Classical.not_imp.mp hw
      cases hc : s.worker w with
      | done => exact absurd hc hwd
      | sending => exact ⟨.workerSent w false, by simp [step, hwn, hc]⟩
      | idle =>
        by_cases hi : 0 < s.inputs w
        · exact ⟨.workerTake w, by simp [step, hwn, hc, hi]⟩
        · have hz : s.inputs w = 0 := by omega
          exact ⟨.workerExit w, by simp [step, hwn, hc, hz, hcs.1 hr]⟩
    · cases hc : s.reader with
      | done => exact absurd hc hr
      | first =>
        have h0 := hcs.2.2 (hcs.2.1 hc) 0
        exact ⟨.readerFirstSent, by simp [step, hc, hn, h0]⟩
      | head => exact ⟨.readerExit, by simp [step, hc]⟩
      | sending => exact ⟨.readerSent 0 false, by simp [step, hc, hn]⟩
  · exact ⟨.serDone, by simp [step, hs]⟩

/-- a run: steps that are enabled, one after the other -/
inductive Run (n : Nat) : St → List Step → St → Prop where
  | nil (s : St) : Run n s [] s
  | cons (s s' s'' : St) (a : Step) (as : List Step) : step n s a = some s' → Run n s' as s'' → Run n s (a :: as) s''

/-- **no infinite run**: a run from `s` has at most `mu n s` steps -/
theorem run_bounded (n : Nat) (s s' : St) (as : List Step) (h : Run n s as s') : as.length + mu n s' ≤ mu n s := by
  induction h with
  | nil s => simp
  | cons s s1 s2 a as hstep _ ih =>
    have := step_decreases n s s1 a hstep
    simp only [List.length_cons]
    omega

/-- **all goroutines end**: a run that cannot be extended has reached the state where reader, decoders and
    serializer have all returned (so `wg.Wait()` in Close returns) -/
theorem maximal_run_ends (n : Nat) (hn : 0 < n) (s s' : St) (as : List Step) (hc : Consistent s) (h : Run n s as s')
    (hmax : ∀ a, step n s' a = none) : allDone n s' := by
  have hc' : Consistent s' := by
    induction h with
    | nil s => exact hc
    | cons s s1 s2 a as hstep _ ih => exact ih (consistent_step n s s1 a hc hstep) hmax
  apply Classical.byContradiction
  intro hnd
  obtain ⟨a, hs⟩ := progress n hn s' hc' hnd
  rw [hmax a] at hs
  cases hs

end OsmVerif.Model.PipelineStop
