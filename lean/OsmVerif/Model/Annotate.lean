import OsmVerif.Gen.Update
/-! Hand-written model of the annotation core: `FindVisible`, `VersionBefore`, `timeThreshold*`,
`nextVersionIndex`, `mapChildLocs`, `GroupByParent`, `Compute` (annotate/internal/core), `Child.Update`
(annotate/shared) and the history → child-list step of annotate/datasource.go.
Times are `Int` seconds, durations too; a zero `Committed` is `none`. The two sources of
non-determinism are explicit: the order in which the child map is iterated (`order`) and the
final per-parent sort (any key-sorted permutation; executable instance: insertion sort on the
regenerated keys `Gen.Update.sortIndexKeys`). -/
namespace OsmVerif.Model.Annotate

/-- `osm.CommitInfoStart` = 2012-09-12T09:30:03Z -/
def commitInfoStart : Int := 1347442203

structure Child where
  version : Int
  changeset : Int
  vindex : Nat
  ts : Int
  committed : Option Int
  lat : Int
  lon : Int
  visible : Bool
  reverse : Bool := false
  deriving DecidableEq, Repr

structure Update where
  index : Nat
  version : Int
  ts : Int
  changeset : Int
  lat : Int
  lon : Int
  reverse : Bool
  deriving DecidableEq, Repr

structure ParentV where
  changeset : Int
  visible : Bool
  ts : Int
  committed : Option Int
  /-- child feature id (opaque) and whether the reference is already annotated (`Version != 0`) -/
  refs : List (Nat × Bool)
  deriving Repr

/-- `Committed.Before(osm.CommitInfoStart)`; the zero time is before everything -/
def beforeStart (c : Option Int) : Bool :=
  match c with
  | none => true
  | some t => t < commitInfoStart

def timeThreshold (c : Child) (esp : Int) : Int :=
  if beforeStart c.committed then c.ts + esp else c.committed.getD 0

def timeThresholdParent (p : ParentV) (esp : Int) : Int :=
  if beforeStart p.committed then p.ts + esp else p.committed.getD 0

def absI (d : Int) : Int := if d < 0 then -d else d

/-- the loop of `ChildList.FindVisible`; state = (`diff`, `nearest`) -/
def fvLoop (cid atT start eps : Int) : List Child → Int → Option Child → Option Child
  | [], _, nearest => nearest
  | c :: rest, diff, nearest =>
    if beforeStart c.committed then
      let offset := c.ts - start
      if offset > 2 * eps then nearest
      else if offset < 0 then fvLoop cid atT start eps rest diff (if c.visible then some c else none)
      else
        let d := absI (offset - eps)
        if diff < 0 ∨ d ≤ diff then
          let nearest1 := if diff = -1 ∧ ¬ c.visible ∧ offset = 0 then none else nearest
          if c.visible then
            if offset ≤ eps then fvLoop cid atT start eps rest d (some c)
            else if c.changeset = cid then fvLoop cid atT start eps rest d (some c)
            else fvLoop cid atT start eps rest diff nearest1
          else fvLoop cid atT start eps rest d nearest1
        else fvLoop cid atT start eps rest diff nearest
    else
      if c.committed.getD 0 > atT then nearest
      else fvLoop cid atT start eps rest diff (if c.visible then some c else none)

def findVisible (cl : List Child) (cid atT eps : Int) : Option Child :=
  fvLoop cid atT (atT - eps) eps cl (-1) none

/-- `ChildList.VersionBefore` -/
def versionBefore (cl : List Child) (end_ : Int) : Option Child :=
  let rec go : List Child → Option Child → Option Child
    | [], latest => latest
    | c :: rest, latest => if ¬ timeThreshold c 0 < end_ then latest else go rest (some c)
  go cl none

/-- `updateTimestamp` (annotate/shared): the rule `timeThreshold` places the version in time with -/
def updateTimestamp (ts : Int) (committed : Option Int) : Int :=
  if beforeStart committed then ts else committed.getD 0

def Child.update (c : Child) (index : Nat) : Update :=
  { index := index, version := c.version, ts := updateTimestamp c.ts c.committed, changeset := c.changeset,
    lat := c.lat, lon := c.lon, reverse := c.reverse }

structure Options where
  threshold : Int
  ignoreInconsistency : Bool
  ignoreMissing : Bool
  /-- `filter fid = false` drops an already annotated reference; `none` = no filter -/
  filterMod : Nat := 0

def Options.keeps (o : Options) (fid : Nat) : Bool := o.filterMod = 0 || fid % o.filterMod ≠ 0

/-- `nextVersionIndex`; `cl` is non-empty where the code indexes its last element -/
def nextVersionIndex (current : Option Child) (cl : List Child) (nextParent : Option ParentV) (o : Options) : Nat :=
  match nextParent with
  | none => match cl.getLast? with
    | some l => l.vindex + 1
    | none => 0
  | some np =>
    match findVisible cl np.changeset (timeThresholdParent np 0) o.threshold with
    | some next =>
      if timeThreshold next 0 < timeThresholdParent np (-o.threshold) then next.vindex + 1 else next.vindex
    | none =>
      let ts := timeThresholdParent np (-o.threshold)
      match current with
      | some cur => if ¬ ts > timeThreshold cur 0 then 0
          else match versionBefore cl ts with
            | some n => n.vindex + 1
            | none => 0
      | none => match versionBefore cl ts with
        | some n => n.vindex + 1
        | none => 0

inductive Err
  | noHistory (fid : Nat)
  | noVisibleChild (fid : Nat) (ts : Int)
  | deletedBetween (parent fid : Nat)
  | other
  deriving DecidableEq, Repr

/-- effect of one child on one parent version: which indices are set to which child version, and the updates -/
structure Effect where
  parent : Nat
  sets : List (Nat × Child)
  updates : List Update
  deriving Repr

/-- updates for versions `start ≤ k < stop` of the child atT every location index -/
def rangeUpdates (o : Options) (pidx fid : Nat) (cl : List Child) (idxs : List Nat) :
    Nat → Nat → Except Err (List Update)
  | _, 0 => .ok []
  | start, stop + 1 =>
    -- processes k = start … stop in ascending order: recursion on the count
    if start > stop then .ok []
    else do
      let pre ← rangeUpdates o pidx fid cl idxs start stop
      match cl[stop]? with
      | none => .ok pre
      | some c =>
        if c.visible then .ok (pre ++ idxs.map (fun i => c.update i))
        else if o.ignoreInconsistency then .ok pre
        else .error (.deletedBetween pidx fid)

/-- one (child, parent version) group of `Compute`'s inner loop -/
def groupEffect (o : Options) (parents : List ParentV) (fid : Nat) (cl : List Child) (pidx : Nat) (idxs : List Nat) :
    Except Err (Option Effect) :=
  match parents[pidx]? with
  | none => .ok none
  | some parent =>
    if ¬ parent.visible then .ok none
    else
      let nextParent := parents[pidx + 1]?
      let atT := timeThresholdParent parent 0
      let c := findVisible cl parent.changeset atT o.threshold
      if c.isNone ∧ ¬ o.ignoreInconsistency then .error (.noVisibleChild fid atT)
      else
        let sets := match c with
          | some ch => idxs.map (fun i => (i, ch))
          | none => []
        let nextVersion := nextVersionIndex c cl nextParent o
        let start := match c with
          | some ch => ch.vindex + 1
          | none => match versionBefore cl atT with
            | some n => n.vindex + 1
            | none => 0
        match rangeUpdates o pidx fid cl idxs start nextVersion with
        | .error e => .error e
        | .ok us => .ok (some { parent := pidx, sets := sets, updates := us })

/-- `mapChildLocs` for one child id: (parent index, child index) pairs in parent order, honouring the filter -/
def childLocs (o : Options) (parents : List ParentV) (fid : Nat) : List (Nat × Nat) :=
  (parents.zipIdx.flatMap fun (p, i) =>
    p.refs.zipIdx.filterMap fun ((f, annotated), j) =>
      if f = fid ∧ ¬ (annotated ∧ ¬ o.keeps f) then some (i, j) else none)

/-- `GroupByParent`: consecutive runs with the same parent index -/
def groupByParent : List (Nat × Nat) → List (Nat × List Nat)
  | [] => []
  | (p, j) :: rest =>
    match groupByParent rest with
    | (p', js) :: gs => if p' = p then (p, j :: js) :: gs else (p, [j]) :: (p', js) :: gs
    | [] => [(p, [j])]

/-- everything one child contributes, or the first error met while processing it -/
def childEffects (o : Options) (parents : List ParentV) (hist : Nat → Option (List Child)) (fid : Nat) :
    Except Err (List Effect) :=
  match hist fid with
  | none => if o.ignoreMissing then .ok [] else .error (.noHistory fid)
  | some cl =>
    (groupByParent (childLocs o parents fid)).foldlM (init := [])
      fun acc (pidx, idxs) => do
        match ← groupEffect o parents fid cl pidx idxs with
        | some e => pure (acc ++ [e])
        | none => pure acc

/-- distinct child ids referenced (and not filtered) by the parents, in first-occurrence order -/
def childIds (o : Options) (parents : List ParentV) : List Nat :=
  (parents.flatMap fun p => p.refs.filterMap fun (f, annotated) =>
    if annotated ∧ ¬ o.keeps f then none else some f).eraseDups

/-- one comparison key of `updatesSortIndex.Less` -/
def keyOf (k : String) (u : Update) : Int :=
  match k with
  | "index" => u.index
  | "timestamp" => u.ts
  | "version" => u.version
  | _ => 0

/-- key comparison of `updatesSortIndex.Less`, from the regenerated key list -/
def keyLess : List String → Update → Update → Bool
  | [], _, _ => false
  | k :: rest, a, b =>
    if keyOf k a < keyOf k b then true else if keyOf k b < keyOf k a then false else keyLess rest a b

def insertSorted (less : Update → Update → Bool) (u : Update) : List Update → List Update
  | [] => [u]
  | v :: vs => if less u v then u :: v :: vs else v :: insertSorted less u vs

/-- a stable sort w.r.t. `less` (`sort.Stable`): elements are inserted in list order, each after the elements that
    do not sort after it, so elements that compare as equal keep their order (and the sorted permutation is unique
    when `less` is total on the list) -/
def sortBy (less : Update → Update → Bool) (l : List Update) : List Update :=
  l.foldl (fun acc u => insertSorted less u acc) []

def sortByIndex (l : List Update) : List Update := sortBy (keyLess OsmVerif.Gen.Update.sortIndexKeys) l

structure Result where
  /-- per parent: (index, child) assignments made by `SetChild` -/
  sets : List (List (Nat × Child))
  /-- per parent: the update list after `SortByIndex` -/
  updates : List (List Update)
  deriving Repr

/-- `Compute`, iterating the child map in the given `order` -/
def compute (o : Options) (parents : List ParentV) (hist : Nat → Option (List Child)) (order : List Nat) :
    Except Err Result := do
  let effects ← order.foldlM (init := ([] : List Effect)) fun acc fid => do
    let es ← childEffects o parents hist fid
    pure (acc ++ es)
  let n := parents.length
  let setsOf (i : Nat) := (effects.filter (·.parent = i)).flatMap (·.sets)
  let updsOf (i : Nat) := sortByIndex ((effects.filter (·.parent = i)).flatMap (·.updates))
  pure { sets := (List.range n).map setsOf, updates := (List.range n).map updsOf }

/-- datasource.go: a history (any order) becomes the version-sorted child list with `VersionIndex` set -/
def insertByVersion (c : Child) : List Child → List Child
  | [] => [c]
  | d :: ds => if c.version < d.version then c :: d :: ds else d :: insertByVersion c ds

def toChildList (h : List Child) : List Child :=
  ((h.foldr insertByVersion []).zipIdx.map fun (c, i) => { c with vindex := i })

end OsmVerif.Model.Annotate
