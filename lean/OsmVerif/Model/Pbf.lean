/-!
Model of what an OSM PBF file encodes, at the level of its protobuf messages (columns of raw integers,
string table, per-block parameters), following the format definition (osmformat.proto / the OSM PBF
wiki page): delta-coded columns, `nano = offset + granularity * raw`, `millis = date_granularity * raw`,
zero-delimited `keys_vals`, format defaults for absent optional parts. Core Lean only.

An absent optional column or field is `none`; a present one (possibly empty) is `some`.
-/
namespace OsmVerif.Model.Pbf

/-! ### what a file holds -/

structure Dense where
  ids : List Int                    -- delta coded
  lat : List Int                    -- delta coded, raw units
  lon : List Int
  kv : Option (List Int) := none    -- (k v)* 0 per node
  hasInfo : Bool := false
  ver : Option (List Int) := none   -- not delta coded
  ts : Option (List Int) := none    -- delta coded
  cs : Option (List Int) := none    -- delta coded
  uid : Option (List Int) := none   -- delta coded
  sid : Option (List Int) := none   -- delta coded
  vis : Option (List Int) := none   -- 0/1, not delta coded
  deriving Repr, DecidableEq

structure Info where
  ver : Option Int := none
  ts : Option Int := none
  cs : Option Int := none
  uid : Option Int := none
  sid : Option Int := none
  vis : Option Int := none
  deriving Repr, DecidableEq

structure WayMsg where
  id : Int
  keys : Option (List Int) := none
  vals : Option (List Int) := none
  info : Option Info := none
  refs : Option (List Int) := none  -- delta coded
  lat : Option (List Int) := none   -- delta coded
  lon : Option (List Int) := none
  deriving Repr, DecidableEq

structure RelMsg where
  id : Int
  keys : Option (List Int) := none
  vals : Option (List Int) := none
  info : Option Info := none
  roles : Option (List Int) := none
  memids : Option (List Int) := none  -- delta coded
  types : Option (List Int) := none
  deriving Repr, DecidableEq

inductive Group where
  | dense (d : Dense)
  | ways (ws : List WayMsg)
  | rels (rs : List RelMsg)
  deriving Repr, DecidableEq

structure Block where
  gran : Option Int := none
  dateGran : Option Int := none
  latOff : Option Int := none
  lonOff : Option Int := none
  strings : List String := []
  groups : List Group := []
  deriving Repr, DecidableEq

/-! ### what a scan yields -/

structure Meta where
  ver : Int := 0
  ts : Option Int := none      -- milliseconds since the epoch; none = no timestamp (zero metadata)
  cs : Int := 0
  uid : Int := 0
  user : String := ""
  vis : Bool := true
  deriving Repr, DecidableEq

structure Node where
  id : Int
  md : Meta := {}
  lat : Int                    -- nanodegrees
  lon : Int
  tags : List (String × String) := []
  deriving Repr, DecidableEq

structure WayNode where
  ref : Int
  lat : Option Int := none
  lon : Option Int := none
  deriving Repr, DecidableEq

structure Way where
  id : Int
  md : Meta := {}
  tags : List (String × String) := []
  nodes : List WayNode := []
  deriving Repr, DecidableEq

structure Member where
  type : Int                   -- 0 node, 1 way, 2 relation
  ref : Int
  role : String
  deriving Repr, DecidableEq

structure Rel where
  id : Int
  md : Meta := {}
  tags : List (String × String) := []
  members : List Member := []
  deriving Repr, DecidableEq

inductive Obj where
  | node (n : Node)
  | way (w : Way)
  | rel (r : Rel)
  deriving Repr, DecidableEq

/-! ### decoding -/

/-- running sums of a delta-coded column -/
def undelta (l : List Int) : List Int :=
  (l.foldl (fun (acc : Int × List Int) d => (acc.1 + d, (acc.1 + d) :: acc.2)) (0, [])).2.reverse

/-- the inverse: consecutive differences, the first against 0 -/
def delta (l : List Int) : List Int :=
  (l.foldl (fun (acc : Int × List Int) x => (x, (x - acc.1) :: acc.2)) (0, [])).2.reverse

def str (st : List String) (i : Int) : Option String := if i < 0 then none else st[i.toNat]?

/-- split `keys_vals` into one tag list per node: `(k v)* 0` -/
def splitKV (st : List String) : Nat → List Int → Option (List (List (String × String)))
  | 0, _ => some []
  | n + 1, kv =>
    let rec one (fuel : Nat) (kv : List Int) (acc : List (String × String)) :
        Option (List (String × String) × List Int) :=
      match fuel, kv with
      | 0, _ => none
      | _, [] => none                                   -- ran out before the delimiter
      | _ + 1, 0 :: rest => some (acc.reverse, rest)
      | _, [_] => none
      | f + 1, k :: v :: rest =>
        match str st k, str st v with
        | some ks, some vs => one f rest ((ks, vs) :: acc)
        | _, _ => none
    match one (kv.length + 1) kv [] with
    | none => none
    | some (tags, rest) => (splitKV st n rest).map (tags :: ·)

def getCol (c : Option (List Int)) (i : Nat) : Option (Option Int) :=
  match c with
  | none => some none            -- column absent: format default
  | some l => (l[i]?).map some   -- column present: must have an entry

/-- all nodes of a dense group; `none` = the group is malformed (column lengths, string references) -/
def decodeDense (gran dg latOff lonOff : Int) (st : List String) (d : Dense) : Option (List Node) :=
  let n := d.ids.length
  if d.lat.length ≠ n ∨ d.lon.length ≠ n then none else
  let ids := undelta d.ids
  let lats := undelta d.lat
  let lons := undelta d.lon
  -- the info columns only count when the DenseInfo message is there
  let col (c : Option (List Int)) := if d.hasInfo then c else none
  let vers := col d.ver
  let tss := (col d.ts).map undelta
  let css := (col d.cs).map undelta
  let uids := (col d.uid).map undelta
  let sids := (col d.sid).map undelta
  let viss := col d.vis
  let tagsPer : Option (List (List (String × String))) :=
    match d.kv with
    | none => some (List.replicate n [])
    | some kv => if kv.isEmpty then some (List.replicate n []) else splitKV st n kv
  match tagsPer with
  | none => none
  | some tagsPer =>
    (List.range n).mapM fun i =>
      match getCol vers i, getCol tss i, getCol css i, getCol uids i, getCol sids i, getCol viss i with
      | some v, some t, some c, some u, some s, some vi =>
        let user : Option String := match s with | none => some "" | some s => str st s
        user.map fun user =>
          { id := ids.getD i 0,
            md := { ver := v.getD 0, ts := t.map (· * dg), cs := c.getD 0, uid := u.getD 0, user := user,
                      vis := match vi with | none => true | some x => x ≠ 0 },
            lat := latOff + gran * lats.getD i 0, lon := lonOff + gran * lons.getD i 0,
            tags := tagsPer.getD i [] }
      | _, _, _, _, _, _ => none

def decodeInfo (dg : Int) (st : List String) (info : Option Info) : Option Meta :=
  match info with
  | none => some {}
  | some i =>
    let user : Option String := match i.sid with | none => some "" | some s => str st s
    user.map fun user =>
      { ver := i.ver.getD 0, ts := i.ts.map (· * dg), cs := i.cs.getD 0, uid := i.uid.getD 0, user := user,
        vis := match i.vis with | none => true | some x => x ≠ 0 }

def decodeTags (st : List String) (keys vals : Option (List Int)) : Option (List (String × String)) :=
  match keys, vals with
  | some ks, some vs =>
    if ks.length ≠ vs.length then none
    else (ks.zip vs).mapM fun (k, v) => match str st k, str st v with
      | some a, some b => some (a, b)
      | _, _ => none
  | none, none => some []
  | some ks, none => if ks.isEmpty then some [] else none
  | none, some vs => if vs.isEmpty then some [] else none

def decodeWay (gran dg latOff lonOff : Int) (st : List String) (w : WayMsg) : Option Way :=
  let refs := undelta (w.refs.getD [])
  let n := refs.length
  let coord (c : Option (List Int)) (off : Int) : Option (List (Option Int)) :=
    match c with
    | none => some (List.replicate n none)
    | some l => if l.length = n then some ((undelta l).map fun x => some (off + gran * x))
                else if l.isEmpty then some (List.replicate n none) else none
  match decodeInfo dg st w.info, decodeTags st w.keys w.vals, coord w.lat latOff, coord w.lon lonOff with
  | some m, some tags, some lats, some lons =>
    some { id := w.id, md := m, tags := tags,
           nodes := (List.range n).map fun i => { ref := refs.getD i 0, lat := (lats.getD i none), lon := (lons.getD i none) } }
  | _, _, _, _ => none

def decodeRel (dg : Int) (st : List String) (r : RelMsg) : Option Rel :=
  let roles := r.roles.getD []
  let memids := undelta (r.memids.getD [])
  let types := r.types.getD []
  if roles.length ≠ memids.length ∨ types.length ≠ memids.length then none else
  match decodeInfo dg st r.info, decodeTags st r.keys r.vals,
        (List.range memids.length).mapM (fun i =>
          (str st (roles.getD i 0)).bind fun role =>
            let t := types.getD i 0
            if t < 0 ∨ t > 2 then none else some ({ type := t, ref := memids.getD i 0, role := role } : Member)) with
  | some m, some tags, some members => some { id := r.id, md := m, tags := tags, members := members }
  | _, _, _ => none

def decodeGroup (gran dg latOff lonOff : Int) (st : List String) : Group → Option (List Obj)
  | .dense d => (decodeDense gran dg latOff lonOff st d).map (·.map Obj.node)
  | .ways ws => (ws.mapM (decodeWay gran dg latOff lonOff st)).map (·.map Obj.way)
  | .rels rs => (rs.mapM (decodeRel dg st)).map (·.map Obj.rel)

/-- the objects of one block, in file order; `none` = malformed block -/
def decodeBlock (b : Block) : Option (List Obj) :=
  (b.groups.mapM (decodeGroup (b.gran.getD 100) (b.dateGran.getD 1000) (b.latOff.getD 0) (b.lonOff.getD 0) b.strings)).map
    List.flatten

/-- the objects of a file: the blocks' objects, concatenated — no state is carried from block to block -/
def decodeFile (bs : List Block) : Option (List Obj) := (bs.mapM decodeBlock).map List.flatten

/-! ### skip flags and filters (C08) -/

structure Select where
  skipNodes : Bool := false
  skipWays : Bool := false
  skipRels : Bool := false
  node : Node → Bool := fun _ => true
  way : Way → Bool := fun _ => true
  rel : Rel → Bool := fun _ => true

def Select.keep (s : Select) : Obj → Bool
  | .node n => !s.skipNodes && s.node n
  | .way w => !s.skipWays && s.way w
  | .rel r => !s.skipRels && s.rel r

end OsmVerif.Model.Pbf
