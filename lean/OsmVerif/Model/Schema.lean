import OsmVerif.Gen.Schema
import OsmVerif.Model.Text
/-! Interpretation of the regenerated struct-tag schema the way encoding/xml and encoding/json read it
(tag syntax, element-name resolution, omitempty), and hand-written models of the container marshalers
(`OSM`, `Change`, `Action`) driven by their extracted call lists. Core Lean only. -/
namespace OsmVerif.Model.Schema
open OsmVerif.Gen.Schema OsmVerif.Model.Text

def splitStr (c : Char) (s : String) : List String := (splitOn c s.toList).map String.ofList

structure XmlTag where
  name : String       -- "" = fall back to the Go field name; may be a path `a>b`
  attr : Bool
  omitempty : Bool
  skip : Bool
  chardata : Bool
  deriving DecidableEq, Repr

def parseXmlTag (f : Field) : XmlTag :=
  match splitStr ',' f.xml with
  | [] => { name := f.name, attr := false, omitempty := false, skip := false, chardata := false }
  | n :: flags =>
    { name := if n = "" then f.name else n,
      attr := flags.contains "attr", omitempty := flags.contains "omitempty", skip := f.xml = "-",
      chardata := flags.contains "chardata" }

structure JsonTag where
  name : String
  omitempty : Bool
  skip : Bool
  deriving DecidableEq, Repr

def parseJsonTag (f : Field) : JsonTag :=
  match splitStr ',' f.json with
  | [] => { name := f.name, omitempty := false, skip := false }
  | n :: flags => { name := if n = "" then f.name else n, omitempty := flags.contains "omitempty", skip := f.json = "-" }

def fieldsOf (t : String) : List Field :=
  match structs.find? (·.1 = t) with
  | some e => e.2
  | none => []

/-- underlying type text of a named non-struct type (`Nodes` ↦ `[]*Node`) -/
def namedType (t : String) : Option String :=
  namedTypes.findSome? fun e =>
    match splitStr '=' e with
    | [n, u] => if n = t then some u else none
    | _ => none

def stripPrefix (p : String) (s : String) : String :=
  if p.toList.isPrefixOf s.toList then String.ofList (s.toList.drop p.length) else s

/-- element (struct) type behind a field type: through pointers, slices and named slice types -/
def elemType (fuel : Nat) (t : String) : String :=
  match fuel with
  | 0 => t
  | f + 1 =>
    let t1 := stripPrefix "*" (stripPrefix "[]" (stripPrefix "*" t))
    if t1 ≠ t then elemType f t1
    else match namedType t with
      | some u => if (fieldsOf t).isEmpty ∧ u.toList.head? = some '[' then elemType f u else t
      | none => t

/-- the element name encoding/xml gives a value of struct type `t` that is encoded on its own
    (`e.Encode(v)` outside any parent field): the `XMLName` field's tag if there is one, else the Go type name -/
def xmlNameOf (t : String) : String :=
  match (fieldsOf t).find? (·.name = "XMLName") with
  | some f => (parseXmlTag f).name
  | none => t

/-- first path segment of a tag name (`comments>comment` ↦ `comments`) -/
def firstSeg (n : String) : String := (splitStr '>' n).headD n

/-- child element names the reflection decoder of struct `t` accepts -/
def decodableChildren (t : String) : List String :=
  (fieldsOf t).filterMap fun f =>
    let tg := parseXmlTag f
    if tg.skip ∨ tg.attr ∨ f.name = "XMLName" then none else some (firstSeg tg.name)

/-- `o.Field` ↦ the field's Go type -/
def fieldType (t : String) (fname : String) : Option String := ((fieldsOf t).find? (·.name = fname)).map (·.type)

/-- one call of a `marshalInner*` list: the `OSM` field it encodes and the element name it comes out under.
    `e.Encode(o.X)` uses encoding/xml's own-name rule; `e.EncodeElement(o.X, name:n)` the explicit start element. -/
def callTarget (call : String) : Option (String × String) :=
  let a := stripPrefix "e.Encode(o." call
  if a ≠ call then
    let fname := String.ofList (a.toList.takeWhile (· ≠ ')'))
    (fieldType "OSM" fname).map fun ty => (fname, xmlNameOf (elemType 4 ty))
  else
    let b := stripPrefix "e.EncodeElement(o." call
    if b ≠ call then
      let fname := String.ofList (b.toList.takeWhile (· ≠ ','))
      match splitStr ':' b with
      | [_, n] => some (fname, String.ofList (n.toList.takeWhile (· ≠ ')')))
      | _ => none
    else none

/-- element names written by a `marshalInner*` call list -/
def emittedBy (calls : List String) : List String := calls.filterMap fun c => (callTarget c).map (·.2)

/-! ### flat attribute codec (the part of a record that is attributes) -/

/-- a record: Go field name ↦ text of the scalar (already formatted) -/
abbrev Rec := List (String × String)

def Rec.get (r : Rec) (k : String) : String := ((r.find? (·.1 = k)).map (·.2)).getD ""

/-- zero value text of a scalar Go type, as `omitempty` tests it (`nil` pointers are "") -/
def zeroText (ty : String) : String :=
  let u := (namedType ty).getD ty
  if u = "string" then "" else if u = "bool" then "false"
  else if u = "float64" then "0" else if u.toList.head? = some '*' then ""
  else if u = "time.Time" then "0001-01-01T00:00:00Z" else "0"

/-- attributes written for a record of struct type `t`, in field order -/
def encodeAttrs (t : String) (r : Rec) : List (String × String) :=
  (fieldsOf t).filterMap fun f =>
    let tg := parseXmlTag f
    if ¬ tg.attr ∨ tg.skip then none
    else if tg.omitempty ∧ r.get f.name = zeroText f.type then none
    else some (tg.name, r.get f.name)

/-- the record read back from attributes (any order; unknown attributes ignored; absent ↦ zero value) -/
def decodeAttrs (t : String) (attrs : List (String × String)) : Rec :=
  (fieldsOf t).filterMap fun f =>
    let tg := parseXmlTag f
    if ¬ tg.attr ∨ tg.skip then none
    else some (f.name, ((attrs.find? (·.1 = tg.name)).map (·.2)).getD (zeroText f.type))

/-- JSON keys written for a record of struct type `t`, in field order -/
def encodeJsonKeys (t : String) (r : Rec) (nonEmpty : String → Bool) : List String :=
  (fieldsOf t).filterMap fun f =>
    let tg := parseJsonTag f
    if tg.skip then none
    else if tg.omitempty ∧ ¬ nonEmpty f.name then none
    else some tg.name

/-! ### containers -/

/-- what one `*osm.OSM` holds, by collection, as counts (the children are opaque here) -/
structure Counts where
  bounds : Bool := false
  nodes : Nat := 0
  ways : Nat := 0
  relations : Nat := 0
  changesets : Nat := 0
  notes : Nat := 0
  users : Nat := 0
  deriving Repr, DecidableEq

def Counts.of (c : Counts) (fname : String) : Nat :=
  match fname with
  | "Bounds" => if c.bounds then 1 else 0
  | "Nodes" => c.nodes | "Ways" => c.ways | "Relations" => c.relations
  | "Changesets" => c.changesets | "Notes" => c.notes | "Users" => c.users
  | _ => 0

/-- child element names written by a `marshalInner*` call list for given contents -/
def innerNames (calls : List String) (c : Counts) : List String :=
  calls.flatMap fun call =>
    match callTarget call with
    | some (fname, n) => List.replicate (c.of fname) n
    | none => []

end OsmVerif.Model.Schema
