import OsmVerif.Model.Schema
/-!
Model of the JSON container codec (`OSM.MarshalJSON` / `OSM.UnmarshalJSON`), driven by the facts the
extractor regenerates from the source: the anonymous top-level structs, the statements computing the
`elements` array, the `o.X = …` assignments with their guards, the dispatch targets, the type shims.
Closed "plans" are computed from those facts (`mplan`, `uplan`); generic executors run a plan on
abstract contents (element payloads are opaque numbers — what happens inside one element is the
reflection codec's business and is covered by the schema theorems and by the correspondence check).
-/
namespace OsmVerif.Model.Json
open OsmVerif.Gen.Schema OsmVerif.Model.Schema

/-- a top-level JSON value as the decoder's `interface{}` / `string` field sees it -/
inductive JV where
  | absent
  | str (s : String)
  | num (s : String)   -- the text `%v` prints for the decoded float64
  deriving DecidableEq, Repr

structure Top where
  version : String := ""
  generator : String := ""
  copyright : String := ""
  attribution : String := ""
  license : String := ""
  deriving DecidableEq, Repr

def Top.get (t : Top) (src : String) : Option String :=
  match src with
  | "o.Version" => some t.version | "o.Generator" => some t.generator | "o.Copyright" => some t.copyright
  | "o.Attribution" => some t.attribution | "o.License" => some t.license
  | _ => none

def Top.set (t : Top) (tgt : String) (v : String) : Option Top :=
  match tgt with
  | "o.Version" => some { t with version := v } | "o.Generator" => some { t with generator := v }
  | "o.Copyright" => some { t with copyright := v } | "o.Attribution" => some { t with attribution := v }
  | "o.License" => some { t with license := v }
  | _ => none

/-- the collections of one `OSM`, as opaque payloads -/
structure Colls where
  bounds : Option Nat := none
  nodes : List Nat := []
  ways : List Nat := []
  relations : List Nat := []
  changesets : List Nat := []
  notes : List Nat := []
  users : List Nat := []
  deriving DecidableEq, Repr

def Colls.get (c : Colls) (src : String) : List Nat :=
  match src with
  | "o.Bounds" => c.bounds.toList
  | "o.Nodes" => c.nodes | "o.Ways" => c.ways | "o.Relations" => c.relations
  | "o.Changesets" => c.changesets | "o.Notes" => c.notes | "o.Users" => c.users
  | _ => []

def Colls.push (c : Colls) (tgt : String) (p : Nat) : Option Colls :=
  match tgt with
  | "o.Nodes" => some { c with nodes := c.nodes ++ [p] } | "o.Ways" => some { c with ways := c.ways ++ [p] }
  | "o.Relations" => some { c with relations := c.relations ++ [p] }
  | "o.Changesets" => some { c with changesets := c.changesets ++ [p] }
  | "o.Notes" => some { c with notes := c.notes ++ [p] } | "o.Users" => some { c with users := c.users ++ [p] }
  | _ => none

/-- the JSON document at the level of the container -/
structure Doc where
  keys : List (String × JV) := []         -- top-level scalar keys present
  bounds : Option Nat := none             -- top-level "bounds" object
  elements : List (String × Nat) := []    -- (value of the element's "type" key — "" when it has none, payload)
  deriving DecidableEq, Repr

/-! ### plans computed from the extracted facts -/

def split3 (s : String) : Option (String × String × String) :=
  match splitStr '|' s with
  | [a, b, c] => some (a, b, c)
  | _ => none

/-- json name and omitempty flag of a `name|type|tag` fact -/
def factTag (f : String × String × String) : String × Bool :=
  match splitStr ',' f.2.2 with
  | [] => (f.1, false)
  | n :: flags => (if n = "" then f.1 else n, flags.contains "omitempty")

/-- the literal a `xmlNameJSONType*` shim type marshals to ("" if the type is not a shim) -/
def shimLiteral (ty : String) : String :=
  (jsonTypeShims.findSome? fun e =>
    match splitStr '=' e with
    | [n, l] => if n = ty then some (String.ofList (l.toList.filter (· ≠ '"'))) else none
    | _ => none).getD ""

/-- value of the JSON "type" key of the elements of an `OSM` collection ("" = the element has no type) -/
def typeLabel (src : String) : String :=
  match fieldType "OSM" (stripPrefix "o." src) with
  | none => ""
  | some ty =>
    match (fieldsOf (elemType 4 ty)).find? (fun f => (parseJsonTag f).name = "type" ∧ ¬ (parseJsonTag f).skip) with
    | none => ""
    | some f => shimLiteral f.type

/-- the collections behind the `elements` value of `OSM.MarshalJSON`:
    `o.Objects()` is all of `objectsOrder`; `x := o.Objects(); if o.Bounds != nil { x = x[1:] }` drops the
    leading bounds; anything else is not understood (`none`) -/
def elementsSources (value : String) : Option (List String) :=
  if value = "o.Objects()" ∧ osmMarshalJSONStmts = [] then some objectsOrder
  else if osmMarshalJSONStmts = [value ++ " := o.Objects()", "if o.Bounds != nil { " ++ value ++ " = " ++ value ++ "[1:] }"]
      ∧ objectsOrder.head? = some "o.Bounds" then some objectsOrder.tail
  else none

structure MPlan where
  strKeys : List (String × String × Bool)     -- (json key, source `o.X`, omitempty)
  boundsKey : Option String                   -- json key under which `o.Bounds` is written at top level
  elems : List (String × String)              -- (source collection, type label), in array order
  deriving DecidableEq, Repr

def mplan : Option MPlan :=
  if osmMarshalJSONFields.length ≠ osmMarshalJSONValues.length then none else
  (osmMarshalJSONFields.zip osmMarshalJSONValues).foldl (init := some { strKeys := [], boundsKey := none, elems := [] })
    fun acc fv => acc.bind fun pl =>
      match split3 fv.1 with
      | none => none
      | some f =>
        let (key, om) := factTag f
        if f.2.1 = "string" then some { pl with strKeys := pl.strKeys ++ [(key, fv.2, om)] }
        else if f.2.1 = "*Bounds" ∧ fv.2 = "o.Bounds" ∧ om then some { pl with boundsKey := some key }
        else if f.2.1 = "Objects" ∧ key = "elements" then
          (elementsSources fv.2).map fun srcs => { pl with elems := srcs.map fun s => (s, typeLabel s) }
        else none

inductive StrRule where
  | plain            -- `o.X = s.X` with `s.X string`: absent ↦ ""
  | sprintf          -- `o.X = fmt.Sprintf("%v", s.X)` with `s.X interface{}`, unguarded: absent ↦ "<nil>"
  | sprintfNonNil    -- the same under `if s.X != nil`: absent ↦ left empty
  deriving DecidableEq, Repr

structure UPlan where
  strKeys : List (String × String × StrRule)  -- (json key, target `o.X`, rule)
  boundsKey : Option String
  cases : List (String × String)              -- type label ↦ target collection
  deriving DecidableEq, Repr

def uplan : Option UPlan :=
  let fields := osmUnmarshalJSONFields.filterMap split3
  let assigns := osmUnmarshalJSONAssigns.filterMap split3
  let cases := osmUnmarshalJSONTargets.filterMap split3
  if fields.length ≠ osmUnmarshalJSONFields.length ∨ assigns.length ≠ osmUnmarshalJSONAssigns.length
      ∨ cases.length ≠ osmUnmarshalJSONTargets.length ∨ cases.map (·.1) ≠ osmUnmarshalJSONCases then none else
  let init : Option UPlan := some { strKeys := [], boundsKey := none, cases := cases.map fun c => (c.1, c.2.2) }
  assigns.foldl (init := init) fun acc a => acc.bind fun pl =>
    let (tgt, rhs, guard) := a
    -- the struct field the right-hand side reads
    let fname := if rhs = "s." ++ stripPrefix "o." tgt then some (stripPrefix "o." tgt)
      else if rhs = "fmt.Sprintf(\"%v\", s." ++ stripPrefix "o." tgt ++ ")" then some (stripPrefix "o." tgt) else none
    match fname with
    | none => none
    | some fn =>
      match fields.find? (·.1 = fn) with
      | none => none
      | some f =>
        let key := (factTag f).1
        if f.2.1 = "string" ∧ rhs = "s." ++ fn ∧ guard = "" then some { pl with strKeys := pl.strKeys ++ [(key, tgt, .plain)] }
        else if f.2.1 = "interface" ∧ rhs ≠ "s." ++ fn ∧ guard = "" then some { pl with strKeys := pl.strKeys ++ [(key, tgt, .sprintf)] }
        else if f.2.1 = "interface" ∧ rhs ≠ "s." ++ fn ∧ guard = "s." ++ fn ++ " != nil" then
          some { pl with strKeys := pl.strKeys ++ [(key, tgt, .sprintfNonNil)] }
        else if f.2.1 = "*Bounds" ∧ tgt = "o.Bounds" ∧ rhs = "s.Bounds" ∧ guard = "" then some { pl with boundsKey := some key }
        else none

/-! ### executors -/

def runM (pl : MPlan) (t : Top) (c : Colls) : Doc :=
  { keys := pl.strKeys.filterMap fun (key, src, om) =>
      match t.get src with
      | some v => if om ∧ v = "" then none else some (key, JV.str v)
      | none => none,
    bounds := if pl.boundsKey.isSome then c.bounds else none,
    elements := pl.elems.flatMap fun (src, label) => (c.get src).map fun p => (label, p) }

def applyRule (r : StrRule) (v : JV) : String :=
  match r, v with
  | .plain, .str s => s
  | .plain, _ => ""               -- (a number where a string is expected is a decode error; not generated)
  | .sprintf, .absent => "<nil>"
  | .sprintfNonNil, .absent => ""
  | _, .str s => s
  | _, .num s => s

def lookupKey (keys : List (String × JV)) (k : String) : JV := ((keys.find? (·.1 = k)).map (·.2)).getD .absent

def dispatchStep (pl : UPlan) (acc : Option Colls) (e : String × Nat) : Option Colls :=
  acc.bind fun c =>
    if e.1 = "" then none                      -- findType: "could not find type"
    else match pl.cases.find? (·.1 = e.1) with
      | some cs => c.push cs.2 e.2
      | none => none                           -- "unknown type"

def runU (pl : UPlan) (d : Doc) : Option (Top × Colls) :=
  let top := pl.strKeys.foldl (init := some ({} : Top)) fun acc (key, tgt, rule) =>
    acc.bind fun t => t.set tgt (applyRule rule (lookupKey d.keys key))
  match top with
  | none => none
  | some t =>
    (d.elements.foldl (dispatchStep pl) (some { bounds := if pl.boundsKey.isSome then d.bounds else none })).map fun c => (t, c)

/-! ### the small marshalers (hand-written models, tied by the correspondence check) -/

/-- `Tags.Map()`: later duplicates overwrite -/
def tagsMap (ts : List (String × String)) : List (String × String) :=
  ts.foldl (fun m kv => if m.any (·.1 = kv.1) then m.map (fun e => if e.1 = kv.1 then kv else e) else m ++ [kv]) []

/-- `WayNodes.MarshalJSON` then `UnmarshalJSON`: only the ids survive -/
structure WayNode where
  id : Int
  version : Int := 0
  changeset : Int := 0
  lat : Int := 0
  lon : Int := 0
  deriving DecidableEq, Repr

def wayNodesJSON (ns : List WayNode) : List Int := ns.map (·.id)
def wayNodesOfJSON (ids : List Int) : List WayNode := ids.map fun i => { id := i }

end OsmVerif.Model.Json
