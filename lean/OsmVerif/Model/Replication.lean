import OsmVerif.Gen.Replication
/-! Hand-written model of the planet replication layout used by replication/interval.go and
changesets.go: sequence-numbered paths and the changeset off-by-one rule. -/
namespace OsmVerif.Model.Replication

/-- `%03d` of a non-negative number -/
def pad3 (n : Nat) : List Char :=
  let ds := Nat.toDigits 10 n
  List.replicate (3 - ds.length) '0' ++ ds

/-- `baseSeqURL` / `baseChangesetURL` without the base URL: `/replication/<dir>/AAA/BBB/CCC` -/
def seqPath (dir : String) (n : Nat) : List Char :=
  ("/replication/".toList ++ dir.toList) ++ ('/' :: (pad3 (n / 1000000) ++ ('/' :: (pad3 (n % 1000000 / 1000) ++ ('/' :: pad3 (n % 1000))))))

def statePath (dir : String) (n : Nat) : List Char :=
  if n = 0 then "/replication/".toList ++ dir.toList ++ "/state.txt".toList
  else seqPath dir n ++ ".state.txt".toList

def changesetStatePath (n : Nat) : List Char :=
  if n = 0 then "/replication/changesets/state.yaml".toList
  else seqPath "changesets" n ++ ".state.txt".toList

/-- sequence number the library reports for a changeset state file whose `sequence:` line says `s`,
    requested as number `n` (`n = 0`: the current state) -/
def changesetSeq (n s : Nat) : Nat := if n = 0 then s + 1 else n

end OsmVerif.Model.Replication
