/-! Shared text primitives: models of `strings.Split` (single-byte separator),
`strconv.ParseInt(s, 10, 64)` and `fmt`'s `%d`, over `List Char`. Core Lean only. -/
namespace OsmVerif.Model.Text

/-- `strings.Split(s, string(c))` for a one-character separator: always at least one part. -/
def splitOn (c : Char) : List Char → List (List Char)
  | [] => [[]]
  | x :: xs =>
    if x = c then [] :: splitOn c xs
    else match splitOn c xs with
      | [] => [[x]]
      | p :: ps => (x :: p) :: ps

/-- non-empty, ASCII digits only (Go's ParseInt with base 10 rejects `_`, spaces, signs inside). -/
def parseNat (l : List Char) : Option Nat :=
  if l.isEmpty || !(l.all Char.isDigit) then none else some (Nat.ofDigitChars 10 l 0)

/-- `strconv.ParseInt(s, 10, 64)`: optional sign, digits, int64 range; `none` = error. -/
def parseInt64 (l : List Char) : Option Int :=
  match l with
  | '-' :: t => match parseNat t with
      | some n => if n ≤ 2^63 then some (-(n : Int)) else none
      | none => none
  | '+' :: t => match parseNat t with
      | some n => if n < 2^63 then some (n : Int) else none
      | none => none
  | _ => match parseNat l with
      | some n => if n < 2^63 then some (n : Int) else none
      | none => none

/-- `%d` -/
def showInt (i : Int) : List Char :=
  if i < 0 then '-' :: Nat.toDigits 10 i.natAbs else Nat.toDigits 10 i.toNat

end OsmVerif.Model.Text
