import OsmVerif.Gen.OsmApi
import OsmVerif.Model.Text
/-! Model of osmapi: URL formation from the regenerated recipes (a tiny `Sprintf` for `%s %d %f`),
option parameters (options.go, note.go; hand-written) and the status classification (regenerated chain). -/
namespace OsmVerif.Model.OsmApi
open OsmVerif.Gen.OsmApi OsmVerif.Model.Text

/-- the actual arguments of one call; floats and times arrive pre-formatted (Go's `%f` / time layout are trusted) -/
structure Call where
  base : String
  ints : List Int          -- id, version … in order
  floats : List String     -- bbox values formatted by `%f`
  params : String          -- the option parameters joined by `&`
  data : String            -- comma separated id list of a multi-fetch
  deriving Repr

/-- `fmt.Sprintf(format, args…)` for the verbs the recipes use; each verb consumes the next value of its kind -/
def sprintf : List Char → List String → List Int → List String → List Char
  | [], _, _, _ => []
  | '%' :: 's' :: rest, s :: ss, is, fs => s.toList ++ sprintf rest ss is fs
  | '%' :: 'd' :: rest, ss, i :: is, fs => showInt i ++ sprintf rest ss is fs
  | '%' :: 'f' :: rest, ss, is, f :: fs => f.toList ++ sprintf rest ss is fs
  | c :: rest, ss, is, fs => c :: sprintf rest ss is fs

/-- string-valued arguments of a recipe, in order -/
def strArgs (c : Call) (args : List String) : List String :=
  args.filterMap fun a =>
    if a = "ds.baseURL()" then some c.base
    else if a = "params" ∨ a = "strings.Join(params, \"&\")" then some c.params
    else none

def buildURL (e : Endpoint) (c : Call) : String :=
  if e.recipe = "sprintf" then
    String.ofList (sprintf e.format.toList (strArgs c e.args) c.ints c.floats)
  else
    -- concat: base + literal + data, and `+= literal + params` only when there are parameters
    let lit2 := (e.args.filterMap fun a => if a.startsWith "lit:" then some (a.drop 4).toString else none)
    c.base ++ e.format ++ c.data ++ (if c.params.isEmpty then "" else String.join lit2 ++ c.params)

/-- `getFromAPI`'s status chain: the error type returned for a status code, `"ok"` = decode the body -/
def classifyWith : List (String × Nat × String) → Nat → String
  | [], _ => "ok"
  | (op, c, err) :: rest, code =>
    if (op = "==" ∧ code = c) ∨ (op = "!=" ∧ code ≠ c) then err else classifyWith rest code

def classify (code : Nat) : String := classifyWith statusChain code

/-- notes options (options.go): `none` = the documented argument error -/
inductive NotesOpt | limit (n : Int) | maxDaysClosed (n : Int)

def notesParam : NotesOpt → Option String
  | .limit n => if n < 1 ∨ 10000 < n then none else some ("limit=" ++ String.ofList (showInt n))
  | .maxDaysClosed n => some ("closed=" ++ String.ofList (showInt n))

/-- comma separated decimal ids of a multi-fetch -/
def joinIds : List Int → List Char
  | [] => []
  | [i] => showInt i
  | i :: rest => showInt i ++ ',' :: joinIds rest

end OsmVerif.Model.OsmApi
