import OsmVerif.Lemmas.Record
/-! The scalar JSON keys of a record (flat part of the reflection codec), as an instance of `Model.Record`. -/
open OsmVerif.Gen.Schema OsmVerif.Model.Schema OsmVerif.Model.Record

namespace OsmVerif.Model.Schema

/-- Go kinds whose JSON form is a single scalar token (text); everything else is nested and opaque here -/
def jsonScalar (ty : String) : Bool :=
  let base := stripPrefix "*" ty
  let u := (namedType base).getD base
  ["string", "bool", "float64", "int", "int64", "int8", "time.Time", "orb.Orientation"].contains u

/-- encoding/json's omitempty test on the text of a scalar: false, 0, nil pointer, empty string; a struct
    (time.Time) is never empty -/
def jsonEmpty (ty text : String) : Bool :=
  let u := (namedType ty).getD ty
  if u = "string" then text = "" else if u = "bool" then text = "false"
  else if u = "float64" then text = "0" else if u.toList.head? = some '*' then text = ""
  else if u = "time.Time" then false else text = "0"

def jsonView (f : Field) : View :=
  let tg := parseJsonTag f
  { name := tg.name, use := !tg.skip && jsonScalar f.type && f.name != "XMLName",
    drop := fun t => tg.omitempty && jsonEmpty f.type t }

/-- the scalar keys written for a record of struct type `t`, in field order -/
def encodeJson (t : String) (r : Rec) : List (String × String) := enc jsonView (fieldsOf t) r

/-- the record read back from scalar keys (any order; unknown keys ignored; absent ↦ zero value) -/
def decodeJson (t : String) (kvs : List (String × String)) : Rec := dec jsonView (fun f => zeroText f.type) (fieldsOf t) kvs

def jsonKeyNames (t : String) : List String := names jsonView (fieldsOf t)

theorem jsonEmpty_zero (ty text : String) (h : jsonEmpty ty text = true) : text = zeroText ty := by
  unfold jsonEmpty at h
  unfold zeroText
  simp only at h ⊢
  split at h
  · rename_i c; simp [c] at h ⊢; exact h
  · rename_i c1
    split at h
    · rename_i c; simp [c1, c] at h ⊢; exact h
    · rename_i c2
      split at h
      · rename_i c; simp [c1, c2, c] at h ⊢; exact h
      · rename_i c3
        split at h
        · rename_i c; simp [c1, c2, c3, c] at h ⊢; exact h
        · rename_i c4
          split at h
          · cases h
          · rename_i c5; simp [c1, c2, c3, c4, c5] at h ⊢; exact h

end OsmVerif.Model.Schema
