/-! Hand-written model of `annotate.Change` (annotate/change.go): osmChange -> diff.
Elements are (kind, id, version, mark); `mark` is an opaque payload that lets the
correspondence check see *which* history entry was picked. Versions are `Int` and the scan
starts from `max = -1` exactly as the code does. -/
namespace OsmVerif.Model.Change

inductive Kind | node | way | relation
  deriving DecidableEq, Repr

structure Elem where
  kind : Kind
  id : Int
  version : Int
  mark : Nat
  visible : Bool := false
  deriving DecidableEq, Repr

/-- what a `HistoryDatasourcer` answers for one feature -/
inductive Hist
  | notFound                 -- an error for which `ds.NotFound(err)` is true
  | otherErr                 -- any other error
  | found (l : List Elem)
  deriving Repr

abbrev Datasource := Kind → Int → Hist

inductive ActType | create | modify | delete
  deriving DecidableEq, Repr

structure Action where
  type : ActType
  old : Option Elem
  new : Elem
  deriving DecidableEq, Repr

inductive Err
  | noVisibleChild (k : Kind) (id : Int)
  | other
  deriving DecidableEq, Repr

/-- the scan of `findPrevious{Node,Way,Relation}`: state (best entry, max) -/
def scan (cur : Int) : List Elem → Option Elem → Int → Option Elem
  | [], best, _ => best
  | e :: rest, best, max =>
    if e.version < cur ∧ e.version > max then scan cur rest (some e) e.version
    else scan cur rest best max

def findPrevious (cur : Int) (h : List Elem) : Option Elem := scan cur h none (-1)

/-- three slices of an `*osm.OSM` (nil = all empty) -/
structure Group where
  nodes : List Elem
  ways : List Elem
  relations : List Elem
  deriving Repr

def Group.all (g : Group) : List Elem := g.nodes ++ g.ways ++ g.relations

def createAction (e : Elem) : Action := { type := .create, old := none, new := { e with visible := true } }

/-- one element of a modify/delete block -/
def updateOne (ds : Datasource) (ignore : Bool) (t : ActType) (e : Elem) : Except Err Action :=
  match ds e.kind e.id with
  | .otherErr => .error .other
  | .notFound => if ignore then .ok (createAction e) else .error (.noVisibleChild e.kind e.id)
  | .found h =>
    match findPrevious e.version h with
    | none => if ignore then .ok (createAction e) else .error (.noVisibleChild e.kind e.id)
    | some old => .ok { type := t, old := some old, new := { e with visible := decide (t ≠ .delete) } }

def addUpdate (ds : Datasource) (ignore : Bool) (t : ActType) : List Elem → Except Err (List Action)
  | [] => .ok []
  | e :: rest => do
    let a ← updateOne ds ignore t e
    let as ← addUpdate ds ignore t rest
    pure (a :: as)

structure Change where
  create : Group
  modify : Group
  delete : Group

def annotateChange (ds : Datasource) (ignore : Bool) (c : Change) : Except Err (List Action) := do
  let cr := c.create.all.map createAction
  let m ← addUpdate ds ignore .modify c.modify.all
  let d ← addUpdate ds ignore .delete c.delete.all
  pure (cr ++ m ++ d)

end OsmVerif.Model.Change
