/-!
The decoding pipeline of `decoder.Start` (decode.go) as a transition system, for any number `n ≥ 1` of
decoder goroutines: the reader hands block `k` to input queue `k mod n`, each decoder takes one block at
a time from its own queue and puts the result on its own output queue, the serializer takes from the output
queues in the same round-robin order. A schedule is any sequence of enabled steps; queues are unbounded
(a bounded or unbuffered Go channel only removes interleavings). Core Lean only.
-/
namespace OsmVerif.Model.Pipeline

structure PState where
  next : Nat                    -- blocks read so far = id of the next block
  rr : Nat                      -- the reader's round-robin pointer
  inputs : Nat → List Nat       -- per decoder: blocks waiting
  busy : Nat → Option Nat       -- per decoder: the block being decoded
  outputs : Nat → List Nat      -- per decoder: decoded blocks waiting for the serializer
  sr : Nat                      -- the serializer's round-robin pointer
  emitted : List Nat            -- what the consumer has been given, in order

def init : PState :=
  { next := 0, rr := 0, inputs := fun _ => [], busy := fun _ => none, outputs := fun _ => [], sr := 0, emitted := [] }

inductive Action where
  | read                        -- the reader reads the next block and queues it
  | take (w : Nat)              -- decoder w takes a block from its input queue
  | finish (w : Nat)            -- decoder w puts the decoded block on its output queue
  | emit                        -- the serializer forwards the head of the current output queue
  deriving DecidableEq, Repr

def upd {β} (f : Nat → β) (i : Nat) (v : β) : Nat → β := fun j => if j = i then v else f j

/-- one step; `none` = the action is not enabled (total blocks `B`, decoders `n`) -/
def step (n B : Nat) (s : PState) : Action → Option PState
  | .read =>
    if s.next < B then
      some { s with next := s.next + 1, rr := (s.rr + 1) % n, inputs := upd s.inputs s.rr (s.inputs s.rr ++ [s.next]) }
    else none
  | .take w =>
    if w < n then
      match s.busy w, s.inputs w with
      | none, b :: rest => some { s with busy := upd s.busy w (some b), inputs := upd s.inputs w rest }
      | _, _ => none
    else none
  | .finish w =>
    if w < n then
      match s.busy w with
      | some b => some { s with busy := upd s.busy w none, outputs := upd s.outputs w (s.outputs w ++ [b]) }
      | none => none
    else none
  | .emit =>
    match s.outputs s.sr with
    | b :: rest => some { s with emitted := s.emitted ++ [b], outputs := upd s.outputs s.sr rest, sr := (s.sr + 1) % n }
    | [] => none

/-- run a schedule, skipping steps that are not enabled -/
def run (n B : Nat) (s : PState) : List Action → PState
  | [] => s
  | a :: as => run n B ((step n B s a).getD s) as

/-- everything decoder `w` holds, oldest first -/
def held (s : PState) (w : Nat) : List Nat := s.outputs w ++ (s.busy w).toList ++ s.inputs w

end OsmVerif.Model.Pipeline
