import OsmVerif.Gen.Pbf
import OsmVerif.Model.PbfScan
/-!
The scanner as a state machine over call histories (osmpbf/scanner.go and osmxml/scanner.go share it):
`Scan`, `Err`, `Close`, cancellation of the context. And the reader goroutine's loop of `decoder.Start`,
whose condition is read from the source.
-/
namespace OsmVerif.Model.ScanState
open OsmVerif.Gen.Pbf OsmVerif.Model.PbfScan

/-- a recorded error -/
inductive Rec where
  | eof                 -- the regular end of input
  | failure             -- a read or decode error
  | ctx                 -- the context's error, met inside Next
  deriving DecidableEq, Repr

/-- what Err reports -/
inductive Report where
  | nil_ | failure | closed | ctx
  deriving DecidableEq, Repr

structure S where
  remaining : Nat           -- objects the input still holds
  failsAtEnd : Bool         -- the input ends in an error instead of a clean end
  err : Option Rec := none
  closed : Bool := false
  cancelled : Bool := false
  deriving DecidableEq, Repr

inductive Call where
  | scan | err | close | cancel
  deriving DecidableEq, Repr

inductive Out where
  | bool (b : Bool)
  | report (r : Report)
  | unit
  deriving DecidableEq, Repr

def report (s : S) : Report :=
  match s.err with
  | some .eof => .nil_
  | some .failure => .failure
  | some .ctx => .ctx
  | none => if s.closed then .closed else if s.cancelled then .ctx else .nil_

def call (s : S) : Call → S × Out
  | .scan =>
    if s.err.isSome ∨ s.closed ∨ s.cancelled then (s, .bool false)
    else if s.remaining > 0 then ({ s with remaining := s.remaining - 1 }, .bool true)
    else ({ s with err := some (if s.failsAtEnd then .failure else .eof) }, .bool false)
  | .err => (s, .report (report s))
  | .close => ({ s with closed := true }, .unit)
  | .cancel => ({ s with cancelled := true }, .unit)

def runCalls (s : S) : List Call → List Out
  | [] => []
  | c :: cs => let (s', o) := call s c; o :: runCalls s' cs

def finalState (s : S) : List Call → S
  | [] => s
  | c :: cs => finalState (call s c).1 cs

/-! ### the reader goroutine's loop -/

inductive LoopCond where
  | and_ | or_ | unknown
  deriving DecidableEq, Repr

/-- `for dec.ctx.Err() == nil && err == nil {` -/
def loopCond : LoopCond :=
  match startBody.find? (fun l => hasPrefix "for dec.ctx.Err() == nil " l) with
  | some "for dec.ctx.Err() == nil && err == nil {" => .and_
  | some "for dec.ctx.Err() == nil || err == nil {" => .or_
  | _ => .unknown

def continues (c : LoopCond) (ctxLive errNil : Bool) : Bool :=
  match c with
  | .and_ => ctxLive && errNil
  | .or_ => ctxLive || errNil
  | .unknown => true

/-- number of blocks the reader reads when the context is cancelled once `t` loop iterations have begun and
    the input holds `blocks` more blocks (the read after the last block returns EOF and sets err) -/
def reads (c : LoopCond) (blocks t : Nat) : Nat :=
  let rec go (fuel iter left : Nat) (errNil : Bool) (n : Nat) : Nat :=
    match fuel with
    | 0 => n
    | f + 1 =>
      if continues c (iter < t) errNil then
        if left > 0 then go f (iter + 1) (left - 1) true (n + 1)
        else go f (iter + 1) 0 false n
      else n
  go (blocks + t + 2) 0 blocks true 0

end OsmVerif.Model.ScanState
