/-! Hand-written model of replication/search.go (`searchTimestamp`, `findBound`, `findInRange`)
over an availability pattern `av : seq → Option timestamp` (`none` = 404). Each function exists in
a pure form (used by the theorems) and in a logging form that also returns the sequence of
requested ids (compared with the URLs the real code requests). -/
namespace OsmVerif.Model.Search

abbrev Avail := Nat → Option Int

/-! ## findInRange -/

/-- neighbour probes towards `lower`: sID = s, s-1, … while `lo < sID` -/
def probeDown (av : Avail) (lo : Nat) : Nat → Option (Nat × Int)
  | 0 => none
  | s + 1 => if lo < s + 1 then
      match av (s + 1) with
      | some ts => some (s + 1, ts)
      | none => probeDown av lo s
    else none

/-- neighbour probes towards `upper`: sID = s, s+1, … while `sID < hi` -/
def probeUp (av : Avail) (hi : Nat) : Nat → Nat → Option (Nat × Int)
  | 0, _ => none
  | f + 1, s => if s < hi then
      match av s with
      | some ts => some (s, ts)
      | none => probeUp av hi f (s + 1)
    else none

/-- one iteration's choice of `split`: midpoint, then below it, then above it -/
def pickSplit (av : Avail) (lo hi : Nat) : Option (Nat × Int) :=
  let mid := (lo + hi) / 2
  match probeDown av lo mid with
  | some r => some r
  | none => probeUp av hi (hi - mid) (mid + 1)

def findInRange (av : Avail) (t : Int) : Nat → Nat → Nat → Nat
  | 0, _, hi => hi
  | f + 1, lo, hi =>
    if lo + 1 < hi then
      match pickSplit av lo hi with
      | none => hi
      | some (s, ts) => if ts < t then findInRange av t f s hi else findInRange av t f lo s
    else hi

/-! ## findBound -/

inductive BoundStep
  | done (lo hi : Nat)
  | next (lowerID : Nat) (upper : Nat)

/-- one pass through the body of `findBound`'s loop with the current `lowerID` and `upper` -/
def boundStep (av : Avail) (t : Int) (lowerID upper : Nat) : BoundStep :=
  match av lowerID with
  | some lts =>
    if lts > t then
      if lowerID + 1 ≥ upper then .done lowerID upper
      else
        -- found a new upper bound; restart the ascent from id 1 (which is not requested again)
        let newID := (1 + lowerID) / 2
        if newID ≤ 1 then .done lowerID lowerID else .next newID lowerID
    else .done lowerID upper
  | none =>
    let newID := (lowerID + upper) / 2
    if newID ≤ lowerID then .done upper upper else .next newID upper

def findBound (av : Avail) (t : Int) : Nat → Nat → Nat → Nat × Nat
  | 0, _, upper => (upper, upper)
  | f + 1, lowerID, upper =>
    match boundStep av t lowerID upper with
    | .done lo hi => (lo, hi)
    | .next l u => findBound av t f l u

/-! ## searchTimestamp -/

/-- `cur` is the sequence number of the current state (always available), `min` the stater's minimum.
    Returns the sequence number of the chosen state. -/
def search (av : Avail) (cur min : Nat) (t : Int) : Nat :=
  match av cur with
  | none => cur                                       -- cannot happen: current state unavailable is an error
  | some cts =>
    if t > cts then cur
    else
      let (lo, hi) := match av min with
        | some _ => (min, cur)
        | none => findBound av t (cur * cur + cur + 2) 1 cur
      match av lo with
      | none => lo
      | some lts =>
        if ¬ t > lts then lo
        else findInRange av t (hi - lo) lo hi

/-! ## logging twins (requests in order; `0` stands for the request of the current state) -/

def probeDownL (av : Avail) (lo : Nat) : Nat → Option (Nat × Int) × List Nat
  | 0 => (none, [])
  | s + 1 => if lo < s + 1 then
      match av (s + 1) with
      | some ts => (some (s + 1, ts), [s + 1])
      | none => let (r, l) := probeDownL av lo s; (r, (s + 1) :: l)
    else (none, [])

def probeUpL (av : Avail) (hi : Nat) : Nat → Nat → Option (Nat × Int) × List Nat
  | 0, _ => (none, [])
  | f + 1, s => if s < hi then
      match av s with
      | some ts => (some (s, ts), [s])
      | none => let (r, l) := probeUpL av hi f (s + 1); (r, s :: l)
    else (none, [])

def pickSplitL (av : Avail) (lo hi : Nat) : Option (Nat × Int) × List Nat :=
  let mid := (lo + hi) / 2
  match probeDownL av lo mid with
  | (some r, l) => (some r, l)
  | (none, l) => let (r, l2) := probeUpL av hi (hi - mid) (mid + 1); (r, l ++ l2)

def findInRangeL (av : Avail) (t : Int) : Nat → Nat → Nat → Nat × List Nat
  | 0, _, hi => (hi, [])
  | f + 1, lo, hi =>
    if lo + 1 < hi then
      match pickSplitL av lo hi with
      | (none, l) => (hi, l)
      | (some (s, ts), l) =>
        let (r, l2) := if ts < t then findInRangeL av t f s hi else findInRangeL av t f lo s
        (r, l ++ l2)
    else (hi, [])

def findBoundL (av : Avail) (t : Int) : Nat → Nat → Nat → (Nat × Nat) × List Nat
  | 0, _, upper => ((upper, upper), [])
  | f + 1, lowerID, upper =>
    match boundStep av t lowerID upper with
    | .done lo hi => ((lo, hi), [lowerID])
    | .next l u => let (r, lg) := findBoundL av t f l u; (r, lowerID :: lg)

def searchL (av : Avail) (cur min : Nat) (t : Int) : Nat × List Nat :=
  match av cur with
  | none => (cur, [0])
  | some cts =>
    if t > cts then (cur, [0])
    else
      let ((lo, hi), l1) := match av min with
        | some _ => ((min, cur), [min])
        | none => let (r, lg) := findBoundL av t (cur * cur + cur + 2) 1 cur; (r, min :: lg)
      match av lo with
      | none => (lo, 0 :: l1)
      | some lts =>
        if ¬ t > lts then (lo, 0 :: l1)
        else let (r, l2) := findInRangeL av t (hi - lo) lo hi; (r, 0 :: l1 ++ l2)

end OsmVerif.Model.Search
