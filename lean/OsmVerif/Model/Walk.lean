/-! Hand-written model of `ChildFirstOrdering.walk` and the producer loop (annotate/order.go).
`H id` is the relation's history flattened to the list of its relation-member ids (all versions,
in order; non-relation members dropped); `none` = NotFound. `out` is the list of emitted ids, which
is also the `visited` set (an id is marked visited exactly when it is emitted). The requested id
is not on its own path at the top level, a member reached through the loop is (as in the code).
Recursion carries fuel; `Props.C14.walk_fuel_sufficient` shows |histories|+2 never runs out. -/
namespace OsmVerif.Model.Walk

abbrev Hist := Nat → Option (List Nat)

def loopMs (w : List Nat → Nat → List Nat → List Nat) (path : List Nat) :
    List Nat → List Nat → (List Nat × Bool)
  | [], out => (out, false)
  | m :: ms, out => if m ∈ path then (out, true) else loopMs w path ms (w out m (path ++ [m]))

def walk (H : Hist) : Nat → List Nat → Nat → List Nat → List Nat
  | 0, out, _, _ => out
  | f + 1, out, id, path =>
    if id ∈ out then out else
    match H id with
    | none => out
    | some ms =>
      let r := loopMs (walk H f) path ms out
      if r.2 then r.1 else r.1 ++ [id]


/-- the producer loop over the requested ids -/
def order (H : Hist) (f : Nat) (ids : List Nat) : List Nat :=
  ids.foldl (fun out id => walk H f out id []) []

end OsmVerif.Model.Walk
