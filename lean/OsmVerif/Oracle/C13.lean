import OsmVerif.Oracle.Util
import OsmVerif.Model.Change
namespace OsmVerif.Oracle.C13
open OsmVerif.Oracle OsmVerif.Model.Change

def kindOf (s : String) : Option Kind :=
  match s with | "n" => some .node | "w" => some .way | "r" => some .relation | _ => none
def kindLetter : Kind → String | .node => "n" | .way => "w" | .relation => "r"
def kindName : Kind → String | .node => "node" | .way => "way" | .relation => "relation"

def parseElem (mark : Nat) (t : String) : Option Elem :=
  match t.splitOn ":" with
  | [k, id, v] => match kindOf k, id.toInt?, v.toInt? with
    | some k, some id, some v => some { kind := k, id := id, version := v, mark := mark }
    | _, _, _ => none
  | _ => none

/-- `n:5=3,1,7` | `n:5=!` | `n:5=` -/
def parseHist (t : String) : Option ((Kind × Int) × Hist) :=
  match t.splitOn "=" with
  | [key, vs] => match key.splitOn ":" with
    | [k, id] => match kindOf k, id.toInt? with
      | some k, some id =>
        if vs = "!" then some ((k, id), .otherErr)
        else if vs = "" then some ((k, id), .found [])
        else match (vs.splitOn ",").mapM (fun (x : String) => x.toInt?) with
          | some l => some ((k, id), .found (l.zipIdx.map fun (v, i) => { kind := k, id := id, version := v, mark := i, visible := true }))
          | none => none
      | _, _ => none
    | _ => none
  | _ => none

def mkGroup (l : List Elem) : Group :=
  { nodes := l.filter (·.kind = .node), ways := l.filter (·.kind = .way), relations := l.filter (·.kind = .relation) }

def showAct (a : Action) : String :=
  let t := match a.type with | .create => "create" | .modify => "modify" | .delete => "delete"
  let n := s!"{t}:{kindLetter a.new.kind}:{a.new.id}:{a.new.version}@{a.new.mark}:v{if a.new.visible then 1 else 0}"
  match a.old with
  | none => n
  | some o => s!"{n}<{o.version}@{o.mark}"

/-- split tokens at the section markers C M D H -/
def sections (toks : List String) : List String × List String × List String × List String :=
  let rec go (ts : List String) (cur : String) (c m d h : List String) :=
    match ts with
    | [] => (c.reverse, m.reverse, d.reverse, h.reverse)
    | t :: rest =>
      if t = "C" ∨ t = "M" ∨ t = "D" ∨ t = "H" then go rest t c m d h
      else match cur with
        | "C" => go rest cur (t :: c) m d h
        | "M" => go rest cur c (t :: m) d h
        | "D" => go rest cur c m (t :: d) h
        | _ => go rest cur c m d (t :: h)
  go toks "" [] [] [] []

def handle (toks : List String) : String :=
  match toks with
  | "chg" :: ig :: rest =>
    let (c, m, d, h) := sections rest
    let pc := c.zipIdx.mapM fun (t, i) => parseElem i t
    let pm := m.zipIdx.mapM fun (t, i) => parseElem (100 + i) t
    let pd := d.zipIdx.mapM fun (t, i) => parseElem (200 + i) t
    match pc, pm, pd, h.mapM parseHist with
    | some c, some m, some d, some hs =>
      let ds : Datasource := fun k id =>
        match hs.find? (fun e => e.1.1 = k ∧ e.1.2 = id) with
        | some e => e.2
        | none => .notFound
      match annotateChange ds (ig = "1") ⟨mkGroup c, mkGroup m, mkGroup d⟩ with
      | .ok as => " ".intercalate ("ok" :: as.map showAct)
      | .error (.noVisibleChild k id) => s!"err novisible {kindName k}/{id}"
      | .error .other => "err other"
    | _, _, _, _ => "bad-op"
  | _ => "bad-op"

end OsmVerif.Oracle.C13
