import OsmVerif.Oracle.Util
import OsmVerif.Model.Convert
import OsmVerif.Model.Polygon
namespace OsmVerif.Oracle.C17
open OsmVerif.Oracle OsmVerif.Model.Convert OsmVerif.Model.Geo

def parseTags (s : String) : Option Tags :=
  if s = "-" then some [] else
  (s.splitOn ",").mapM fun (kv : String) =>
    match kv.splitOn "=" with
    | [k, v] => some (k, v)
    | _ => none

def parseMeta (ver cs ts : String) : Option Meta :=
  match ver.toInt?, cs.toInt? with
  | some v, some c => some { hasTimestamp := ts = "1" ∨ ts = "2" ∨ ts = "3" ∨ ts = "4", version := v, changeset := c }
  | _, _ => none

def parseWayNode (s : String) : Option WayNode :=
  match s.splitOn "@" with
  | [id] => id.toInt?.map fun i => { id := i }
  | [id, lon, lat] => match id.toInt?, lon.toInt?, lat.toInt? with
    | some i, some lo, some la => some { id := i, lon := lo, lat := la }
    | _, _, _ => none
  | _ => none

def parseWayNodes (s : String) : Option (List WayNode) :=
  if s = "-" then some [] else (s.splitOn ",").mapM parseWayNode

def parseNode (t : String) : Option NodeE :=
  match t.splitOn "~" with
  | [id, lon, lat, ver, cs, ts, tags] =>
    match id.toInt?, lon.toInt?, lat.toInt?, parseMeta ver cs ts, parseTags tags with
    | some i, some lo, some la, some m, some tg => some { id := i, lon := lo, lat := la, tags := tg, md := m }
    | _, _, _, _, _ => none
  | _ => none

def parseWay (t : String) : Option WayE :=
  match t.splitOn "~" with
  | [id, ver, cs, ts, tags, refs] =>
    match id.toInt?, parseMeta ver cs ts, parseTags tags, parseWayNodes refs with
    | some i, some m, some tg, some ns => some { id := i, nodes := ns, tags := tg, md := m }
    | _, _, _, _ => none
  | _ => none

def parseMember (s : String) : Option Member :=
  match s.splitOn "/" with
  | ref :: role :: orient :: rest =>
    let ty := match ref.take 1 |>.toString with | "n" => some MType.node | "w" => some MType.way | "r" => some MType.relation | _ => none
    let nodes := match rest with | [] => some [] | [ns] => parseWayNodes ns | _ => none
    match ty, (ref.drop 1).toString.toInt?, orient.toInt?, nodes with
    | some ty, some r, some o, some ns => some { type := ty, ref := r, role := role, orientation := o, nodes := ns }
    | _, _, _, _ => none
  | _ => none

def parseRel (t : String) : Option RelationE :=
  match t.splitOn "~" with
  | [id, ver, cs, ts, tags, members] =>
    let ms := if members = "-" then some [] else (members.splitOn ";").mapM parseMember
    match id.toInt?, parseMeta ver cs ts, parseTags tags, ms with
    | some i, some m, some tg, some ms => some { id := i, members := ms, tags := tg, md := m }
    | _, _, _, _ => none
  | _ => none

def showP (p : P) : String := s!"{p.1}_{p.2}"
def showL (l : List P) : String := "(" ++ ",".intercalate (l.map showP) ++ ")"
def showGeom : Geom → String
  | .point p => s!"P({showP p})"
  | .lineString l => "L" ++ showL l
  | .multiLineString ls => "ML(" ++ "".intercalate (ls.map showL) ++ ")"
  | .polygon rs => "PG(" ++ "".intercalate (rs.map showL) ++ ")"
  | .multiPolygon ps => "MPG(" ++ "".intercalate (ps.map fun rs => "(" ++ "".intercalate (rs.map showL) ++ ")") ++ ")"

def showTags (t : Tags) : String := if t.isEmpty then "-" else ",".intercalate (t.map fun (k, v) => s!"{k}={v}")

def showFeature (f : Feature) : String :=
  let rels := match f.relations with
    | none => "x"
    | some [] => "-"
    | some l => ";".intercalate (l.map fun (r : RelSummary) => s!"{r.id}:{r.role}")
  let mt := match f.metaKeys with
    | none => "x"
    | some [] => "-"
    | some l => ",".intercalate l
  s!"{f.kind}/{f.id} id={if f.idSet then 1 else 0} G={showGeom f.geom} tags={showTags f.tags} tainted={if f.tainted then 1 else 0} rels={rels} meta={mt}"

def isPolygon (w : WayE) : Bool := OsmVerif.Model.Polygon.wayPolygon (w.nodes.map (·.id)) w.tags

def sections (toks : List String) : List String × List String × List String :=
  let rec go (ts : List String) (cur : String) (n w r : List String) :=
    match ts with
    | [] => (n.reverse, w.reverse, r.reverse)
    | t :: rest =>
      if t = "N" ∨ t = "W" ∨ t = "R" ∨ t = "T" then go rest t n w r
      else match cur with
        | "N" => go rest cur (t :: n) w r
        | "W" => go rest cur n (t :: w) r
        | "R" => go rest cur n w (t :: r)
        | _ => go rest cur n w r
  go toks "" [] [] []

def handle (toks : List String) : String :=
  match toks with
  | "conv" :: opts :: rest =>
    let (n, w, r) := sections rest
    match n.mapM parseNode, w.mapM parseWay, r.mapM parseRel with
    | some ns, some ws, some rs =>
      let oc := opts.toList
      let o : Opts := { noID := oc[0]? = some '1', noMeta := oc[1]? = some '1', noRelationMembership := oc[2]? = some '1',
                        includeInvalidPolygons := oc[3]? = some '1' }
      let fs := convert o isPolygon { nodes := ns, ways := ws, relations := rs }
      if fs.isEmpty then "none" else " | ".intercalate (fs.map showFeature)
    | _, _, _ => "bad-op"
  | "orient" :: rest =>
    let (n, w, r) := sections rest
    match n.mapM parseNode, w.mapM parseWay, r.mapM parseRel with
    | some ns, some ws, some (rel :: _) =>
      " ".intercalate ((orientations { nodes := ns, ways := ws, relations := [rel] } rel.members).map toString)
    | _, _, _ => "bad-op"
  | _ => "bad-op"

end OsmVerif.Oracle.C17
