import OsmVerif.Oracle.Util
import OsmVerif.Model.OsmApi
namespace OsmVerif.Oracle.C20
open OsmVerif.Oracle OsmVerif.Gen.OsmApi OsmVerif.Model.OsmApi

def optList (s : String) : List String := if s = "-" then [] else s.splitOn ","

/-- options: `at:<hex of formatted time>`, `limit:N`, `closed:N` -/
def featureParam (o : String) : Option String :=
  match o.splitOn ":" with
  | ["at", h] => (unhex ((h.splitOn "@").headD "")).map (fun t => "at=" ++ t)
  | _ => none

def notesOpt (o : String) : Option (Option String) :=
  match o.splitOn ":" with
  | ["limit", n] => n.toInt?.map (fun n => notesParam (.limit n))
  | ["closed", n] => n.toInt?.map (fun n => notesParam (.maxDaysClosed n))
  | _ => none

/-- number of elements the selector picks out of a body with `n` elements of the endpoint's own kind and `d` others -/
def selectCount (e : Endpoint) (n d : Nat) : Nat := if e.selector = "o" then n + d else n

/-- what Go's `%f` prints for a coordinate given with seven decimals (the ops carry the exact argument; the code
    formats with `%f`, six decimals — the recorded finding `bbox-six-decimals`; the seventh digit of generated values
    is never 5, so the rounding is the decimal one) -/
def sixDec (s : String) : String :=
  let neg := s.startsWith "-"
  let body := if neg then (s.drop 1).toString else s
  match body.splitOn "." with
  | [ip, fp] =>
    match ip.toNat?, fp.toNat? with
    | some i, some f =>
      if fp.length ≠ 7 then s
      else
        let n := i * 10000000 + f
        let q := (n + 5) / 10
        let fr := toString (q % 1000000)
        let pad := String.ofList (List.replicate (6 - fr.length) '0')
        (if neg then "-" else "") ++ toString (q / 1000000) ++ "." ++ pad ++ fr
    | _, _ => s
  | _ => s

def handle (toks : List String) : String :=
  match toks with
  | ["call", name, base, ints, floats, opts, data, query, status, n, d, limiter] =>
    match endpoints.find? (·.name = name), unhex base, (optList ints).mapM (fun (x : String) => x.toInt?),
          unhex data, unhex query, status.toNat?, n.toNat?, d.toNat? with
    | some e, some base, some ints, some data, some query, some status, some n, some d =>
      let floats := (optList floats).map sixDec
      -- parameters
      let ps : Option (List String) :=
        if e.option = "FeatureOption" then (optList opts).mapM featureParam
        else if e.option = "NotesOption" then
          match (optList opts).mapM notesOpt with
          | some l => l.mapM id
          | none => none
        else some []
      match ps with
      | none => "url=- reqs=0 res=err:arg"
      | some ps =>
        let first : List String :=
          if e.name = "Notes" then ["bbox=" ++ ",".intercalate floats]
          else if e.name = "NotesSearch" then ["q=" ++ query] else []
        let params := "&".intercalate (first ++ ps)
        let fl := if e.name = "Notes" then [] else floats
        let url := buildURL e { base := base, ints := ints, floats := fl, params := params, data := data }
        if limiter = "err" then s!"url=- reqs=0 res=err:limiter"
        else
          let cls := classify status
          if cls ≠ "ok" then s!"url={hex url} reqs=1 res=err:{cls}"
          else if e.guard ≠ "" then
            (if n = 1 then s!"url={hex url} reqs=1 res=ok:1" else s!"url={hex url} reqs=1 res=err:count")
          else s!"url={hex url} reqs=1 res=ok:{selectCount e n d}"
    | _, _, _, _, _, _, _, _ => "bad-op"
  | _ => "bad-op"

end OsmVerif.Oracle.C20
