import OsmVerif.Oracle.Util
import OsmVerif.Model.Schema
namespace OsmVerif.Oracle.C04
open OsmVerif.Oracle OsmVerif.Gen.Schema OsmVerif.Model.Schema

def countsOf (l : List Nat) : Counts :=
  { bounds := l.getD 0 0 > 0, nodes := l.getD 1 0, ways := l.getD 2 0, relations := l.getD 3 0,
    changesets := l.getD 4 0, notes := l.getD 5 0, users := l.getD 6 0 }

def parseCounts (s : String) : Option (Option Counts) :=
  if s = "-" then some none
  else ((s.splitOn ".").mapM (fun (x : String) => x.toNat?)).map (fun l => some (countsOf l))

def showNames (l : List String) : String := if l.isEmpty then "-" else ",".intercalate l

def handle (toks : List String) : String :=
  match toks with
  | "names" :: "osm" :: rest =>
    match rest.mapM (fun (x : String) => x.toNat?) with
    | some l => s!"{osmMarshalXMLNames.headD "?"}:" ++ showNames (innerNames marshalInnerXMLCalls (countsOf l))
    | none => "bad-op"
  | ["names", "change", c, m, d] =>
    match parseCounts c, parseCounts m, parseCounts d with
    | some c, some m, some d =>
      let blocks := [("create", c), ("modify", m), ("delete", d)].filterMap fun (n, x) =>
        x.map fun cnt => s!"{n}({showNames (innerNames marshalInnerXMLCalls cnt)})"
      s!"{changeMarshalXMLNames.headD "?"}:" ++ " ".intercalate blocks
    | _, _, _ => "bad-op"
  | ["names", "action", ty, o, old, new] =>
    match parseCounts o, parseCounts old, parseCounts new with
    | some o, some old, some new =>
      let own := match o with | some c => innerNames marshalInnerElementsXMLCalls c | none => []
      let wrap (n : String) (x : Option Counts) : List String :=
        match x with | some c => [s!"{n}({showNames (innerNames marshalInnerXMLCalls c)})"] | none => []
      let root := xmlNameOf "Diff"
      let act := firstSeg (((fieldsOf "Diff").find? (·.name = "Actions")).map (fun f => (parseXmlTag f).name) |>.getD "?")
      s!"{root}/{act}[{ty}]:" ++ " ".intercalate (own ++ wrap "old" old ++ wrap "new" new)
    | _, _, _ => "bad-op"
  | "attrs" :: ty :: rest =>
    let parseKV (kv : String) : Option (String × String) :=
      match kv.splitOn "=" with
      | [k, v] => (unhex v).map (fun v => (k, v))
      | _ => none
    let kvs : Option (List (String × String)) :=
      match rest with
      | [] => some []
      | [s] => (s.splitOn ",").mapM parseKV
      | _ => none
    match kvs with
    | some r =>
      let out := (encodeAttrs ty r).map fun (n, v) => s!"{n}={hex v}"
      if out.isEmpty then "-" else ",".intercalate out
    | none => "bad-op"
  | "dattrs" :: ty :: rest =>
    let parseKV (kv : String) : Option (String × String) :=
      match kv.splitOn "=" with
      | [k, v] => (unhex v).map (fun v => (k, v))
      | _ => none
    let kvs : Option (List (String × String)) :=
      match rest with
      | [] => some []
      | [s] => (s.splitOn ",").mapM parseKV
      | _ => none
    match kvs with
    | some attrs => ",".intercalate ((decodeAttrs ty attrs).map fun (n, v) => s!"{n}={hex v}")
    | none => "bad-op"
  | _ => "bad-op"

end OsmVerif.Oracle.C04
