import OsmVerif.Oracle.Util
import OsmVerif.Model.Walk
namespace OsmVerif.Oracle.C14
open OsmVerif.Oracle OsmVerif.Model.Walk

/-- `id=1.n5.2|3|` : versions separated by `|`, members by `.`, non-relation members carry a letter -/
def parseHist (t : String) : Option (Nat × List Nat) :=
  match t.splitOn "=" with
  | [id, vs] => match id.toNat? with
    | some id =>
      let ms := (vs.splitOn "|").flatMap (fun v => (v.splitOn ".").filterMap (fun (m : String) => m.toNat?))
      some (id, ms)
    | none => none
  | _ => none

def parseIds (s : String) : Option (List Nat) :=
  if s = "-" then some [] else (s.splitOn ",").mapM (fun (x : String) => x.toNat?)

def run (ids : List Nat) (hs : List (Nat × List Nat)) : List Nat :=
  let H : Hist := fun n => (hs.find? (fun e => e.1 = n)).map (·.2)
  order H (hs.length + 2) ids

def showIds (l : List Nat) : String := if l.isEmpty then "-" else ",".intercalate (l.map toString)

def handle (toks : List String) : String :=
  match toks with
  | "order" :: ids :: "H" :: hs =>
    match parseIds ids, hs.mapM parseHist with
    | some ids, some hs => showIds (run ids hs)
    | _, _ => "bad-op"
  | mode :: k :: ids :: "H" :: hs =>
    if mode = "close" ∨ mode = "cancel" then
      match k.toNat?, parseIds ids, hs.mapM parseHist with
      | some k, some ids, some hs => showIds ((run ids hs).take k) ++ " stopped"
      | _, _, _ => "bad-op"
    else "bad-op"
  | _ => "bad-op"

end OsmVerif.Oracle.C14
