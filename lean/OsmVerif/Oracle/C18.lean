import OsmVerif.Oracle.Util
import OsmVerif.Model.Polygon
namespace OsmVerif.Oracle.C18
open OsmVerif.Oracle OsmVerif.Model.Polygon

def parseTag (t : String) : Option (String × String) :=
  match t.splitOn ":" with
  | [k, v] => match unhex k, unhex v with
    | some k, some v => some (k, v)
    | _, _ => none
  | _ => none

def parseIds (s : String) : Option (List Int) :=
  if s = "-" then some [] else (s.splitOn ",").mapM (fun (x : String) => x.toInt?)

def handle (toks : List String) : String :=
  match toks with
  | "way" :: ids :: tags =>
    match parseIds ids, tags.mapM parseTag with
    | some ids, some tags => toString (wayPolygon ids tags)
    | _, _ => "bad-op"
  | "rel" :: tags =>
    match tags.mapM parseTag with
    | some tags => toString (relationPolygon tags)
    | none => "bad-op"
  | _ => "bad-op"

end OsmVerif.Oracle.C18
