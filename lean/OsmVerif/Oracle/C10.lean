import OsmVerif.Oracle.Util
import OsmVerif.Model.IdText
namespace OsmVerif.Oracle.C10
open OsmVerif.Oracle OsmVerif.Gen.Ids OsmVerif.Model.IdText

def bv (i : Int) : BitVec 64 := BitVec.ofInt 64 i
def si (b : BitVec 64) : String := toString b.toInt
def os (o : Option String) : String := match o with | some s => if s.isEmpty then "\"\"" else s | none => "panic"
def ob (o : Option (BitVec 64)) : String := match o with | some b => si b | none => "panic"
def oc (o : Option (List Char)) : String := match o with | some b => hex (String.ofList b) | none => "panic"

/-- `pack kind ref ver`: constructors; for element kinds also the conversions. -/
def pack (k : String) (r v : Int) : String :=
  let r := bv r; let v := bv v
  match k with
  | "node" => s!"{si (NodeID_ObjectID r v)} {si (NodeID_ElementID r v)} {si (NodeID_FeatureID r)} {si (FeatureID_ElementID (NodeID_FeatureID r) v)} {si (FeatureID_ObjectID (NodeID_FeatureID r) v)}"
  | "way" => s!"{si (WayID_ObjectID r v)} {si (WayID_ElementID r v)} {si (WayID_FeatureID r)} {si (FeatureID_ElementID (WayID_FeatureID r) v)} {si (FeatureID_ObjectID (WayID_FeatureID r) v)}"
  | "relation" => s!"{si (RelationID_ObjectID r v)} {si (RelationID_ElementID r v)} {si (RelationID_FeatureID r)} {si (FeatureID_ElementID (RelationID_FeatureID r) v)} {si (FeatureID_ObjectID (RelationID_FeatureID r) v)}"
  | "changeset" => si (ChangesetID_ObjectID r)
  | "note" => si (NoteID_ObjectID r)
  | "user" => si (UserID_ObjectID r)
  | "bounds" => si (Bounds_ObjectID ())
  | _ => "bad-op"

/-- `dec x`: every decoder applied to the raw 64 bit value. -/
def dec (x : Int) : String :=
  let x := bv x
  s!"o {os (ObjectID_Type x)} {si (ObjectID_Ref x)} {si (ObjectID_Version x)} {oc (showObject x)} " ++
  s!"e {os (ElementID_Type x)} {si (ElementID_Ref x)} {si (ElementID_Version x)} {si (ElementID_ObjectID x)} {si (ElementID_FeatureID x)} {ob (ElementID_NodeID x)} {ob (ElementID_WayID x)} {ob (ElementID_RelationID x)} {oc (showElement x)} " ++
  s!"f {os (some (FeatureID_Type x))} {si (FeatureID_Ref x)} {ob (FeatureID_NodeID x)} {ob (FeatureID_WayID x)} {ob (FeatureID_RelationID x)} {hex (String.ofList (showFeature x))}"

def parse (which : String) (s : String) : String :=
  let r := match which with
    | "object" => parseObject s.toList
    | "element" => parseElement s.toList
    | "feature" => parseFeature s.toList
    | _ => none
  match r with | some b => si b | none => "err"

/-- insertion sort on signed value: the spec of `sort.Sort` with `Less = <` on distinct or equal ints -/
def sortInts (l : List Int) : List Int := l.mergeSort (· ≤ ·)

def handle (toks : List String) : String :=
  match toks with
  | ["pack", k, r, v] => match r.toInt?, v.toInt? with
    | some r, some v => pack k r v
    | _, _ => "bad-op"
  | ["dec", x] => match x.toInt? with
    | some x => dec x
    | none => "bad-op"
  | ["parse", w, s] => match unhex s with
    | some s => parse w s
    | none => "bad-op"
  | "sort" :: _which :: xs =>
    match xs.mapM (fun (s : String) => s.toInt?) with
    | some l => " ".intercalate ((sortInts l).map toString)
    | none => "bad-op"
  | _ => "bad-op"

end OsmVerif.Oracle.C10
