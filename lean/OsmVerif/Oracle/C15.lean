import OsmVerif.Oracle.Util
import OsmVerif.Model.Updates
namespace OsmVerif.Oracle.C15
open OsmVerif.Oracle OsmVerif.Model.Updates

def ints (t : String) : Option (List Int) := (t.splitOn ":").mapM (fun (x : String) => x.toInt?)

def parseChild (t : String) : Option Child :=
  match ints t with
  | some [k, v, c, la, lo, o] => some { key := k, version := v, changeset := c, lat := la, lon := lo, orientation := o }
  | _ => none

def negBase : Nat := 1000000000
def showIdx (i : Nat) : String := if i ≥ negBase then s!"-{i - negBase}" else toString i

def parseUpdate (t : String) : Option Update :=
  match ints t with
  | some [i, v, ts, c, la, lo, r] =>
    -- a negative index is out of range like any index beyond the list: the model's `index : Nat` carries it as
    -- `negBase + |i|`, far beyond any child list, and the printers map it back
    let idx : Nat := if i < 0 then negBase + i.natAbs else i.toNat
    some { index := idx, version := v, ts := ts, changeset := c, lat := la, lon := lo, reverse := r != 0 }
  | _ => none

def split (toks : List String) : List String × List String :=
  let rec go (ts : List String) (inU : Bool) (n u : List String) :=
    match ts with
    | [] => (n.reverse, u.reverse)
    | t :: rest => if t = "N" then go rest false n u else if t = "U" then go rest true n u
      else if inU then go rest inU n (t :: u) else go rest inU (t :: n) u
  go toks false [] []

def showChild (c : Child) : String := s!"{c.key}:{c.version}:{c.changeset}:{c.lat}:{c.lon}:{c.orientation}"
def showUpd (u : Update) : String := s!"{showIdx u.index}:{u.version}:{u.ts}"
def showPts (l : List (Int × Int)) : String := " ".intercalate (l.map fun p => s!"{p.1},{p.2}")

def showRes (r : Result) : String :=
  let e := match r.err with | some i => showIdx i | none => "-"
  s!"err={e} C " ++ " ".intercalate (r.children.map showChild) ++ " P " ++ " ".intercalate (r.updates.map showUpd)

def handle (toks : List String) : String :=
  match toks with
  | kind :: "apply" :: t :: rest =>
    let (n, u) := split rest
    match t.toInt?, n.mapM parseChild, u.mapM parseUpdate with
    | some t, some cs, some us =>
      let isRel := kind = "rel"
      let r := applyUpTo isRel t cs us
      if isRel then showRes r
      else showRes r ++ " L " ++ showPts (lineString r.children) ++ " A " ++ showPts (lineStringAt t cs us)
    | _, _, _ => "bad-op"
  | kind :: "compose" :: t1 :: t2 :: rest =>
    let (n, u) := split rest
    match t1.toInt?, t2.toInt?, n.mapM parseChild, u.mapM parseUpdate with
    | some t1, some t2, some cs, some us =>
      let isRel := kind = "rel"
      let r1 := applyUpTo isRel t1 cs us
      match r1.err with
      | some _ => "first " ++ showRes r1
      | none => showRes (applyUpTo isRel t2 r1.children r1.updates)
    | _, _, _, _ => "bad-op"
  | ["upto", t] => s!"bad-op {t}"
  | _ => "bad-op"

end OsmVerif.Oracle.C15
