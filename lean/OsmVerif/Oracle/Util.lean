/-! Line-protocol helpers for the oracle driver (core Lean only). -/
namespace OsmVerif.Oracle

def hexVal (c : Char) : Option Nat :=
  if '0' ≤ c ∧ c ≤ '9' then some (c.toNat - '0'.toNat)
  else if 'a' ≤ c ∧ c ≤ 'f' then some (c.toNat - 'a'.toNat + 10)
  else if 'A' ≤ c ∧ c ≤ 'F' then some (c.toNat - 'A'.toNat + 10)
  else none

partial def hexToBytes (s : String) : Option ByteArray :=
  let rec go (cs : List Char) (acc : ByteArray) : Option ByteArray :=
    match cs with
    | [] => some acc
    | a :: b :: rest => match hexVal a, hexVal b with
      | some x, some y => go rest (acc.push (UInt8.ofNat (x * 16 + y)))
      | _, _ => none
    | _ => none
  if s = "-" then some ByteArray.empty else go s.toList ByteArray.empty

/-- strings travel hex encoded (UTF-8 bytes); "-" is the empty string -/
def unhex (s : String) : Option String :=
  match hexToBytes s with
  | some b => String.fromUTF8? b
  | none => none

def hexDigit (n : Nat) : Char := if n < 10 then Char.ofNat (48 + n) else Char.ofNat (87 + n)

def hex (s : String) : String :=
  if s.isEmpty then "-" else
  String.ofList (s.toUTF8.toList.foldr (fun b acc => hexDigit (b.toNat / 16) :: hexDigit (b.toNat % 16) :: acc) [])

def parseIntTok (s : String) : Option Int := s.toInt?

def showOpt {α} (f : α → String) : Option α → String
  | some a => f a
  | none => "none"

end OsmVerif.Oracle
