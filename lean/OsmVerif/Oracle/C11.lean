import OsmVerif.Oracle.Util
import OsmVerif.Model.Annotate
namespace OsmVerif.Oracle.C11
open OsmVerif.Oracle OsmVerif.Model.Annotate

def optInt (s : String) : Option (Option Int) := if s = "-" then some none else s.toInt?.map some

/-- `cs:vis:ts:commit:ref.ref…`, ref = `fid` or `fid@ver`; returns the parent and the initial versions -/
def parseParent (t : String) : Option (ParentV × List Int) :=
  match t.splitOn ":" with
  | [cs, vis, ts, cm, refs] =>
    match cs.toInt?, ts.toInt?, optInt cm with
    | some cs, some ts, some cm =>
      let rs := if refs = "" then [] else refs.splitOn "."
      let parsed := rs.mapM fun (r : String) =>
        match r.splitOn "@" with
        | [f] => f.toNat?.map fun f => ((f, false), (0 : Int))
        | [f, v] => match f.toNat?, v.toInt? with
          | some f, some v => some ((f, v != 0), v)
          | _, _ => none
        | _ => none
      parsed.map fun l => ({ changeset := cs, visible := vis = "1", ts := ts, committed := cm, refs := l.map (·.1) }, l.map (·.2))
    | _, _, _ => none
  | _ => none

def parseChild (t : String) : Option Child :=
  match t.splitOn ":" with
  | [v, cs, vis, ts, cm, la, lo] =>
    match v.toInt?, cs.toInt?, ts.toInt?, optInt cm, la.toInt?, lo.toInt? with
    | some v, some cs, some ts, some cm, some la, some lo =>
      some { version := v, changeset := cs, vindex := 0, ts := ts, committed := cm, lat := la, lon := lo, visible := vis = "1" }
    | _, _, _, _, _, _ => none
  | _ => none

def parseHist (t : String) : Option (Nat × List Child) :=
  match t.splitOn "=" with
  | [f, vs] => match f.toNat?, (if vs = "" then some [] else (vs.splitOn ";").mapM parseChild) with
    | some f, some l => some (f, toChildList l)
    | _, _ => none
  | _ => none

def split (toks : List String) : List String × List String :=
  let rec go (ts : List String) (inH : Bool) (p h : List String) :=
    match ts with
    | [] => (p.reverse, h.reverse)
    | t :: rest => if t = "P" then go rest false p h else if t = "H" then go rest true p h
      else if inH then go rest inH p (t :: h) else go rest inH (t :: p) h
  go toks false [] []

def showU (u : Update) : String :=
  s!"{u.index}:{u.version}:{u.ts}:{u.changeset}:{u.lat}:{u.lon}:{if u.reverse then 1 else 0}"

def run (o : Options) (ps : List (ParentV × List Int)) (hs : List (Nat × List Child)) : String :=
  let parents := ps.map (·.1)
  let hist : Nat → Option (List Child) := fun f => (hs.find? (·.1 = f)).map (·.2)
  let order := (childIds o parents).mergeSort (· ≤ ·)
  match compute o parents hist order with
  | .error _ => "err"
  | .ok r =>
    let parts := (ps.zipIdx.map fun ((_, vers), i) =>
      let sets := r.sets.getD i []
      let kids := vers.zipIdx.map fun (v, j) =>
        match (sets.filter (·.1 = j)).getLast? with
        | some (_, c) => s!"{j}:{c.version}:{c.changeset}:{c.lat}:{c.lon}"
        | none => s!"{j}:{v}:0:0:0"
      " ".intercalate (["|", s!"P{i}", "C"] ++ kids ++ ["U"] ++ (r.updates.getD i []).map showU))
    " ".intercalate ("ok" :: parts)

def handleAnn (thr ii im fm : String) (rest : List String) : String :=
  let (p, h) := split rest
  match thr.toInt?, fm.toNat?, p.mapM parseParent, h.mapM parseHist with
  | some thr, some fm, some ps, some hs =>
    run { threshold := thr, ignoreInconsistency := ii = "1", ignoreMissing := im = "1", filterMod := fm } ps hs
  | _, _, _, _ => "bad-op"

def handle (toks : List String) : String :=
  match toks with
  | "ann" :: _kind :: thr :: ii :: im :: fm :: rest => handleAnn thr ii im fm rest
  -- `anns`: a history whose time stamps do not follow its version numbers (clock skew); the same computation
  | "anns" :: _kind :: thr :: ii :: im :: fm :: rest => handleAnn thr ii im fm rest
  | _ => "bad-op"

end OsmVerif.Oracle.C11
