import OsmVerif.Oracle.Util
import OsmVerif.Model.Search
import OsmVerif.Model.Replication
namespace OsmVerif.Oracle.C19
open OsmVerif.Oracle OsmVerif.Model.Search OsmVerif.Model.Replication

structure Seg where
  lo : Nat
  hi : Nat
  ts0 : Int
  step : Int

def parseSeg (t : String) : Option Seg :=
  match t.splitOn ":" with
  | [r, ts0, step] => match r.splitOn "-" with
    | [lo, hi] => match lo.toNat?, hi.toNat?, ts0.toInt?, step.toInt? with
      | some lo, some hi, some ts0, some step => some ⟨lo, hi, ts0, step⟩
      | _, _, _, _ => none
    | _ => none
  | _ => none

def mkAvail (segs : List Seg) : Avail := fun n =>
  match segs.find? (fun s => s.lo ≤ n ∧ n ≤ s.hi) with
  | some s => some (s.ts0 + ((n - s.lo : Nat) : Int) * s.step)
  | none => none

def minOf (kind : String) : Nat :=
  let name := match kind with
    | "minute" => OsmVerif.Gen.Replication.stateAtMinMinute
    | "hour" => OsmVerif.Gen.Replication.stateAtMinHour
    | "day" => OsmVerif.Gen.Replication.stateAtMinDay
    | _ => OsmVerif.Gen.Replication.stateAtMinChangeset
  match name with
  | "minMinute" => OsmVerif.Gen.Replication.minMinute
  | "minHour" => OsmVerif.Gen.Replication.minHour
  | "minDay" => OsmVerif.Gen.Replication.minDay
  | "minChangeset" => OsmVerif.Gen.Replication.minChangeset
  | _ => 0

def pathOf (kind : String) (n : Nat) : String :=
  String.ofList (if kind = "changesets" then changesetStatePath n else statePath kind n)

def handle (toks : List String) : String :=
  match toks with
  | "search" :: kind :: t :: _cap :: "S" :: segs =>
    match t.toInt?, segs.mapM parseSeg with
    | some t, some segs =>
      match segs.getLast? with
      | none => "bad-op"
      | some last =>
        let av := mkAvail segs
        let (r, log) := searchL av last.hi (minOf kind) t
        s!"res={r} n={log.length} reqs=" ++ ",".intercalate (log.map (pathOf kind))
    | _, _ => "bad-op"
  | ["path", kind, n] => match n.toNat? with
    | some n => pathOf kind n
    | none => "bad-op"
  | ["cseq", n, s] => match n.toNat?, s.toNat? with
    | some n, some s => toString (changesetSeq n s)
    | _, _ => "bad-op"
  | _ => "bad-op"

end OsmVerif.Oracle.C19
