import OsmVerif.Oracle.Util
import OsmVerif.Model.Pbf
import OsmVerif.Model.PbfScan
import OsmVerif.Model.PbfOffsets
import OsmVerif.Model.PbfFraming
import OsmVerif.Model.ScanState
/-! Parser of the structured-file tokens and printer of scanned objects (the same text the harness prints). -/
namespace OsmVerif.Oracle.Pbf
open OsmVerif.Oracle OsmVerif.Model.Pbf OsmVerif.Model.PbfScan

structure Header where
  bbox : Option (List Int) := none
  req : List String := []
  opt : List String := []
  wp : String := ""
  src : String := ""
  rts : Option Int := none
  rseq : Int := 0
  rurl : String := ""
  deriving Repr

structure PBlock where
  zlib : Bool := false
  block : Block := {}
  deriving Repr

structure PFile where
  header : Option Header := none
  blocks : List PBlock := []
  deriving Repr

def parseInts (v : String) : Option (List Int) :=
  if v = "" then some [] else (v.splitOn ",").mapM (fun (x : String) => x.toInt?)

def parseStrs (v : String) : Option (List String) :=
  if v = "" then some [] else (v.splitOn ";").mapM unhex

/-- builder state while reading tokens (everything is appended in reverse and fixed up at the end) -/
structure St where
  header : Option Header := none
  blocks : List PBlock := []        -- finished blocks, reversed
  cur : Option PBlock := none       -- block being read
  groups : List Group := []         -- finished groups of the current block, reversed
  g : Option Group := none          -- group being read (ways/rels reversed inside)
  kind : String := ""
  ok : Bool := true

def St.flushGroup (s : St) : St :=
  match s.g with
  | none => s
  | some (.ways ws) => { s with groups := .ways ws.reverse :: s.groups, g := none }
  | some (.rels rs) => { s with groups := .rels rs.reverse :: s.groups, g := none }
  | some g => { s with groups := g :: s.groups, g := none }

def St.flushBlock (s : St) : St :=
  let s := s.flushGroup
  match s.cur with
  | none => s
  | some b => { s with blocks := { b with block := { b.block with groups := s.groups.reverse } } :: s.blocks, cur := none, groups := [] }

def setInfo (i : Option Info) (k : String) (v : String) : Option (Option Info) :=
  match k with
  | "info" => some (some {})
  | "iv" => v.toInt?.map fun n => (i.map fun i => { i with ver := some n })
  | "its" => v.toInt?.map fun n => (i.map fun i => { i with ts := some n })
  | "ics" => v.toInt?.map fun n => (i.map fun i => { i with cs := some n })
  | "iuid" => v.toInt?.map fun n => (i.map fun i => { i with uid := some n })
  | "isid" => v.toInt?.map fun n => (i.map fun i => { i with sid := some n })
  | "ivis" => v.toInt?.map fun n => (i.map fun i => { i with vis := some n })
  | _ => none

def stepTok (s : St) (t : String) : St :=
  if !s.ok then s else
  match t with
  | "H" => { s with header := some {}, kind := "H" }
  | "B" => { s.flushBlock with cur := some {}, kind := "B" }
  | "G" => { s.flushGroup with kind := "G" }
  | "D" => { s with g := some (.dense { ids := [], lat := [], lon := [] }), kind := "D" }
  | "W" =>
    match s.g with
    | some (.ways ws) => { s with g := some (.ways ({ id := 0 } :: ws)), kind := "W" }
    | _ => { s.flushGroup with g := some (.ways [{ id := 0 }]), kind := "W" }
  | "R" =>
    match s.g with
    | some (.rels rs) => { s with g := some (.rels ({ id := 0 } :: rs)), kind := "R" }
    | _ => { s.flushGroup with g := some (.rels [{ id := 0 }]), kind := "R" }
  | _ =>
    match t.splitOn "=" with
    | [k, v] =>
      let bad : St := { s with ok := false }
      match s.kind with
      | "H" =>
        match s.header with
        | none => bad
        | some h =>
          let h' : Option Header :=
            match k with
            | "bbox" => (parseInts v).map fun l => { h with bbox := some l }
            | "req" => (parseStrs v).map fun l => { h with req := l }
            | "opt" => (parseStrs v).map fun l => { h with opt := l }
            | "wp" => (unhex v).map fun x => { h with wp := x }
            | "src" => (unhex v).map fun x => { h with src := x }
            | "rts" => v.toInt?.map fun n => { h with rts := some n }
            | "rseq" => v.toInt?.map fun n => { h with rseq := n }
            | "rurl" => (unhex v).map fun x => { h with rurl := x }
            | _ => none
          match h' with
          | some h' => { s with header := some h' }
          | none => bad
      | "B" =>
        match s.cur with
        | none => bad
        | some b =>
          let b' : Option PBlock :=
            match k with
            | "z" => some { b with zlib := v = "1" }
            | "g" => v.toInt?.map fun n => { b with block := { b.block with gran := some n } }
            | "dg" => v.toInt?.map fun n => { b with block := { b.block with dateGran := some n } }
            | "la" => v.toInt?.map fun n => { b with block := { b.block with latOff := some n } }
            | "lo" => v.toInt?.map fun n => { b with block := { b.block with lonOff := some n } }
            | "st" => (parseStrs v).map fun l => { b with block := { b.block with strings := l } }
            | "lay" => some b
            | _ => none
          match b' with
          | some b' => { s with cur := some b' }
          | none => bad
      | "D" =>
        match s.g, parseInts v with
        | some (.dense d), some l =>
          let d' : Option Dense :=
            match k with
            | "ids" => some { d with ids := l } | "lat" => some { d with lat := l } | "lon" => some { d with lon := l }
            | "kv" => some { d with kv := some l } | "info" => some { d with hasInfo := v = "1" }
            | "ver" => some { d with ver := some l } | "ts" => some { d with ts := some l } | "cs" => some { d with cs := some l }
            | "uid" => some { d with uid := some l } | "sid" => some { d with sid := some l } | "vis" => some { d with vis := some l }
            | _ => none
          match d' with
          | some d' => { s with g := some (.dense d') }
          | none => bad
        | _, _ => bad
      | "W" =>
        match s.g with
        | some (.ways (w :: ws)) =>
          let w' : Option WayMsg :=
            match setInfo w.info k v with
            | some i => some { w with info := i }
            | none =>
              match k with
              | "id" => v.toInt?.map fun n => { w with id := n }
              | "keys" => (parseInts v).map fun l => { w with keys := some l }
              | "vals" => (parseInts v).map fun l => { w with vals := some l }
              | "refs" => (parseInts v).map fun l => { w with refs := some l }
              | "lat" => (parseInts v).map fun l => { w with lat := some l }
              | "lon" => (parseInts v).map fun l => { w with lon := some l }
              | _ => none
          match w' with
          | some w' => { s with g := some (.ways (w' :: ws)) }
          | none => bad
        | _ => bad
      | "R" =>
        match s.g with
        | some (.rels (r :: rs)) =>
          let r' : Option RelMsg :=
            match setInfo r.info k v with
            | some i => some { r with info := i }
            | none =>
              match k with
              | "id" => v.toInt?.map fun n => { r with id := n }
              | "keys" => (parseInts v).map fun l => { r with keys := some l }
              | "vals" => (parseInts v).map fun l => { r with vals := some l }
              | "roles" => (parseInts v).map fun l => { r with roles := some l }
              | "memids" => (parseInts v).map fun l => { r with memids := some l }
              | "types" => (parseInts v).map fun l => { r with types := some l }
              | _ => none
          match r' with
          | some r' => { s with g := some (.rels (r' :: rs)) }
          | none => bad
        | _ => bad
      | _ => bad
    | _ => { s with ok := false }

def parseFile (toks : List String) : Option PFile :=
  let s := (toks.foldl stepTok {}).flushBlock
  if s.ok then some { header := s.header, blocks := s.blocks.reverse } else none

/-! ### printing -/

def showTags (ts : List (String × String)) : String :=
  if ts.isEmpty then "_" else ";".intercalate (ts.map fun (k, v) => hex k ++ "=" ++ hex v)

def showMeta (m : Meta) : String :=
  let t := match m.ts with | none => "z" | some x => toString x
  s!"{m.ver}:{t}:{m.cs}:{m.uid}:{hex m.user}:{if m.vis then 1 else 0}"

def showObj : Obj → String
  | .node n => s!"n:{n.id}:{showMeta n.md}:{n.lat}:{n.lon}:{showTags n.tags}"
  | .way w =>
    let ns := if w.nodes.isEmpty then "_" else ";".intercalate (w.nodes.map fun n => s!"{n.ref}/{n.lat.getD 0}/{n.lon.getD 0}")
    s!"w:{w.id}:{showMeta w.md}:{showTags w.tags}:{ns}"
  | .rel r =>
    let ms := if r.members.isEmpty then "_" else ";".intercalate (r.members.map fun m => s!"{m.type}/{m.ref}/{hex m.role}")
    s!"r:{r.id}:{showMeta r.md}:{showTags r.tags}:{ms}"

def showStrs (l : List String) : String := if l.isEmpty then "_" else ";".intercalate (l.map hex)

def showHeader : Option Header → String
  | none => "hdr:none"
  | some h =>
    let bb := match h.bbox with | some l => ",".intercalate (l.map toString) | none => "_"
    let rts := match h.rts with | some t => toString t | none => "z"
    s!"hdr:bbox={bb}:req={showStrs h.req}:opt={showStrs h.opt}:wp={hex h.wp}:src={hex h.src}:rts={rts}:rseq={h.rseq}:rurl={hex h.rurl}"

/-- objects of the leading intact blocks, and whether every block was intact -/
def decodePrefix : List Block → List Obj × Bool
  | [] => ([], true)
  | b :: rest =>
    match decodeBlock b with
    | none => ([], false)
    | some os => let (more, ok) := decodePrefix rest; (os ++ more, ok)

def showScan (hdr : String) (objs : List Obj) (ok : Bool) : String :=
  " ".intercalate ([hdr] ++ objs.map showObj ++ [if ok then "end=ok" else "end=err"])

partial def handleC01 (toks : List String) : String :=
  match toks with
  | "par" :: _procs :: _tseed :: file => handleC01 ("scan" :: "0" :: file)
  | "pard" :: _ => "see-handleC02"
  | "scan" :: _procs :: file =>
    match parseFile file with
    | none => "bad-op"
    | some f =>
      let (objs, ok) := decodePrefix (f.blocks.map (·.block))
      showScan (showHeader f.header) objs ok
  | _ => "bad-op"

/-! ### C08: selections -/

/-- a predicate spec shared with the harness: all | none | idmod.K.R | tags | ver.K | vis -/
def predOf (spec : String) : Option (Int → Meta → List (String × String) → Bool) :=
  match spec.splitOn "." with
  | ["all"] => some fun _ _ _ => true
  | ["none"] => some fun _ _ _ => false
  | ["tags"] => some fun _ _ ts => !ts.isEmpty
  | ["vis"] => some fun _ m _ => m.vis
  | ["ver", k] => k.toInt?.map fun k => fun _ m _ => m.ver > k
  | ["idmod", k, r] =>
    match k.toInt?, r.toInt? with
    | some k, some r => if k = 0 then none else some fun id _ _ => Int.tmod id k = r
    | _, _ => none
  | _ => none

def selectOf (skip fN fW fR : String) : Option Select :=
  match skip.toList, predOf fN, predOf fW, predOf fR with
  | [a, b, c], some pn, some pw, some pr =>
    some { skipNodes := a = '1', skipWays := b = '1', skipRels := c = '1',
           node := fun n => pn n.id n.md n.tags, way := fun w => pw w.id w.md w.tags, rel := fun r => pr r.id r.md r.tags }
  | _, _, _, _ => none

def scanPrefix (ru : Reuses) (s : Select) : List Block → List Obj × Bool
  | [] => ([], true)
  | b :: rest =>
    match scanBlock ru s b with
    | none => ([], false)
    | some os => let (more, ok) := scanPrefix ru s rest; (os ++ more, ok)

def handleC08 (toks : List String) : String :=
  match toks with
  | "filt" :: _procs :: skip :: fN :: fW :: fR :: file =>
    match parseFile file, selectOf skip fN fW fR with
    | some f, some sel =>
      -- the specification: the reuse discipline of `specReuses` (the theorems tie the source to it)
      let (objs, ok) := scanPrefix specReuses sel (f.blocks.map (·.block))
      showScan (showHeader f.header) objs ok
    | _, _ => "bad-op"
  | _ => "bad-op"

/-! ### C09: reported offsets -/

def parseSizes (s : String) : Option (List (Nat × Nat)) :=
  if s = "S=" then some [] else
  ((s.drop 2).toString.splitOn ",").mapM fun p =>
    match p.splitOn ":" with
    | [h, b] => match h.toNat?, b.toNat? with
      | some h, some b => some (h, b)
      | _, _ => none
    | _ => none

def handleC09 (toks : List String) : String :=
  match toks with
  | "offs" :: _procs :: skip :: sizes :: file =>
    match parseFile file, selectOf skip "all" "all" "all", some specReuses, parseSizes sizes with
    | some f, some sel, some ru, some sz =>
      let nh := if f.header.isSome then 1 else 0
      if sz.length ≠ f.blocks.length + nh then "bad-op" else
      let hdr : Option (OsmVerif.Model.PbfOffsets.Frame Obj) := if f.header.isSome then (sz.head?.map fun (h, b) => { hlen := h, blen := b, objs := [] }) else none
      let frames : Option (List (OsmVerif.Model.PbfOffsets.Frame Obj)) := ((f.blocks.map (·.block)).zip (sz.drop nh)).mapM fun (b, (h, bl)) =>
        (scanBlock ru sel b).map fun os => { hlen := h, blen := bl, objs := os }
      match frames with
      | none => "model-undefined"
      | some frames =>
        match OsmVerif.Model.PbfOffsets.scanTrace OsmVerif.Model.PbfOffsets.specRules hdr frames with
        | none => "model-undefined"
        | some tr => " ".intercalate (s!"n={tr.length}" :: tr.map fun (_, c, p) => s!"{c}/{p}")
    | _, _, none, _ => "model-undefined"
    | _, _, _, _ => "bad-op"
  | _ => "bad-op"

/-! ### C06: cut and damaged streams (the specification: `specConv`, prefix of intact blocks then an error) -/

def showCut (hdrOk : Bool) (objs : List Obj) (ok : Bool) : String :=
  " ".intercalate ([if hdrOk then "hdr=ok" else "hdr=none"] ++ objs.map showObj ++ [if ok then "end=ok" else "end=err"])

def handleC06 (toks : List String) : String :=
  match toks with
  | "cut" :: _procs :: off :: sizes :: file =>
    match parseFile file, off.toNat?, parseSizes sizes with
    | some f, some k, some sz =>
      let nh := if f.header.isSome then 1 else 0
      if sz.length ≠ f.blocks.length + nh then "bad-op" else
      match (f.blocks.map (·.block)).mapM decodeBlock with
      | none => "bad-op"
      | some objss =>
        let hdrFrames : List (OsmVerif.Model.PbfFraming.Frame Obj) := (sz.take nh).map fun (h, b) => { hlen := h, blen := b, objs := [] }
        let frames : List (OsmVerif.Model.PbfFraming.Frame Obj) := hdrFrames ++ (objss.zip (sz.drop nh)).map fun (os, (h, b)) => { hlen := h, blen := b, objs := os }
        let (objs, ok) := OsmVerif.Model.PbfFraming.scanCut OsmVerif.Model.PbfFraming.specConv k frames
        let hdrOk := nh = 1 ∧ (hdrFrames.map (·.size)).sum ≤ k
        showCut hdrOk objs ok
    | _, _, _ => "bad-op"
  | "dmg" :: _procs :: _cls :: pos :: file =>
    match parseFile file, pos.toNat? with
    | some f, some pos =>
      let nh := if f.header.isSome then 1 else 0
      let before := (f.blocks.map (·.block)).take (pos - nh)
      match before.mapM decodeBlock with
      | none => "bad-op"
      | some objss => showCut (nh = 1 ∧ pos ≥ 1) objss.flatten false
    | _, _ => "bad-op"
  | _ => "bad-op"

/-- C02: undamaged files are the C01 specification; a damaged block after intact ones is the C06 specification -/
def handleC02 (toks : List String) : String :=
  match toks with
  | "pard" :: procs :: _tseed :: cls :: pos :: file => handleC06 ("dmg" :: procs :: cls :: pos :: file)
  | _ => handleC01 toks

/-! ### C07: call histories -/

open OsmVerif.Model.ScanState in
def runHistory (total : Nat) (calls : String) : String :=
  let cs : List Call := calls.toList.filterMap fun c =>
    if c = 'S' then some .scan else if c = 'E' then some .err else if c = 'C' then some .close else if c = 'X' then some .cancel else none
  let outs := runCalls { remaining := total, failsAtEnd := false } cs
  " ".intercalate (outs.map fun o => match o with
    | .bool true => "1" | .bool false => "0" | .unit => "-"
    | .report .nil_ => "nil" | .report .failure => "failure" | .report .closed => "closed" | .report .ctx => "ctx")

def handleC07 (toks : List String) : String :=
  match toks with
  | "hist" :: "pbf" :: _procs :: calls :: file =>
    match parseFile file with
    | some f =>
      match (f.blocks.map (·.block)).mapM decodeBlock with
      | some objss => runHistory objss.flatten.length calls
      | none => "bad-op"
    | none => "bad-op"
  | ["hist", "xml", n, calls] =>
    match n.toNat? with
    | some n => runHistory n calls
    | none => "bad-op"
  | _ => "bad-op"

end OsmVerif.Oracle.Pbf
