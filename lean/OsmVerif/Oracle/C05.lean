import OsmVerif.Oracle.Util
import OsmVerif.Model.Json
import OsmVerif.Model.JsonFields
namespace OsmVerif.Oracle.C05
open OsmVerif.Oracle OsmVerif.Model.Json OsmVerif.Model.Schema

def sortStrs (l : List String) : List String := (l.toArray.qsort (· < ·)).toList

def showColls (c : Colls) : String :=
  let part (n : String) (l : List Nat) : List String := if l.isEmpty then [] else [n ++ "=" ++ " ".intercalate (l.map toString)]
  let ps := part "nodes" c.nodes ++ part "ways" c.ways ++ part "relations" c.relations ++ part "changesets" c.changesets ++
    part "notes" c.notes ++ part "users" c.users
  if ps.isEmpty then "empty" else ";".intercalate ps

def parseElem (s : String) : Option (String × Nat) :=
  match s.splitOn ":" with
  | [l, p] => p.toNat?.map fun n => (l, n)
  | _ => none

def handle (toks : List String) : String :=
  match toks with
  | ["ver", v] =>
    match uplan with
    | none => "model-undefined"
    | some up =>
      match up.strKeys.find? (·.1 = "version") with
      | none => "model-undefined"
      | some (_, _, rule) =>
        if v = "absent" ∨ v = "null" then hex (applyRule rule .absent)   -- null decodes to a nil interface, like an absent key
        else if v.startsWith "s:" ∨ v.startsWith "e:" then
          match unhex (v.drop 2).toString with
          | some s => hex (applyRule rule (.str s))
          | none => "bad-op"
        else if v.startsWith "n:" then hex (applyRule rule (.num (v.drop 2).toString))
        else "bad-op"
  | "elems" :: rest =>
    let items : Option (List (String × Nat)) :=
      match rest with
      | [] => some []
      | [s] => (s.splitOn ",").mapM parseElem
      | _ => none
    match items, uplan with
    | some es, some up =>
      match runU up { elements := es } with
      | some (_, c) => showColls c
      | none => "err"
    | none, _ => "bad-op"
    | _, none => "model-undefined"
  | ["mel", v, g, c, a, l, b, n, w, r, cs, no, u] =>
    match unhex v, unhex g, unhex c, unhex a, unhex l, [b, n, w, r, cs, no, u].mapM (fun (x : String) => x.toNat?), mplan with
    | some v, some g, some c, some a, some l, some [b, n, w, r, cs, no, u], some mp =>
      let t : Top := { version := v, generator := g, copyright := c, attribution := a, license := l }
      -- payloads are numbered in the order the harness assigns ids
      let rng (start len : Nat) : List Nat := (List.range len).map (· + start + 1)
      let s0 := b
      let colls : Colls :=
        { bounds := if b = 1 then some 1 else none,
          nodes := rng s0 n, ways := rng (s0 + n) w, relations := rng (s0 + n + w) r,
          changesets := rng (s0 + n + w + r) cs, notes := rng (s0 + n + w + r + cs) no, users := rng (s0 + n + w + r + cs + no) u }
      let d := runM mp t colls
      let keys := sortStrs (d.keys.map fun (k, jv) => k ++ "=" ++ (match jv with | .str s => hex s | .num s => hex s | .absent => "?"))
      let bs := match d.bounds with | some p => toString p | none => "-"
      s!"keys={",".intercalate keys} bounds={bs} elements={",".intercalate (d.elements.map fun (l, p) => s!"{l}:{p}")}"
    | _, _, _, _, _, _, none => "model-undefined"
    | _, _, _, _, _, _, _ => "bad-op"
  | "tags" :: rest =>
    let parseKV (kv : String) : Option (String × String) :=
      match kv.splitOn "=" with
      | [k, v] => match unhex k, unhex v with
        | some k, some v => some (k, v)
        | _, _ => none
      | _ => none
    let kvs : Option (List (String × String)) :=
      match rest with
      | [] => some []
      | [s] => (s.splitOn ",").mapM parseKV
      | _ => none
    match kvs with
    | some ts => ",".intercalate (sortStrs ((tagsMap ts).map fun (k, v) => hex k ++ "=" ++ hex v))
    | none => "bad-op"
  | "wn" :: rest =>
    let parseN (s : String) : Option WayNode :=
      match (s.splitOn ":").mapM (fun (x : String) => x.toInt?) with
      | some [id, v, cs] => some { id := id, version := v, changeset := cs, lat := v, lon := cs }
      | _ => none
    let ns : Option (List WayNode) :=
      match rest with
      | [] => some []
      | [s] => (s.splitOn ",").mapM parseN
      | _ => none
    match ns with
    | some ns =>
      let ids := wayNodesJSON ns
      let back := wayNodesOfJSON ids
      "[" ++ ",".intercalate (ids.map toString) ++ "] " ++
        ",".intercalate (back.map fun n => s!"{n.id}:{n.version}:{n.changeset}:{n.lat}:{n.lon}")
    | none => "bad-op"
  | op :: ty :: rest =>
    if op = "jfields" ∨ op = "jdecode" then
      let parseKV (kv : String) : Option (String × String) :=
        match kv.splitOn "=" with
        | [k, v] => (unhex v).map fun v => (k, v)
        | _ => none
      let kvs : Option (List (String × String)) :=
        match rest with
        | [] => some []
        | [s] => (s.splitOn ",").mapM parseKV
        | _ => none
      match kvs with
      | some kvs =>
        let out := if op = "jfields" then encodeJson ty kvs else decodeJson ty kvs
        if out.isEmpty then "-" else ",".intercalate (out.map fun (n, v) => s!"{n}={hex v}")
      | none => "bad-op"
    else "bad-op"
  | _ => "bad-op"

end OsmVerif.Oracle.C05
