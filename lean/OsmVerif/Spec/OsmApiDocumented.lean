import OsmVerif.Gen.OsmApi
/-! Pinned table of the OSM API v0.6 read endpoints this library offers
(https://wiki.openstreetmap.org/wiki/API_v0.6: `GET /api/0.6/[node|way|relation]/#id`, `/#id/#version`,
`/#id/history`, `/[nodes|ways|relations]?#parameters`, `/#id/relations`, `/node/#id/ways`,
`/[way|relation]/#id/full`, `/map?bbox=`, `/changeset/#id[?include_discussion=true]`,
`/changeset/#id/download`, `/notes/#id`, `/notes?bbox=`, `/notes/search?q=`, `/user/#id`),
written by hand: path recipe, what kind of options it takes, what is returned, and the
exactly-one-element guard of the single-element calls. -/
namespace OsmVerif.Spec.OsmApi
open OsmVerif.Gen.OsmApi

def documented : List Endpoint := [
  ⟨"Changeset", "sprintf", "%s/changeset/%d", ["ds.baseURL()", "id"], "none", "css.Changesets[0]", "len(css.Changesets) != 1"⟩,
  ⟨"ChangesetDownload", "sprintf", "%s/changeset/%d/download", ["ds.baseURL()", "id"], "none", "change", ""⟩,
  ⟨"ChangesetWithDiscussion", "sprintf", "%s/changeset/%d?include_discussion=true", ["ds.baseURL()", "id"], "none", "css.Changesets[0]", "len(css.Changesets) != 1"⟩,
  ⟨"Map", "sprintf", "%s/map?bbox=%f,%f,%f,%f&%s", ["ds.baseURL()", "bounds.MinLon", "bounds.MinLat", "bounds.MaxLon", "bounds.MaxLat", "params"], "FeatureOption", "o", ""⟩,
  ⟨"Node", "sprintf", "%s/node/%d?%s", ["ds.baseURL()", "id", "params"], "FeatureOption", "o.Nodes[0]", "len(o.Nodes) != 1"⟩,
  ⟨"NodeHistory", "sprintf", "%s/node/%d/history", ["ds.baseURL()", "id"], "none", "o.Nodes", ""⟩,
  ⟨"NodeRelations", "sprintf", "%s/node/%d/relations?%s", ["ds.baseURL()", "id", "params"], "FeatureOption", "o.Relations", ""⟩,
  ⟨"NodeVersion", "sprintf", "%s/node/%d/%d", ["ds.baseURL()", "id", "v"], "none", "o.Nodes[0]", "len(o.Nodes) != 1"⟩,
  ⟨"NodeWays", "sprintf", "%s/node/%d/ways?%s", ["ds.baseURL()", "id", "params"], "FeatureOption", "o.Ways", ""⟩,
  ⟨"Nodes", "concat", "/nodes?nodes=", ["ds.baseURL()", "string(data)", "+=", "lit:&", "params"], "FeatureOption", "o.Nodes", ""⟩,
  ⟨"Note", "sprintf", "%s/notes/%d", ["ds.baseURL()", "id"], "none", "o.Notes[0]", "len(o.Notes) != 1"⟩,
  ⟨"Notes", "sprintf", "%s/notes?%s", ["ds.baseURL()", "strings.Join(params, \"&\")"], "NotesOption", "o.Notes", ""⟩,
  ⟨"NotesSearch", "sprintf", "%s/notes/search?%s", ["ds.baseURL()", "strings.Join(params, \"&\")"], "NotesOption", "o.Notes", ""⟩,
  ⟨"Relation", "sprintf", "%s/relation/%d?%s", ["ds.baseURL()", "id", "params"], "FeatureOption", "o.Relations[0]", "len(o.Relations) != 1"⟩,
  ⟨"RelationFull", "sprintf", "%s/relation/%d/full?%s", ["ds.baseURL()", "id", "params"], "FeatureOption", "o", ""⟩,
  ⟨"RelationHistory", "sprintf", "%s/relation/%d/history", ["ds.baseURL()", "id"], "none", "o.Relations", ""⟩,
  ⟨"RelationRelations", "sprintf", "%s/relation/%d/relations?%s", ["ds.baseURL()", "id", "params"], "FeatureOption", "o.Relations", ""⟩,
  ⟨"RelationVersion", "sprintf", "%s/relation/%d/%d", ["ds.baseURL()", "id", "v"], "none", "o.Relations[0]", "len(o.Relations) != 1"⟩,
  ⟨"Relations", "concat", "/relations?relations=", ["ds.baseURL()", "string(data)", "+=", "lit:&", "params"], "FeatureOption", "o.Relations", ""⟩,
  ⟨"User", "sprintf", "%s/user/%d", ["ds.baseURL()", "id"], "none", "o.Users[0]", "len(o.Users) != 1"⟩,
  ⟨"Way", "sprintf", "%s/way/%d?%s", ["ds.baseURL()", "id", "params"], "FeatureOption", "o.Ways[0]", "len(o.Ways) != 1"⟩,
  ⟨"WayFull", "sprintf", "%s/way/%d/full?%s", ["ds.baseURL()", "id", "params"], "FeatureOption", "o", ""⟩,
  ⟨"WayHistory", "sprintf", "%s/way/%d/history", ["ds.baseURL()", "id"], "none", "o.Ways", ""⟩,
  ⟨"WayRelations", "sprintf", "%s/way/%d/relations?%s", ["ds.baseURL()", "id", "params"], "FeatureOption", "o.Relations", ""⟩,
  ⟨"WayVersion", "sprintf", "%s/way/%d/%d", ["ds.baseURL()", "id", "v"], "none", "o.Ways[0]", "len(o.Ways) != 1"⟩,
  ⟨"Ways", "concat", "/ways?ways=", ["ds.baseURL()", "string(data)", "+=", "lit:&", "params"], "FeatureOption", "o.Ways", ""⟩
]

end OsmVerif.Spec.OsmApi
