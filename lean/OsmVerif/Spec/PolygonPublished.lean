import OsmVerif.Gen.Polygon
/-! Pinned copy of the published Overpass-turbo polygon-features table
(https://wiki.openstreetmap.org/wiki/Overpass_turbo/Polygon_Features, as also shipped by
osmtogeojson's `polygonFeatures.json`), written out by hand — NOT produced by the extractor —
and the declarative meaning of the rules. -/
namespace OsmVerif.Spec.Polygon
open OsmVerif.Gen.Polygon

def published : List Cond := [
  ⟨"building", .all, []⟩,
  ⟨"highway", .whitelist, ["services", "rest_area", "escape", "elevator"]⟩,
  ⟨"natural", .blacklist, ["coastline", "cliff", "ridge", "arete", "tree_row"]⟩,
  ⟨"landuse", .all, []⟩,
  ⟨"waterway", .whitelist, ["riverbank", "dock", "boatyard", "dam"]⟩,
  ⟨"amenity", .all, []⟩,
  ⟨"leisure", .all, []⟩,
  ⟨"barrier", .whitelist, ["city_wall", "ditch", "hedge", "retaining_wall", "wall", "spikes"]⟩,
  ⟨"railway", .whitelist, ["station", "turntable", "roundhouse", "platform"]⟩,
  ⟨"boundary", .all, []⟩,
  ⟨"man_made", .blacklist, ["cutline", "embankment", "pipeline"]⟩,
  ⟨"power", .whitelist, ["plant", "substation", "generator", "transformer"]⟩,
  ⟨"place", .all, []⟩,
  ⟨"shop", .all, []⟩,
  ⟨"aeroway", .blacklist, ["taxiway"]⟩,
  ⟨"tourism", .all, []⟩,
  ⟨"historic", .all, []⟩,
  ⟨"public_transport", .all, []⟩,
  ⟨"office", .all, []⟩,
  ⟨"building:part", .all, []⟩,
  ⟨"military", .all, []⟩,
  ⟨"ruins", .all, []⟩,
  ⟨"area:highway", .all, []⟩,
  ⟨"craft", .all, []⟩,
  ⟨"golf", .all, []⟩,
  ⟨"indoor", .all, []⟩
]

/-- value of a key in a tag collection (first occurrence) -/
def lookup : List (String × String) → String → String
  | [], _ => ""
  | (k, v) :: rest, key => if k = key then v else lookup rest key

/-- the tag collection has the key (whatever its value, the empty one included) -/
def present : List (String × String) → String → Bool
  | [], _ => false
  | (k, _) :: rest, key => k == key || present rest key

/-- one published rule is satisfied by a key that is present (`p`) with value `v` (membership, no search structure) -/
def ruleHolds (c : Cond) (p : Bool) (v : String) : Bool :=
  p && v ≠ "no" &&
  match c.kind with
  | .all => true
  | .whitelist => c.values.contains v
  | .blacklist => !c.values.contains v
  | .other => false

/-- declarative rule: closed, more than three refs, and the tag rules -/
def isArea (nrefs : Nat) (closed : Bool) (tags : List (String × String)) : Bool :=
  decide (nrefs > 3) && closed &&
  (let area := lookup tags "area"
   if area = "no" then false
   else if area ≠ "" then true
   else published.any fun c => ruleHolds c (present tags c.key) (lookup tags c.key))

end OsmVerif.Spec.Polygon
