import OsmVerif.Gen.Schema
/-! Pinned vocabulary: the element / attribute names of OSM XML (https://wiki.openstreetmap.org/wiki/OSM_XML,
API v0.6 responses for changesets, notes and users, osmChange, augmented diffs as written by this
library) and the keys of Overpass/OSM-API osmjson, per Go struct field. Written out once (reviewed
name by name against the formats) and kept by hand — NOT regenerated. `Props.C03.names_eq_osm_xml`
compares the regenerated schema with it. -/
namespace OsmVerif.Spec.OsmSchema
open OsmVerif.Gen.Schema

def pinnedStructs : List (String × List Field) := [
  ("Action", [
    ⟨"Type", "ActionType", "type,attr", ""⟩,
    ⟨"*OSM", "*OSM", ",omitempty", ""⟩,
    ⟨"Old", "*OSM", "old,omitempty", ""⟩,
    ⟨"New", "*OSM", "new,omitempty", ""⟩
  ]),
  ("Bounds", [
    ⟨"MinLat", "float64", "minlat,attr", "minlat"⟩,
    ⟨"MaxLat", "float64", "maxlat,attr", "maxlat"⟩,
    ⟨"MinLon", "float64", "minlon,attr", "minlon"⟩,
    ⟨"MaxLon", "float64", "maxlon,attr", "maxlon"⟩
  ]),
  ("Change", [
    ⟨"Version", "string", "version,attr,omitempty", "version,omitempty"⟩,
    ⟨"Generator", "string", "generator,attr,omitempty", "generator,omitempty"⟩,
    ⟨"Copyright", "string", "copyright,attr,omitempty", "copyright,omitempty"⟩,
    ⟨"Attribution", "string", "attribution,attr,omitempty", "attribution,omitempty"⟩,
    ⟨"License", "string", "license,attr,omitempty", "license,omitempty"⟩,
    ⟨"Create", "*OSM", "create", "create,omitempty"⟩,
    ⟨"Modify", "*OSM", "modify", "modify,omitempty"⟩,
    ⟨"Delete", "*OSM", "delete", "delete,omitempty"⟩
  ]),
  ("Changeset", [
    ⟨"XMLName", "xmlNameJSONTypeCS", "changeset", "type"⟩,
    ⟨"ID", "ChangesetID", "id,attr", "id"⟩,
    ⟨"User", "string", "user,attr", "user,omitempty"⟩,
    ⟨"UserID", "UserID", "uid,attr", "uid,omitempty"⟩,
    ⟨"CreatedAt", "time.Time", "created_at,attr", "created_at"⟩,
    ⟨"ClosedAt", "time.Time", "closed_at,attr", "closed_at"⟩,
    ⟨"Open", "bool", "open,attr", "open"⟩,
    ⟨"ChangesCount", "int", "num_changes,attr,omitempty", "num_changes,omitempty"⟩,
    ⟨"MinLat", "float64", "min_lat,attr", "min_lat,omitempty"⟩,
    ⟨"MaxLat", "float64", "max_lat,attr", "max_lat,omitempty"⟩,
    ⟨"MinLon", "float64", "min_lon,attr", "min_lon,omitempty"⟩,
    ⟨"MaxLon", "float64", "max_lon,attr", "max_lon,omitempty"⟩,
    ⟨"CommentsCount", "int", "comments_count,attr,omitempty", "comments_count,omitempty"⟩,
    ⟨"Tags", "Tags", "tag", "tags,omitempty"⟩,
    ⟨"Discussion", "*ChangesetDiscussion", "discussion,omitempty", "discussion,omitempty"⟩,
    ⟨"Change", "*Change", "-", "change,omitempty"⟩
  ]),
  ("ChangesetComment", [
    ⟨"User", "string", "user,attr", "user"⟩,
    ⟨"UserID", "UserID", "uid,attr", "uid"⟩,
    ⟨"Timestamp", "time.Time", "date,attr", "date"⟩,
    ⟨"Text", "string", "text", "text"⟩
  ]),
  ("ChangesetDiscussion", [
    ⟨"Comments", "[]*ChangesetComment", "comment", "comments"⟩
  ]),
  ("Date", [
    ⟨"*time.Time", "time.Time", "", ""⟩
  ]),
  ("Diff", [
    ⟨"XMLName", "xml.Name", "osm", ""⟩,
    ⟨"Actions", "Actions", "action", ""⟩,
    ⟨"Changesets", "Changesets", "changeset", ""⟩
  ]),
  ("HistoryDatasource", [
    ⟨"Nodes", "map[NodeID]Nodes", "", ""⟩,
    ⟨"Ways", "map[WayID]Ways", "", ""⟩,
    ⟨"Relations", "map[RelationID]Relations", "", ""⟩
  ]),
  ("Member", [
    ⟨"Type", "Type", "type,attr", "type"⟩,
    ⟨"Ref", "int64", "ref,attr", "ref"⟩,
    ⟨"Role", "string", "role,attr", "role"⟩,
    ⟨"Version", "int", "version,attr,omitempty", "version,omitempty"⟩,
    ⟨"ChangesetID", "ChangesetID", "changeset,attr,omitempty", "changeset,omitempty"⟩,
    ⟨"Lat", "float64", "lat,attr,omitempty", "lat,omitempty"⟩,
    ⟨"Lon", "float64", "lon,attr,omitempty", "lon,omitempty"⟩,
    ⟨"Orientation", "orb.Orientation", "orientation,attr,omitempty", "orientation,omitempty"⟩,
    ⟨"Nodes", "WayNodes", "nd", "nodes,omitempty"⟩
  ]),
  ("Node", [
    ⟨"XMLName", "xmlNameJSONTypeNode", "node", "type"⟩,
    ⟨"ID", "NodeID", "id,attr", "id"⟩,
    ⟨"Lat", "float64", "lat,attr", "lat"⟩,
    ⟨"Lon", "float64", "lon,attr", "lon"⟩,
    ⟨"User", "string", "user,attr", "user,omitempty"⟩,
    ⟨"UserID", "UserID", "uid,attr", "uid,omitempty"⟩,
    ⟨"Visible", "bool", "visible,attr", "visible"⟩,
    ⟨"Version", "int", "version,attr", "version,omitempty"⟩,
    ⟨"ChangesetID", "ChangesetID", "changeset,attr", "changeset,omitempty"⟩,
    ⟨"Timestamp", "time.Time", "timestamp,attr", "timestamp"⟩,
    ⟨"Tags", "Tags", "tag", "tags,omitempty"⟩,
    ⟨"Committed", "*time.Time", "committed,attr,omitempty", "committed,omitempty"⟩
  ]),
  ("Note", [
    ⟨"XMLName", "xmlNameJSONTypeNote", "note", "type"⟩,
    ⟨"ID", "NoteID", "id", "id"⟩,
    ⟨"Lat", "float64", "lat,attr", "lat"⟩,
    ⟨"Lon", "float64", "lon,attr", "lon"⟩,
    ⟨"URL", "string", "url", "url,omitempty"⟩,
    ⟨"CommentURL", "string", "comment_url", "comment_url,omitempty"⟩,
    ⟨"CloseURL", "string", "close_url", "close_url,omitempty"⟩,
    ⟨"ReopenURL", "string", "reopen_url", "reopen_url,omitempty"⟩,
    ⟨"DateCreated", "Date", "date_created", "date_created"⟩,
    ⟨"DateClosed", "Date", "date_closed", "date_closed,omitempty"⟩,
    ⟨"Status", "NoteStatus", "status", "status,omitempty"⟩,
    ⟨"Comments", "[]*NoteComment", "comments>comment", "comments"⟩
  ]),
  ("NoteComment", [
    ⟨"XMLName", "xml.Name", "comment", "-"⟩,
    ⟨"Date", "Date", "date", "date"⟩,
    ⟨"UserID", "UserID", "uid", "uid,omitempty"⟩,
    ⟨"User", "string", "user", "user,omitempty"⟩,
    ⟨"UserURL", "string", "user_url", "user_url,omitempty"⟩,
    ⟨"Action", "NoteCommentAction", "action", "action"⟩,
    ⟨"Text", "string", "text", "text"⟩,
    ⟨"HTML", "string", "html", "html"⟩
  ]),
  ("OSM", [
    ⟨"Version", "string", "version,attr,omitempty", ""⟩,
    ⟨"Generator", "string", "generator,attr,omitempty", ""⟩,
    ⟨"Copyright", "string", "copyright,attr,omitempty", ""⟩,
    ⟨"Attribution", "string", "attribution,attr,omitempty", ""⟩,
    ⟨"License", "string", "license,attr,omitempty", ""⟩,
    ⟨"Bounds", "*Bounds", "bounds,omitempty", ""⟩,
    ⟨"Nodes", "Nodes", "node", ""⟩,
    ⟨"Ways", "Ways", "way", ""⟩,
    ⟨"Relations", "Relations", "relation", ""⟩,
    ⟨"Changesets", "Changesets", "changeset", ""⟩,
    ⟨"Notes", "Notes", "note", ""⟩,
    ⟨"Users", "Users", "user", ""⟩
  ]),
  ("Relation", [
    ⟨"XMLName", "xmlNameJSONTypeRel", "relation", "type"⟩,
    ⟨"ID", "RelationID", "id,attr", "id"⟩,
    ⟨"User", "string", "user,attr", "user,omitempty"⟩,
    ⟨"UserID", "UserID", "uid,attr", "uid,omitempty"⟩,
    ⟨"Visible", "bool", "visible,attr", "visible"⟩,
    ⟨"Version", "int", "version,attr", "version,omitempty"⟩,
    ⟨"ChangesetID", "ChangesetID", "changeset,attr", "changeset,omitempty"⟩,
    ⟨"Timestamp", "time.Time", "timestamp,attr", "timestamp,omitempty"⟩,
    ⟨"Tags", "Tags", "tag", "tags,omitempty"⟩,
    ⟨"Members", "Members", "member", "members"⟩,
    ⟨"Committed", "*time.Time", "committed,attr,omitempty", "committed,omitempty"⟩,
    ⟨"Updates", "Updates", "update,omitempty", "updates,omitempty"⟩,
    ⟨"Bounds", "*Bounds", "bounds,omitempty", "bounds,omitempty"⟩
  ]),
  ("Tag", [
    ⟨"Key", "string", "k,attr", ""⟩,
    ⟨"Value", "string", "v,attr", ""⟩
  ]),
  ("Update", [
    ⟨"Index", "int", "index,attr", "index"⟩,
    ⟨"Version", "int", "version,attr", "version"⟩,
    ⟨"Timestamp", "time.Time", "timestamp,attr", "timestamp"⟩,
    ⟨"ChangesetID", "ChangesetID", "changeset,attr,omitempty", "changeset,omitempty"⟩,
    ⟨"Lat", "float64", "lat,attr,omitempty", "lat,omitempty"⟩,
    ⟨"Lon", "float64", "lon,attr,omitempty", "lon,omitempty"⟩,
    ⟨"Reverse", "bool", "reverse,attr,omitempty", "reverse,omitempty"⟩
  ]),
  ("UpdateIndexOutOfRangeError", [
    ⟨"Index", "int", "", ""⟩
  ]),
  ("User", [
    ⟨"XMLName", "xmlNameJSONTypeUser", "user", "type"⟩,
    ⟨"ID", "UserID", "id,attr", "id"⟩,
    ⟨"Name", "string", "display_name,attr", "name"⟩,
    ⟨"Description", "string", "description", "description,omitempty"⟩,
    ⟨"Img", "struct:User.Img", "img", "img"⟩,
    ⟨"Changesets", "struct:User.Changesets", "changesets", "changesets"⟩,
    ⟨"Traces", "struct:User.Traces", "traces", "traces"⟩,
    ⟨"Home", "struct:User.Home", "home", "home"⟩,
    ⟨"Languages", "[]string", "languages>lang", "languages"⟩,
    ⟨"Blocks", "struct:User.Blocks", "blocks", "blocks"⟩,
    ⟨"Messages", "struct:User.Messages", "messages", "messages"⟩,
    ⟨"CreatedAt", "time.Time", "account_created,attr", "created_at"⟩
  ]),
  ("User.Blocks", [
    ⟨"Received", "struct:User.Blocks.Received", "received", "received"⟩
  ]),
  ("User.Blocks.Received", [
    ⟨"Count", "int", "count,attr", "count"⟩,
    ⟨"Active", "int", "active,attr", "active"⟩
  ]),
  ("User.Changesets", [
    ⟨"Count", "int", "count,attr", "count"⟩
  ]),
  ("User.Home", [
    ⟨"Lat", "float64", "lat,attr", "lat"⟩,
    ⟨"Lon", "float64", "lon,attr", "lon"⟩,
    ⟨"Zoom", "int", "zoom,attr", "zoom"⟩
  ]),
  ("User.Img", [
    ⟨"Href", "string", "href,attr", "href"⟩
  ]),
  ("User.Messages", [
    ⟨"Received", "struct:User.Messages.Received", "received", "received"⟩,
    ⟨"Sent", "struct:User.Messages.Sent", "sent", "sent"⟩
  ]),
  ("User.Messages.Received", [
    ⟨"Count", "int", "count,attr", "count"⟩,
    ⟨"Unread", "int", "unread,attr", "unread"⟩
  ]),
  ("User.Messages.Sent", [
    ⟨"Count", "int", "count,attr", "count"⟩
  ]),
  ("User.Traces", [
    ⟨"Count", "int", "count,attr", "count"⟩
  ]),
  ("Way", [
    ⟨"XMLName", "xmlNameJSONTypeWay", "way", "type"⟩,
    ⟨"ID", "WayID", "id,attr", "id"⟩,
    ⟨"User", "string", "user,attr", "user,omitempty"⟩,
    ⟨"UserID", "UserID", "uid,attr", "uid,omitempty"⟩,
    ⟨"Visible", "bool", "visible,attr", "visible"⟩,
    ⟨"Version", "int", "version,attr", "version,omitempty"⟩,
    ⟨"ChangesetID", "ChangesetID", "changeset,attr", "changeset,omitempty"⟩,
    ⟨"Timestamp", "time.Time", "timestamp,attr", "timestamp"⟩,
    ⟨"Nodes", "WayNodes", "nd", "nodes"⟩,
    ⟨"Tags", "Tags", "tag", "tags,omitempty"⟩,
    ⟨"Committed", "*time.Time", "committed,attr,omitempty", "committed,omitempty"⟩,
    ⟨"Updates", "Updates", "update,omitempty", "updates,omitempty"⟩,
    ⟨"Bounds", "*Bounds", "bounds,omitempty", "bounds,omitempty"⟩
  ]),
  ("WayNode", [
    ⟨"ID", "NodeID", "ref,attr,omitempty", ""⟩,
    ⟨"Version", "int", "version,attr,omitempty", ""⟩,
    ⟨"ChangesetID", "ChangesetID", "changeset,attr,omitempty", ""⟩,
    ⟨"Lat", "float64", "lat,attr,omitempty", ""⟩,
    ⟨"Lon", "float64", "lon,attr,omitempty", ""⟩
  ]),
  ("polyCondition", [
    ⟨"Key", "string", "", "key"⟩,
    ⟨"Condition", "conditionType", "", "polygon"⟩,
    ⟨"Values", "[]string", "", "values"⟩
  ]),
  ("typeStruct", [
    ⟨"Type", "string", "", "type"⟩
  ])
]


end OsmVerif.Spec.OsmSchema
