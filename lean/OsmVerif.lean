import OsmVerif.Gen.Ids
import OsmVerif.Lemmas.Bits
