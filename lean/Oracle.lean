import OsmVerif.Oracle.C10
import OsmVerif.Oracle.C18
import OsmVerif.Oracle.C13
import OsmVerif.Oracle.C15
import OsmVerif.Oracle.C19
import OsmVerif.Oracle.C14
import OsmVerif.Oracle.C20
import OsmVerif.Oracle.C11
import OsmVerif.Oracle.C17
import OsmVerif.Oracle.C04
import OsmVerif.Oracle.C05
import OsmVerif.Oracle.Pbf
/-! Line-protocol driver: one case per input line `<Cxx> <op> <payload…>`, one output line each. -/
open OsmVerif.Oracle

def dispatch (line : String) : String :=
  match (line.splitOn " ").filter (· ≠ "") with
  | "C10" :: rest => C10.handle rest
  | "C18" :: rest => C18.handle rest
  | "C13" :: rest => C13.handle rest
  | "C15" :: rest => C15.handle rest
  | "C19" :: rest => C19.handle rest
  | "C14" :: rest => C14.handle rest
  | "C20" :: rest => C20.handle rest
  | "C11" :: rest => C11.handle rest
  | "C17" :: rest => C17.handle rest
  | "C04" :: rest => C04.handle rest
  | "C03" :: rest => C04.handle rest
  | "C05" :: rest => C05.handle rest
  | "C01" :: rest => Pbf.handleC01 rest
  | "C02" :: rest => Pbf.handleC02 rest
  | "C08" :: rest => Pbf.handleC08 rest
  | "C09" :: rest => Pbf.handleC09 rest
  | "C06" :: rest => Pbf.handleC06 rest
  | "C07" :: rest => Pbf.handleC07 rest
  | "C16" :: rest => C17.handle rest
  | "C12" :: rest => C11.handle rest
  | _ => "bad-op"

partial def loop (h : IO.FS.Stream) (out : IO.FS.Stream) : IO Unit := do
  let line ← h.getLine
  if line.isEmpty then return ()
  let l := if line.back == '\n' then (line.dropEnd 1).toString else line
  out.putStrLn (dispatch l)
  loop h out

def main : IO Unit := do
  let out ← IO.getStdout
  loop (← IO.getStdin) out
  out.flush
