#!/usr/bin/env python3
"""Regenerate /verif/MANIFEST.json from checklib/props.py (keeps the two in sync)."""
import json, os, sys
here = os.path.dirname(os.path.abspath(__file__))
sys.path.insert(0, here)
from props import PROPS, NOT_APPLICABLE, HOOK_COMMITS

checks = []
for pid in sorted(PROPS):
    c = PROPS[pid]
    checks.append({
        "property_id": pid,
        "quick_cmd": "./check %s --tier quick" % pid,
        "thorough_cmd": "./check %s --tier thorough" % pid,
        "evidence_file": "/verif/evidence/%s.json" % pid,
        "replay_cmd_template": "./check %s --replay {path}" % pid,
        "engine": "lean4+correspondence",
        "level_claimed": {"category": c.get("level", "proof"), "text": c["level_text"], "design_ref": c.get("design_ref", "DESIGN.md §5")},
        "level_note": c["level_note"],
        "technique": c["technique"],
    })
m = {
    "version": 1,
    "setup_cmd": "./setup",
    "hooks": {
        "guard": "verif",
        "enable": "go build -tags verif (the harness is built with -tags verif against /repo's working tree through a go.mod replace)",
        "baseline_off_cmd": "cd /repo && GOFLAGS=-mod=mod GOPROXY=off go test -vet=off -count=1 -timeout 25m ./...",
        "source_commits": HOOK_COMMITS,
        "add_only": True,
    },
    "engines": [
        {"name": "lean4+correspondence", "path": "/verif/lean", "serves_properties": sorted(PROPS),
         "kind_free_text": "Lean 4 theorems about a model regenerated from the source (extract/) or tied to it by a differential line protocol (harness/ vs lean/Oracle.lean)"},
    ],
    "checks": checks,
    "notes": "See DESIGN.md. ./check Cxx --replay <file> re-runs a stored case on implementation and model.",
    "not_applicable": [{"property_id": k, "reason": v} for k, v in sorted(NOT_APPLICABLE.items())],
}
json.dump(m, open(os.path.join(here, "..", "MANIFEST.json"), "w"), indent=1)
print("wrote MANIFEST.json with %d checks, %d not_applicable" % (len(checks), len(NOT_APPLICABLE)))
