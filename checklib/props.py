"""Per-property configuration for /verif/check."""

GO_LIBS = "Go standard library calls are modelled, not verified: "

PROPS = {
    "C10": {
        "props": ["OsmVerif.Props.C10", "OsmVerif.Props.C10Text"],
        "gens": ["Ids"],
        "required_theorems": ["pack_injective", "pack_lt_iff", "int_sorted_is_type_id_version_sorted", "sort_less_functions",
                              "element_ref", "object_type", "layout_version", "type_objectID", "type_featureID", "element_type", "feature_type",
                              "object_ref", "feature_ref", "element_to_feature", "feature_to_element",
                              "parse_show_object", "parse_show_element", "parse_show_feature",
                              "parseObject_shape", "parseElement_shape", "parseFeature_shape"],
        "trusted_base": [GO_LIBS + "strings.Split, strconv.ParseInt, fmt %s/%d, sort.Sort (validated differentially by the model stream)",
                         "Go int is 64 bit on the platform the check runs on"],
        "technique": "Lean 4 theorems over a BitVec-64 model regenerated from the Go source by a translator; text codec model tied by differential line protocol",
        "level_text": "Machine-checked proof (Lean 4 kernel) for all kinds, all references < 2^40 and versions < 2^16 that decode∘encode = id for object/element/feature ids and their conversions, that packing is injective, that signed integer order equals (kind, ref, version) order, and that the textual form parses back / only kind/ref[:version] text is accepted. The bit-level model is regenerated from feature.go/object.go/element.go/... on every run, so the theorems are re-checked against the current source; the text codec model is hand-written and tied by running it and the real code on the same ~50k inputs.",
        "level_note": "Trusted: Lean kernel (axioms propext, Classical.choice, Quot.sound), the Go->Lean translator (cross-checked by the differential stream), Go's strings.Split/strconv.ParseInt/fmt/sort modelled not verified, int = 64 bit.",
        "design_ref": "DESIGN.md §5 C10",
        "assumptions": ["references in [0,2^40), versions in [0,2^16) (the property's stated ranges); out-of-range inputs are compared model-vs-code only"],
    },
}

PROPS["C18"] = {
    "props": ["OsmVerif.Props.C18"],
    "gens": ["Polygon"],
    "exhaustive": True,
    "required_theorems": ["gen_table_eq_published", "effective_values_sorted", "polygon_iff_published",
                          "polygon_perm_invariant", "polygon_unrelated_tags", "relation_polygon_iff"],
    "technique": "Lean 4 theorems over the rule table regenerated from polygon.go (equal to a pinned published table; binary search on sorted lists = membership); hand model of Way.Polygon tied by exhaustive differential enumeration",
    "level_text": "Machine-checked proof that, for every node-ref list and every tag list, the model of Way.Polygon (binary search over the start-up-sorted value lists of the table extracted from polygon.go) equals the declarative published polygon-features rule over a pinned copy of the published table (a listed key counts when it is PRESENT with a value other than 'no' - an empty value included, which the code used to read as absent: fixed finding polygon-empty-value-read-as-absent); that the answer depends only on the values of area and the listed keys (so tag order with distinct keys and unrelated tags are irrelevant); and Relation.Polygon iff type is multipolygon/boundary. The table and the init-sort fact are regenerated from the source each run; the control flow of Way.Polygon is hand-modelled and tied by running model and code on an exhaustive enumeration (every listed key x every listed or boundary value x area class x shape) plus random multi-key sets.",
    "level_note": "Trusted: Lean kernel; the pinned published table (written from the wiki list, compared entry by entry with the tree in round 0); sort.Strings (modelled as the unique sorted permutation) and sort.Search (modelled as the actual binary search); Go string comparison = lexicographic code point order (values are ASCII).",
    "design_ref": "DESIGN.md §5 C18",
    "trusted_base": [GO_LIBS + "sort.Strings, sort.SearchStrings (modelled as the actual binary search loop), Tags.Find modelled by hand",
                     "pinned published table in Spec/PolygonPublished.lean and, independently, in harness/c18.go"],
    "assumptions": ["tag keys are distinct within an element for the order-independence claim (OSM data model)"],
}

PROPS["C13"] = {
    "props": ["OsmVerif.Props.C13"],
    "gens": [],
    "required_theorems": ["block_actions", "change_error", "previous_is_greatest_below", "previous_exists_iff", "actions_order", "actions_length", "create_visible",
                          "visible_flags_and_old", "missing_history_error", "missing_previous_error", "ignore_missing_creates"],
    "technique": "Lean 4 theorems (scan invariant by induction over arbitrary histories) about a hand-written executable model of annotate.Change, tied to the code by a differential line protocol",
    "level_text": "Machine-checked proof over all changes, all histories (unsorted, gapped, duplicates, later versions, absent, failing) and both option values that the model of annotate.Change emits exactly one action per element in create/modify/delete and node/way/relation order, marks creates visible, pairs every modified/deleted element with the history version of greatest version number below its own (found iff one exists), sets visible for modify and not for delete (block_actions, both option values), and - for the change as a whole (change_error) - succeeds exactly when no element of the modify and delete blocks raises an error and otherwise reports the error of the first such element in modify-then-delete, node-way-relation order: NoVisibleChildError for a missing history or missing earlier version, which under IgnoreMissingChildren becomes a visible create instead. The model is hand-written; every run executes it and annotate.Change on the same ~20k generated changes and compares action by action including which history entry was chosen.",
    "level_note": "Trusted: Lean kernel; the correspondence harness; versions are non-negative (the code's scan starts at max=-1, so negative versions are never selectable - stated in the theorems).",
    "design_ref": "DESIGN.md §5 C13",
    "trusted_base": ["model Model/Change.lean is hand-written; tie = differential stream (./check C13)"],
    "assumptions": ["history versions >= 0 for the 'found iff exists' direction"],
}

PROPS["C15"] = {
    "props": ["OsmVerif.Props.C15"],
    "gens": ["Update"],
    "required_theorems": ["apply_exact", "apply_pending", "apply_child", "apply_untouched", "apply_keys", "apply_index_error",
                          "apply_compose", "reverse_flips", "lineStringAtWith_continue_eq_apply", "lineStringAt_eq_apply_partial",
                          "lineStringAt_eq_apply", "lineStringAt_break_counterexample"],
    "technique": "Lean 4 theorems (fold/per-index characterisation, sorted-list split lemma) about a hand-written executable model of ApplyUpdatesUpTo/LineString/LineStringAt with the late-update branch regenerated from way.go; tied by a differential line protocol",
    "level_text": "Machine-checked proof for all child lists, all update lists (any stored order) and all times that the model of ApplyUpdatesUpTo applies exactly the updates stamped <= t in list order (per-child view, untouched children, identities and length preserved, orientation flip for reversed relation members only), keeps the later ones pending in original order, reports the first out-of-range index without writing outside the list, composes (t1 <= t2, per-child time-ordered lists, no applicable update out of range - on the error path the real code leaves the update list untouched, so composition is claimed for error-free runs), and that the geometry-at-time query equals the geometry of an updated copy for fully annotated ways whose applicable updates are in range and carry a version (an unannotated update would make LineString drop the node while LineStringAt keeps it). The late-update branch of Way.LineStringAt (break vs continue) is extracted from way.go each run; the rest of the model is hand-written and tied by running it and the real code on the same ~20k generated cases.",
    "level_note": "Trusted: Lean kernel; correspondence harness; float64 coordinates are only copied and compared with zero (modelled as opaque integers, generator uses exactly representable values); time.Time.After modelled as > on unix seconds; negative update indices are outside the model (the code panics on them; not generated).",
    "design_ref": "DESIGN.md §5 C15",
    "trusted_base": ["model Model/Updates.lean is hand-written; tie = differential stream (./check C15) + extracted late-update branch"],
    "assumptions": ["update indices are non-negative", "fully annotated ways = every node version != 0, annotated updates = version != 0 (geometry claim)"],
}

PROPS["C19"] = {
    "props": ["OsmVerif.Props.C19", "OsmVerif.Props.C19b"],
    "gens": ["Replication"],
    "timeout": 1800,
    "required_theorems": ["stater_minima", "findBound_fuel_stable", "search_fuel_sufficient", "findInRange_fuel_stable", "search_returns_first_at_or_after", "search_returns_first_partial", "search_future_returns_current",
                          "findBound_ok", "findInRangeL_fst", "findInRangeL_requests", "findInRangeL_requests_gapfree",
                          "formats_eq_planet_layout", "seqPath_layout", "seqPath_injective", "changeset_seq_off_by_one", "findInRange_requests_sum", "search_requests_sum", "findBound_requests", "search_requests_sum_min_missing", "clog_spec"],
    "technique": "Lean 4 theorems (induction on fuel with the interval invariant a < t <= b) about a hand-written executable model of searchTimestamp/findBound/findInRange that also returns the request log; tied by comparing result and exact requested URL sequence with the real code behind a fake transport; URL recipes/formats extracted from the source and proved equal to the pinned planet layout",
    "level_text": "Machine-checked proof, for every availability pattern with increasing timestamps and every query time, that the model of the state search returns the first available state written at or after t when the minimum state is available (any gaps above it), the newest state when t is later than all, and - when the minimum is missing - an available state at or after t which is the first one whenever findBound's ascent ends on a state not after t; termination: the fuel arguments of the model are never the reason for an answer - every continuing iteration of findBound's ascent lowers upper^2 + (upper - lowerID) and every continuing iteration of the binary search narrows hi - lo, so any fuel above those gives the same result (findBound_fuel_stable, search_fuel_sufficient, findInRange_fuel_stable) and the real, fuel-less loops end with the model's answer - with an explicit request bound ((hi-lo)^2 in general, 2^k <= 2(w-1) i.e. logarithmic on gap-free ranges); three-level zero-padded paths injective below 10^9; changeset off-by-one; source URL recipes = planet layout. the binary search between the bounds issues at most ceil(log2(range)) + 3*(missing files between the bounds) + 1 requests - a SUM, for every availability pattern, by a potential argument (each run of missing files is stepped over at most three times) - and the whole lookup at most that + 2 when the minimum state exists. when the minimum state is missing, the requests of findBound's ascent that hit an existing file are at most ceil(log2 cur) + (its requests that hit a missing file) + 2, and the whole lookup at most 2*ceil(log2 cur) + 2*(missing-file requests of the ascent) + 3*(missing files between the bounds found) + 5 - sums throughout. PARTIAL: only the sparse-low-end answer (a later state although earlier ones exist below it) - the recorded known finding.",
    "level_note": "Trusted: Lean kernel; correspondence harness with a fake http.RoundTripper (requested URL sequence and result compared exactly); time.Parse/Format, fmt.Sprintf %03d, net/http modelled not verified.",
    "design_ref": "DESIGN.md §5 C19",
    "trusted_base": ["model Model/Search.lean is hand-written (of the repaired code); tie = result and exact request sequence vs the real code",
                     "state-file text decoding (bytes.Split, strconv, time.Parse) exercised by the harness, not modelled"],
    "assumptions": ["state files carry strictly increasing timestamps (Mono)", "the current state is available"],
}

PROPS["C14"] = {
    "props": ["OsmVerif.Props.C14"],
    "gens": ["Annotate"],
    "required_theorems": ["emitted_nodup", "emitted_have_history", "requested_with_history_emitted", "acyclic_children_first",
                          "childrenFirst_transitive", "acyclic_children_first_sufficient_fuel",
                          "walk_fuel_sufficient", "close_no_deadlock", "close_producer_terminates", "producer_protocol_pinned"],
    "technique": "Lean 4 theorems (invariant 'every added id has a history none of whose members is on the caller's path'; rank argument for DAGs; slack measure for termination) about a hand-written executable model of the child-first walk, plus a small transition system for Close; tied by a differential line protocol",
    "level_text": "Machine-checked proof for every reference graph (cycles, self loops, missing histories, multi-version member lists), every request list and any fuel that the model of the walk never emits an id twice or an id without history, emits every requested id that has a history, emits every relation after everything reachable from it through members with a history on acyclic graphs (direct members: acyclic_children_first; transitively: childrenFirst_transitive; and at exactly the fuel |histories|+1 that is proved sufficient, for any rank function: acyclic_children_first_sufficient_fuel), and that fuel |histories|+1 is never exhausted (termination on every graph); for the goroutine: after cancellation the producer always has an enabled step and returns within two of its own steps. The walk model is hand-written and run against annotate.NewChildFirstOrdering on ~15k generated graphs/stop points per run.",
    "level_note": "Trusted: Lean kernel; correspondence harness. PARTIAL: Close liveness is proved on a 3-state transition system of the producer whose premises (one channel send, in a select with a Done branch, after the ctx test; Close cancels and waits; wait group and close(out) deferred) are pinned against the statements regenerated from order.go; that the goroutine is scheduled at all (fairness) is assumed, and the deadline/goroutine-count tests of the harness observe it. Relation ids are non-zero (Next treats 0 as end of stream).",
    "design_ref": "DESIGN.md §5 C14",
    "trusted_base": ["model Model/Walk.lean is hand-written; tie = differential stream (./check C14)",
                     "producer/consumer transition system in Props/C14.lean abstracts order.go by hand"],
    "assumptions": ["relation ids != 0", "datasource returns no error other than NotFound (error propagation is exercised by the repo's own tests)"],
}

PROPS["C20"] = {
    "props": ["OsmVerif.Props.C20"],
    "gens": ["OsmApi"],
    "required_theorems": ["request_shape", "endpoints_eq_documented", "one_get_after_wait", "status_total", "status_typed", "notFound_iff",
                          "single_element_guard", "multi_fetch_ids_joined"],
    "technique": "Lean 4 theorems over the endpoint table and status chain regenerated from osmapi/*.go by a fact extractor (table = pinned API v0.6 table; status classification total and typed); URL builder model tied by a differential line protocol through a fake transport",
    "level_text": "Machine-checked proof that the endpoint table extracted from the source (URL recipe, option kind, result selector, length guard for all 26 exported calls) equals the pinned documented API v0.6 table, that getFromAPI's extracted status chain maps every non-200 status to an error with 404/403/410/414 distinct and NotFound iff 404, that there is exactly one client.Do outside any loop after the limiter wait, that the request is a GET of the URL with the caller's context, the limiter is consulted only when set and the body is decoded only after all status tests (request_shape), that single-element calls carry the len != 1 guard, and that the multi-fetch id list splits back into the requested ids. Known finding (open): Map and Notes format the bounding box with %f, six decimals, where OSM coordinates have seven - the requested box is not the given one (bbox-six-decimals; not repairable without editing the package's tests, which pin the six-decimal text); the direct oracle reads every bbox value of the request back and compares it with the argument. I/O behaviour (one GET, limiter order, parameters, returned elements) is compared between the model and the real calls behind a fake http.RoundTripper for every endpoint x status x body x option set.",
    "level_note": "Trusted: Lean kernel; the fact extractor (go/ast pattern matching; cross-checked by the differential stream); fmt %f / time layout / url.QueryEscape / net/http / encoding/xml decoding modelled not verified; the pinned API table was written from the API v0.6 wiki page.",
    "design_ref": "DESIGN.md §5 C20",
    "trusted_base": ["extractor patterns for `url := fmt.Sprintf(...)`, `ds.getFromAPI`, `if resp.StatusCode == X`", "pinned tables in Spec/OsmApiDocumented.lean and harness/c20.go"],
    "assumptions": ["ids are non-negative"],
}

PROPS["C12"] = {
    "props": ["OsmVerif.Props.C12", "OsmVerif.Props.C12b"],
    "gens": ["Update"],
    "required_theorems": ["index_keys", "sort_is_stable", "incomparable_keys_equal", "less_iff_lex", "sortByIndex_sorted", "sortByIndex_perm",
                          "collect_success_perm", "compute_order_independent", "updates_sorted_index_time_version", "updates_tie_counterexample",
                          "keys_injective", "updates_order_independent"],
    "technique": "Lean 4 theorems (uniqueness of the key-sorted permutation; order independence of the per-child fold) about a hand-written executable model of core.Compute with the sort keys regenerated from update.go; tied by a differential line protocol and by repeating the real computation on deep copies",
    "level_text": "Machine-checked proof, for every set of parents, histories and options and every pair of iteration orders of the child map, that the model of core.Compute either fails under both orders or succeeds under both, and then yields identical update lists (given that no two distinct updates of a parent share index, time and version - which keys_injective derives, for every input, from version numbers being distinct within each child history: an index is a position, a position holds one child, and a child version's update at a position is a function of the version; so updates_order_independent needs only that data condition) and identical child slots (for parents whose slot assignments address each position once - a position is assigned by the one child it refers to); that the sort keys extracted from update.go are index, timestamp, version, that updates incomparable under them agree on all three, that the sorted permutation is therefore unique, and that every update list is ordered by index, then time, then version. The model is hand-written, the keys are regenerated; every run executes model and real annotate.Ways/Relations on the same generated timelines and repeats the real computation 20 (100) times on fresh copies.",
    "level_note": "Trusted: Lean kernel; correspondence harness; Go's sort.Sort modelled as 'some permutation sorted w.r.t. Less' (the unique one once ties are impossible); Go map iteration modelled as an arbitrary permutation of the key set. KeysInjective (no two distinct updates with equal index, time, version) is a hypothesis of the order-independence theorem, validated per case by the harness.",
    "design_ref": "DESIGN.md §5 C11/C12",
    "trusted_base": ["model Model/Annotate.lean is hand-written; tie = differential stream through annotate.Ways / annotate.Relations", "Go's sort.Stable returns the stable permutation sorted w.r.t. Less"],
    "assumptions": ["child versions within one history are distinct"],
}
PROPS["C11"] = {
    "props": ["OsmVerif.Props.C11"],
    "gens": ["Update"],
    "required_theorems": ["child_is_current_at_commit", "nextVersion_covers", "groupEffect_commit", "time_travel",
                          "nextVersion_upper", "child_choice_ts", "nextVersion_covers_ts", "time_travel_ts", "deleted_parent_untouched", "no_history_error", "no_visible_child_error", "child_deleted_between_error"],
    "technique": "Lean 4 theorems about a hand-written executable model of the annotation core (FindVisible, nextVersionIndex, Compute) in the commit-time and the timestamp regime; tied by a differential line protocol and a ground-truth time-travel oracle on simulated edit timelines in both regimes",
    "level_text": "Machine-checked proof in the commit-time regime (every version of parent and child carries a commit time >= CommitInfoStart, versions listed in commit order with VersionIndex = position), for every such history, threshold, changeset id and repeated child slots - the time-travel statements for a child that is visible at the parent's commit and has no deleted version inside the update range (with a deleted version there the documented error is raised, child_deleted_between_error, or with IgnoreInconsistency the version is skipped and nothing is claimed for times inside the deletion): the child reference gets the version current at the parent's commit (FindVisible = last version committed at or before, if visible); the update range reaches every version committed before the next parent version (nextVersion_covers) and ends at or before the versions committed up to the next parent version's commit (nextVersion_upper); and for every t in [commit p_i, commit p_{i+1}) the updates addressed to a slot and stamped <= t are exactly the child versions committed in (commit p_i, t], oldest first, stamped with their commit time - so applying them leaves the version current at t (time travel). Deleted parents get nothing; missing history, no visible child (without IgnoreInconsistency) and a deleted child version at the end of an update range are the documented errors (statements about one child and one parent version - their propagation through Compute is the Except monad of the model, tied by the stream; the typed errors of the public API are compared by class in the stream). In the timestamp regime (no commit times; every threshold >= 0): the child reference is a visible version stamped no later than the parent's time stamp plus the threshold, and not after the parent's time stamp unless it belongs to the parent's changeset (child_choice_ts); when it is stamped before the window it is the last such version; the update range reaches every version stamped before the next parent version less the threshold; and for every t in [ts p_i + threshold, ts p_{i+1} - threshold) the updates addressed to a slot and stamped <= t are exactly the versions after the reference stamped <= t, oldest first, each with its own time stamp, the reference itself being stamped <= t - so applying them leaves the last version stamped at or before t (time_travel_ts). PARTIAL: WHICH version the reference carries inside [ts p_i, ts p_i + threshold) is the closest-match heuristic of FindVisible, for which the property gives no ground truth: there the model is tied to the code by the differential stream only; histories mixing both regimes likewise; composition over all children of a parent rests on C12's permutation/sortedness theorems.",
    "level_note": "Trusted: Lean kernel; correspondence harness (model vs annotate.Ways/Relations on simulated timelines in both regimes, plus an independent ground-truth time-travel oracle at every event time); time.Time comparisons modelled on unix seconds; histories are version-sorted with VersionIndex = position (datasource.go, modelled by toChildList).",
    "design_ref": "DESIGN.md §5 C11/C12",
    "trusted_base": ["model Model/Annotate.lean is hand-written; tie = differential stream through annotate.Ways / annotate.Relations"],
    "assumptions": ["pure commit-time regime or pure timestamp regime for the unconditional statements", "threshold >= 0 in the timestamp regime"],
}

PROPS["C16"] = {
    "props": ["OsmVerif.Props.C16", "OsmVerif.Props.C16b"],
    "gens": [],
    "required_theorems": ["join_partitions_input", "join_preserves_edges", "grow_complete", "hole_assigned", "hole_without_outer",
                          "coords_source_independent", "ring_orientation", "orientation_annotation", "join_groups_closed", "join_groups_are_components", "cut_rings_condition", "cut_rings_deg", "cut_rings_join_closed", "cut_rings_join_components"],
    "technique": "Lean 4 theorems about a hand-written executable model of mputil.Join/Ring and osmgeojson.buildPolygon over lattice points (ghost field for the untrimmed oriented line); tied by a differential line protocol through osmgeojson.Convert and by a ground-truth ring oracle",
    "level_text": "Machine-checked proof, for every list of member lines (any number, size, order, direction), that the model of mputil.Join uses every input segment in exactly one output group (possibly reversed, the reversed flag recording it), glues pieces only at shared end points so that the edges of each output line string are exactly the edges of its members' full lines (nothing lost, duplicated or invented), and never stops growing a group for lack of fuel (termination); that a closed group with non-zero area is returned with the requested winding (outers CCW, inners CW) when members carry no annotation; that each hole is attached to the first containing outer and dropped otherwise; that way-node coordinates and node-object coordinates give the same line; and that annotation writes to each member the direction in which it runs around the joined ring. and that for pieces cut from rings - every end point shared by exactly two piece ends, which holds whenever each cut point is where exactly one piece ends and one begins and survives reversing and reordering pieces - EVERY group Join builds is closed (no ring is left open, for any number of rings and pieces). and no piece outside a group shares an end point with a piece inside it, so the groups are exactly the closed chains of pieces that hang together through shared end points - for pieces cut from vertex-disjoint simple rings, the rings themselves, with every edge of every ring exactly once (join_preserves_edges). The hypothesis is discharged for cut rings themselves, end to end (cut_rings_join_closed, cut_rings_join_components): for any number of rings with pairwise distinct vertices, each cut at one or more of its vertices into pieces running from one cut to the next (the last wrapping around), any pieces reversed, listed in any order, with the member segments as buildPolygon makes them (line = full; pieces have at least two points, so none is dropped), EVERY group Join returns is closed and no piece outside a group touches it. That one group is exactly one of the original rings (rather than some closed chain through shared points - which for vertex-disjoint rings is the only possibility) is argued from these two facts and join_preserves_edges, not stated as one theorem. Members with fewer than two points are dropped before joining (as in Go), so 'every input segment' means every member line with at least two points. What stays outside Lean is that a piece list handed to Join by buildPolygon really is such a cutting (that is a fact about the input data), and the float predicates of hole assignment; both are checked against ground truth for all cut/reverse choices of a rectangle with a hole and ~3000 random multi-ring instances per run, both coordinate sources, with and without annotations.",
    "level_note": "Trusted: Lean kernel; correspondence harness (model vs osmgeojson.Convert and annotate.Relations, plus a ground-truth ring oracle); float arithmetic (shoelace area, ray casting in polygonContains) is exact on the integer lattice used and modelled with exact integer arithmetic; orb.Ring.Orientation/Reverse/Closed modelled by hand.",
    "design_ref": "DESIGN.md §5 C16/C17",
    "trusted_base": ["models Model/Geo.lean, Model/Convert.lean are hand-written; tie = differential stream through osmgeojson.Convert"],
    "assumptions": ["lattice (integer degree) coordinates so that float arithmetic is exact", "no vertex at (0,0)"],
}
PROPS["C17"] = {
    "props": ["OsmVerif.Props.C17", "OsmVerif.Props.C17b", "OsmVerif.Props.C17c"],
    "gens": [],
    "required_theorems": ["one_feature_per_element", "one_feature_per_element_counterexample", "features_unique_except_shared_outer", "node_feature_iff", "node_feature_content", "way_feature_geometry", "toRing_closed",
                          "reorientOuter_ccw", "route_preserves_segments", "node_options_only_subtract", "way_options_only_subtract", "convert_noid_nometa", "convert_norelmembership",
                          "buildPolygon_skip", "buildPolygon_keeps", "buildPolygon_single_indep", "convert_includeInvalid"],
    "technique": "Lean 4 theorems about a hand-written executable model of osmgeojson.Convert (relation, way and node passes, options); tied by a differential line protocol and an independent element-to-feature oracle",
    "level_text": "Machine-checked proof about the model of osmgeojson.Convert: the output never has more features than the input has elements, and every relation, way-pass and node-pass step yields at most one feature (one_feature_per_element). PARTIAL / known finding: 'at most one feature per input ELEMENT' is false of model and code alike when two old-style multipolygon relations (single outer way, untagged relation) share their outer way - each becomes a feature with that way's identity (one_feature_per_element_counterexample; KNOWN-FINDING duplicate-way-feature); everything else IS unique (features_unique_except_shared_outer): with distinct ids per kind in the input, relation features are pairwise distinct, node features are pairwise distinct, the way features of the way pass are pairwise distinct and none repeats a way the relation pass emitted (it is in the skippable set), and the only other way features are the old-style multipolygons'; the direct oracle checks uniqueness of (type, id) on every generated conversion and reports any other duplicate; a node becomes a point feature exactly when it is located and is not a way vertex, or has an interesting tag, or is a relation member, carrying its id, location and tags; a way becomes a line over its resolvable node coordinates in order, or for area ways a closed counter-clockwise polygon; a route's joined geometry uses every member line once and preserves every edge; NoID/NoMeta/NoRelationMembership change nothing on node and way features but the id string, the meta object and the relations list. On the WHOLE output, relation features included: Convert with NoID/NoMeta equals Convert without them with only the id string and the meta object removed from every feature, and Convert with NoRelationMembership equals Convert without it with only the relations list removed - same features, same order, same geometry and tags (so which elements get a feature does not depend on these options). IncludeInvalidPolygons never removes a feature and touches only multipolygon/boundary relations (convert_includeInvalid): with it the skippable way set, every way feature and every node feature are identical (route relations: buildRoute_withInvalid); a multipolygon with a single outer member does not consult it; and every feature of the output without it is still in the output with it, in the same order, with the same element, id, tags, tainted flag, relation membership and meta. What the option does to the GEOMETRY of a multipolygon with several outer rings is not characterised by a theorem (invalid outer rings are kept as additional polygons and holes are assigned among all of them, so a hole can move); that part is tied by the differential stream and the ring oracle only. Input immutability is covered by the differential stream (model vs real Convert under all 16 option sets, inputs compared before/after) and the element->feature oracle, not by a theorem; equal input gives equal output because the model is a function (the real code's determinism is checked by repeating conversions).",
    "level_note": "Trusted: Lean kernel; correspondence harness; Way.Polygon is the C18 model; geojson property maps observed through type assertions/JSON; float coordinates exact on the lattice.",
    "design_ref": "DESIGN.md §5 C16/C17",
    "trusted_base": ["models Model/Geo.lean, Model/Convert.lean are hand-written; tie = differential stream through osmgeojson.Convert"],
    "assumptions": ["lattice coordinates", "distinct element ids per kind"],
}

PROPS["C04"] = {
    "props": ["OsmVerif.Props.C04"],
    "gens": ["Schema"],
    "required_theorems": ["container_call_structure", "custom_xml_methods_pinned", "names_eq_osm_xml", "marshal_names_decodable", "marshal_covers_all_collections", "block_names_decodable", "marshal_guards",
                          "attrs_roundtrip", "codec_attr_names_distinct"],
    "technique": "Lean 4 theorems over the struct-tag schema and custom-marshaler call lists regenerated from the source, interpreted with encoding/xml's naming rules (schema = pinned OSM XML vocabulary; every emitted element name is one the decoders accept); container shapes and attribute lists of the model compared with real xml.Marshal output; direct Marshal->Unmarshal and Marshal->Scanner round trips on generated values",
    "level_text": "Machine-checked proof over the schema regenerated from the source: every codec struct carries exactly the pinned OSM XML names (attributes, elements, omitempty, paths); every element name written by the custom container marshalers (OSM, osmChange blocks, diff actions, changeset discussion) - computed from the extracted Encode calls with encoding/xml's own-name rule (XMLName tag, else Go type name) - is one the OSM struct decodes and the streaming scanner dispatches on, and every collection is written; the attribute part of every record round-trips for all values (generic theorem over field tables with distinct attribute names, instantiated for all 27 codec structs). The reflection codec itself is not modelled: full-value round trips (Marshal->Unmarshal equality and Marshal->Scanner equality for Node, Way, Relation, Changeset, Note, User, Bounds, OSM, Change, Diff with every optional part toggled) are direct checks on the real code, and the model's container shapes and attribute lists are compared with real xml.Marshal output.",
    "level_note": "Trusted: Lean kernel; the fact extractor; encoding/xml; the pinned vocabulary. Nested element content (tags, nd, member, update, discussion, note/user sub-elements) is covered by the direct round-trip oracle and the schema pin, not by a Lean round-trip theorem.",
    "design_ref": "DESIGN.md §5 C03/C04",
    "trusted_base": ["encoding/xml (reflection codec, tokenizer, escaping) is trusted; only tags, XMLName fields and the custom marshalers are modelled",
                     "pinned vocabulary in Spec/OsmSchemaPinned.lean and, independently, the writer in harness/xmlgen.go"],
    "assumptions": ["XML-representable strings (valid UTF-8, no control characters other than tab/newline)", "finite coordinates", "UTC times"],
}

PROPS["C03"] = {
    "props": ["OsmVerif.Props.C03"],
    "gens": ["Schema"],
    "required_theorems": ["scanner_dispatch_exact", "unknown_elements_skipped", "names_eq_osm_xml", "unmarshal_attr_perm", "unmarshal_ignores_unknown", "scanner_cases_eq_osm_fields",
                          "action_cases", "stream_eq_whole", "stream_only_known", "change_blocks_accumulate", "scanner_decoder_default"],
    "technique": "Lean 4 theorems over the struct-tag schema and dispatch labels regenerated from the source (schema = pinned OSM XML vocabulary; attribute decoding independent of order and unknown attributes; scanner dispatch = OSM fields; per-kind stream = whole-document collections; osmChange blocks accumulate); documents from an independent XML writer decoded at once and by the streaming scanner and compared with the written values",
    "level_text": "Machine-checked proof over the schema regenerated from the source: every codec struct is decoded from exactly the pinned OSM XML names; the attribute decoder of every record type is independent of attribute order and ignores unknown attributes; the scanner dispatches, on the element's exact local name, on exactly the element names the OSM struct decodes, so per kind the streaming sequence equals the whole-document collection in document order, also across repeated and interleaved osmChange blocks. Tokenizer-level claims (entity escaping, whitespace, comments, self-closing tags) and the reflection decoder are trusted encoding/xml behaviour; they are exercised on every run by an independent XML writer (own vocabulary table) whose documents - all element kinds, optional attributes toggled, Unicode text, random layout, unknown attributes/elements, interleaved change blocks, diff actions - are decoded with xml.Unmarshal and with osmxml.Scanner and compared with the written values.",
    "level_note": "Trusted: Lean kernel; the fact extractor; encoding/xml; the pinned vocabulary (Spec/OsmSchemaPinned.lean) and the harness writer's own vocabulary. 'Unknown elements' = elements outside the OSM vocabulary whose whole subtree is outside it too (the scanner matches known names at any depth by design).",
    "design_ref": "DESIGN.md §5 C03/C04",
    "trusted_base": ["encoding/xml tokenizer and reflection decoder", "independent writer harness/xmlgen.go"],
    "assumptions": ["well-formed XML with distinct attribute names per element", "unknown wrappers do not contain vocabulary elements"],
}

PROPS["C05"] = {
    "props": ["OsmVerif.Props.C05"],
    "gens": ["Schema"],
    "required_theorems": ["mplan_eq", "uplan_eq", "elements_typed", "all_collections_written", "osm_json_roundtrip", "version_decoding",
                          "absent_fields_stay_empty", "names_eq_osmjson", "small_marshalers_pinned", "codec_routing", "tags_roundtrip", "tags_decode_roundtrip",
                          "waynodes_roundtrip", "json_fields_roundtrip", "codec_json_keys_distinct", "json_decode_perm",
                          "json_decode_ignores_unknown"],
    "technique": "Lean 4 theorems over the JSON container plans computed from facts regenerated from the source (top-level structs of OSM.MarshalJSON/UnmarshalJSON, elements expression, guarded assignments, dispatch targets, type shims, struct json tags): every element typed and filed back, container round trip for all contents, absent version stays empty, osmjson key names pinned, codec-routing helpers; executable plans and the real code compared on the same inputs; generated round trips and independently written osmjson documents under four codec configurations",
    "level_text": "Machine-checked proof over plans regenerated from the source: OSM.MarshalJSON writes every collection either into `elements` under its type or as the top-level bounds; every element written carries a type the dispatcher of OSM.UnmarshalJSON files back into the collection it came from; for all top-level fields and all contents (payloads opaque) unmarshal(marshal(x)) = x, absent optional fields staying empty and a version given as string or number taken as written; struct json tags equal the pinned osmjson vocabulary; tags round-trip up to order for distinct keys; way nodes keep exactly their ids; both helpers consult the installed codec; for every codec struct the scalar JSON keys (the flat part of the reflection codec: names, omitempty by kind, zero values) round-trip for every record, and decoding is independent of key order and ignores unknown keys (executable, compared with json.Marshal / json.Unmarshal on flat records with every field at zero or non-zero). The reflection codecs (encoding/json, or the installed one) are trusted and exercised: seeded values of every kind and container are marshalled, shape-checked on the generic parse, unmarshalled and compared under four codec configurations, and independently written osmjson documents are decoded and compared.",
    "level_note": "Trusted: Lean kernel; the fact extractor; encoding/json; the pinned vocabulary; the harness's independent osmjson writer. The custom codec used is an encoding/json wrapper with a different encoder configuration (json-iterator is cached offline but its reflect2 dependency does not run on this Go toolchain). Element payloads are opaque in the theorems.",
    "design_ref": "DESIGN.md §5 C05",
    "trusted_base": ["encoding/json reflection codec", "independent osmjson writer harness/c05.go"],
    "assumptions": ["tag keys distinct (JSON objects cannot hold duplicates)", "version numbers in documents are in shortest decimal form"],
}

PROPS["C01"] = {
    "props": ["OsmVerif.Props.C01"],
    "gens": ["Pbf"],
    "model_is_spec": ["scan "],
    "required_theorems": ["tables_eq", "infoFieldNum_eq", "unguarded_are_mandatory", "dense_sees_message_only",
                          "elements_read_only_found_iterators", "block_params_reset", "fresh_queue_per_block", "delta_roundtrip",
                          "dense_no_info_defaults", "no_info_defaults", "file_is_blockwise",
                          "decode_encode_dense", "decode_encode_way", "decode_encode_rel"],
    "technique": "Lean 4 format model of OSM PBF decoding (delta columns, nano = offset + granularity*raw, millis = date_granularity*raw, keys_vals, format defaults) run against the real scanner on files written by the harness's own protobuf writer; theorems: the decoder's cached column iterators never leak from block to block (bookkeeping tables regenerated from scanDenseNodes/extractDenseNodes, all cache contents x all messages), per-block parameter reset, way/relation iterators read only under their found-flags, delta coding round trip, format defaults",
    "level_text": "Specification = an executable Lean model of what a PBF file encodes at the level of its protobuf messages. Correspondence: the harness writes valid files with its own protobuf writer (nothing from the library or generated code) from structured descriptions - every optional part independently present/absent, non-default granularity/offsets/date granularity, raw/zlib, permuted field orders, consecutive blocks differing in their columns, decoder counts 1..8 - scans them with osmpbf.Scanner and compares header and every field of every object with the model, coordinates to 1e-10 degrees. Machine-checked: for every content of the decoder's iterator cache and every dense message, what extractDenseNodes reads is exactly the message's own columns (tables regenerated from the source on every run); parameters and string table are cleared per block; way/relation iterators are read only when this message set them; delta coding is lossless; absent Info / DenseInfo decode to zero metadata and visible=true; a file's objects are its blocks' objects, blockwise; and decode o encode = meaning for EVERY list of dense nodes, every way and every relation (an encoder in Lean writes all columns, delta coded, keys_vals zero-delimited; the format model decodes it back to exactly the ids, metadata, coordinates offset+granularity*raw, tags and members in order - unbounded sizes, by induction).",
    "level_note": "Trusted: Lean kernel; the fact extractor; protoscan / google.golang.org/protobuf wire decoding and zlib (exercised, not modelled); the harness's writer. The arithmetic of extractDenseNodes/scanWays/scanRelations (delta accumulation, coordinate formula, string-table lookups) is tied to the model by the correspondence check, not by translation.",
    "design_ref": "DESIGN.md §5 C01",
    "trusted_base": ["protoscan / protobuf wire decoding, zlib", "harness protobuf writer harness/pbfgen.go"],
    "assumptions": ["valid files: column lengths agree, string references in range, tag keys never string 0", "timestamps within the int64 nanosecond range"],
}

PROPS["C08"] = {
    "props": ["OsmVerif.Props.C08"],
    "gens": ["Pbf"],
    "model_is_spec": ["filt "],
    "required_theorems": ["initial_accumulators_fresh", "reuses_eq", "skip_guards", "reuse_is_fresh", "mergeWay_fresh", "mergeRel_fresh", "mergeNode_fresh",
                          "scanGroup_eq_filter", "scanBlock_eq_filter", "scanBlock_sublist", "scanFile_eq_filter"],
    "technique": "Lean 4 model of scanPrimitiveGroup / extractDenseNodes with one accumulator per element kind, the accept/reject statements read from the source and interpreted; theorems: a reused accumulator is indistinguishable from a new one, a message on a fresh accumulator is the decoded element, hence for every selection (skip flags x arbitrary predicates) and every valid block the scan is the filter of the unfiltered decode (a subsequence of unmodified elements); the executable model, the real scanner and the filter of the real unfiltered scan compared on generated files; snapshots of returned objects compared at the end of the scan",
    "level_text": "Machine-checked proof: for all predicates and all 8 skip-flag combinations, every valid block, scanBlock (the model of the decoder loop with accumulator reuse, driven by the replacement and overwrite literals regenerated from the source) equals the filter of decodeBlock - in particular a sublist of it with unchanged elements. Correspondence: generated files scanned by the real scanner under skip flags and deterministic predicates with 1..8 decoders, compared with the model and with the filter of the scanner's own unfiltered result. Aliasing (memory of rejected elements reused while returned objects are retained) is outside a value-level model: every returned object is snapshotted when Scan returns it and compared again after the scan ended.",
    "level_note": "Trusted: Lean kernel; the fact extractor; the interpretation of composite literals in Model/PbfScan.lean; Go slice aliasing is observed at run time only (snapshots), not proved.",
    "design_ref": "DESIGN.md §5 C08",
    "trusted_base": ["protoscan / protobuf wire decoding", "harness protobuf writer harness/pbfgen.go"],
    "assumptions": ["valid files", "filter callbacks are pure functions of the element"],
}

PROPS["C09"] = {
    "props": ["OsmVerif.Props.C09"],
    "gens": ["Pbf"],
    "model_is_spec": ["offs "],
    "required_theorems": ["resume_at_reported_offset", "accessors_pinned", "rules_eq", "accounted_eq_size", "feed_eq", "scanTrace_eq", "scan_objects", "reported_offset_is_block_start",
                          "resume_complete"],
    "technique": "Lean 4 model of the offset bookkeeping (bytesRead accounting, offset captured before each read and carried with the block, Next shifting previous/current) with the statements regenerated from decoder.Start / readFileBlock / Next and interpreted; theorems for every stream: reported offsets = byte offset of the object's block and the offset current before it, a scan from any block on yields exactly the remaining objects; executable model vs the real scanner on generated files, plus a second real scanner started at every reported offset",
    "level_text": "Machine-checked proof, for every stream (header or none, any number of blocks of any sizes, any of them yielding no object): every block is accounted with its full 4+header+blob length; the consumer receives each block with the byte offset at which it begins; after each returned object FullyScannedBytes is that offset and PreviousFullyScannedBytes the offset current before the block was taken (empty blocks shift like any other); a scan started on the stream from block i on (a data block first, no header) yields exactly the objects of blocks i.. - so stop-and-resume never skips an element. Correspondence: generated files with empty (fully skipped) blocks in every position, 8 skip combinations, 1..8 decoders; reported offsets after every Scan compared with the model, and a second real scanner started at every reported offset must yield the rest from the first object of that block.",
    "level_note": "Trusted: Lean kernel; the fact extractor and the interpretation of the extracted statements (Model/PbfOffsets.lean); atomic loads of cOffset/pOffset are not modelled (the scanning goroutine is the only writer).",
    "design_ref": "DESIGN.md §5 C09",
    "trusted_base": ["protoscan / protobuf wire decoding", "harness protobuf writer harness/pbfgen.go"],
    "assumptions": ["valid files", "offsets read from the goroutine that calls Scan"],
}

PROPS["C06"] = {
    "props": ["OsmVerif.Props.C06"],
    "gens": ["Pbf"],
    "model_is_spec": ["cut ", "dmg "],
    "required_theorems": ["limits_pinned", "conv_eq", "readFrame_spec", "scanCut_spec", "cut_stream", "damage_checks_present", "dense_column_mismatch",
                          "dense_short_version_column", "way_user_out_of_range", "tags_key_out_of_range", "rel_column_mismatch", "block_with_bad_group"],
    "technique": "Lean 4 model of the framing reader on a stream that ends early (io.ReadFull contract assumed, EOF handling of the three readers regenerated from the source): theorem for every stream of frames and every cut offset - objects of the complete blocks, success only on a block boundary; the rejecting checks of every damage class pinned in the regenerated function bodies; the real scanner run on every byte offset of generated files and on every damage class at every block position, each damaged scan in an isolated child process with a watchdog",
    "level_text": "Known finding (open, cgo build only): a zlib stream followed by one extra byte makes the scan spin inside the third-party czlib reader (pbf-hang-zlib-trailing-byte; witness op ztrail). Machine-checked proof over all streams and all cut offsets: with the EOF handling read from readBlobHeaderSize / readBlobHeader / readBlob, a stream of frames cut to k bytes yields exactly the objects of the frames present in full and ends in success iff k is a frame boundary (in particular not right after a length prefix or a blob header). Pinned in the regenerated bodies: the oversized/negative size checks, the raw-size and encoding checks of getData, the block type checks for the first and for later blocks, the required-feature gate, the plain-node rejection, the recover in Decode, the three mandatory dense columns. Correspondence: every byte offset 0..len of generated files, and 20 damage classes at every block position with 1..4 decoders; a child process per damaged scan makes a crash the observed result of that case, a watchdog reports hangs; the prefix of objects before the damage is compared with the model.",
    "level_note": "Trusted: Lean kernel; the fact extractor; the io.ReadFull contract; protobuf / zlib error reporting on corrupt bytes (exercised). That each pinned check fires on its damage class is shown by running it, not proved. A way whose lat/lon columns are longer than an EMPTY refs column is accepted silently by the library (nodes with id 0 are made up from the coordinates); it is not one of the property's damage classes and is recorded in DESIGN.md as an observation.",
    "design_ref": "DESIGN.md §5 C06",
    "trusted_base": ["io.ReadFull contract", "protobuf / zlib error detection", "harness protobuf writer and damage injector harness/c06.go"],
    "assumptions": ["BlobHeader length > 0 (every real BlobHeader carries type and datasize)"],
    "timeout": 3600,
}

PROPS["C02"] = {
    "props": ["OsmVerif.Props.C02"],
    "gens": ["Pbf"],
    "race": True,
    "model_is_spec": ["par ", "pard "],
    "required_theorems": ["order_under_every_bounded_schedule", "not_stuck_bounded", "inv_init", "inv_step", "order_under_every_schedule", "complete_when_quiescent", "not_stuck", "pipeline_shape"],
    "technique": "Lean 4 transition system of the reader / n decoders / serializer pipeline with unbounded queues; invariant proved by induction over arbitrary schedules: the consumer receives blocks 0..m-1 in file order for every n, every number of blocks and every interleaving, all blocks when quiescent, never stuck before; the pipeline's round-robin and forwarding statements pinned in the regenerated body of decoder.Start; the real scanner with 1..32 decoders under perturbed timing compared with the format model and the single-decoder scan, under the Go race detector",
    "level_text": "Machine-checked proof over the model: for every number of decoders n >= 1, every number of blocks and every schedule (any sequence of reader, decoder-take, decoder-finish and serializer steps; unbounded queues, of which bounded and unbuffered Go channels allow a subset), the sequence handed to the consumer is 0,1,...,m-1 - file order, nothing lost, duplicated or swapped; when no step is enabled it is all blocks; while a block is missing some step is enabled. The same with BOUNDED queues (any capacity >= 1 per queue; an unbuffered channel counts as one slot, the item in the sender's hand): a bounded schedule is one of the schedules above, so the order theorem applies (order_under_every_bounded_schedule), and progress - which is not inherited, fewer enabled steps could mean new stuck states - is proved separately (not_stuck_bounded: the serializer can forward the block it waits for, or the decoder holding it can finish or take it because its output queue is empty, or the reader can read because its next queue is empty). The model's shape (dispatch k -> decoder k mod n, collection in the same order, one private dataDecoder per goroutine, one block at a time, every result forwarded, a fresh object slice per block) is pinned against the statements regenerated from the source. Partial: goroutine scheduling, channel semantics and memory visibility of the Go runtime are not modelled; they are exercised: 1..32 decoders (more than blocks, more than the channel budget), stalling reader, slow/fast blocks via filter callbacks, stalling consumer retaining all objects, all under the race detector, results compared with the format model and the single-decoder scan.",
    "level_note": "Trusted: Lean kernel; the fact extractor; that the Go statements pinned mean what the model's four actions say (channel send/receive, range over a channel). Data-race freedom is checked dynamically (race detector on the explored schedules), not proved.",
    "design_ref": "DESIGN.md §5 C02",
    "trusted_base": ["Go runtime: goroutines, channels, memory model", "Go race detector", "harness protobuf writer harness/pbfgen.go"],
    "assumptions": ["filter callbacks are pure functions of the element"],
    "timeout": 3600,
}

PROPS["C07"] = {
    "props": ["OsmVerif.Props.C07"],
    "gens": ["Pbf"],
    "race": True,
    "model_is_spec": ["hist "],
    "required_theorems": ["no_scan_after_stop", "recorded_error_sticky", "err_precedence", "nil_only_after_complete", "scanner_bodies",
                          "reader_loop_condition", "reader_stops_after_cancel", "consumer_state_private", "goroutines_end",
                          "blocking_ops_have_done_branch"],
    "technique": "Lean 4 state machine of Scan/Err/Close/cancel proved for all call histories (no Scan succeeds after a stop, Err precedence, nil only after a complete scan, recorded errors sticky) with the bodies of both scanners pinned to it; model of the reader goroutine's loop with the condition regenerated from the source (no new read once cancellation is visible) and the serializer's writes pinned away from the consumer's state; the real PBF and XML scanners driven through generated call histories and stopped at every position, with a counting reader, a goroutine dump and the Go race detector",
    "level_text": "Machine-checked proof over all call histories of the scanner state machine: after Close or cancellation every later Scan returns false; Err reports the recorded error first (the regular end as nil), then the closed error, then the context's error, and - once stopped - nil only after a complete scan; a recorded error is never replaced. Scan/Err/Close of osmpbf and osmxml are pinned to the statements the machine describes. The reader goroutine's loop condition is read from the source: with it the reader begins no read after the cancellation is visible at the loop head; no goroutine of Start writes the consumer's current block, and Next reads the serializer's error only after seeing the queue closed. After cancellation all goroutines end under every schedule: in a transition system of the cancelled pipeline (reader, n decoders draining their queues, serializer; every blocking operation a select with a Done branch - pinned in the source: four selects, four Done branches) every step lowers a measure and while a goroutine is alive a step is enabled, so every maximal run ends with reader, decoders and serializer returned (select fairness is needed only for receives from closed queues and is explicit). Partial: goroutine termination, the amount of input consumed and race freedom belong to the Go runtime; they are observed, not proved: generated call histories (stop at every position, before the first Scan to after the end) on both scanners compared with the state machine; 150-block files stopped after k objects by Close, by cancel, and by cancel from a second goroutine while scanning continues, with a counting reader (nothing read after Close returns; the rest of the input not consumed), a goroutine dump (none left) and the race detector.",
    "level_note": "Trusted: Lean kernel; the fact extractor; Go runtime semantics of context, WaitGroup and channels. 'Promptly' is made concrete as: bytes pulled when Close returns do not grow afterwards, and the total stays within what the pipeline's queues can hold ahead of the consumer (2n+24 blocks).",
    "design_ref": "DESIGN.md §5 C07",
    "trusted_base": ["Go runtime: goroutines, channels, context, memory model", "Go race detector"],
    "assumptions": ["Close is called from the goroutine that calls Scan (the scanner's closed flag is a plain field)"],
    "timeout": 3600,
}

NOT_APPLICABLE = {pid: "check not built yet in this session (planned, see DESIGN.md §9); no claim is made" for pid in
                  ["C%02d" % i for i in range(1, 21)] if pid not in PROPS}

HOOK_COMMITS = []
