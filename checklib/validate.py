#!/usr/bin/env python3
import json, glob, sys
import jsonschema
ok = True
try:
    jsonschema.validate(json.load(open('/verif/MANIFEST.json')), json.load(open('/root/.vp/MANIFEST.schema.json')))
except Exception as e:
    ok = False; print("MANIFEST invalid:", e)
sch = json.load(open('/root/.vp/EVIDENCE.schema.json'))
for f in sorted(glob.glob('/verif/evidence/*.json')):
    try:
        jsonschema.validate(json.load(open(f)), sch)
    except Exception as e:
        ok = False; print(f, "invalid:", str(e)[:500])
print("valid" if ok else "INVALID")
sys.exit(0 if ok else 1)
