package main

import (
	"encoding/json"
	"encoding/xml"
	"fmt"
	"sort"
	"strconv"
	"strings"
	"time"

	"github.com/paulmach/orb"
	"github.com/paulmach/orb/geojson"
	"github.com/paulmach/osm"
	"github.com/paulmach/osm/osmgeojson"
)

// C16 / C17 — osmgeojson.Convert on small data sets. Op:
//
//	conv <noID><noMeta><noRelMembership><includeInvalid> N <node>... W <way>... R <relation>... [T <truth ring>...]
//
// node:     id~lon~lat~version~changeset~hasTimestamp~tags
// way:      id~version~changeset~hasTimestamp~tags~refs          ref = id | id@lon@lat
// relation: id~version~changeset~hasTimestamp~tags~members       member = n5/role/orient | w5/role/orient[/id@lon@lat,…]
// tags: k=v,k=v or -.  Coordinates are integer degrees (exact in float64). T: ground truth for C16 (ignored by the model).
func init() {
	register(&Prop{
		ID: "C17",
		Rule: "random small OSM data sets (0..8 nodes with/without location and interesting/uninteresting tags, 0..4 ways sharing nodes, closed/open, area and non-area tags, missing nodes, annotated way nodes; 0..3 relations of type route/multipolygon/boundary/other with node, way and relation members, missing ways, inline member nodes) x all 16 option combinations (each data set under its baseline and 3 other option sets); " +
			"plus (5%) one route or multipolygon relation over a shuffled chain of 7..11 ways; " +
			"non-trivial = at least two features or a relation feature; distinct = distinct op line",
		Gen:   c17Gen,
		Exec:  c17Exec,
		Class: c17Class,
	})
}

type c17Case struct {
	opts  [4]bool
	o     *osm.OSM
	truth []string
}

func c17Tags(s string) osm.Tags {
	if s == "-" {
		return nil
	}
	var ts osm.Tags
	for _, kv := range strings.Split(s, ",") {
		p := strings.SplitN(kv, "=", 2)
		if len(p) == 2 {
			ts = append(ts, osm.Tag{Key: p[0], Value: p[1]})
		}
	}
	return ts
}

func c17WayNodes(s string) (osm.WayNodes, bool) {
	if s == "-" {
		return nil, true
	}
	var ns osm.WayNodes
	for _, r := range strings.Split(s, ",") {
		p := strings.Split(r, "@")
		id, err := strconv.ParseInt(p[0], 10, 64)
		if err != nil {
			return nil, false
		}
		wn := osm.WayNode{ID: osm.NodeID(id)}
		if len(p) == 3 {
			lo, _ := strconv.ParseInt(p[1], 10, 64)
			la, _ := strconv.ParseInt(p[2], 10, 64)
			wn.Lon, wn.Lat = float64(lo), float64(la)
		}
		ns = append(ns, wn)
	}
	return ns, true
}

// the timestamp field of an op: 0 = none (zero time), 1 = an ordinary stamp, 2 = the epoch second itself,
// 3 = before the epoch, 4 = the last second RFC 3339 can write. Any stamp but the zero time is metadata.
func c17TsClass(r *Rng) int {
	if r.Chance(50) {
		return 0
	}
	if r.Chance(15) {
		return 2 + r.Intn(3)
	}
	return 1
}

func c17Meta(ver, cs, ts string) (int, osm.ChangesetID, time.Time) {
	v, _ := strconv.Atoi(ver)
	c, _ := strconv.ParseInt(cs, 10, 64)
	var t time.Time
	switch ts {
	case "1":
		t = time.Unix(1500000000, 0).UTC()
	case "2":
		t = time.Unix(0, 0).UTC()
	case "3":
		t = time.Date(1969, 12, 31, 23, 59, 59, 0, time.UTC)
	case "4":
		t = time.Date(9999, 12, 31, 23, 59, 59, 0, time.UTC)
	}
	return v, osm.ChangesetID(c), t
}

func c17Parse(op string) (*c17Case, bool) {
	f := fields(op)
	if len(f) < 2 || f[0] != "conv" || len(f[1]) != 4 {
		return nil, false
	}
	c := &c17Case{o: &osm.OSM{}}
	for i := 0; i < 4; i++ {
		c.opts[i] = f[1][i] == '1'
	}
	sec := ""
	for _, t := range f[2:] {
		if t == "N" || t == "W" || t == "R" || t == "T" {
			sec = t
			continue
		}
		p := strings.Split(t, "~")
		switch sec {
		case "N":
			if len(p) != 7 {
				return nil, false
			}
			id, _ := strconv.ParseInt(p[0], 10, 64)
			lo, _ := strconv.ParseInt(p[1], 10, 64)
			la, _ := strconv.ParseInt(p[2], 10, 64)
			v, cs, ts := c17Meta(p[3], p[4], p[5])
			c.o.Nodes = append(c.o.Nodes, &osm.Node{ID: osm.NodeID(id), Lon: float64(lo), Lat: float64(la), Version: v, ChangesetID: cs, Timestamp: ts, Tags: c17Tags(p[6]), Visible: true})
		case "W":
			if len(p) != 6 {
				return nil, false
			}
			id, _ := strconv.ParseInt(p[0], 10, 64)
			v, cs, ts := c17Meta(p[1], p[2], p[3])
			ns, ok := c17WayNodes(p[5])
			if !ok {
				return nil, false
			}
			c.o.Ways = append(c.o.Ways, &osm.Way{ID: osm.WayID(id), Version: v, ChangesetID: cs, Timestamp: ts, Tags: c17Tags(p[4]), Nodes: ns, Visible: true})
		case "R":
			if len(p) != 6 {
				return nil, false
			}
			id, _ := strconv.ParseInt(p[0], 10, 64)
			v, cs, ts := c17Meta(p[1], p[2], p[3])
			r := &osm.Relation{ID: osm.RelationID(id), Version: v, ChangesetID: cs, Timestamp: ts, Tags: c17Tags(p[4]), Visible: true}
			if p[5] != "-" {
				for _, ms := range strings.Split(p[5], ";") {
					q := strings.Split(ms, "/")
					if len(q) < 3 {
						return nil, false
					}
					ref, _ := strconv.ParseInt(q[0][1:], 10, 64)
					or, _ := strconv.Atoi(q[2])
					m := osm.Member{Ref: ref, Role: q[1], Orientation: orb.Orientation(or)}
					switch q[0][0] {
					case 'n':
						m.Type = osm.TypeNode
					case 'w':
						m.Type = osm.TypeWay
					case 'r':
						m.Type = osm.TypeRelation
					}
					if len(q) == 4 {
						ns, ok := c17WayNodes(q[3])
						if !ok {
							return nil, false
						}
						m.Nodes = ns
					}
					r.Members = append(r.Members, m)
				}
			}
			c.o.Relations = append(c.o.Relations, r)
		case "T":
			c.truth = append(c.truth, t)
		}
	}
	return c, true
}

func (c *c17Case) options() []osmgeojson.Option {
	return []osmgeojson.Option{osmgeojson.NoID(c.opts[0]), osmgeojson.NoMeta(c.opts[1]), osmgeojson.NoRelationMembership(c.opts[2]), osmgeojson.IncludeInvalidPolygons(c.opts[3])}
}

func c17P(p orb.Point) string { return fmt.Sprintf("%d_%d", int64(p[0]), int64(p[1])) }
func c17L(l []orb.Point) string {
	s := make([]string, len(l))
	for i, p := range l {
		s[i] = c17P(p)
	}
	return "(" + strings.Join(s, ",") + ")"
}

func c17Geom(g orb.Geometry) string {
	switch x := g.(type) {
	case orb.Point:
		return "P(" + c17P(x) + ")"
	case orb.LineString:
		return "L" + c17L(x)
	case orb.MultiLineString:
		var b strings.Builder
		for _, l := range x {
			b.WriteString(c17L(l))
		}
		return "ML(" + b.String() + ")"
	case orb.Polygon:
		var b strings.Builder
		for _, r := range x {
			b.WriteString(c17L(r))
		}
		return "PG(" + b.String() + ")"
	case orb.MultiPolygon:
		var b strings.Builder
		for _, p := range x {
			b.WriteString("(")
			for _, r := range p {
				b.WriteString(c17L(r))
			}
			b.WriteString(")")
		}
		return "MPG(" + b.String() + ")"
	}
	return fmt.Sprintf("?%T", g)
}

type c17Feat struct {
	kind     string
	id       int
	idSet    bool
	idStr    string
	geom     orb.Geometry
	tags     map[string]string
	tainted  bool
	rels     []string // id:role
	hasRels  bool
	meta     []string
	hasMeta  bool
	rendered string
}

func c17Decode(fc *geojson.FeatureCollection) []c17Feat {
	var out []c17Feat
	for _, f := range fc.Features {
		var x c17Feat
		x.kind, _ = f.Properties["type"].(string)
		x.id, _ = f.Properties["id"].(int)
		if s, ok := f.ID.(string); ok && s != "" {
			x.idSet, x.idStr = true, s
		}
		x.geom = f.Geometry
		x.tags, _ = f.Properties["tags"].(map[string]string)
		if t, ok := f.Properties["tainted"].(bool); ok {
			x.tainted = t
		}
		if r, ok := f.Properties["relations"]; ok {
			x.hasRels = true
			b, _ := json.Marshal(r)
			var rs []struct {
				ID   int64  `json:"id"`
				Role string `json:"role"`
			}
			_ = json.Unmarshal(b, &rs)
			for _, y := range rs {
				x.rels = append(x.rels, fmt.Sprintf("%d:%s", y.ID, y.Role))
			}
		}
		if m, ok := f.Properties["meta"].(map[string]interface{}); ok {
			x.hasMeta = true
			for _, k := range []string{"timestamp", "version", "changeset", "user", "uid"} {
				if _, has := m[k]; has {
					x.meta = append(x.meta, k)
				}
			}
		}
		keys := make([]string, 0, len(x.tags))
		for k := range x.tags {
			keys = append(keys, k)
		}
		sort.Strings(keys)
		var ts []string
		for _, k := range keys {
			ts = append(ts, k+"="+x.tags[k])
		}
		tagS := "-"
		if len(ts) > 0 {
			tagS = strings.Join(ts, ",")
		}
		rels := "x"
		if x.hasRels {
			rels = "-"
			if len(x.rels) > 0 {
				rels = strings.Join(x.rels, ";")
			}
		}
		meta := "x"
		if x.hasMeta {
			meta = "-"
			if len(x.meta) > 0 {
				meta = strings.Join(x.meta, ",")
			}
		}
		b := func(v bool) int {
			if v {
				return 1
			}
			return 0
		}
		x.rendered = fmt.Sprintf("%s/%d id=%d G=%s tags=%s tainted=%d rels=%s meta=%s", x.kind, x.id, b(x.idSet), c17Geom(x.geom), tagS, b(x.tainted), rels, meta)
		out = append(out, x)
	}
	return out
}

func c17Render(fs []c17Feat) string {
	if len(fs) == 0 {
		return "none"
	}
	s := make([]string, len(fs))
	for i, f := range fs {
		s[i] = f.rendered
	}
	return strings.Join(s, " | ")
}

func c17Class(op, out string) string {
	n := strings.Count(out, " | ") + 1
	if out == "none" {
		n = 0
	}
	hasRel := strings.Contains(out, "relation/") || strings.Contains(out, "MPG(") || strings.Contains(out, "ML(")
	if n >= 2 || hasRel {
		if hasRel {
			return "with-relation-feature"
		}
		return "multi-feature"
	}
	return "trivial-few-features"
}

var c17Uninteresting = map[string]bool{"source": true, "source_ref": true, "source:ref": true, "history": true, "attribution": true, "created_by": true, "tiger:county": true, "tiger:tlid": true, "tiger:upload_uuid": true}

func c17Interesting(ts osm.Tags) bool {
	for _, t := range ts {
		if !c17Uninteresting[t.Key] {
			return true
		}
	}
	return false
}

func c17Exec(op string) (string, *Violation) {
	c, ok := c17Parse(op)
	if !ok {
		return "bad-op", nil
	}
	before, _ := xml.Marshal(c.o)
	fc, err := osmgeojson.Convert(c.o, c.options()...)
	if err != nil {
		return "err", &Violation{Signature: "convert-error", Text: err.Error()}
	}
	fs := c17Decode(fc)
	out := c17Render(fs)
	after, _ := xml.Marshal(c.o)
	if string(before) != string(after) {
		return out, &Violation{Signature: "input-modified", Text: "Convert modified its input:\n" + string(before) + "\n" + string(after)}
	}
	// equal input gives equal output
	c2, _ := c17Parse(op)
	fc2, _ := osmgeojson.Convert(c2.o, c2.options()...)
	if out2 := c17Render(c17Decode(fc2)); out2 != out {
		return out, &Violation{Signature: "nondeterministic", Text: "two conversions of equal input differ:\n" + out + "\n" + out2}
	}
	if v := c17Oracle(c, fs); v != nil {
		return out, v
	}
	if len(c.truth) > 0 {
		if v := c16Truth(c, fs); v != nil {
			return out, v
		}
	}
	return out, nil
}

// c17Oracle: the documented element -> feature mapping, written independently of the implementation.
func c17Oracle(c *c17Case, fs []c17Feat) *Violation {
	// each input element gives rise to at most one feature. An old-style multipolygon (single outer way,
	// relation without tags of its own) is reported under its outer way's identity (the way itself is then not
	// converted separately); when several such relations share the outer way, each becomes a feature with that
	// identity: that is the recorded finding duplicate-way-feature-shared-outer, every other duplicate is new.
	outerOf := map[int]int{}
	for _, r := range c.o.Relations {
		if t := r.Tags.Find("type"); t == "multipolygon" || t == "boundary" {
			for _, m := range r.Members {
				if m.Type == osm.TypeWay && m.Role == "outer" {
					outerOf[int(m.Ref)]++
					break
				}
			}
		}
	}
	// the outer way of a relation that has no tags of its own besides its type stands for the relation (old style
	// multipolygon); when that relation yields no polygon the way yields nothing either
	oldStyleOuter := map[int]bool{}
	for _, r := range c.o.Relations {
		if t := r.Tags.Find("type"); t == "multipolygon" || t == "boundary" {
			own := false
			for _, t := range r.Tags {
				if t.Key != "type" && !c17Uninteresting[t.Key] {
					own = true
				}
			}
			if own {
				continue
			}
			for _, m := range r.Members {
				if m.Type == osm.TypeWay && m.Role == "outer" {
					oldStyleOuter[int(m.Ref)] = true
				}
			}
		}
	}
	// an outer way of a multipolygon / boundary relation whose tags say nothing beyond the relation's own tags is
	// represented by the relation and not converted on its own (osmtogeojson's rule, convert.go "skippable"),
	// whether or not the relation ends up with a valid polygon
	covered := map[int]bool{}
	for _, r := range c.o.Relations {
		if t := r.Tags.Find("type"); t == "multipolygon" || t == "boundary" {
			rt := r.Tags.Map()
			for _, m := range r.Members {
				if m.Type != osm.TypeWay || m.Role != "outer" {
					continue
				}
				for _, w := range c.o.Ways {
					if int64(w.ID) != m.Ref {
						continue
					}
					beyond := false
					for _, t := range w.Tags {
						if rv, has := rt[t.Key]; !c17Uninteresting[t.Key] && !(has && rv == t.Value) {
							beyond = true
						}
					}
					if !beyond {
						covered[int(w.ID)] = true
					}
				}
			}
		}
	}
	seen := map[string]int{}
	var dup *Violation
	for _, f := range fs {
		k := fmt.Sprintf("%s/%d", f.kind, f.id)
		seen[k]++
		allowed := 1
		if f.kind == "way" && outerOf[f.id] > 0 {
			allowed = outerOf[f.id]
		}
		if seen[k] > 1 && seen[k] <= allowed {
			// the recorded finding: two old-style multipolygon relations sharing their outer way each become a
			// feature with that way's identity
			dup = &Violation{Signature: "duplicate-way-feature-shared-outer", Text: fmt.Sprintf("%d features for %s: it is the first outer member of %d multipolygon/boundary relations", seen[k], k, outerOf[f.id])}
		}
		if seen[k] > allowed {
			return &Violation{Signature: "duplicate-feature", Text: fmt.Sprintf("%d features for %s", seen[k], k)}
		}
		if f.idSet != !c.opts[0] {
			return &Violation{Signature: "noid-option", Text: fmt.Sprintf("feature %s: ID set=%v with NoID=%v", k, f.idSet, c.opts[0])}
		}
		if f.idSet && f.idStr != k {
			return &Violation{Signature: "feature-id", Text: fmt.Sprintf("feature ID %q, type/id properties say %s", f.idStr, k)}
		}
		if f.hasMeta != !c.opts[1] {
			return &Violation{Signature: "nometa-option", Text: fmt.Sprintf("feature %s: meta present=%v with NoMeta=%v", k, f.hasMeta, c.opts[1])}
		}
		if f.hasMeta && !(f.kind == "way" && outerOf[f.id] > 0) {
			// the element's timestamp is metadata whenever it has one - the epoch second and earlier included
			var ts time.Time
			found := false
			switch f.kind {
			case "node":
				for _, n := range c.o.Nodes {
					if int64(n.ID) == int64(f.id) {
						ts, found = n.Timestamp, true
					}
				}
			case "way":
				for _, w := range c.o.Ways {
					if int64(w.ID) == int64(f.id) {
						ts, found = w.Timestamp, true
					}
				}
			case "relation":
				for _, r := range c.o.Relations {
					if int64(r.ID) == int64(f.id) {
						ts, found = r.Timestamp, true
					}
				}
			}
			hasTS := false
			for _, m := range f.meta {
				if m == "timestamp" {
					hasTS = true
				}
			}
			if found && hasTS != !ts.IsZero() {
				return &Violation{Signature: "meta-timestamp", Text: fmt.Sprintf("feature %s: meta.timestamp present=%v, the element's timestamp is %s", k, hasTS, ts.Format(time.RFC3339))}
			}
		}
		if f.hasRels != !c.opts[2] {
			return &Violation{Signature: "norelations-option", Text: fmt.Sprintf("feature %s: relations present=%v with NoRelationMembership=%v", k, f.hasRels, c.opts[2])}
		}
	}
	// nodes
	wayMember := map[osm.NodeID]bool{}
	for _, w := range c.o.Ways {
		for _, n := range w.Nodes {
			wayMember[n.ID] = true
		}
	}
	relMember := map[osm.NodeID][]string{}
	for _, r := range c.o.Relations {
		for _, m := range r.Members {
			if m.Type == osm.TypeNode {
				relMember[osm.NodeID(m.Ref)] = append(relMember[osm.NodeID(m.Ref)], fmt.Sprintf("%d:%s", r.ID, m.Role))
			}
		}
	}
	nodeByID := map[osm.NodeID]*osm.Node{}
	dupNode := map[osm.NodeID]bool{}
	for _, n := range c.o.Nodes {
		if nodeByID[n.ID] != nil {
			dupNode[n.ID] = true
		}
		nodeByID[n.ID] = n
	}
	feat := map[string]*c17Feat{}
	for i := range fs {
		feat[fmt.Sprintf("%s/%d", fs[i].kind, fs[i].id)] = &fs[i]
	}
	for _, n := range c.o.Nodes {
		if dupNode[n.ID] {
			continue
		}
		located := !(n.Lon == 0 && n.Lat == 0 && n.Version == 0)
		want := located && (!wayMember[n.ID] || c17Interesting(n.Tags) || len(relMember[n.ID]) > 0)
		f := feat[fmt.Sprintf("node/%d", n.ID)]
		if (f != nil) != want {
			return &Violation{Signature: "node-feature-rule", Text: fmt.Sprintf("node %d: feature present=%v, expected %v (located=%v wayMember=%v interesting=%v relMember=%v)", n.ID, f != nil, want, located, wayMember[n.ID], c17Interesting(n.Tags), relMember[n.ID])}
		}
		if f != nil {
			if p, ok := f.geom.(orb.Point); !ok || p[0] != n.Lon || p[1] != n.Lat {
				return &Violation{Signature: "node-geometry", Text: fmt.Sprintf("node %d: geometry %v", n.ID, f.geom)}
			}
			if !c17SameTags(f.tags, n.Tags) {
				return &Violation{Signature: "feature-tags", Text: fmt.Sprintf("node %d: tags %v vs %v", n.ID, f.tags, n.Tags)}
			}
			if f.hasRels && strings.Join(f.rels, ";") != strings.Join(relMember[n.ID], ";") {
				return &Violation{Signature: "relations-property", Text: fmt.Sprintf("node %d: relations %v, expected %v", n.ID, f.rels, relMember[n.ID])}
			}
		}
	}
	// ways that are not absorbed by a relation: a line, or for area ways a closed, counter-clockwise polygon,
	// over the resolvable node coordinates in order
	for _, w := range c.o.Ways {
		f := feat[fmt.Sprintf("way/%d", w.ID)]
		if f == nil {
			// a way with tags of its own and at least two resolvable nodes is never swallowed by a relation
			// (only untagged ways whose geometry is carried by a route/multipolygon feature are skipped)
			resolvable := 0
			for _, wn := range w.Nodes {
				if wn.Lon != 0 || wn.Lat != 0 || nodeByID[wn.ID] != nil {
					resolvable++
				}
			}
			if resolvable >= 2 && c17Interesting(w.Tags) && !oldStyleOuter[int(w.ID)] && !covered[int(w.ID)] {
				return &Violation{Signature: "way-feature-missing", Text: fmt.Sprintf("way %d has tags %v and %d resolvable nodes but no feature", w.ID, w.Tags, resolvable)}
			}
			continue
		}
		if outerOf[int(w.ID)] > 0 {
			continue // possibly an old style multipolygon carried by its outer way: checked by C16
		}
		var pts []orb.Point
		for _, wn := range w.Nodes {
			if wn.Lon != 0 || wn.Lat != 0 {
				pts = append(pts, orb.Point{wn.Lon, wn.Lat})
			} else if n := nodeByID[wn.ID]; n != nil && !dupNode[wn.ID] {
				pts = append(pts, orb.Point{n.Lon, n.Lat})
			} else if dupNode[wn.ID] {
				pts = nil
				break
			}
		}
		if pts == nil {
			continue
		}
		switch g := f.geom.(type) {
		case orb.LineString:
			if w.Polygon() {
				return &Violation{Signature: "area-way-as-line", Text: fmt.Sprintf("way %d is an area but came out as a line", w.ID)}
			}
			if c17L(g) != c17L(pts) {
				return &Violation{Signature: "way-geometry", Text: fmt.Sprintf("way %d: line %s, node coordinates in order %s", w.ID, c17L(g), c17L(pts))}
			}
		case orb.Polygon:
			if !w.Polygon() {
				return &Violation{Signature: "line-way-as-area", Text: fmt.Sprintf("way %d is not an area but came out as a polygon", w.ID)}
			}
			ring := g[0]
			if len(ring) < 2 || ring[0] != ring[len(ring)-1] {
				return &Violation{Signature: "polygon-not-closed", Text: fmt.Sprintf("way %d: ring %s", w.ID, c17L(ring))}
			}
			if a := c16Area2(ring); a < 0 {
				return &Violation{Signature: "polygon-winding", Text: fmt.Sprintf("way %d: outer ring is clockwise %s", w.ID, c17L(ring))}
			}
			want := pts
			if pts[0] != pts[len(pts)-1] {
				want = append(append([]orb.Point{}, pts...), pts[0])
			}
			if !c16SameRing(ring, want) {
				return &Violation{Signature: "way-geometry", Text: fmt.Sprintf("way %d: ring %s, node coordinates %s", w.ID, c17L(ring), c17L(want))}
			}
		}
	}
	// route relations: the joined geometry preserves every segment of the member ways
	wayByID := map[osm.WayID]*osm.Way{}
	for _, w := range c.o.Ways {
		wayByID[w.ID] = w
	}
	for _, r := range c.o.Relations {
		if r.Tags.Find("type") != "route" {
			continue
		}
		f := feat[fmt.Sprintf("relation/%d", r.ID)]
		wantEdges := map[string]int{}
		any := false
		skipCase := false
		for _, m := range r.Members {
			if m.Type != osm.TypeWay {
				continue
			}
			w := wayByID[osm.WayID(m.Ref)]
			if w == nil {
				continue
			}
			var pts []orb.Point
			for _, wn := range w.Nodes {
				if wn.Lon != 0 || wn.Lat != 0 {
					pts = append(pts, orb.Point{wn.Lon, wn.Lat})
				} else if n := nodeByID[wn.ID]; n != nil {
					if dupNode[wn.ID] {
						skipCase = true
					}
					pts = append(pts, orb.Point{n.Lon, n.Lat})
				}
			}
			if len(pts) > 0 {
				any = true
			}
			for i := 1; i < len(pts); i++ {
				wantEdges[c16Edge(pts[i-1], pts[i])]++
			}
		}
		if skipCase {
			continue
		}
		if (f != nil) != any {
			return &Violation{Signature: "route-feature-rule", Text: fmt.Sprintf("route relation %d: feature present=%v, member ways with coordinates=%v", r.ID, f != nil, any)}
		}
		if f == nil {
			continue
		}
		gotEdges := map[string]int{}
		var lines []orb.LineString
		switch g := f.geom.(type) {
		case orb.LineString:
			lines = []orb.LineString{g}
		case orb.MultiLineString:
			lines = g
		default:
			return &Violation{Signature: "route-geometry-type", Text: fmt.Sprintf("route relation %d: geometry %T", r.ID, f.geom)}
		}
		for _, l := range lines {
			for i := 1; i < len(l); i++ {
				gotEdges[c16Edge(l[i-1], l[i])]++
			}
		}
		for e, n := range wantEdges {
			if gotEdges[e] < n {
				return &Violation{Signature: "route-segment-lost", Text: fmt.Sprintf("route relation %d: segment %s appears %d times in member ways, %d times in the joined geometry %s", r.ID, e, n, gotEdges[e], c17Geom(f.geom))}
			}
		}
		for e, n := range gotEdges {
			if wantEdges[e] < n {
				return &Violation{Signature: "route-segment-invented", Text: fmt.Sprintf("route relation %d: segment %s appears %d times in the joined geometry but %d times in member ways", r.ID, e, n, wantEdges[e])}
			}
		}
	}
	if dup != nil {
		return dup
	}
	return nil
}

func c17SameTags(m map[string]string, ts osm.Tags) bool {
	want := map[string]string{}
	for _, t := range ts {
		want[t.Key] = t.Value
	}
	if len(want) != len(m) {
		return false
	}
	for k, v := range want {
		if m[k] != v {
			return false
		}
	}
	return true
}

func c16Edge(a, b orb.Point) string {
	x, y := c17P(a), c17P(b)
	if x > y {
		x, y = y, x
	}
	return x + "-" + y
}

func c16Area2(r []orb.Point) float64 {
	a := 0.0
	for i := 1; i < len(r); i++ {
		a += r[i-1][0]*r[i][1] - r[i][0]*r[i-1][1]
	}
	return a
}

// c16SameRing: closed rings equal up to rotation and direction.
func c16SameRing(a, b []orb.Point) bool {
	if len(a) != len(b) || len(a) < 2 {
		return false
	}
	n := len(a) - 1 // closed: last == first
	for dir := 0; dir < 2; dir++ {
		for s := 0; s < n; s++ {
			ok := true
			for i := 0; i < n && ok; i++ {
				j := (s + i) % n
				if dir == 1 {
					j = (s - i + 2*n) % n
				}
				if a[i] != b[j] {
					ok = false
				}
			}
			if ok {
				return true
			}
		}
	}
	return false
}

var c17TagPool = []string{"name=x", "building=yes", "highway=residential", "source=survey", "created_by=josm", "natural=water", "area=yes", "area=no", "landuse=forest", "barrier=wall", "amenity=cafe", "note=n"}

// c17GenLong: one route (or multipolygon) relation over a chain of 7..11 two- and three-node ways listed in a
// shuffled order - long enough that joining them moves pending segments around in every way the joiner can.
func c17GenLong(r *Rng) (nodes, ways, rels []string) {
	m := 7 + r.Intn(5)
	closed := r.Chance(40)
	// distinct lattice points along a zig-zag
	var ids [][]int
	next := 1
	pt := func(i int) (int, int) { return 1 + i, 1 + (i*i)%5 + 6*(i%2) }
	cur := next
	next++
	for w := 0; w < m; w++ {
		l := []int{cur}
		for k := 1 + r.Intn(2); k > 0; k-- {
			l = append(l, next)
			next++
		}
		cur = l[len(l)-1]
		ids = append(ids, l)
	}
	if closed {
		ids[m-1] = append(ids[m-1], 1)
	}
	for i := 1; i < next; i++ {
		lon, lat := pt(i)
		nodes = append(nodes, fmt.Sprintf("%d~%d~%d~1~%d~%d~-", i, lon, lat, r.Intn(3), r.Intn(2)))
	}
	var ms []string
	for w, l := range ids {
		refs := make([]string, len(l))
		for i, id := range l {
			refs[i] = strconv.Itoa(id)
		}
		if r.Chance(30) { // some members run the other way
			for a, b := 0, len(refs)-1; a < b; a, b = a+1, b-1 {
				refs[a], refs[b] = refs[b], refs[a]
			}
		}
		tags := "-"
		if r.Chance(30) {
			tags = "highway=residential"
		}
		ways = append(ways, fmt.Sprintf("%d~%d~%d~%d~%s~%s", 101+w, r.Intn(3), r.Intn(3), r.Intn(2), tags, strings.Join(refs, ",")))
		role := "outer"
		if !closed {
			role = []string{"", "forward"}[r.Intn(2)]
		}
		ms = append(ms, fmt.Sprintf("w%d/%s/0", 101+w, role))
	}
	p := r.Perm(len(ms))
	sh := make([]string, len(ms))
	for i, j := range p {
		sh[i] = ms[j]
	}
	typ := "type=route"
	if closed && r.Bool() {
		typ = "type=multipolygon,landuse=forest"
	}
	rels = append(rels, fmt.Sprintf("201~%d~%d~%d~%s~%s", r.Intn(3), r.Intn(3), r.Intn(2), typ, strings.Join(sh, ";")))
	return
}

func c17GenData(r *Rng) (nodes, ways, rels []string) {
	if r.Chance(5) {
		return c17GenLong(r)
	}
	nn := r.Intn(9)
	type nd struct{ lon, lat int }
	pos := map[int]nd{}
	for i := 1; i <= nn; i++ {
		lon, lat := 1+r.Intn(12), 1+r.Intn(12)
		ver := 1
		if r.Chance(15) {
			lon, lat = 0, 0
			if r.Chance(60) {
				ver = 0
			}
		}
		pos[i] = nd{lon, lat}
		tags := "-"
		if r.Chance(40) {
			tags = c17TagPool[r.Intn(len(c17TagPool))]
			if r.Chance(30) {
				tags += "," + []string{"source=x", "ref=1", "tiger:tlid=5"}[r.Intn(3)]
			}
		}
		nodes = append(nodes, fmt.Sprintf("%d~%d~%d~%d~%d~%d~%s", i, lon, lat, ver, r.Intn(3), c17TsClass(r), tags))
	}
	nw := r.Intn(5)
	for i := 1; i <= nw; i++ {
		k := 1 + r.Intn(5)
		var refs []string
		first := ""
		for j := 0; j < k; j++ {
			id := 1 + r.Intn(nn+2) // may reference a missing node
			ref := strconv.Itoa(id)
			if r.Chance(20) {
				ref = fmt.Sprintf("%d@%d@%d", id, 1+r.Intn(12), 1+r.Intn(12))
			}
			if j == 0 {
				first = ref
			}
			refs = append(refs, ref)
		}
		if r.Chance(45) && k >= 3 {
			refs = append(refs, first) // closed
		}
		tags := "-"
		if r.Chance(70) {
			tags = c17TagPool[r.Intn(len(c17TagPool))]
			if r.Chance(30) {
				tags += "," + c17TagPool[r.Intn(3)]
				tags = strings.Join(c17Dedup(strings.Split(tags, ",")), ",")
			}
		}
		ways = append(ways, fmt.Sprintf("%d~%d~%d~%d~%s~%s", 100+i, r.Intn(3), r.Intn(3), c17TsClass(r), tags, strings.Join(refs, ",")))
	}
	nr := r.Intn(4)
	for i := 1; i <= nr; i++ {
		typ := []string{"type=route", "type=multipolygon", "type=boundary", "type=site", "name=rel"}[r.Intn(5)]
		tags := typ
		if r.Chance(40) {
			tags += "," + []string{"name=r", "landuse=forest", "source=z", "building=true", "natural=true"}[r.Intn(5)]
		}
		k := r.Intn(5)
		var ms []string
		for j := 0; j < k; j++ {
			switch r.Intn(6) {
			case 0:
				ms = append(ms, fmt.Sprintf("n%d/%s/0", 1+r.Intn(nn+1), []string{"", "stop", "label"}[r.Intn(3)]))
			case 1:
				ms = append(ms, fmt.Sprintf("r%d/sub/0", 1+r.Intn(3)))
			default:
				role := []string{"outer", "inner", "", "forward", "outer"}[r.Intn(5)]
				m := fmt.Sprintf("w%d/%s/%d", 101+r.Intn(nw+1), role, []int{0, 0, 0, 1, -1}[r.Intn(5)])
				if r.Chance(10) {
					m += fmt.Sprintf("/%d@1@1,%d@5@1,%d@5@5,%d@1@1", 50, 51, 52, 50)
				}
				ms = append(ms, m)
			}
		}
		mstr := "-"
		if len(ms) > 0 {
			mstr = strings.Join(ms, ";")
		}
		rels = append(rels, fmt.Sprintf("%d~%d~%d~%d~%s~%s", 200+i, r.Intn(3), r.Intn(3), c17TsClass(r), tags, mstr))
	}
	return
}

func c17Dedup(kvs []string) []string {
	seen := map[string]bool{}
	var out []string
	for _, kv := range kvs {
		k := strings.SplitN(kv, "=", 2)[0]
		if !seen[k] {
			seen[k] = true
			out = append(out, kv)
		}
	}
	return out
}

func c17Gen(r *Rng, tier string, emit func(string)) {
	n := 4000
	if tier == "thorough" {
		n = 30000
	}
	for i := 0; i < n; i++ {
		nodes, ways, rels := c17GenData(r)
		body := " N " + strings.Join(nodes, " ") + " W " + strings.Join(ways, " ") + " R " + strings.Join(rels, " ")
		body = strings.Join(strings.Fields(body), " ")
		emit("conv 0000 " + body)
		for k := 0; k < 3; k++ {
			o := r.Intn(16)
			emit(fmt.Sprintf("conv %04b %s", o, body))
		}
	}
}
