package main

import (
	"context"
	"errors"
	"fmt"
	"runtime"
	"strconv"
	"strings"
	"time"

	"github.com/paulmach/osm"
	"github.com/paulmach/osm/annotate"
)

// C14 — child-first ordering. Ops:
//
//	order <ids,comma> H <id=m.m|m.n5|...>...         full iteration
//	close|cancel <k> <ids> H ...                       k Next calls, then Close / cancel of the parent context
//
// members: plain number = relation member, n<id>/w<id> = node/way member; `|` separates versions.
func init() {
	register(&Prop{
		ID: "C14",
		Rule: "random reference graphs over 1..9 relation ids (DAGs, cycles, self loops, missing histories, several versions with different members, non-relation members, repeated members) x request lists with repeats and ids without history x stop after k Next calls by Close or by cancelling the parent context; " +
			"plus chains 90..209 relations deep (one in 250 cases); " +
			"non-trivial = at least 2 histories and at least one relation member edge; distinct = distinct op line",
		Gen:   c14Gen,
		Exec:  c14Exec,
		Class: c14Class,
	})
}

type c14DS struct {
	hist map[osm.RelationID]osm.Relations
}

var errC14NotFound = errors.New("c14: not found")

func (d *c14DS) RelationHistory(ctx context.Context, id osm.RelationID) (osm.Relations, error) {
	h, ok := d.hist[id]
	if !ok {
		return nil, errC14NotFound
	}
	return h, nil
}
func (d *c14DS) NotFound(err error) bool { return err == errC14NotFound }

func c14Parse(f []string) (ids []osm.RelationID, ds *c14DS, members map[osm.RelationID][]osm.RelationID, ok bool) {
	ds = &c14DS{hist: map[osm.RelationID]osm.Relations{}}
	members = map[osm.RelationID][]osm.RelationID{}
	if f[0] != "-" {
		for _, s := range strings.Split(f[0], ",") {
			x, err := strconv.ParseInt(s, 10, 64)
			if err != nil {
				return nil, nil, nil, false
			}
			ids = append(ids, osm.RelationID(x))
		}
	}
	if len(f) < 2 || f[1] != "H" {
		return nil, nil, nil, false
	}
	for _, t := range f[2:] {
		kv := strings.SplitN(t, "=", 2)
		if len(kv) != 2 {
			return nil, nil, nil, false
		}
		idn, err := strconv.ParseInt(kv[0], 10, 64)
		if err != nil {
			return nil, nil, nil, false
		}
		id := osm.RelationID(idn)
		if _, dup := ds.hist[id]; dup {
			return nil, nil, nil, false
		}
		var rels osm.Relations
		for vi, v := range strings.Split(kv[1], "|") {
			r := &osm.Relation{ID: id, Version: vi + 1, Visible: true}
			if v != "" {
				for _, m := range strings.Split(v, ".") {
					switch {
					case strings.HasPrefix(m, "n"):
						x, _ := strconv.ParseInt(m[1:], 10, 64)
						r.Members = append(r.Members, osm.Member{Type: osm.TypeNode, Ref: x})
					case strings.HasPrefix(m, "w"):
						x, _ := strconv.ParseInt(m[1:], 10, 64)
						r.Members = append(r.Members, osm.Member{Type: osm.TypeWay, Ref: x})
					default:
						x, err := strconv.ParseInt(m, 10, 64)
						if err != nil {
							return nil, nil, nil, false
						}
						r.Members = append(r.Members, osm.Member{Type: osm.TypeRelation, Ref: x})
						members[id] = append(members[id], osm.RelationID(x))
					}
				}
			}
			rels = append(rels, r)
		}
		ds.hist[id] = rels
	}
	return ids, ds, members, true
}

func c14Class(op, out string) string {
	f := fields(op)
	nh, edges := 0, 0
	for _, t := range f {
		if i := strings.Index(t, "="); i > 0 {
			nh++
			for _, m := range strings.FieldsFunc(t[i+1:], func(r rune) bool { return r == '.' || r == '|' }) {
				if m[0] >= '0' && m[0] <= '9' {
					edges++
				}
			}
		}
	}
	if nh < 2 || edges == 0 {
		return "trivial-" + f[0]
	}
	return f[0]
}

func c14ShowIDs(ids []osm.RelationID) string {
	if len(ids) == 0 {
		return "-"
	}
	s := make([]string, len(ids))
	for i, x := range ids {
		s[i] = strconv.FormatInt(int64(x), 10)
	}
	return strings.Join(s, ",")
}

// acyclic reports whether the member graph restricted to ids with history has no cycle.
func c14Acyclic(members map[osm.RelationID][]osm.RelationID) bool {
	state := map[osm.RelationID]int{}
	var visit func(x osm.RelationID) bool
	visit = func(x osm.RelationID) bool {
		switch state[x] {
		case 1:
			return false
		case 2:
			return true
		}
		state[x] = 1
		for _, m := range members[x] {
			if !visit(m) {
				return false
			}
		}
		state[x] = 2
		return true
	}
	for x := range members {
		if !visit(x) {
			return false
		}
	}
	return true
}

func c14Exec(op string) (string, *Violation) {
	f := fields(op)
	switch f[0] {
	case "order":
		ids, ds, members, ok := c14Parse(f[1:])
		if !ok {
			return "bad-op", nil
		}
		type res struct {
			out []osm.RelationID
			err error
		}
		ch := make(chan res, 1)
		go func() {
			o := annotate.NewChildFirstOrdering(context.Background(), ids, ds)
			var out []osm.RelationID
			for o.Next() {
				out = append(out, o.RelationID())
				if len(out) > 10000 {
					break
				}
			}
			err := o.Err()
			o.Close()
			ch <- res{out, err}
		}()
		var r res
		select {
		case r = <-ch:
		case <-time.After(10 * time.Second):
			return "timeout", &Violation{Signature: "iteration-does-not-end", Text: "Next loop still running after 10s"}
		}
		out := c14ShowIDs(r.out)
		if r.err != nil {
			return out, &Violation{Signature: "unexpected-error", Text: fmt.Sprintf("Err() = %v after a complete iteration", r.err)}
		}
		pos := map[osm.RelationID]int{}
		for i, x := range r.out {
			if _, dup := pos[x]; dup {
				return out, &Violation{Signature: "emitted-twice", Text: fmt.Sprintf("relation %d emitted twice: %s", x, out)}
			}
			pos[x] = i
			if _, ok := ds.hist[x]; !ok {
				return out, &Violation{Signature: "emitted-without-history", Text: fmt.Sprintf("relation %d has no history but was emitted: %s", x, out)}
			}
		}
		for _, x := range ids {
			if _, ok := ds.hist[x]; ok && x != 0 {
				if _, emitted := pos[x]; !emitted {
					return out, &Violation{Signature: "requested-not-emitted", Text: fmt.Sprintf("requested relation %d has a history but was not emitted: %s", x, out)}
				}
			}
		}
		if c14Acyclic(members) {
			for x, i := range pos {
				for _, m := range members[x] {
					if _, has := ds.hist[m]; !has {
						continue
					}
					j, emitted := pos[m]
					if !emitted || j > i {
						return out, &Violation{Signature: "parent-before-child", Text: fmt.Sprintf("acyclic graph: relation %d emitted at %d but its member %d at %d (emitted=%v): %s", x, i, m, j, emitted, out)}
					}
				}
			}
		}
		return out, nil
	case "close", "cancel":
		k, _ := strconv.Atoi(f[1])
		ids, ds, _, ok := c14Parse(f[2:])
		if !ok {
			return "bad-op", nil
		}
		before := runtime.NumGoroutine()
		parent, cancel := context.WithCancel(context.Background())
		defer cancel()
		o := annotate.NewChildFirstOrdering(parent, ids, ds)
		var got []osm.RelationID
		for i := 0; i < k && o.Next(); i++ {
			got = append(got, o.RelationID())
		}
		done := make(chan struct{})
		go func() {
			if f[0] == "cancel" {
				cancel()
			}
			o.Close()
			close(done)
		}()
		select {
		case <-done:
		case <-time.After(5 * time.Second):
			return c14ShowIDs(got) + " hung", &Violation{Signature: "close-deadlock", Text: fmt.Sprintf("Close did not return within 5s after %d Next calls", k)}
		}
		out := c14ShowIDs(got) + " stopped"
		if o.Next() {
			return out, &Violation{Signature: "next-after-close", Text: "Next returned true after Close"}
		}
		if o.Err() == nil {
			return out, &Violation{Signature: "err-nil-after-close", Text: "Err() is nil after Close"}
		}
		// the producer goroutine is gone (wg.Wait returned); give the runtime a moment to reap it
		for i := 0; i < 50 && runtime.NumGoroutine() > before; i++ {
			time.Sleep(time.Millisecond)
		}
		if n := runtime.NumGoroutine(); n > before {
			return out, &Violation{Signature: "goroutine-leak", Text: fmt.Sprintf("%d goroutines before, %d after Close", before, n)}
		}
		return out, nil
	}
	return "bad-op", nil
}

func c14Gen(r *Rng, tier string, emit func(string)) {
	n := 5000
	if tier == "thorough" {
		n = 100000
	}
	for i := 0; i < n; i++ {
		if i%250 == 7 {
			// a chain nested far deeper than any realistic hierarchy (acyclic, so children first all the way down):
			// relation k has relation k-1 as its only relation member, requested from the top or from the middle
			depth := 90 + r.Intn(120)
			var hs []string
			for id := 1; id <= depth; id++ {
				if id == 1 {
					hs = append(hs, "1=n5")
				} else {
					hs = append(hs, fmt.Sprintf("%d=%d", id, id-1))
				}
			}
			p := r.Perm(len(hs))
			sh := make([]string, len(hs))
			for a, b := range p {
				sh[a] = hs[b]
			}
			req := []string{strconv.Itoa(depth)}
			if r.Bool() {
				req = []string{strconv.Itoa(depth / 2), strconv.Itoa(depth)}
			}
			emit("order " + strings.Join(req, ",") + " H " + strings.Join(sh, " "))
			continue
		}
		nid := 1 + r.Intn(9)
		fam := r.Intn(4) // 0 DAG, 1 cyclic, 2 self loops + cycles, 3 chains
		shift := 0
		if r.Chance(10) {
			shift = -1 // ids 0..nid-1: relation id 0 is an id like any other
		}
		var hs []string
		for id := 1; id <= nid; id++ {
			if r.Chance(12) {
				continue // missing history
			}
			nv := 1 + r.Intn(3)
			var vs []string
			for v := 0; v < nv; v++ {
				var ms []string
				nm := r.Intn(4)
				if fam == 3 {
					nm = 1
				}
				for j := 0; j < nm; j++ {
					var m int
					switch fam {
					case 0:
						if id == 1 {
							continue
						}
						m = 1 + r.Intn(id-1) // only lower ids: acyclic
					case 3:
						m = id - 1
						if m < 1 {
							continue
						}
					default:
						m = 1 + r.Intn(nid+1) // any id, possibly one without history
						if fam == 2 && r.Chance(25) {
							m = id
						}
					}
					switch r.Intn(8) {
					case 0:
						ms = append(ms, "n"+strconv.Itoa(m+shift))
					case 1:
						ms = append(ms, "w"+strconv.Itoa(m+shift))
					default:
						ms = append(ms, strconv.Itoa(m+shift))
					}
				}
				vs = append(vs, strings.Join(ms, "."))
			}
			hs = append(hs, fmt.Sprintf("%d=%s", id+shift, strings.Join(vs, "|")))
		}
		// shuffle history tokens (map iteration independence), request list with repeats
		p := r.Perm(len(hs))
		sh := make([]string, len(hs))
		for a, b := range p {
			sh[a] = hs[b]
		}
		nr := 1 + r.Intn(nid+2)
		var req []string
		for j := 0; j < nr; j++ {
			req = append(req, strconv.Itoa(1+r.Intn(nid+1)+shift))
		}
		ids := strings.Join(req, ",")
		emit("order " + ids + " H " + strings.Join(sh, " "))
		for j := 0; j < 2; j++ {
			mode := "close"
			if r.Bool() {
				mode = "cancel"
			}
			emit(fmt.Sprintf("%s %d %s H %s", mode, r.Intn(nid+2), ids, strings.Join(sh, " ")))
		}
	}
}
