package main

import (
	"bytes"
	"context"
	"fmt"
	"io"
	"strconv"
	"strings"

	"github.com/paulmach/osm"
	"github.com/paulmach/osm/osmpbf"
)

// C09 — resuming at the reported byte offset loses no element. Op:
//
//	offs <procs> <skip NWR> S=<hlen:blen,…> FILE…     S = BlobHeader and Blob length of every frame, header first
func init() {
	register(&Prop{
		ID: "C09",
		Rule: "valid PBF files of 0..8 blocks (blocks of one kind only, so that skip flags produce empty blocks at the start, in the middle and at the end), all 8 skip-flag combinations, decoder counts 1..8; after every Scan the reported current/previous offsets are compared with the model, and for every reported offset a second scanner is started on data[offset:] and must yield the rest of the objects beginning with the first object of that block; " +
			"resumed scans alternately on a reader over the rest of the data and on a seekable reader over all of it positioned at the offset; " +
			"non-trivial = at least one object returned; distinct = distinct op line",
		Gen:  c09Gen,
		Exec: c09Exec,
		Class: func(op, out string) string {
			if strings.HasPrefix(out, "n=0") {
				return "trivial-no-object"
			}
			return "offs"
		},
	})
}

func c09Sizes(fr []Frame) string {
	s := make([]string, len(fr))
	for i, f := range fr {
		s[i] = fmt.Sprintf("%d:%d", f.HeaderLen, f.Blob)
	}
	return "S=" + strings.Join(s, ",")
}

func c09Exec(op string) (string, *Violation) {
	f := fields(op)
	if f[0] != "offs" || len(f) < 4 || len(f[2]) != 3 {
		return "bad-op", nil
	}
	procs, _ := strconv.Atoi(f[1])
	skip := f[2]
	pf, err := ParsePFile(f[4:])
	if err != nil {
		return "bad-op", nil
	}
	frames := pf.Frames()
	if c09Sizes(frames) != f[3] {
		return "bad-op-sizes", nil
	}
	data := joinFrames(frames)
	mk := func(d []byte) *osmpbf.Scanner {
		s := osmpbf.New(context.Background(), bytes.NewReader(d), procs)
		s.SkipNodes, s.SkipWays, s.SkipRelations = skip[0] == '1', skip[1] == '1', skip[2] == '1'
		return s
	}
	s := mk(data)
	var objs []osm.Object
	var cs, ps []int64
	for s.Scan() {
		objs = append(objs, s.Object())
		cs = append(cs, s.FullyScannedBytes())
		ps = append(ps, s.PreviousFullyScannedBytes())
	}
	serr := s.Err()
	s.Close()
	parts := []string{fmt.Sprintf("n=%d", len(objs))}
	for i := range objs {
		parts = append(parts, fmt.Sprintf("%d/%d", cs[i], ps[i]))
	}
	line := strings.Join(parts, " ")
	if serr != nil {
		return line, &Violation{Signature: "pbf-valid-file-error", Text: "scanning a valid PBF file ends in an error: " + serr.Error()}
	}
	// resume at every distinct reported offset (and at 0)
	tried := map[int64]bool{}
	resume := func(c int64, first int) *Violation {
		if tried[c] {
			return nil
		}
		tried[c] = true
		if c < 0 || c > int64(len(data)) {
			return &Violation{Signature: "pbf-offset-out-of-range", Text: fmt.Sprintf("reported offset %d is outside the %d byte stream", c, len(data))}
		}
		// "where the reader started" is wherever the reader stands when the scanner gets it: a reader over the
		// rest of the data, or - the usual way with a file - a seekable reader over all of it positioned at c
		var r *osmpbf.Scanner
		if len(tried)%2 == 0 {
			rd := bytes.NewReader(data)
			rd.Seek(c, io.SeekStart)
			r = osmpbf.New(context.Background(), rd, procs)
			r.SkipNodes, r.SkipWays, r.SkipRelations = skip[0] == '1', skip[1] == '1', skip[2] == '1'
		} else {
			r = mk(data[c:])
		}
		var got []osm.Object
		var rcs, rps []int64
		for r.Scan() {
			got = append(got, r.Object())
			rcs = append(rcs, r.FullyScannedBytes())
			rps = append(rps, r.PreviousFullyScannedBytes())
		}
		rerr := r.Err()
		r.Close()
		if rerr != nil {
			return &Violation{Signature: "pbf-resume-error", Text: fmt.Sprintf("a scan started at the reported offset %d fails: %v", c, rerr)}
		}
		want := objs[first:]
		ok := len(got) == len(want)
		for i := 0; ok && i < len(got); i++ {
			ok = pObject(got[i]) == pObject(want[i])
		}
		if !ok {
			g, w := "<nothing>", "<nothing>"
			if len(got) > 0 {
				g = pObject(got[0])
			}
			if len(want) > 0 {
				w = pObject(want[0])
			}
			return &Violation{Signature: "pbf-resume-loses-or-repeats", Text: fmt.Sprintf("resuming at the offset %d reported from object %d on yields %d objects starting with %s; the rest of the scan from the first object of that block is %d objects starting with %s", c, first, len(got), g, len(want), w)}
		}
		// the resumed scan reports offsets by the same rule, relative to where it started (so that a scan
		// resumed once can be stopped and resumed again)
		for i := range got {
			wc := cs[first+i] - c
			wp := int64(0)
			if cs[first+i] != c {
				wp = ps[first+i] - c
			}
			if rcs[i] != wc || rps[i] != wp {
				return &Violation{Signature: "pbf-resumed-scan-offsets", Text: fmt.Sprintf("a scan resumed at offset %d reports %d/%d at its object %d; the block of that object starts %d bytes after the resume point and the preceding value is %d", c, rcs[i], rps[i], i, wc, wp)}
			}
		}
		return nil
	}
	// a scan that ends in an error (the stream cut inside a block) still reports the offset of the block of the
	// object it returned last: that is where a caller resumes
	for bi := 1; bi < len(frames); bi++ {
		start := 0
		for k := 0; k < bi; k++ {
			start += len(frames[k].Bytes)
		}
		cut := start + len(frames[bi].Bytes)/2
		if cut <= start || cut >= len(data) {
			continue
		}
		t := mk(data[:cut])
		var lastC int64 = -1
		n := 0
		for t.Scan() {
			lastC = t.FullyScannedBytes()
			n++
		}
		terr := t.Err()
		endC := t.FullyScannedBytes()
		t.Close()
		// (blocks taken after it that yielded no object under the skip flags may have moved it forward)
		if terr != nil && n > 0 && endC < lastC {
			return line, &Violation{Signature: "pbf-offset-lost-after-error", Text: fmt.Sprintf("the stream cut at byte %d (inside block %d): after %d objects the scan ends with %v and FullyScannedBytes() = %d; while the last object was returned it was %d", cut, bi, n, terr, endC, lastC)}
		}
	}
	if v := resume(0, 0); v != nil {
		return line, v
	}
	for i := range objs {
		if v := resume(cs[i], firstIndex(cs, cs[i])); v != nil {
			return line, v
		}
	}
	return line, nil
}

func firstIndex(l []int64, v int64) int {
	for i, x := range l {
		if x == v {
			return i
		}
	}
	return 0
}

func c09Gen(r *Rng, tier string, emit func(string)) {
	n := 300
	if tier == "thorough" {
		n = 6000
	}
	for i := 0; i < n; i++ {
		pf := genPFile(r, 1, 4)
		pf.Blocks = nil
		// blocks of one kind each, so that a skip flag empties whole blocks
		nb := r.Intn(9)
		for b := 0; b < nb; b++ {
			one := genPFile(r, 1, 3)
			for len(one.Blocks) == 0 {
				one = genPFile(r, 1, 3)
			}
			bl := one.Blocks[0]
			// keep one kind, chosen among the kinds the block has (an empty block now and then is wanted, not the rule)
			var have []int
			for _, g := range bl.Groups {
				switch {
				case g.Dense != nil && len(g.Dense.IDs) > 0:
					have = append(have, 0)
				case len(g.Ways) > 0:
					have = append(have, 1)
				case len(g.Rels) > 0:
					have = append(have, 2)
				}
			}
			kind := r.Intn(3)
			if len(have) > 0 && r.Chance(85) {
				kind = have[r.Intn(len(have))]
			}
			var gs []PGroup
			for _, g := range bl.Groups {
				if (kind == 0 && g.Dense != nil) || (kind == 1 && g.Ways != nil) || (kind == 2 && g.Rels != nil) {
					gs = append(gs, g)
				}
			}
			bl.Groups = gs
			pf.Blocks = append(pf.Blocks, bl)
		}
		skip := fmt.Sprintf("%d%d%d", r.Intn(3)/2, r.Intn(3)/2, r.Intn(3)/2)
		emit(fmt.Sprintf("offs %d %s %s %s", 1+r.Intn(8), skip, c09Sizes(pf.Frames()), pf.Tokens()))
	}
}
