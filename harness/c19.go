package main

import (
	"context"
	"fmt"
	"io"
	"math/bits"
	"net/http"
	"regexp"
	"strconv"
	"strings"
	"time"

	"github.com/paulmach/osm/replication"
)

// C19 — replication state search. Op:
//
//	search <minute|hour|day|changesets> <t unix> <cap> S <lo>-<hi>:<ts0>:<step>...
//
// The directory is a list of runs of available sequence numbers with increasing timestamps;
// everything else is a 404. The last run's hi is the current state.
// A fake http.RoundTripper stands in for the planet server and records every requested path.
func init() {
	register(&Prop{
		ID: "C19",
		Rule: "directories by pattern family (dense, isolated gaps, gap runs next to either bound, missing minimum with dense/sparse low end, sparse sets, planet-like missing prefix) x ranges 1..2000 (quick) / up to 10^6 (thorough) x 8 query times (before all, on a state, between, in a gap, on current, after all) x four replication kinds; " +
			"plus changeset directories around sequence number 2007990 (the source's declared first changeset state); " +
			"request cap makes non-termination an outcome; non-trivial = at least 3 requests; distinct = distinct op line",
		Gen:   c19Gen,
		Exec:  c19Exec,
		Class: c19Class,
	})
}

type c19Seg struct {
	lo, hi   uint64
	ts0, stp int64
}

type c19RT struct {
	kind  string
	segs  []c19Seg
	cur   uint64
	cap   int
	paths []string
	seqs  []int64 // requested sequence numbers (0 = current, -1 = unparseable)
	codes []int
}

var c19PathRe = regexp.MustCompile(`^/replication/([a-z]+)/(\d{3})/(\d{3})/(\d{3})\.state\.txt$`)

func (rt *c19RT) avail(n uint64) (int64, bool) {
	for _, s := range rt.segs {
		if n >= s.lo && n <= s.hi {
			return s.ts0 + int64(n-s.lo)*s.stp, true
		}
	}
	return 0, false
}

func (rt *c19RT) body(n uint64, ts int64, current bool) string {
	tm := time.Unix(ts, 0).UTC()
	if rt.kind == "changesets" {
		// the number inside the file is one less than the file's name (planet's consistent mistake, from file
		// 2008004 on); the early files carry their own number. Sequence numbers here are small, so every seventh
		// numbered file is written the early way; the current state.yaml always the late way.
		zone := "+00:00"
		if n%2 == 0 {
			zone = "Z"
		}
		frac := ""
		if n%3 == 0 {
			frac = ".000000000"
		}
		inner := n - 1
		if !current && n%7 == 3 {
			inner = n
		}
		return fmt.Sprintf("---\nlast_run: %s%s %s\nsequence: %d\n", tm.Format("2006-01-02 15:04:05"), frac, zone, inner)
	}
	return fmt.Sprintf("#Sat Jul 16 06:14:03 UTC 2016\ntxnMaxQueried=836439235\nsequenceNumber=%d\ntimestamp=%s\ntxnReadyList=\ntxnMax=836439235\ntxnActiveList=836439008\n",
		n, strings.ReplaceAll(tm.Format("2006-01-02T15:04:05Z"), ":", "\\:"))
}

func (rt *c19RT) RoundTrip(req *http.Request) (*http.Response, error) {
	p := req.URL.Path
	rt.paths = append(rt.paths, p)
	mk := func(code int, body string) (*http.Response, error) {
		rt.codes = append(rt.codes, code)
		return &http.Response{StatusCode: code, Status: strconv.Itoa(code), Body: io.NopCloser(strings.NewReader(body)), Header: http.Header{}, Request: req}, nil
	}
	if len(rt.paths) > rt.cap {
		rt.seqs = append(rt.seqs, -2)
		return mk(500, "request cap exceeded")
	}
	if req.Method != "GET" || req.URL.Host != "planet.test" || req.URL.RawQuery != "" {
		rt.seqs = append(rt.seqs, -1)
		return mk(400, "bad request")
	}
	cur := "/replication/" + rt.kind + "/state.txt"
	if rt.kind == "changesets" {
		cur = "/replication/changesets/state.yaml"
	}
	if p == cur {
		rt.seqs = append(rt.seqs, 0)
		ts, _ := rt.avail(rt.cur)
		return mk(200, rt.body(rt.cur, ts, true))
	}
	m := c19PathRe.FindStringSubmatch(p)
	if m == nil || m[1] != rt.kind {
		rt.seqs = append(rt.seqs, -1)
		return mk(404, "not found")
	}
	n, _ := strconv.ParseUint(m[2]+m[3]+m[4], 10, 64)
	rt.seqs = append(rt.seqs, int64(n))
	ts, ok := rt.avail(n)
	if !ok {
		return mk(404, "not found")
	}
	return mk(200, rt.body(n, ts, false))
}

func c19ParseOp(f []string) (kind string, t int64, cap int, segs []c19Seg, ok bool) {
	if len(f) < 6 || f[0] != "search" || f[4] != "S" {
		return
	}
	kind = f[1]
	t, _ = strconv.ParseInt(f[2], 10, 64)
	cap, _ = strconv.Atoi(f[3])
	for _, s := range f[5:] {
		var sg c19Seg
		p := strings.Split(s, ":")
		if len(p) != 3 {
			return
		}
		r := strings.Split(p[0], "-")
		if len(r) != 2 {
			return
		}
		sg.lo, _ = strconv.ParseUint(r[0], 10, 64)
		sg.hi, _ = strconv.ParseUint(r[1], 10, 64)
		sg.ts0, _ = strconv.ParseInt(p[1], 10, 64)
		sg.stp, _ = strconv.ParseInt(p[2], 10, 64)
		segs = append(segs, sg)
	}
	return kind, t, cap, segs, len(segs) > 0
}

func c19Class(op, out string) string {
	i := strings.Index(out, " n=")
	if i < 0 {
		return "other"
	}
	j := strings.Index(out[i+3:], " ")
	n, _ := strconv.Atoi(out[i+3 : i+3+j])
	f := fields(op)
	if n < 3 {
		return "trivial-few-requests"
	}
	cl := f[1]
	if strings.Contains(op, " S 1-") {
		cl += "-min-present"
	} else {
		cl += "-min-missing"
	}
	if strings.HasPrefix(out, "res=err") {
		cl += "-error"
	}
	return cl
}

func c19Exec(op string) (string, *Violation) {
	f := fields(op)
	kind, t, cap, segs, ok := c19ParseOp(f)
	if !ok {
		return "bad-op", nil
	}
	rt := &c19RT{kind: kind, segs: segs, cur: segs[len(segs)-1].hi, cap: cap}
	ds := &replication.Datasource{BaseURL: "http://planet.test", Client: &http.Client{Transport: rt}}
	ctx, cancel := context.WithTimeout(context.Background(), 20*time.Second)
	defer cancel()
	tm := time.Unix(t, 0).UTC()
	var seq uint64
	var st *replication.State
	var err error
	switch kind {
	case "minute":
		var n replication.MinuteSeqNum
		n, st, err = ds.MinuteStateAt(ctx, tm)
		seq = uint64(n)
	case "hour":
		var n replication.HourSeqNum
		n, st, err = ds.HourStateAt(ctx, tm)
		seq = uint64(n)
	case "day":
		var n replication.DaySeqNum
		n, st, err = ds.DayStateAt(ctx, tm)
		seq = uint64(n)
	case "changesets":
		var n replication.ChangesetSeqNum
		n, st, err = ds.ChangesetStateAt(ctx, tm)
		seq = uint64(n)
	default:
		return "bad-op", nil
	}
	res := "err"
	if err == nil {
		res = strconv.FormatUint(seq, 10)
	}
	shown := rt.paths
	out := fmt.Sprintf("res=%s n=%d reqs=%s", res, len(rt.paths), strings.Join(shown, ","))

	// ---- direct oracle
	// expected: first available state with ts >= t, or current when t is later than everything
	var want uint64
	found := false
	missing := 0
	prevHi := uint64(0)
	for _, s := range segs {
		if s.lo > prevHi+1 {
			missing += int(s.lo - prevHi - 1)
		}
		prevHi = s.hi
		if found {
			continue
		}
		lastTs := s.ts0 + int64(s.hi-s.lo)*s.stp
		if lastTs >= t {
			if s.ts0 >= t {
				want = s.lo
			} else {
				k := (t - s.ts0 + s.stp - 1) / s.stp
				want = s.lo + uint64(k)
			}
			found = true
		}
	}
	if !found {
		want = rt.cur
	}
	for i, sq := range rt.seqs {
		if sq == -1 {
			return out, &Violation{Signature: "malformed-url", Text: fmt.Sprintf("request %d: %q is not a planet-layout state URL for %s", i, rt.paths[i], kind)}
		}
	}
	if len(rt.paths) > cap {
		return out, &Violation{Signature: "non-termination", Text: fmt.Sprintf("more than %d requests for a directory of %d sequence numbers (%d missing); last requests %v", cap, rt.cur, missing, rt.seqs[len(rt.seqs)-6:])}
	}
	if err != nil {
		return out, &Violation{Signature: "unexpected-error", Text: fmt.Sprintf("StateAt returned %v", err)}
	}
	if st == nil || st.SeqNum != seq {
		return out, &Violation{Signature: "state-seq-mismatch", Text: fmt.Sprintf("returned seq %d but state %+v", seq, st)}
	}
	if ts, ok := rt.avail(seq); !ok || st.Timestamp.Unix() != ts {
		return out, &Violation{Signature: "state-decoding", Text: fmt.Sprintf("returned state %+v does not match the served file for %d (ts %d, available %v)", st, seq, ts, ok)}
	}
	if seq != want {
		sig := "wrong-state"
		// classifier for the recorded finding: minimum missing, answer later than the first
		// qualifying state, and every id requested below the answer was a 404
		// (and the lookup did ask for the minimum and got a 404 - that is what sends it into findBound's ascent: an
		// answer reached without probing below it is not the recorded finding)
		if _, minOK := rt.avail(1); !minOK && seq > want {
			all404, askedMin := true, false
			for i, sq := range rt.seqs {
				if sq > 0 && uint64(sq) < seq && rt.codes[i] != 404 {
					all404 = false
				}
				if sq == 1 && rt.codes[i] == 404 {
					askedMin = true
				}
			}
			if all404 && askedMin {
				sig = "findBound-sparse-low-end"
			}
		}
		return out, &Violation{Signature: sig, Text: fmt.Sprintf("%s state at t=%d: returned %d, first available state at or after t is %d (directory %v)", kind, t, seq, want, f[5:])}
	}
	// supporting (not a theorem): requests logarithmic in the range plus missing files stepped over
	lg := bits.Len64(rt.cur)
	if len(rt.paths) > 4*lg+4*missing+8 {
		return out, &Violation{Signature: "request-bound", Text: fmt.Sprintf("%d requests for range %d with %d missing files (bound 4*log2+4*missing+8 = %d)", len(rt.paths), rt.cur, missing, 4*lg+4*missing+8)}
	}
	return out, nil
}

func min(a, b int) int {
	if a < b {
		return a
	}
	return b
}

func c19Gen(r *Rng, tier string, emit func(string)) {
	n := 4000
	maxRange := 2000
	if tier == "thorough" {
		n = 20000
		maxRange = 1000000
	}
	kinds := []string{"minute", "hour", "day", "changesets"}
	for i := 0; i < n; i++ {
		kind := kinds[r.Intn(4)]
		rng := 1 + r.Intn(40)
		switch r.Intn(4) {
		case 0:
			rng = 1 + r.Intn(6)
		case 1:
			rng = 1 + r.Intn(maxRange)
		}
		fam := r.Intn(8)
		if kind == "changesets" && r.Chance(60) {
			fam = 4 + r.Intn(4) // changeset replication has no low files
		}
		// build runs of available ids in [1, rng]
		type run struct{ lo, hi int }
		var runs []run
		addRuns := func(from, to int, gapP int, maxGap int) {
			i := from
			for i <= to {
				j := i
				if to-from > 400 {
					// long ranges: run lengths drawn directly so that the number of gaps stays around 20
					j = i + r.Intn(1+(to-from)/10)
					if j > to {
						j = to
					}
				} else {
					for j < to && !r.Chance(gapP) {
						j++
					}
				}
				runs = append(runs, run{i, j})
				g := 1 + r.Intn(maxGap)
				i = j + 1 + g
			}
		}
		switch fam {
		case 0: // dense
			runs = []run{{1, rng}}
		case 1: // isolated gaps
			addRuns(1, rng, 15, 1)
		case 2: // gap runs anywhere
			addRuns(1, rng, 10, 1+min(rng/4, 300))
		case 3: // gap run right above the minimum / right below current
			g := 1 + r.Intn(1+min(rng/2, 2000))
			if r.Bool() {
				runs = []run{{1, 1}}
				if 1+g+1 <= rng {
					runs = append(runs, run{1 + g + 1, rng})
				}
			} else {
				if rng-g-1 >= 1 {
					runs = []run{{1, rng - g - 1}}
				}
				runs = append(runs, run{rng, rng})
			}
		case 4: // minimum missing, dense above a start (planet-like prefix)
			s := 1 + r.Intn(rng)
			if s == 1 {
				s = 2
			}
			if s > rng {
				rng = s
			}
			runs = []run{{s, rng}}
		case 5: // minimum missing, gaps above
			s := 2 + r.Intn(1+rng/3)
			if s > rng {
				rng = s
			}
			addRuns(s, rng, 12, 1+min(rng/8, 300))
		case 6: // sparse set
			k := 1 + r.Intn(5)
			pos := 1 + r.Intn(3)
			for j := 0; j < k; j++ {
				if j > 0 || r.Bool() {
					pos += 1 + r.Intn(1+min(rng/3, 1500))
				}
				runs = append(runs, run{pos, pos})
				pos++
			}
		case 7: // minimum missing + few states
			s := 2 + r.Intn(3)
			runs = []run{{s, s}}
			if r.Bool() {
				runs = append(runs, run{s + 1 + r.Intn(10), s + 12 + r.Intn(5)})
			}
		}
		if kind == "changesets" && r.Chance(12) {
			// changeset replication where planet's directory begins (the source declares 2007990 as its first
			// state): a dense directory that starts a little below or above that number
			s := 2007990 - 40 + r.Intn(60)
			rng = 2007990
			if s > rng {
				rng = s
			}
			rng += 1 + r.Intn(60)
			runs = []run{{s, rng}}
		}
		if len(runs) == 0 {
			runs = []run{{1, 1}}
		}
		// make sure the last run ends the directory; timestamps increase
		ts := int64(1500000000 + r.Intn(1000))
		step := int64(1 + r.Intn(120))
		var segs []string
		var marks []int64
		for _, ru := range runs {
			if ru.hi < ru.lo {
				continue
			}
			segs = append(segs, fmt.Sprintf("%d-%d:%d:%d", ru.lo, ru.hi, ts, step))
			marks = append(marks, ts, ts+int64(ru.hi-ru.lo)*step)
			if ru.hi > ru.lo {
				marks = append(marks, ts+int64(r.Intn(ru.hi-ru.lo+1))*step)
			}
			ts += int64(ru.hi-ru.lo)*step + step*int64(1+r.Intn(50))
		}
		first, last := marks[0], marks[len(marks)-1]
		times := []int64{first - 100, first, last, last + 1, last + 100000}
		for k := 0; k < 3; k++ {
			m := marks[r.Intn(len(marks))]
			times = append(times, m+int64(r.Intn(3))-1)
		}
		// request cap: generous multiple of the claimed bound, so that stepping over real gaps is never
		// mistaken for non-termination
		missing, prev, top := 0, 0, 0
		for _, ru := range runs {
			if ru.hi < ru.lo {
				continue
			}
			missing += ru.lo - prev - 1
			prev, top = ru.hi, ru.hi
		}
		capN := 64*bits.Len(uint(top)) + 16*missing + 200
		for _, t := range times {
			emit(fmt.Sprintf("search %s %d %d S %s", kind, t, capN, strings.Join(segs, " ")))
		}
	}
}
