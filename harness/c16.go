package main

import (
	"context"
	"fmt"
	"sort"
	"strconv"
	"strings"
	"time"

	"github.com/paulmach/orb"
	"github.com/paulmach/osm"
	"github.com/paulmach/osm/annotate"
)

// C16 — multipolygon assembly. Uses the `conv` op of c17.go with a ground-truth section
//
//	T O<k>=(x_y,…) I<k>=(x_y,…) …      outer ring k and the holes that belong to it
//
// generated from lattice polygons cut into pieces, reversed and shuffled.
func init() {
	register(&Prop{
		ID: "C16",
		Rule: "ground-truth polygon sets on the integer lattice (1..3 disjoint outers: rectangles, L-shapes, octagons; 0..2 rectangular holes each, strictly inside; no vertex at 0,0) cut at every/random vertex subsets into 1..5 pieces per ring, each piece reversed or not, members shuffled, coordinates from node objects or from annotated way nodes, members with correct orientation annotations, none, or only some members of a ring annotated, relation with or without own tags (old-style single outer); small instances enumerate all cut/reverse choices; " +
			"plus a horseshoe outer with a horseshoe hole (a concave hole whose bounding-box centre lies outside the outer); " +
			"non-trivial = at least 3 member ways; distinct = distinct op line",
		Gen: c16Gen,
		Exec: func(op string) (string, *Violation) {
			if strings.HasPrefix(op, "orient ") {
				return c16OrientExec(op)
			}
			return c17Exec(op)
		},
		Class: c16Class,
	})
}

func c16Class(op, out string) string {
	i := strings.Index(op, " R ")
	if i < 0 {
		return "trivial"
	}
	n := strings.Count(op[i:], "/outer/") + strings.Count(op[i:], "/inner/")
	if n < 3 {
		return "trivial-few-members"
	}
	k := "multi-outer"
	if strings.Count(op, " O") <= 1 || !strings.Contains(op, "O2=") {
		k = "single-outer"
	}
	if strings.Contains(op, " I") {
		k += "-with-holes"
	}
	return k
}

type c16Ring []orb.Point

func c16ParseRing(s string) c16Ring {
	s = strings.TrimSuffix(strings.TrimPrefix(s, "("), ")")
	var r c16Ring
	for _, p := range strings.Split(s, ",") {
		xy := strings.Split(p, "_")
		x, _ := strconv.ParseInt(xy[0], 10, 64)
		y, _ := strconv.ParseInt(xy[1], 10, 64)
		r = append(r, orb.Point{float64(x), float64(y)})
	}
	return r
}

// c16Truth checks the relation's feature against the ground truth rings.
func c16Truth(c *c17Case, fs []c17Feat) *Violation {
	outers := map[int]c16Ring{}
	holes := map[int][]c16Ring{}
	for _, t := range c.truth {
		kv := strings.SplitN(t, "=", 2)
		k, _ := strconv.Atoi(kv[0][1:])
		if kv[0][0] == 'O' {
			outers[k] = c16ParseRing(kv[1])
		} else {
			holes[k] = append(holes[k], c16ParseRing(kv[1]))
		}
	}
	// the feature carrying the multipolygon: a relation feature, or the outer way for old-style multipolygons
	var polys []orb.Polygon
	found := 0
	for _, f := range fs {
		switch g := f.geom.(type) {
		case orb.Polygon:
			if f.kind == "relation" || len(g) > 1 || (f.kind == "way" && len(outers) == 1) {
				polys = []orb.Polygon{g}
				found++
			}
		case orb.MultiPolygon:
			polys = g
			found++
		}
	}
	if found != 1 {
		return &Violation{Signature: "multipolygon-feature-count", Text: fmt.Sprintf("%d polygon features for one multipolygon relation: %s", found, c17Render(fs))}
	}
	if len(polys) != len(outers) {
		return &Violation{Signature: "outer-ring-count", Text: fmt.Sprintf("%d polygons, ground truth has %d outers: %s", len(polys), len(outers), c17Render(fs))}
	}
	used := map[int]bool{}
	for _, p := range polys {
		if len(p) == 0 {
			return &Violation{Signature: "empty-polygon", Text: c17Render(fs)}
		}
		match := -1
		for k, o := range outers {
			if !used[k] && c16SameRing(p[0], o) {
				match = k
			}
		}
		if match < 0 {
			return &Violation{Signature: "outer-ring-not-recovered", Text: fmt.Sprintf("outer ring %s is none of the original outers %v", c17L(p[0]), c16Show(outers))}
		}
		used[match] = true
		if p[0][0] != p[0][len(p[0])-1] {
			return &Violation{Signature: "ring-not-closed", Text: c17L(p[0])}
		}
		if c16Area2(p[0]) <= 0 {
			return &Violation{Signature: "outer-not-ccw", Text: fmt.Sprintf("outer ring %s is not counter-clockwise", c17L(p[0]))}
		}
		want := holes[match]
		if len(p)-1 != len(want) {
			return &Violation{Signature: "hole-assignment", Text: fmt.Sprintf("outer %d has %d holes in the output, %d in the ground truth: %s", match, len(p)-1, len(want), c17Render(fs))}
		}
		usedH := map[int]bool{}
		for _, h := range p[1:] {
			hm := -1
			for i, w := range want {
				if !usedH[i] && c16SameRing(h, w) {
					hm = i
				}
			}
			if hm < 0 {
				return &Violation{Signature: "hole-assignment", Text: fmt.Sprintf("hole %s does not belong to outer %d (its holes: %v)", c17L(h), match, want)}
			}
			usedH[hm] = true
			if h[0] != h[len(h)-1] {
				return &Violation{Signature: "ring-not-closed", Text: c17L(h)}
			}
			if c16Area2(h) >= 0 {
				return &Violation{Signature: "inner-not-cw", Text: fmt.Sprintf("inner ring %s is not clockwise", c17L(h))}
			}
		}
	}
	return nil
}

func c16Show(m map[int]c16Ring) string {
	var ks []int
	for k := range m {
		ks = append(ks, k)
	}
	sort.Ints(ks)
	var s []string
	for _, k := range ks {
		s = append(s, fmt.Sprintf("%d=%s", k, c17L(m[k])))
	}
	return strings.Join(s, " ")
}

// c16ShapeH: counter-clockwise closed rings relative to an origin; for the horseshoe it also returns the one hole that fits it - a horseshoe itself, stored
// clockwise, whose bounding-box centre lies in the notch, outside the outer ring
func c16ShapeH(r *Rng, ox, oy int) (ring [][2]int, holeBox [4]int, hole [][2]int) {
	if r.Intn(5) == 0 {
		ring = [][2]int{{ox, oy}, {ox + 9, oy}, {ox + 9, oy + 9}, {ox + 6, oy + 9}, {ox + 6, oy + 3}, {ox + 3, oy + 3}, {ox + 3, oy + 9}, {ox, oy + 9}, {ox, oy}}
		hole = [][2]int{{ox + 1, oy + 1}, {ox + 1, oy + 8}, {ox + 2, oy + 8}, {ox + 2, oy + 2}, {ox + 7, oy + 2}, {ox + 7, oy + 8}, {ox + 8, oy + 8}, {ox + 8, oy + 1}, {ox + 1, oy + 1}}
		holeBox = [4]int{ox + 1, oy + 1, ox + 2, oy + 2}
		return
	}
	switch r.Intn(3) {
	case 0: // rectangle 8x8
		w, h := 6+r.Intn(3), 6+r.Intn(3)
		ring = [][2]int{{ox, oy}, {ox + w, oy}, {ox + w, oy + h}, {ox, oy + h}, {ox, oy}}
		holeBox = [4]int{ox + 1, oy + 1, ox + w - 1, oy + h - 1}
	case 1: // L-shape
		ring = [][2]int{{ox, oy}, {ox + 8, oy}, {ox + 8, oy + 4}, {ox + 4, oy + 4}, {ox + 4, oy + 8}, {ox, oy + 8}, {ox, oy}}
		holeBox = [4]int{ox + 1, oy + 1, ox + 3, oy + 7}
	default: // octagon
		ring = [][2]int{{ox + 2, oy}, {ox + 6, oy}, {ox + 8, oy + 2}, {ox + 8, oy + 6}, {ox + 6, oy + 8}, {ox + 2, oy + 8}, {ox, oy + 6}, {ox, oy + 2}, {ox + 2, oy}}
		holeBox = [4]int{ox + 2, oy + 2, ox + 6, oy + 6}
	}
	return
}

type c16Piece struct {
	pts  [][2]int
	role string
	fwd  bool // runs in the ring's stored direction
	ccwR bool // the ring as stored is counter-clockwise
}

func c16Cut(r *Rng, ring [][2]int, role string, ccw bool, maxPieces int, cutsMask, revMask int) []c16Piece {
	n := len(ring) - 1
	// cut vertices: a subset of 0..n-1 (at least one to open the ring unless it stays one closed way)
	var cuts []int
	for i := 0; i < n; i++ {
		if cutsMask&(1<<uint(i)) != 0 {
			cuts = append(cuts, i)
		}
	}
	if len(cuts) > maxPieces {
		cuts = cuts[:maxPieces]
	}
	if len(cuts) == 0 {
		p := c16Piece{pts: ring, role: role, fwd: true, ccwR: ccw}
		if revMask&1 != 0 {
			p = c16Reverse(p)
		}
		return []c16Piece{p}
	}
	var out []c16Piece
	for ci, s := range cuts {
		e := cuts[(ci+1)%len(cuts)]
		var pts [][2]int
		i := s
		for {
			pts = append(pts, ring[i%n])
			if i%n == e%n && len(pts) > 1 {
				break
			}
			i++
			if len(pts) > n+1 {
				break
			}
		}
		p := c16Piece{pts: pts, role: role, fwd: true, ccwR: ccw}
		if revMask&(1<<uint(ci)) != 0 {
			p = c16Reverse(p)
		}
		out = append(out, p)
	}
	return out
}

func c16Reverse(p c16Piece) c16Piece {
	q := make([][2]int, len(p.pts))
	for i := range p.pts {
		q[len(p.pts)-1-i] = p.pts[i]
	}
	p.pts, p.fwd = q, !p.fwd
	return p
}

func c16RingStr(ring [][2]int) string {
	s := make([]string, len(ring))
	for i, p := range ring {
		s[i] = fmt.Sprintf("%d_%d", p[0], p[1])
	}
	return "(" + strings.Join(s, ",") + ")"
}

func c16Gen(r *Rng, tier string, emit func(string)) {
	n := 8000
	if tier == "thorough" {
		n = 60000
	}
	// exhaustive small scope first: one rectangle outer (4 vertices) + one hole, all cut subsets x all reversal masks
	for cutsO := 0; cutsO < 16; cutsO++ {
		for revO := 0; revO < 16; revO += 1 {
			if popcount(revO) > popcount(cutsO)+1 && cutsO != 0 {
				continue
			}
			emit(c16One(r, 1, 1, cutsO, revO, cutsO^5, revO^3, r.Intn(4)))
		}
	}
	for i := 0; i < n; i++ {
		emit(c16One(r, 1+r.Intn(3), r.Intn(3), r.Intn(512), r.Intn(32), r.Intn(16), r.Intn(16), r.Intn(4)))
		if i%3 == 0 {
			// annotation of member orientation: ways carry their node locations, members are not annotated yet
			op := c16One(r, 1+r.Intn(3), r.Intn(3), r.Intn(512), r.Intn(32), r.Intn(16), r.Intn(16), 1)
			emit("orient " + strings.TrimPrefix(op, "conv 0000 "))
		}
	}
}

func popcount(x int) int {
	n := 0
	for ; x > 0; x >>= 1 {
		n += x & 1
	}
	return n
}

// c16One builds one data set: nOuter disjoint outers with up to nHoles holes each.
func c16One(r *Rng, nOuter, nHoles, cutsO, revO, cutsI, revI, mode int) string {
	var pieces []c16Piece
	var truth []string
	for k := 1; k <= nOuter; k++ {
		ring, box, uhole := c16ShapeH(r, 1+(k-1)*11, 1+r.Intn(3))
		truth = append(truth, fmt.Sprintf("O%d=%s", k, c16RingStr(ring)))
		pieces = append(pieces, c16Cut(r, ring, "outer", true, 5, cutsO>>uint(k-1)|cutsO<<uint(k), revO>>uint(k-1))...)
		nh := nHoles
		if uhole != nil {
			if nh > 0 {
				truth = append(truth, fmt.Sprintf("I%d=%s", k, c16RingStr(uhole)))
				pieces = append(pieces, c16Cut(r, uhole, "inner", false, 4, cutsI, revI)...)
			}
			continue
		}
		if box[2]-box[0] < 3 {
			nh = min(nh, 1)
		}
		for h := 0; h < nh; h++ {
			// small rectangles stacked inside the hole box, strictly inside, stored clockwise
			x0, y0 := box[0], box[1]+h*2
			if y0+1 > box[3] || x0+1 > box[2] {
				break
			}
			hole := [][2]int{{x0, y0}, {x0, y0 + 1}, {x0 + 1, y0 + 1}, {x0 + 1, y0}, {x0, y0}}
			truth = append(truth, fmt.Sprintf("I%d=%s", k, c16RingStr(hole)))
			pieces = append(pieces, c16Cut(r, hole, "inner", false, 4, cutsI>>uint(h), revI>>uint(h))...)
		}
	}
	// nodes: one id per coordinate
	ids := map[[2]int]int{}
	var nodeToks []string
	nodeID := func(p [2]int) int {
		if id, ok := ids[p]; ok {
			return id
		}
		id := 1 + len(ids)
		ids[p] = id
		return id
	}
	inlineCoords := mode&1 == 1 // coordinates on the way nodes instead of node objects
	annotate := mode&2 == 2     // members carry the orientation annotation
	var wayToks, members []string
	perm := r.Perm(len(pieces))
	wayIDs := make([]int, len(pieces))
	for i := range pieces {
		wayIDs[i] = 101 + i
	}
	for wi, p := range pieces {
		var refs []string
		for _, pt := range p.pts {
			id := nodeID(pt)
			if inlineCoords {
				refs = append(refs, fmt.Sprintf("%d@%d@%d", id, pt[0], pt[1]))
			} else {
				refs = append(refs, strconv.Itoa(id))
			}
		}
		wayToks = append(wayToks, fmt.Sprintf("%d~1~1~0~-~%s", wayIDs[wi], strings.Join(refs, ",")))
	}
	if !inlineCoords {
		type kv struct {
			p  [2]int
			id int
		}
		var all []kv
		for p, id := range ids {
			all = append(all, kv{p, id})
		}
		sort.Slice(all, func(a, b int) bool { return all[a].id < all[b].id })
		np := r.Perm(len(all))
		for _, i := range np {
			nodeToks = append(nodeToks, fmt.Sprintf("%d~%d~%d~1~1~0~-", all[i].id, all[i].p[0], all[i].p[1]))
		}
	}
	// partly annotated relations (some members of a ring carry their orientation, others of the same ring do not):
	// a relation annotated before a member way was added, or a hand-merged one
	partly := annotate && r.Chance(30)
	for _, pi := range perm {
		p := pieces[pi]
		or := 0
		if annotate && !(partly && r.Chance(50)) {
			// the direction in which this way runs around its ring
			runsCCW := p.fwd == p.ccwR
			if runsCCW {
				or = 1
			} else {
				or = -1
			}
		}
		members = append(members, fmt.Sprintf("w%d/%s/%d", wayIDs[pi], p.role, or))
	}
	relTags := "type=multipolygon"
	if r.Chance(60) {
		relTags += ",landuse=forest"
	}
	if r.Chance(20) {
		relTags = "type=boundary,name=b"
	}
	return strings.Join(strings.Fields(fmt.Sprintf("conv 0000 N %s W %s R 900~1~1~0~%s~%s T %s",
		strings.Join(nodeToks, " "), strings.Join(wayToks, " "), relTags, strings.Join(members, ";"), strings.Join(truth, " "))), " ")
}

// c16OrientExec: annotate.Relations on a multipolygon whose member ways are fully annotated; prints the
// orientation written to each member and checks it against the ground truth rings.
func c16OrientExec(op string) (string, *Violation) {
	c, ok := c17Parse("conv 0000 " + strings.TrimPrefix(op, "orient "))
	if !ok || len(c.o.Relations) != 1 {
		return "bad-op", nil
	}
	t0 := time.Unix(1500000000, 0).UTC()
	t1 := t0.Add(time.Hour)
	ds := &osm.HistoryDatasource{Ways: map[osm.WayID]osm.Ways{}, Nodes: map[osm.NodeID]osm.Nodes{}, Relations: map[osm.RelationID]osm.Relations{}}
	for _, w := range c.o.Ways {
		w.Version, w.Visible, w.Timestamp, w.Committed = 1, true, t0, &t0
		for i := range w.Nodes {
			w.Nodes[i].Version = 1
		}
		ds.Ways[w.ID] = osm.Ways{w}
	}
	rel := c.o.Relations[0]
	rel.Version, rel.Visible, rel.Timestamp, rel.Committed = 1, true, t1, &t1
	if err := annotate.Relations(context.Background(), osm.Relations{rel}, ds, annotate.Threshold(0)); err != nil {
		return "err", &Violation{Signature: "annotate-error", Text: err.Error()}
	}
	var out []string
	for _, m := range rel.Members {
		out = append(out, strconv.Itoa(int(m.Orientation)))
	}
	res := strings.Join(out, " ")
	// ground truth: the direction in which each way runs around its ring
	var rings []c16Ring
	var ccw []bool
	for _, t := range c.truth {
		kv := strings.SplitN(t, "=", 2)
		r := c16ParseRing(kv[1])
		rings = append(rings, r)
		ccw = append(ccw, c16Area2(r) > 0)
	}
	wayByID := map[osm.WayID]*osm.Way{}
	for _, w := range c.o.Ways {
		wayByID[w.ID] = w
	}
	for mi, m := range rel.Members {
		w := wayByID[osm.WayID(m.Ref)]
		if w == nil || len(w.Nodes) < 2 {
			continue
		}
		p0 := orb.Point{w.Nodes[0].Lon, w.Nodes[0].Lat}
		p1 := orb.Point{w.Nodes[1].Lon, w.Nodes[1].Lat}
		want := 0
		for ri, r := range rings {
			n := len(r) - 1
			for i := 0; i < n; i++ {
				if r[i] == p0 && r[(i+1)%n] == p1 {
					want = 1
					if !ccw[ri] {
						want = -1
					}
				}
				if r[i] == p1 && r[(i+1)%n] == p0 {
					want = -1
					if !ccw[ri] {
						want = 1
					}
				}
			}
		}
		if want != 0 && int(m.Orientation) != want {
			return res, &Violation{Signature: "member-orientation", Text: fmt.Sprintf("member %d (way %d) annotated with orientation %d, but it runs %d around its ring", mi, m.Ref, m.Orientation, want)}
		}
	}
	return res, nil
}
