package main

import (
	"encoding/xml"
	"fmt"
	"reflect"
	"strconv"
	"strings"
	"time"

	"github.com/paulmach/osm"
)

// C03 — decoding independently written OSM XML. Ops:
//
//	doc <kind> <seed> <noise>     kind = node|way|relation|changeset|note|user|osm|change|diff; noise bits: 1 shuffle attrs,
//	                              2 whitespace/quotes, 4 comments, 8 unknown attributes and elements      [implementation only]
//	dattrs <Type> name=hex,…      attributes (any order, unknown ones included) decoded into a record; prints GoField=hex
func init() {
	register(&Prop{
		ID: "C03",
		Rule: "documents written by an independent XML writer (own knowledge of the OSM XML vocabulary) from seeded values of every element kind: all optional attributes present or absent, Unicode text needing escapes, any attribute order and layout, comments, single quotes, self-closing and explicit end tags, unknown attributes and unknown elements (subtrees outside the vocabulary), osmChange with repeated and interleaved create/modify/delete blocks, augmented diffs with every action type; each decoded at once and by the streaming scanner; plus attribute lists decoded by model and code; " +
			"texts also as CDATA sections, in two pieces around a comment or CDATA boundary, and with numeric character references; references beyond 2^53; diff actions with any combination of element/old/new; " +
			"non-trivial = every op; distinct = distinct op line",
		Gen:       c03Gen,
		Exec:      c03Exec,
		Class:     func(op, out string) string { f := fields(op); return f[0] + "-" + f[1] },
		ModelSkip: func(op string) bool { return strings.HasPrefix(op, "doc ") || strings.HasPrefix(op, "lit ") },
	})
}

func c03Writer(r *Rng, noise int) *xw {
	return &xw{b: &strings.Builder{}, r: r, shuffleAttrs: noise&1 != 0, whitespace: noise&2 != 0, comments: noise&4 != 0, unknown: noise&8 != 0}
}

// c03Doc writes a document for the value and returns the text and the objects in document order.
func c03Doc(kind string, seed uint64, noise int) (text string, value interface{}, order []osm.Object) {
	v := c04Value(kind, seed)
	w := c03Writer(NewRng(seed^0x5eed), noise)
	r := w.r
	w.b.WriteString(`<?xml version="1.0" encoding="UTF-8"?>`)
	wrapOSM := func(body func()) {
		w.open("osm", w.topAttrs("0.6", "independent writer", "", "", ""), false)
		body()
		w.close("osm")
	}
	switch x := v.(type) {
	case *osm.Node:
		wrapOSM(func() { w.node(x) })
		return w.b.String(), &osm.OSM{Version: "0.6", Generator: "independent writer", Nodes: osm.Nodes{x}}, []osm.Object{x}
	case *osm.Way:
		wrapOSM(func() { w.way(x) })
		return w.b.String(), &osm.OSM{Version: "0.6", Generator: "independent writer", Ways: osm.Ways{x}}, []osm.Object{x}
	case *osm.Relation:
		wrapOSM(func() { w.relation(x) })
		return w.b.String(), &osm.OSM{Version: "0.6", Generator: "independent writer", Relations: osm.Relations{x}}, []osm.Object{x}
	case *osm.Changeset:
		wrapOSM(func() { w.changeset(x) })
		return w.b.String(), &osm.OSM{Version: "0.6", Generator: "independent writer", Changesets: osm.Changesets{x}}, []osm.Object{x}
	case *osm.Note:
		wrapOSM(func() { w.note(x) })
		return w.b.String(), &osm.OSM{Version: "0.6", Generator: "independent writer", Notes: osm.Notes{x}}, []osm.Object{x}
	case *osm.User:
		wrapOSM(func() { w.user(x) })
		return w.b.String(), &osm.OSM{Version: "0.6", Generator: "independent writer", Users: osm.Users{x}}, []osm.Object{x}
	case *osm.OSM:
		// children in a shuffled order of kinds (the decoder must not depend on the order of kinds)
		w.open("osm", w.topAttrs(x.Version, x.Generator, x.Copyright, x.Attribution, x.License), false)
		var parts []func()
		lanes := [][]func(){}
		newLane := func() { lanes = append(lanes, parts); parts = nil }
		if x.Bounds != nil {
			b := x.Bounds
			parts = append(parts, func() { w.bounds(b); order = append(order, b) })
		}
		newLane()
		for _, e := range x.Nodes {
			e := e
			parts = append(parts, func() { w.node(e); order = append(order, e) })
		}
		newLane()
		for _, e := range x.Ways {
			e := e
			parts = append(parts, func() { w.way(e); order = append(order, e) })
		}
		newLane()
		for _, e := range x.Relations {
			e := e
			parts = append(parts, func() { w.relation(e); order = append(order, e) })
		}
		newLane()
		for _, e := range x.Changesets {
			e := e
			parts = append(parts, func() { w.changeset(e); order = append(order, e) })
		}
		newLane()
		for _, e := range x.Notes {
			e := e
			parts = append(parts, func() { w.note(e); order = append(order, e) })
		}
		newLane()
		for _, e := range x.Users {
			e := e
			parts = append(parts, func() { w.user(e); order = append(order, e) })
		}
		newLane()
		// keep the relative order within a kind (so the decoded slices are predictable), interleave kinds
		for _, l := range lanes {
			if noise&1 == 0 {
				parts = append(parts, l...)
			}
		}
		if noise&1 != 0 {
			parts = c03Interleave(r, lanes)
		}
		for _, p := range parts {
			w.unknownElem()
			p()
		}
		w.close("osm")
		return w.b.String(), x, order
	case *osm.Change:
		w.open("osmChange", w.topAttrs(x.Version, x.Generator, "", "", ""), false)
		// every block is split into 1..3 pieces; pieces of different actions interleave
		type piece struct {
			action string
			o      *osm.OSM
		}
		var pieces []piece
		split := func(action string, o *osm.OSM) {
			if o == nil {
				return
			}
			k := 1 + r.Intn(3)
			ps := make([]*osm.OSM, k)
			for i := range ps {
				ps[i] = &osm.OSM{}
			}
			ps[0].Bounds = o.Bounds
			for _, e := range o.Nodes {
				p := ps[r.Intn(k)]
				p.Nodes = append(p.Nodes, e)
			}
			for _, e := range o.Ways {
				p := ps[r.Intn(k)]
				p.Ways = append(p.Ways, e)
			}
			for _, e := range o.Relations {
				p := ps[r.Intn(k)]
				p.Relations = append(p.Relations, e)
			}
			for _, p := range ps {
				pieces = append(pieces, piece{action, p})
			}
		}
		split("create", x.Create)
		split("modify", x.Modify)
		split("delete", x.Delete)
		// interleave while keeping the order of pieces of one action
		var fs []func()
		for _, p := range pieces {
			p := p
			fs = append(fs, func() {
				w.open(p.action, nil, false)
				w.inner(p.o)
				w.close(p.action)
				order = append(order, c04Objects(p.o)...)
			})
		}
		// relative order of same-action pieces must be kept: interleave by action lanes
		lanes := map[string][]func(){}
		for i, p := range pieces {
			lanes[p.action] = append(lanes[p.action], fs[i])
		}
		want := &osm.Change{Version: x.Version, Generator: x.Generator}
		for len(lanes) > 0 {
			var keys []string
			for k := range lanes {
				keys = append(keys, k)
			}
			sortStrings(keys)
			k := keys[r.Intn(len(keys))]
			lanes[k][0]()
			lanes[k] = lanes[k][1:]
			if len(lanes[k]) == 0 {
				delete(lanes, k)
			}
		}
		w.close("osmChange")
		// expected whole-document value: each action accumulates its pieces in document order. Within one piece
		// elements are written kind by kind, and pieces were filled by appending, so per kind the order is the
		// original order restricted to each piece, pieces concatenated.
		rebuild := func(action string, o *osm.OSM) *osm.OSM {
			if o == nil {
				return nil
			}
			out := &osm.OSM{Bounds: o.Bounds}
			for _, p := range pieces {
				if p.action != action {
					continue
				}
				out.Nodes = append(out.Nodes, p.o.Nodes...)
				out.Ways = append(out.Ways, p.o.Ways...)
				out.Relations = append(out.Relations, p.o.Relations...)
			}
			return out
		}
		want.Create, want.Modify, want.Delete = rebuild("create", x.Create), rebuild("modify", x.Modify), rebuild("delete", x.Delete)
		return w.b.String(), want, order
	case *osm.Diff:
		w.open("osm", w.topAttrs("0.6", "independent writer", "", "", ""), false)
		for _, a := range x.Actions {
			w.open("action", [][2]string{{"type", string(a.Type)}}, false)
			if a.OSM != nil {
				w.inner(a.OSM)
				order = append(order, c04Objects(a.OSM)...)
			}
			if a.Old != nil {
				w.open("old", nil, false)
				w.inner(a.Old)
				w.close("old")
				order = append(order, c04Objects(a.Old)...)
			}
			if a.New != nil {
				w.open("new", nil, false)
				w.inner(a.New)
				w.close("new")
				order = append(order, c04Objects(a.New)...)
			}
			w.close("action")
		}
		w.close("osm")
		return w.b.String(), x, order
	}
	return "", nil, nil
}

// c03Interleave merges the per-kind lanes in a random order, keeping the order inside a lane.
func c03Interleave(r *Rng, lanes [][]func()) []func() {
	var out []func()
	for {
		var live []int
		for i, l := range lanes {
			if len(l) > 0 {
				live = append(live, i)
			}
		}
		if len(live) == 0 {
			return out
		}
		i := live[r.Intn(len(live))]
		out = append(out, lanes[i][0])
		lanes[i] = lanes[i][1:]
	}
}

func c03Exec(op string) (string, *Violation) {
	f := fields(op)
	switch f[0] {
	case "doc":
		seed, _ := strconv.ParseUint(f[2], 10, 64)
		noise, _ := strconv.Atoi(f[3])
		text, want, order := c03Doc(f[1], seed, noise)
		var back interface{}
		switch want.(type) {
		case *osm.OSM:
			back = &osm.OSM{}
		case *osm.Change:
			back = &osm.Change{}
		case *osm.Diff:
			back = &osm.Diff{}
		}
		if err := xml.Unmarshal([]byte(text), back); err != nil {
			return "unmarshal-error", &Violation{Signature: "xml-decode-error-" + f[1], Text: err.Error() + "\n" + truncate(text, 1500)}
		}
		// interleaving kinds inside <osm> reorders nothing within a kind; compare per kind
		if !xgEqual(want, back) {
			return "differs", &Violation{Signature: "xml-decode-differs-" + f[1], Text: fmt.Sprintf("decoding an independently written %s document does not give the written value.\ndocument: %s\ndecoded: %s\nwritten: %s", f[1], truncate(text, 1500), xgDump(back), xgDump(want))}
		}
		got, serr := c04Scan([]byte(text))
		if serr != nil {
			return "scan-error", &Violation{Signature: "xml-scan-error-" + f[1], Text: serr.Error() + "\n" + truncate(text, 1200)}
		}
		if len(got) != len(order) {
			return "scan-differs", &Violation{Signature: "xml-scan-count-" + f[1], Text: fmt.Sprintf("scanner yields %d objects, the document holds %d.\n%s", len(got), len(order), truncate(text, 1500))}
		}
		for i := range got {
			if !xgEqual(got[i], order[i]) {
				return "scan-differs", &Violation{Signature: "xml-scan-order-" + f[1], Text: fmt.Sprintf("object %d from the scanner is not the %d-th object of the document: %s vs %s", i, i, xgDump(got[i]), xgDump(order[i]))}
			}
		}
		return "ok", nil
	case "lit":
		// a literal <osm> document (hex): the scanner must yield, per kind, what the whole-document decode holds
		if len(f) != 3 || f[1] != "osm" {
			return "bad-op", nil
		}
		text, herr := unhx(f[2])
		if herr != nil {
			return "bad-op", nil
		}
		back := &osm.OSM{}
		if err := xml.Unmarshal([]byte(text), back); err != nil {
			return "unmarshal-error", nil // not a well-formed OSM document: nothing claimed
		}
		got, serr := c04Scan([]byte(text))
		if serr != nil {
			return "scan-error", &Violation{Signature: "xml-scan-error-osm", Text: serr.Error() + "\n" + truncate(text, 1200)}
		}
		count := map[osm.Type]int{}
		for _, o := range got {
			count[o.ObjectID().Type()]++
		}
		want := map[osm.Type]int{osm.TypeNode: len(back.Nodes), osm.TypeWay: len(back.Ways), osm.TypeRelation: len(back.Relations),
			osm.TypeChangeset: len(back.Changesets), osm.TypeNote: len(back.Notes), osm.TypeUser: len(back.Users)}
		if back.Bounds != nil {
			want[osm.TypeBounds] = 1
		}
		for _, t := range []osm.Type{osm.TypeBounds, osm.TypeNode, osm.TypeWay, osm.TypeRelation, osm.TypeChangeset, osm.TypeNote, osm.TypeUser} {
			if count[t] != want[t] {
				return "scan-differs", &Violation{Signature: "xml-scan-count-osm", Text: fmt.Sprintf("scanner yields %d objects of type %s, the whole-document decode holds %d.\n%s", count[t], t, want[t], truncate(text, 1500))}
			}
		}
		return fmt.Sprintf("ok %d", len(got)), nil
	case "dattrs":
		v, ok := c04NewRecord(f[1])
		if !ok {
			return "bad-op", nil
		}
		var b strings.Builder
		el := map[string]string{"Node": "node", "Way": "way", "Relation": "relation", "WayNode": "nd", "Member": "member", "Update": "update", "Bounds": "bounds", "Changeset": "changeset", "Tag": "tag", "ChangesetComment": "comment"}[f[1]]
		b.WriteString("<" + el)
		if len(f) > 2 {
			for _, kv := range strings.Split(f[2], ",") {
				p := strings.SplitN(kv, "=", 2)
				val, _ := unhx(p[1])
				b.WriteString(" " + p[0] + `="` + xwEsc(val, true) + `"`)
			}
		}
		b.WriteString("/>")
		if err := xml.Unmarshal([]byte(b.String()), v.Addr().Interface()); err != nil {
			return "err", nil
		}
		var out []string
		for _, fk := range c04RecordFields[f[1]] {
			out = append(out, fk[0]+"="+hx(c03FieldText(v.FieldByName(fk[0]))))
		}
		return strings.Join(out, ","), nil
	}
	return "bad-op", nil
}

func c03FieldText(f reflect.Value) string {
	switch f.Kind() {
	case reflect.String:
		return f.String()
	case reflect.Int, reflect.Int64, reflect.Int8:
		return strconv.FormatInt(f.Int(), 10)
	case reflect.Float64:
		return strconv.FormatFloat(f.Float(), 'g', -1, 64)
	case reflect.Bool:
		return strconv.FormatBool(f.Bool())
	case reflect.Struct:
		if t, ok := f.Interface().(time.Time); ok {
			return t.UTC().Format(time.RFC3339Nano)
		}
	case reflect.Ptr:
		if f.IsNil() {
			return ""
		}
		if t, ok := f.Interface().(*time.Time); ok {
			return t.UTC().Format(time.RFC3339Nano)
		}
	}
	return "?"
}

// xml attribute name per Go field, written independently of the library's tags (OSM XML vocabulary)
var c03AttrName = map[string]map[string]string{
	"Node":             {"ID": "id", "Lat": "lat", "Lon": "lon", "User": "user", "UserID": "uid", "Visible": "visible", "Version": "version", "ChangesetID": "changeset", "Timestamp": "timestamp", "Committed": "committed"},
	"Way":              {"ID": "id", "User": "user", "UserID": "uid", "Visible": "visible", "Version": "version", "ChangesetID": "changeset", "Timestamp": "timestamp", "Committed": "committed"},
	"Relation":         {"ID": "id", "User": "user", "UserID": "uid", "Visible": "visible", "Version": "version", "ChangesetID": "changeset", "Timestamp": "timestamp", "Committed": "committed"},
	"WayNode":          {"ID": "ref", "Version": "version", "ChangesetID": "changeset", "Lat": "lat", "Lon": "lon"},
	"Member":           {"Type": "type", "Ref": "ref", "Role": "role", "Version": "version", "ChangesetID": "changeset", "Lat": "lat", "Lon": "lon", "Orientation": "orientation"},
	"Update":           {"Index": "index", "Version": "version", "Timestamp": "timestamp", "ChangesetID": "changeset", "Lat": "lat", "Lon": "lon", "Reverse": "reverse"},
	"Bounds":           {"MinLat": "minlat", "MaxLat": "maxlat", "MinLon": "minlon", "MaxLon": "maxlon"},
	"Changeset":        {"ID": "id", "User": "user", "UserID": "uid", "CreatedAt": "created_at", "ClosedAt": "closed_at", "Open": "open", "ChangesCount": "num_changes", "MinLat": "min_lat", "MaxLat": "max_lat", "MinLon": "min_lon", "MaxLon": "max_lon", "CommentsCount": "comments_count"},
	"Tag":              {"Key": "k", "Value": "v"},
	"ChangesetComment": {"User": "user", "UserID": "uid", "Timestamp": "date"},
}

func c03Gen(r *Rng, tier string, emit func(string)) {
	n := 1000
	if tier == "thorough" {
		n = 6000
	}
	kinds := []string{"node", "way", "relation", "changeset", "note", "user", "osm", "change", "diff", "osm", "change"}
	for i := 0; i < n; i++ {
		for _, k := range kinds {
			emit(fmt.Sprintf("doc %s %d %d", k, r.U64()>>1, r.Intn(16)))
		}
	}
	var types []string
	for t := range c03AttrName {
		types = append(types, t)
	}
	sortStrings(types)
	for i := 0; i < 6*n; i++ {
		t := types[r.Intn(len(types))]
		var kv []string
		for _, fk := range c04RecordFields[t] {
			if r.Chance(25) {
				continue // attribute absent
			}
			text := c04RandText(r, fk[1])
			if fk[1] == "ptime" && text == "" {
				continue
			}
			kv = append(kv, c03AttrName[t][fk[0]]+"="+hx(text))
		}
		if r.Chance(30) {
			kv = append(kv, "x-unknown="+hx("zzz"))
		}
		p := r.Perm(len(kv))
		sh := make([]string, len(kv))
		for a, b := range p {
			sh[a] = kv[b]
		}
		emit(strings.TrimSpace("dattrs " + t + " " + strings.Join(sh, ",")))
	}
}
