package main

import (
	"bytes"
	"compress/zlib"
	"encoding/binary"
	"fmt"
	"math"
	"strconv"
	"strings"

	"github.com/paulmach/osm"
	"github.com/paulmach/osm/osmpbf"
)

// ---- structured OSM PBF files (shared by C01, C02, C06, C07, C08, C09) ----
//
// A PFile is a PBF file at the level of its protobuf messages: columns of raw integers exactly as they are
// stored (delta coded where the format says so), string table, per-block parameters. A nil slice / pointer
// is an absent optional part; an empty non-nil slice is a present, empty one. The harness serialises a PFile
// with its own protobuf writer (nothing from the library or from generated code) and as tokens for the model.

type PHeader struct {
	BBox      *[4]int64 // left, right, top, bottom (nanodegrees)
	Req, Opt  []string
	WP, Src   *string
	RTs, RSeq *int64
	RURL      *string
}

type PDense struct {
	IDs, Lat, Lon              []int64
	KV                         []int64
	HasInfo                    bool
	Ver, TS, CS, UID, SID, Vis []int64
}

type PInfo struct{ Ver, TS, CS, UID, SID, Vis *int64 }

type PWay struct {
	ID             int64
	Keys, Vals     []int64
	Info           *PInfo
	Refs, Lat, Lon []int64
}

type PRel struct {
	ID                   int64
	Keys, Vals           []int64
	Info                 *PInfo
	Roles, MemIDs, Types []int64
}

type PGroup struct {
	Dense *PDense
	Ways  []PWay
	Rels  []PRel
	Seq   string // order of the ways (W) and relations (R) on the wire; "" = all ways, then all relations
}

type PBlock struct {
	Zlib                           bool
	Gran, DateGran, LatOff, LonOff *int64
	Strings                        []string
	Groups                         []PGroup
	Lay                            int
	NoST                           bool // damage: the (required) stringtable field is left out
}

type PFile struct {
	Header *PHeader
	Blocks []PBlock
}

// ---- tokens ----

func ints(l []int64) string {
	s := make([]string, len(l))
	for i, v := range l {
		s[i] = strconv.FormatInt(v, 10)
	}
	return strings.Join(s, ",")
}
func hexes(l []string) string {
	s := make([]string, len(l))
	for i, v := range l {
		s[i] = hx(v)
	}
	return strings.Join(s, ";")
}
func optCol(b *strings.Builder, name string, l []int64) {
	if l != nil {
		b.WriteString(" " + name + "=" + ints(l))
	}
}
func optInt(b *strings.Builder, name string, v *int64) {
	if v != nil {
		b.WriteString(" " + name + "=" + strconv.FormatInt(*v, 10))
	}
}
func infoTokens(b *strings.Builder, i *PInfo) {
	if i == nil {
		return
	}
	b.WriteString(" info=1")
	optInt(b, "iv", i.Ver)
	optInt(b, "its", i.TS)
	optInt(b, "ics", i.CS)
	optInt(b, "iuid", i.UID)
	optInt(b, "isid", i.SID)
	optInt(b, "ivis", i.Vis)
}

func (f *PFile) Tokens() string {
	var b strings.Builder
	if h := f.Header; h != nil {
		b.WriteString("H")
		if h.BBox != nil {
			b.WriteString(" bbox=" + ints(h.BBox[:]))
		}
		if len(h.Req) > 0 {
			b.WriteString(" req=" + hexes(h.Req))
		}
		if len(h.Opt) > 0 {
			b.WriteString(" opt=" + hexes(h.Opt))
		}
		if h.WP != nil {
			b.WriteString(" wp=" + hx(*h.WP))
		}
		if h.Src != nil {
			b.WriteString(" src=" + hx(*h.Src))
		}
		optInt(&b, "rts", h.RTs)
		optInt(&b, "rseq", h.RSeq)
		if h.RURL != nil {
			b.WriteString(" rurl=" + hx(*h.RURL))
		}
	}
	for _, bl := range f.Blocks {
		z := 0
		if bl.Zlib {
			z = 1
		}
		fmt.Fprintf(&b, " B z=%d", z)
		optInt(&b, "g", bl.Gran)
		optInt(&b, "dg", bl.DateGran)
		optInt(&b, "la", bl.LatOff)
		optInt(&b, "lo", bl.LonOff)
		b.WriteString(" st=" + hexes(bl.Strings))
		fmt.Fprintf(&b, " lay=%d", bl.Lay)
		for _, g := range bl.Groups {
			b.WriteString(" G")
			if d := g.Dense; d != nil {
				b.WriteString(" D ids=" + ints(d.IDs) + " lat=" + ints(d.Lat) + " lon=" + ints(d.Lon))
				optCol(&b, "kv", d.KV)
				if d.HasInfo {
					b.WriteString(" info=1")
				}
				optCol(&b, "ver", d.Ver)
				optCol(&b, "ts", d.TS)
				optCol(&b, "cs", d.CS)
				optCol(&b, "uid", d.UID)
				optCol(&b, "sid", d.SID)
				optCol(&b, "vis", d.Vis)
			}
			g := g
			tokWay := func(w PWay) {
				fmt.Fprintf(&b, " W id=%d", w.ID)
				optCol(&b, "keys", w.Keys)
				optCol(&b, "vals", w.Vals)
				infoTokens(&b, w.Info)
				optCol(&b, "refs", w.Refs)
				optCol(&b, "lat", w.Lat)
				optCol(&b, "lon", w.Lon)
			}
			tokRel := func(r PRel) {
				fmt.Fprintf(&b, " R id=%d", r.ID)
				optCol(&b, "keys", r.Keys)
				optCol(&b, "vals", r.Vals)
				infoTokens(&b, r.Info)
				optCol(&b, "roles", r.Roles)
				optCol(&b, "memids", r.MemIDs)
				optCol(&b, "types", r.Types)
			}
			for _, el := range g.order() {
				if el[0] == 0 {
					tokWay(g.Ways[el[1]])
				} else {
					tokRel(g.Rels[el[1]])
				}
			}
		}
	}
	return strings.TrimSpace(b.String())
}

// ParsePFile reads the tokens back (replay and corpus ops run through here, so the bytes always come from the tokens).
func ParsePFile(toks []string) (*PFile, error) {
	f := &PFile{}
	var bl *PBlock
	var g *PGroup
	var d *PDense
	var w *PWay
	var r *PRel
	var info *PInfo
	kind := ""
	list := func(v string) ([]int64, error) {
		out := []int64{}
		if v == "" {
			return out, nil
		}
		for _, s := range strings.Split(v, ",") {
			n, err := strconv.ParseInt(s, 10, 64)
			if err != nil {
				return nil, err
			}
			out = append(out, n)
		}
		return out, nil
	}
	strs := func(v string) []string {
		out := []string{}
		if v == "" {
			return out
		}
		for _, s := range strings.Split(v, ";") {
			u, _ := unhx(s)
			out = append(out, u)
		}
		return out
	}
	for _, t := range toks {
		switch t {
		case "H":
			f.Header = &PHeader{}
			kind = "H"
			continue
		case "B":
			f.Blocks = append(f.Blocks, PBlock{})
			bl = &f.Blocks[len(f.Blocks)-1]
			kind = "B"
			continue
		case "G":
			bl.Groups = append(bl.Groups, PGroup{})
			g = &bl.Groups[len(bl.Groups)-1]
			continue
		case "D":
			g.Dense = &PDense{}
			d = g.Dense
			kind = "D"
			continue
		case "W":
			g.Seq += "W"
			g.Ways = append(g.Ways, PWay{})
			w = &g.Ways[len(g.Ways)-1]
			info = nil
			kind = "W"
			continue
		case "R":
			g.Seq += "R"
			g.Rels = append(g.Rels, PRel{})
			r = &g.Rels[len(g.Rels)-1]
			info = nil
			kind = "R"
			continue
		}
		kv := strings.SplitN(t, "=", 2)
		if len(kv) != 2 {
			return nil, fmt.Errorf("bad token %q", t)
		}
		k, v := kv[0], kv[1]
		num := func() *int64 { n, _ := strconv.ParseInt(v, 10, 64); return &n }
		col := func() []int64 { l, _ := list(v); return l }
		switch kind {
		case "H":
			h := f.Header
			switch k {
			case "bbox":
				l := col()
				if len(l) != 4 {
					return nil, fmt.Errorf("bbox")
				}
				h.BBox = &[4]int64{l[0], l[1], l[2], l[3]}
			case "req":
				h.Req = strs(v)
			case "opt":
				h.Opt = strs(v)
			case "wp":
				s, _ := unhx(v)
				h.WP = &s
			case "src":
				s, _ := unhx(v)
				h.Src = &s
			case "rts":
				h.RTs = num()
			case "rseq":
				h.RSeq = num()
			case "rurl":
				s, _ := unhx(v)
				h.RURL = &s
			}
		case "B":
			switch k {
			case "z":
				bl.Zlib = v == "1"
			case "g":
				bl.Gran = num()
			case "dg":
				bl.DateGran = num()
			case "la":
				bl.LatOff = num()
			case "lo":
				bl.LonOff = num()
			case "st":
				bl.Strings = strs(v)
			case "lay":
				bl.Lay, _ = strconv.Atoi(v)
			}
		case "D":
			switch k {
			case "ids":
				d.IDs = col()
			case "lat":
				d.Lat = col()
			case "lon":
				d.Lon = col()
			case "kv":
				d.KV = col()
			case "info":
				d.HasInfo = v == "1"
			case "ver":
				d.Ver = col()
			case "ts":
				d.TS = col()
			case "cs":
				d.CS = col()
			case "uid":
				d.UID = col()
			case "sid":
				d.SID = col()
			case "vis":
				d.Vis = col()
			}
		case "W", "R":
			setInfo := func(p **PInfo) bool {
				switch k {
				case "info":
					info = &PInfo{}
					*p = info
				case "iv":
					info.Ver = num()
				case "its":
					info.TS = num()
				case "ics":
					info.CS = num()
				case "iuid":
					info.UID = num()
				case "isid":
					info.SID = num()
				case "ivis":
					info.Vis = num()
				default:
					return false
				}
				return true
			}
			if kind == "W" {
				if setInfo(&w.Info) {
					continue
				}
				switch k {
				case "id":
					w.ID = *num()
				case "keys":
					w.Keys = col()
				case "vals":
					w.Vals = col()
				case "refs":
					w.Refs = col()
				case "lat":
					w.Lat = col()
				case "lon":
					w.Lon = col()
				}
			} else {
				if setInfo(&r.Info) {
					continue
				}
				switch k {
				case "id":
					r.ID = *num()
				case "keys":
					r.Keys = col()
				case "vals":
					r.Vals = col()
				case "roles":
					r.Roles = col()
				case "memids":
					r.MemIDs = col()
				case "types":
					r.Types = col()
				}
			}
		}
	}
	return f, nil
}

// ---- the harness's own protobuf writer ----

type pbw struct{ b []byte }

func (p *pbw) uvarint(u uint64) {
	for u >= 0x80 {
		p.b = append(p.b, byte(u)|0x80)
		u >>= 7
	}
	p.b = append(p.b, byte(u))
}
func (p *pbw) tag(field, wt int)       { p.uvarint(uint64(field)<<3 | uint64(wt)) }
func (p *pbw) Int(field int, v int64)  { p.tag(field, 0); p.uvarint(uint64(v)) }
func zig(v int64) uint64               { return uint64(v<<1) ^ uint64(v>>63) }
func (p *pbw) SInt(field int, v int64) { p.tag(field, 0); p.uvarint(zig(v)) }
func (p *pbw) Bytes(field int, d []byte) {
	p.tag(field, 2)
	p.uvarint(uint64(len(d)))
	p.b = append(p.b, d...)
}
func (p *pbw) Packed(field int, l []int64, zigzag bool) {
	if l == nil {
		return
	}
	var q pbw
	for _, v := range l {
		if zigzag {
			q.uvarint(zig(v))
		} else {
			q.uvarint(uint64(v))
		}
	}
	p.Bytes(field, q.b)
}

func infoBytes(i *PInfo) []byte {
	var p pbw
	if i.Ver != nil {
		p.Int(1, *i.Ver)
	}
	if i.TS != nil {
		p.Int(2, *i.TS)
	}
	if i.CS != nil {
		p.Int(3, *i.CS)
	}
	if i.UID != nil {
		p.Int(4, *i.UID)
	}
	if i.SID != nil {
		p.Int(5, *i.SID)
	}
	if i.Vis != nil {
		p.Int(6, *i.Vis)
	}
	return p.b
}

// parts are written in the given order, or reversed when rev is set (protobuf fields may come in any order)
func ordered(rev bool, parts ...func()) {
	if rev {
		for i := len(parts) - 1; i >= 0; i-- {
			parts[i]()
		}
		return
	}
	for _, f := range parts {
		f()
	}
}

// order lists the group's ways and relations in wire order: (false, i) = Ways[i], (true, i) = Rels[i]
func (g *PGroup) order() [][2]int {
	var out [][2]int
	wi, ri := 0, 0
	for _, c := range g.Seq {
		if c == 'W' && wi < len(g.Ways) {
			out = append(out, [2]int{0, wi})
			wi++
		} else if c == 'R' && ri < len(g.Rels) {
			out = append(out, [2]int{1, ri})
			ri++
		}
	}
	for ; wi < len(g.Ways); wi++ {
		out = append(out, [2]int{0, wi})
	}
	for ; ri < len(g.Rels); ri++ {
		out = append(out, [2]int{1, ri})
	}
	return out
}

func (bl *PBlock) primitiveBlock() []byte {
	var p pbw
	st := func() {
		if bl.NoST {
			return
		}
		var s pbw
		for _, x := range bl.Strings {
			s.Bytes(1, []byte(x))
		}
		p.Bytes(1, s.b)
	}
	params := func() {
		if bl.Gran != nil {
			p.Int(17, *bl.Gran)
		}
		if bl.DateGran != nil {
			p.Int(18, *bl.DateGran)
		}
		if bl.LatOff != nil {
			p.Int(19, *bl.LatOff)
		}
		if bl.LonOff != nil {
			p.Int(20, *bl.LonOff)
		}
	}
	groups := func() {
		for _, g := range bl.Groups {
			var gp pbw
			if d := g.Dense; d != nil {
				var dp pbw
				ordered(bl.Lay&4 != 0,
					func() { dp.Packed(1, d.IDs, true) },
					func() {
						if d.HasInfo {
							var ip pbw
							ip.Packed(1, d.Ver, false)
							ip.Packed(2, d.TS, true)
							ip.Packed(3, d.CS, true)
							ip.Packed(4, d.UID, true)
							ip.Packed(5, d.SID, true)
							ip.Packed(6, d.Vis, false)
							dp.Bytes(5, ip.b)
						}
					},
					func() { dp.Packed(8, d.Lat, true) },
					func() { dp.Packed(9, d.Lon, true) },
					func() { dp.Packed(10, d.KV, false) })
				gp.Bytes(2, dp.b)
			}
			g := g
			writeWay := func(w PWay) {
				var wp pbw
				ordered(bl.Lay&8 != 0,
					func() { wp.Int(1, w.ID) },
					func() { wp.Packed(2, w.Keys, false) },
					func() { wp.Packed(3, w.Vals, false) },
					func() {
						if w.Info != nil {
							wp.Bytes(4, infoBytes(w.Info))
						}
					},
					// three separate fields: in the reversed layout the location columns come before the refs
					func() { wp.Packed(8, w.Refs, true) },
					func() { wp.Packed(9, w.Lat, true) },
					func() { wp.Packed(10, w.Lon, true) })
				gp.Bytes(3, wp.b)
			}
			writeRel := func(r PRel) {
				var rp pbw
				ordered(bl.Lay&8 != 0,
					func() { rp.Int(1, r.ID) },
					func() { rp.Packed(2, r.Keys, false) },
					func() { rp.Packed(3, r.Vals, false) },
					func() {
						if r.Info != nil {
							rp.Bytes(4, infoBytes(r.Info))
						}
					},
					func() { rp.Packed(8, r.Roles, false) },
					func() { rp.Packed(9, r.MemIDs, true) },
					func() { rp.Packed(10, r.Types, false) })
				gp.Bytes(4, rp.b)
			}
			for _, el := range g.order() {
				if el[0] == 0 {
					writeWay(g.Ways[el[1]])
				} else {
					writeRel(g.Rels[el[1]])
				}
			}
			p.Bytes(2, gp.b)
		}
	}
	switch bl.Lay & 3 {
	case 0:
		st()
		groups()
		params()
	case 1:
		st()
		params()
		groups()
	case 2:
		params()
		groups()
		st()
	default:
		groups()
		st()
		params()
	}
	return p.b
}

func (h *PHeader) headerBlock() []byte {
	var p pbw
	if h.BBox != nil {
		var b pbw
		b.SInt(1, h.BBox[0])
		b.SInt(2, h.BBox[1])
		b.SInt(3, h.BBox[2])
		b.SInt(4, h.BBox[3])
		p.Bytes(1, b.b)
	}
	for _, s := range h.Req {
		p.Bytes(4, []byte(s))
	}
	for _, s := range h.Opt {
		p.Bytes(5, []byte(s))
	}
	if h.WP != nil {
		p.Bytes(16, []byte(*h.WP))
	}
	if h.Src != nil {
		p.Bytes(17, []byte(*h.Src))
	}
	if h.RTs != nil {
		p.Int(32, *h.RTs)
	}
	if h.RSeq != nil {
		p.Int(33, *h.RSeq)
	}
	if h.RURL != nil {
		p.Bytes(34, []byte(*h.RURL))
	}
	return p.b
}

// Frame is one file block as bytes with the sizes of its parts.
type Frame struct {
	Bytes           []byte
	HeaderLen, Blob int // BlobHeader length, Blob length (the frame is 4 + HeaderLen + Blob bytes)
}

// frame wraps a payload as BlobHeader + Blob. Damage hooks let C06 write detectably broken frames.
type frameOpt struct {
	rawSizeDelta int    // added to raw_size of a zlib blob
	corruptZlib  bool   // flip a byte of the compressed data
	trailingZlib bool   // one byte after the end of the zlib stream (all lengths consistent)
	encoding     int    // 0 normal, 1 lzma field instead of raw/zlib, 2 no data field at all
	typ          string // override block type
	datasize     *int64 // override datasize written in the BlobHeader
}

func frame(typ string, payload []byte, useZlib bool, o frameOpt) Frame {
	var blob pbw
	switch {
	case o.encoding == 1:
		blob.Bytes(4, payload)
	case o.encoding == 2:
		blob.Int(2, int64(len(payload)))
	case useZlib:
		var z bytes.Buffer
		zw := zlib.NewWriter(&z)
		_, _ = zw.Write(payload)
		_ = zw.Close()
		zd := z.Bytes()
		if o.corruptZlib && len(zd) > 6 {
			zd = append([]byte{}, zd...)
			zd[len(zd)/2] ^= 0x5a
			zd[len(zd)-2] ^= 0xff
		}
		if o.trailingZlib {
			zd = append(append([]byte{}, zd...), 0)
		}
		blob.Int(2, int64(len(payload)+o.rawSizeDelta))
		blob.Bytes(3, zd)
	default:
		blob.Bytes(1, payload)
	}
	if o.typ != "" {
		typ = o.typ
	}
	var bh pbw
	bh.Bytes(1, []byte(typ))
	ds := int64(len(blob.b))
	if o.datasize != nil {
		ds = *o.datasize
	}
	bh.Int(3, ds)
	out := make([]byte, 4, 4+len(bh.b)+len(blob.b))
	binary.BigEndian.PutUint32(out, uint32(len(bh.b)))
	out = append(out, bh.b...)
	out = append(out, blob.b...)
	return Frame{Bytes: out, HeaderLen: len(bh.b), Blob: len(blob.b)}
}

// Frames serialises the file: the header frame (if any) then one frame per block.
func (f *PFile) Frames() []Frame {
	var out []Frame
	if f.Header != nil {
		out = append(out, frame("OSMHeader", f.Header.headerBlock(), false, frameOpt{}))
	}
	for i := range f.Blocks {
		out = append(out, frame("OSMData", f.Blocks[i].primitiveBlock(), f.Blocks[i].Zlib, frameOpt{}))
	}
	return out
}

func joinFrames(fr []Frame) []byte {
	var b []byte
	for _, f := range fr {
		b = append(b, f.Bytes...)
	}
	return b
}

// ---- canonical text of scanned objects (the same text the model prints) ----

func nano(x float64) int64 { return int64(math.Round(x * 1e9)) }

func pTags(ts osm.Tags) string {
	if len(ts) == 0 {
		return "_"
	}
	s := make([]string, len(ts))
	for i, t := range ts {
		s[i] = hx(t.Key) + "=" + hx(t.Value)
	}
	return strings.Join(s, ";")
}
func pTS(visible bool, version int, cs osm.ChangesetID, uid osm.UserID, user string, ts interface {
	IsZero() bool
	Unix() int64
	Nanosecond() int
}) string {
	t := "z"
	if !ts.IsZero() {
		t = strconv.FormatInt(ts.Unix()*1000+int64(ts.Nanosecond())/1e6, 10) // not UnixNano: it wraps after 2262
	}
	v := 0
	if visible {
		v = 1
	}
	return fmt.Sprintf("%d:%s:%d:%d:%s:%d", version, t, cs, uid, hx(user), v)
}

func pObject(o osm.Object) string {
	switch x := o.(type) {
	case *osm.Node:
		return fmt.Sprintf("n:%d:%s:%d:%d:%s", x.ID, pTS(x.Visible, x.Version, x.ChangesetID, x.UserID, x.User, x.Timestamp), nano(x.Lat), nano(x.Lon), pTags(x.Tags))
	case *osm.Way:
		ns := "_"
		if len(x.Nodes) > 0 {
			s := make([]string, len(x.Nodes))
			for i, n := range x.Nodes {
				s[i] = fmt.Sprintf("%d/%d/%d", n.ID, nano(n.Lat), nano(n.Lon))
			}
			ns = strings.Join(s, ";")
		}
		return fmt.Sprintf("w:%d:%s:%s:%s", x.ID, pTS(x.Visible, x.Version, x.ChangesetID, x.UserID, x.User, x.Timestamp), pTags(x.Tags), ns)
	case *osm.Relation:
		ms := "_"
		if len(x.Members) > 0 {
			s := make([]string, len(x.Members))
			for i, m := range x.Members {
				t := map[osm.Type]int{osm.TypeNode: 0, osm.TypeWay: 1, osm.TypeRelation: 2}[m.Type]
				if m.Type == "" {
					t = -1
				}
				s[i] = fmt.Sprintf("%d/%d/%s", t, m.Ref, hx(m.Role))
			}
			ms = strings.Join(s, ";")
		}
		return fmt.Sprintf("r:%d:%s:%s:%s", x.ID, pTS(x.Visible, x.Version, x.ChangesetID, x.UserID, x.User, x.Timestamp), pTags(x.Tags), ms)
	}
	return fmt.Sprintf("?%T", o)
}

func pHeader(h *osmpbf.Header) string {
	if h == nil {
		return "hdr:none"
	}
	bb := "_"
	if b := h.Bounds; b != nil {
		bb = fmt.Sprintf("%d,%d,%d,%d", nano(b.MinLon), nano(b.MaxLon), nano(b.MaxLat), nano(b.MinLat))
	}
	l := func(s []string) string {
		if len(s) == 0 {
			return "_"
		}
		return hexes(s)
	}
	rts := "z"
	if !h.ReplicationTimestamp.IsZero() {
		rts = strconv.FormatInt(h.ReplicationTimestamp.Unix(), 10)
	}
	return fmt.Sprintf("hdr:bbox=%s:req=%s:opt=%s:wp=%s:src=%s:rts=%s:rseq=%d:rurl=%s", bb, l(h.RequiredFeatures), l(h.OptionalFeatures),
		hx(h.WritingProgram), hx(h.Source), rts, h.ReplicationSeqNum, hx(h.ReplicationBaseURL))
}

// ---- generator of valid files ----

func deltas(abs []int64) []int64 {
	out := make([]int64, len(abs))
	prev := int64(0)
	for i, v := range abs {
		out[i] = v - prev
		prev = v
	}
	return out
}

type pgen struct {
	r  *Rng
	st []string
	ix map[string]int
	dg int64 // date granularity of the block (ms per unit)
}

// a timestamp in units of the block's date granularity
func (g *pgen) ts() int64 {
	if g.r.Chance(4) {
		return 0 // present with the value zero: the epoch
	}
	if g.r.Chance(3) {
		// before the epoch, and after 2262 (where a nanosecond count no longer fits an int64)
		return []int64{-86400000, -1000, 10413792000000, 253402300799000}[g.r.Intn(4)] / g.dg
	}
	return (1200000000000 + g.r.I64n(500000000000)) / g.dg
}

func (g *pgen) sid(s string) int64 {
	if i, ok := g.ix[s]; ok {
		return int64(i)
	}
	g.ix[s] = len(g.st)
	g.st = append(g.st, s)
	return int64(len(g.st) - 1)
}

var pgStrings = []string{"alice", "Bob & Carol", "näme", "日本語", "emoji 🚀", "name", "highway", "residential", "x=1;y=2", "a  b", "outer", "inner", "", "stop", "ref", "12", "building", "yes"}

func (g *pgen) str() string        { return pgStrings[g.r.Intn(len(pgStrings))] }
func (g *pgen) p64(v int64) *int64 { return &v }

func (g *pgen) info() *PInfo {
	r := g.r
	if r.Chance(25) {
		return nil
	}
	i := &PInfo{}
	if r.Chance(75) {
		i.Ver = g.p64(int64(1 + r.Intn(40)))
	}
	if r.Chance(75) {
		i.TS = g.p64(g.ts())
	}
	if r.Chance(75) {
		i.CS = g.p64(1 + r.I64n(90000000))
	}
	if r.Chance(75) {
		i.UID = g.p64(int64(r.Intn(900000)))
	}
	if r.Chance(75) {
		i.SID = g.p64(g.sid(g.str()))
	}
	if r.Chance(30) {
		i.Vis = g.p64(int64(r.Intn(2)))
	}
	return i
}

func (g *pgen) tagCols(allowAbsent bool) ([]int64, []int64) {
	r := g.r
	n := r.Intn(4)
	if r.Chance(8) {
		n = 9 + r.Intn(6) // a heavily tagged element next to lightly tagged ones (buffers taken over from it have room to spare)
	}
	if n == 0 && allowAbsent && r.Bool() {
		return nil, nil
	}
	k, v := []int64{}, []int64{}
	for i := 0; i < n; i++ {
		k = append(k, g.sid(g.str()))
		v = append(v, g.sid(g.str()))
	}
	return k, v
}

func (g *pgen) coords(n int) []int64 {
	abs := make([]int64, n)
	for i := range abs {
		abs[i] = g.r.I64n(1700000000) - 850000000
	}
	return deltas(abs)
}

// ref is an element id or reference: usually of today's size, sometimes negative (editors' placeholder ids, which the
// format's signed columns carry) or far beyond it - the columns are 64-bit and delta coded
func (g *pgen) ref(bits uint) int64 {
	switch g.r.Intn(25) {
	case 0:
		return -1 - g.r.I64n(1<<bits)
	case 1:
		return 1<<58 + g.r.I64n(1<<30)
	}
	return 1 + g.r.I64n(1<<bits)
}

func (g *pgen) dense(maxN int) *PDense {
	r := g.r
	n := r.Intn(maxN + 1)
	d := &PDense{IDs: []int64{}, Lat: []int64{}, Lon: []int64{}}
	ids := make([]int64, n)
	cur := g.ref(33)
	for i := range ids {
		switch r.Intn(6) {
		case 0:
			cur -= r.I64n(1000) // ids need not increase
		default:
			cur += 1 + r.I64n(5000)
		}
		ids[i] = cur
	}
	d.IDs, d.Lat, d.Lon = deltas(ids), g.coords(n), g.coords(n)
	if r.Chance(60) {
		d.KV = []int64{}
		for i := 0; i < n; i++ {
			nt := r.Intn(3)
			if r.Chance(8) {
				nt = 9 + r.Intn(6)
			}
			for t := nt; t > 0; t-- {
				k := g.str()
				for k == "" {
					k = g.str() // string 0 is the delimiter: a tag key is never the empty string
				}
				d.KV = append(d.KV, g.sid(k), g.sid(g.str()))
			}
			d.KV = append(d.KV, 0)
		}
		if r.Chance(15) {
			d.KV = []int64{} // present and empty: all nodes tagless
		}
	}
	d.HasInfo = r.Chance(75)
	if d.HasInfo {
		col := func(pct int, f func(i int) int64, delta bool) []int64 {
			if !r.Chance(pct) {
				return nil
			}
			abs := make([]int64, n)
			for i := range abs {
				abs[i] = f(i)
			}
			if delta {
				return deltas(abs)
			}
			return abs
		}
		d.Ver = col(75, func(int) int64 { return int64(1 + r.Intn(40)) }, false)
		d.TS = col(75, func(int) int64 { return g.ts() }, true)
		d.CS = col(75, func(int) int64 { return 1 + r.I64n(90000000) }, true)
		d.UID = col(75, func(int) int64 { return int64(r.Intn(900000)) }, true)
		d.SID = col(75, func(int) int64 { return g.sid(g.str()) }, true)
		d.Vis = col(30, func(int) int64 { return int64(r.Intn(2)) }, false)
	}
	return d
}

func (g *pgen) way() PWay {
	r := g.r
	w := PWay{ID: g.ref(34)}
	w.Keys, w.Vals = g.tagCols(true)
	w.Info = g.info()
	n := r.Intn(6)
	if n > 0 || r.Bool() {
		abs := make([]int64, n)
		for i := range abs {
			abs[i] = g.ref(34)
		}
		w.Refs = deltas(abs)
		if r.Chance(25) {
			w.Lat, w.Lon = g.coords(n), g.coords(n)
		}
	}
	return w
}

func (g *pgen) rel() PRel {
	r := g.r
	x := PRel{ID: g.ref(30)}
	x.Keys, x.Vals = g.tagCols(true)
	x.Info = g.info()
	n := r.Intn(5)
	if n > 0 || r.Bool() {
		abs := make([]int64, n)
		x.Roles, x.Types = []int64{}, []int64{}
		for i := range abs {
			abs[i] = g.ref(34)
			x.Roles = append(x.Roles, g.sid(g.str()))
			x.Types = append(x.Types, int64(r.Intn(3)))
		}
		x.MemIDs = deltas(abs)
	}
	return x
}

// mixGroups gives some groups elements of a second and third type. The format says a group holds one type, the
// wire format does not enforce it and the decoder reads such a group element by element in field order (dense
// nodes, ways, relations - the order primitiveBlock writes them in): files for properties that speak about all
// files, not only valid ones.
func mixGroups(r *Rng, f *PFile, maxN int) {
	for bi := range f.Blocks {
		bl := &f.Blocks[bi]
		g := &pgen{r: r, st: bl.Strings, ix: map[string]int{}, dg: 1000}
		for i, s := range bl.Strings {
			if _, ok := g.ix[s]; !ok {
				g.ix[s] = i
			}
		}
		if bl.DateGran != nil {
			g.dg = *bl.DateGran
		}
		for gi := range bl.Groups {
			if !r.Chance(30) {
				continue
			}
			gr := &bl.Groups[gi]
			if gr.Dense == nil && r.Bool() {
				gr.Dense = g.dense(maxN)
			}
			if len(gr.Ways) == 0 && r.Bool() {
				for i := 1 + r.Intn(3); i > 0; i-- {
					gr.Ways = append(gr.Ways, g.way())
				}
			}
			if len(gr.Rels) == 0 && r.Bool() {
				for i := 1 + r.Intn(3); i > 0; i-- {
					gr.Rels = append(gr.Rels, g.rel())
				}
			}
			if len(gr.Ways) > 0 && len(gr.Rels) > 0 && r.Bool() {
				// ways and relations taking turns on the wire
				seq := []byte(strings.Repeat("W", len(gr.Ways)) + strings.Repeat("R", len(gr.Rels)))
				for i := len(seq) - 1; i > 0; i-- {
					j := r.Intn(i + 1)
					seq[i], seq[j] = seq[j], seq[i]
				}
				gr.Seq = string(seq)
			}
		}
		bl.Strings = g.st
	}
}

// genPFile makes a valid file. size bounds the elements per group.
func genPFile(r *Rng, maxBlocks, maxN int) *PFile {
	f := &PFile{Header: &PHeader{}}
	h := f.Header
	if r.Chance(60) {
		h.BBox = &[4]int64{r.I64n(360000000000) - 180000000000, r.I64n(360000000000) - 180000000000, r.I64n(180000000000) - 90000000000, r.I64n(180000000000) - 90000000000}
	}
	if r.Chance(80) {
		h.Req = append(h.Req, "OsmSchema-V0.6")
		if r.Bool() {
			h.Req = append(h.Req, "DenseNodes")
		}
		if r.Chance(20) {
			h.Req = append(h.Req, "HistoricalInformation")
		}
	}
	if r.Chance(40) {
		h.Opt = append(h.Opt, []string{"Sort.Type_then_ID", "LocationsOnWays", "Has_Metadata"}[r.Intn(3)])
	}
	s := func(v string) *string { return &v }
	if r.Chance(70) {
		h.WP = s([]string{"osmium/1.14", "planet-dump-ng", "własny <writer>"}[r.Intn(3)])
	}
	if r.Chance(40) {
		h.Src = s("http://www.openstreetmap.org/api/0.6")
	}
	if r.Chance(50) {
		v := 1300000000 + r.I64n(400000000)
		if r.Chance(12) {
			v = 0 // present with the value zero (the epoch) is not absent
		}
		h.RTs = &v
	}
	if r.Chance(50) {
		v := r.I64n(5000000)
		h.RSeq = &v
	}
	if r.Chance(50) {
		h.RURL = s("https://planet.openstreetmap.org/replication/minute")
	}
	nb := r.Intn(maxBlocks + 1)
	for b := 0; b < nb; b++ {
		g := &pgen{r: r, st: []string{""}, ix: map[string]int{"": 0}, dg: 1000}
		bl := PBlock{Zlib: r.Chance(60), Lay: r.Intn(16)}
		pick := func(vals []int64) *int64 {
			i := r.Intn(len(vals) + 1)
			if i == len(vals) {
				return nil
			}
			return &vals[i]
		}
		bl.Gran = pick([]int64{100, 1, 1000, 7, 100})
		bl.DateGran = pick([]int64{1000, 1, 60000, 1000})
		if bl.DateGran != nil {
			g.dg = *bl.DateGran
		}
		bl.LatOff = pick([]int64{0, 500000000, -1234567})
		bl.LonOff = pick([]int64{0, -250000000, 98765})
		for k := r.Intn(4); k > 0; k-- {
			var gr PGroup
			switch r.Intn(3) {
			case 0:
				gr.Dense = g.dense(maxN)
			case 1:
				for i := r.Intn(maxN + 1); i > 0; i-- {
					gr.Ways = append(gr.Ways, g.way())
				}
			default:
				for i := r.Intn(maxN + 1); i > 0; i-- {
					gr.Rels = append(gr.Rels, g.rel())
				}
			}
			bl.Groups = append(bl.Groups, gr)
		}
		bl.Strings = g.st
		f.Blocks = append(f.Blocks, bl)
	}
	return f
}
