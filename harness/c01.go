package main

import (
	"bytes"
	"context"
	"fmt"
	"math"
	"strconv"
	"strings"

	"github.com/paulmach/osm"
	"github.com/paulmach/osm/osmpbf"
)

// C01 — a PBF scan yields exactly the encoded header and elements. Op:
//
//	scan <procs> FILE…      FILE = structured-file tokens (pbfgen.go); bytes written by the harness's own protobuf writer
func init() {
	register(&Prop{
		ID: "C01",
		Rule: "valid PBF files written by the harness's own protobuf writer from structured descriptions: 0..6 blocks, 0..3 primitive groups per block (dense nodes / ways / relations), every optional part independently present or absent (dense info and each of its six columns, keys_vals present-empty or absent, per-element Info and each field, node locations on ways, every header field), granularity / offsets / date granularity absent or non-default, raw and zlib blobs, field orders permuted (parameters after groups, string table last), non-monotonic ids, UTF-8 strings, empty ways/relations, consecutive blocks differing in the columns they carry, decoder counts 1..8; " +
			"non-trivial = file with at least one element; distinct = distinct op line",
		Gen:  c01Gen,
		Exec: c01Exec,
		Class: func(op, out string) string {
			if strings.Count(out, " ") < 2 {
				return "trivial-empty"
			}
			return "scan"
		},
	})
}

type scanOpts struct {
	procs               int
	skipN, skipW, skipR bool
	fN                  func(*osm.Node) bool
	fW                  func(*osm.Way) bool
	fR                  func(*osm.Relation) bool
}

// pbfScan runs a scanner over data and returns the header, the objects and the final error.
func pbfScan(data []byte, o scanOpts) (*osmpbf.Header, []osm.Object, error) {
	s := osmpbf.New(context.Background(), bytes.NewReader(data), o.procs)
	s.SkipNodes, s.SkipWays, s.SkipRelations = o.skipN, o.skipW, o.skipR
	s.FilterNode, s.FilterWay, s.FilterRelation = o.fN, o.fW, o.fR
	defer s.Close()
	h, herr := s.Header()
	if herr != nil {
		// what the scan reports is Err(): the end of input met by the header read is the regular end
		return h, nil, s.Err()
	}
	var objs []osm.Object
	for s.Scan() {
		objs = append(objs, s.Object())
	}
	return h, objs, s.Err()
}

func pScanLine(h *osmpbf.Header, objs []osm.Object, err error) string {
	parts := []string{pHeader(h)}
	for _, o := range objs {
		parts = append(parts, pObject(o))
	}
	if err != nil {
		parts = append(parts, "end=err")
	} else {
		parts = append(parts, "end=ok")
	}
	return strings.Join(parts, " ")
}

// coordinate precision: every coordinate is within 1e-10 degrees of an integer number of nanodegrees
func pCoordsExact(objs []osm.Object) string {
	bad := func(x float64) bool { return math.Abs(x*1e9-math.Round(x*1e9)) > 0.1 }
	for _, o := range objs {
		switch x := o.(type) {
		case *osm.Node:
			if bad(x.Lat) || bad(x.Lon) {
				return fmt.Sprintf("node %d at %v,%v", x.ID, x.Lat, x.Lon)
			}
		case *osm.Way:
			for _, n := range x.Nodes {
				if bad(n.Lat) || bad(n.Lon) {
					return fmt.Sprintf("way %d node %d at %v,%v", x.ID, n.ID, n.Lat, n.Lon)
				}
			}
		}
	}
	return ""
}

func c01Exec(op string) (string, *Violation) {
	f := fields(op)
	if f[0] != "scan" || len(f) < 2 {
		return "bad-op", nil
	}
	procs, _ := strconv.Atoi(f[1])
	pf, err := ParsePFile(f[2:])
	if err != nil {
		return "bad-op", nil
	}
	data := joinFrames(pf.Frames())
	h, objs, serr := pbfScan(data, scanOpts{procs: procs})
	line := pScanLine(h, objs, serr)
	if serr != nil {
		return line, &Violation{Signature: "pbf-valid-file-error", Text: "scanning a valid PBF file ends in an error: " + serr.Error()}
	}
	if s := pCoordsExact(objs); s != "" {
		return line, &Violation{Signature: "pbf-coordinate-precision", Text: "coordinate not within 1e-10 degrees of offset+granularity*raw nanodegrees: " + s}
	}
	return line, nil
}

func c01Gen(r *Rng, tier string, emit func(string)) {
	n := 1000
	if tier == "thorough" {
		n = 8000
	}
	for i := 0; i < n; i++ {
		maxBlocks, maxN := 4, 4
		if r.Chance(15) {
			maxBlocks, maxN = 6, 12
		}
		pf := genPFile(r, maxBlocks, maxN)
		emit(fmt.Sprintf("scan %d %s", 1+r.Intn(8), pf.Tokens()))
	}
}
