package main

import (
	"fmt"
	"math"
	"regexp"
	"strconv"
	"strings"

	"github.com/paulmach/osm"
)

// C10 — packed ids. Ops:
//
//	pack <kind> <ref> <ver>        constructors and conversions
//	dec <int64>                    every decoder / String on a raw value
//	parse object|element|feature <hex text>
//	sort e|f|E <int64>...          ElementIDs.Sort / FeatureIDs.Sort / Elements.Sort
//	cmp <k> <r> <v> <k'> <r'> <v'> impl-only: Go `<` on packed ids vs lexicographic order
func init() {
	register(&Prop{
		ID: "C10",
		Rule: "ids: all 7 kinds x boundary refs {0,1,2^16-1,2^16,2^39-1,2^39,2^40-1,..} x boundary versions {0,1,255,256,65534,65535} x random in-range and out-of-range values; raw 64 bit values for decoders; " +
			"parser inputs = String() of packed ids plus mutations (extra/missing separators, signs, leading zeros, whitespace, non-ASCII digits, unknown kinds, overflow numerals); sort lists of 0..40 ids; " +
			"non-trivial = in-range pack/cmp, any dec, any parse, sort of >=2 elements; distinct = distinct op line",
		Gen:   c10Gen,
		Exec:  c10Exec,
		Class: c10Class,
		ModelSkip: func(op string) bool {
			return strings.HasPrefix(op, "cmp ")
		},
	})
}

var c10Kinds = []string{"bounds", "node", "way", "relation", "changeset", "note", "user"}
var c10Rank = map[string]int{"bounds": 0, "node": 1, "way": 2, "relation": 3, "changeset": 4, "note": 5, "user": 6}

func c10Class(op, out string) string {
	f := fields(op)
	switch f[0] {
	case "pack":
		r, _ := strconv.ParseInt(f[2], 10, 64)
		v, _ := strconv.ParseInt(f[3], 10, 64)
		if r >= 0 && r < 1<<40 && v >= 0 && v < 1<<16 {
			return "pack-in-range"
		}
		return "pack-out-of-range"
	case "dec":
		if strings.Contains(out, "panic") {
			return "dec-some-panic"
		}
		return "dec"
	case "parse":
		if out == "err" {
			return "parse-" + f[1] + "-rejected"
		}
		return "parse-" + f[1] + "-accepted"
	case "sort":
		if len(f) < 4 {
			return "trivial-sort"
		}
		return "sort-" + f[1]
	case "cmp":
		return "cmp"
	}
	return "trivial-unknown"
}

func c10Pack(kind string, r int64, v int) (oid osm.ObjectID, s string) {
	switch kind {
	case "node":
		id := osm.NodeID(r)
		return id.ObjectID(v), fmt.Sprintf("%d %d %d %d %d", id.ObjectID(v), id.ElementID(v), id.FeatureID(), id.FeatureID().ElementID(v), id.FeatureID().ObjectID(v))
	case "way":
		id := osm.WayID(r)
		return id.ObjectID(v), fmt.Sprintf("%d %d %d %d %d", id.ObjectID(v), id.ElementID(v), id.FeatureID(), id.FeatureID().ElementID(v), id.FeatureID().ObjectID(v))
	case "relation":
		id := osm.RelationID(r)
		return id.ObjectID(v), fmt.Sprintf("%d %d %d %d %d", id.ObjectID(v), id.ElementID(v), id.FeatureID(), id.FeatureID().ElementID(v), id.FeatureID().ObjectID(v))
	case "changeset":
		o := osm.ChangesetID(r).ObjectID()
		return o, fmt.Sprintf("%d", o)
	case "note":
		o := osm.NoteID(r).ObjectID()
		return o, fmt.Sprintf("%d", o)
	case "user":
		o := osm.UserID(r).ObjectID()
		return o, fmt.Sprintf("%d", o)
	case "bounds":
		var b *osm.Bounds
		o := b.ObjectID()
		return o, fmt.Sprintf("%d", o)
	}
	return 0, "bad-op"
}

func guard(f func() string) (s string) {
	defer func() {
		if r := recover(); r != nil {
			s = "panic"
		}
	}()
	return f()
}

func tyStr(t osm.Type) string {
	if t == "" {
		return `""`
	}
	return string(t)
}

var c10Shape = regexp.MustCompile(`^([a-z]+)/([+-]?[0-9]+)(:(-|[+-]?[0-9]+))?$`)

// c10RefParse is the reference acceptance predicate for the textual forms
// (independent of the implementation and of the Lean model).
func c10RefParse(which, s string) bool {
	m := c10Shape.FindStringSubmatch(s)
	if m == nil {
		return false
	}
	if _, err := strconv.ParseInt(m[2], 10, 64); err != nil {
		return false
	}
	if m[3] != "" {
		if which == "feature" {
			return false
		}
		if m[4] != "-" {
			if _, err := strconv.ParseInt(m[4], 10, 64); err != nil {
				return false
			}
		}
	}
	switch m[1] {
	case "node", "way", "relation":
		return true
	case "changeset", "note", "user", "bounds":
		return which == "object"
	}
	return false
}

func c10Exec(op string) (string, *Violation) {
	f := fields(op)
	switch f[0] {
	case "pack":
		r, _ := strconv.ParseInt(f[2], 10, 64)
		v64, _ := strconv.ParseInt(f[3], 10, 64)
		v := int(v64)
		oid, s := c10Pack(f[1], r, v)
		var viol *Violation
		if r >= 0 && r < 1<<40 && v >= 0 && v < 1<<16 {
			// direct oracle: decode(encode) = id
			wantR, wantV := r, v
			if f[1] == "bounds" {
				wantR, wantV = 0, 0
			}
			if c10Rank[f[1]] > 3 {
				wantV = 0
			}
			got := guard(func() string { return fmt.Sprintf("%s %d %d", oid.Type(), oid.Ref(), oid.Version()) })
			want := fmt.Sprintf("%s %d %d", f[1], wantR, wantV)
			if got != want {
				viol = &Violation{Signature: "pack-decode-mismatch", Text: fmt.Sprintf("decode(pack %s) = %s, want %s", op, got, want)}
			}
			if c10Rank[f[1]] >= 1 && c10Rank[f[1]] <= 3 {
				eid := osm.ElementID(oid)
				got := guard(func() string {
					fid := eid.FeatureID()
					return fmt.Sprintf("%s %d %d | %s %d | %d", eid.Type(), eid.Ref(), eid.Version(), fid.Type(), fid.Ref(), fid.ElementID(v))
				})
				want := fmt.Sprintf("%s %d %d | %s %d | %d", f[1], r, v, f[1], r, int64(eid))
				if got != want && viol == nil {
					viol = &Violation{Signature: "element-decode-mismatch", Text: fmt.Sprintf("element/feature decode of pack %s = %s, want %s", op, got, want)}
				}
				// text round trip
				es := eid.String()
				if pe, err := osm.ParseElementID(es); (err != nil || pe != eid) && viol == nil {
					viol = &Violation{Signature: "element-text-roundtrip", Text: fmt.Sprintf("ParseElementID(%q) = %d,%v want %d", es, pe, err, eid)}
				}
				fs := eid.FeatureID().String()
				if pf, err := osm.ParseFeatureID(fs); (err != nil || pf != eid.FeatureID()) && viol == nil {
					viol = &Violation{Signature: "feature-text-roundtrip", Text: fmt.Sprintf("ParseFeatureID(%q) = %d,%v want %d", fs, pf, err, eid.FeatureID())}
				}
			}
			os := oid.String()
			if po, err := osm.ParseObjectID(os); (err != nil || po != oid) && viol == nil {
				viol = &Violation{Signature: "object-text-roundtrip", Text: fmt.Sprintf("ParseObjectID(%q) = %d,%v want %d", os, po, err, oid)}
			}
		}
		return s, viol
	case "dec":
		x, _ := strconv.ParseInt(f[1], 10, 64)
		o, e, fe := osm.ObjectID(x), osm.ElementID(x), osm.FeatureID(x)
		var b strings.Builder
		b.WriteString("o ")
		b.WriteString(guard(func() string { return tyStr(o.Type()) }))
		fmt.Fprintf(&b, " %d %d ", o.Ref(), o.Version())
		b.WriteString(guard(func() string { return hx(o.String()) }))
		b.WriteString(" e ")
		b.WriteString(guard(func() string { return tyStr(e.Type()) }))
		fmt.Fprintf(&b, " %d %d %d %d ", e.Ref(), e.Version(), e.ObjectID(), e.FeatureID())
		b.WriteString(guard(func() string { return fmt.Sprint(int64(e.NodeID())) }) + " ")
		b.WriteString(guard(func() string { return fmt.Sprint(int64(e.WayID())) }) + " ")
		b.WriteString(guard(func() string { return fmt.Sprint(int64(e.RelationID())) }) + " ")
		b.WriteString(guard(func() string { return hx(e.String()) }))
		b.WriteString(" f ")
		b.WriteString(tyStr(fe.Type()))
		fmt.Fprintf(&b, " %d ", fe.Ref())
		b.WriteString(guard(func() string { return fmt.Sprint(int64(fe.NodeID())) }) + " ")
		b.WriteString(guard(func() string { return fmt.Sprint(int64(fe.WayID())) }) + " ")
		b.WriteString(guard(func() string { return fmt.Sprint(int64(fe.RelationID())) }) + " ")
		b.WriteString(hx(fe.String()))
		return b.String(), nil
	case "parse":
		s, err := unhx(f[2])
		if err != nil {
			return "bad-op", nil
		}
		var id int64
		var perr error
		switch f[1] {
		case "object":
			var x osm.ObjectID
			x, perr = osm.ParseObjectID(s)
			id = int64(x)
		case "element":
			var x osm.ElementID
			x, perr = osm.ParseElementID(s)
			id = int64(x)
		case "feature":
			var x osm.FeatureID
			x, perr = osm.ParseFeatureID(s)
			id = int64(x)
		}
		want := c10RefParse(f[1], s)
		if perr != nil {
			if want {
				return "err", &Violation{Signature: "parse-rejects-valid-shape", Text: fmt.Sprintf("Parse %s %q rejected: %v", f[1], s, perr)}
			}
			return "err", nil
		}
		if !want {
			return strconv.FormatInt(id, 10), &Violation{Signature: "parse-accepts-bad-shape", Text: fmt.Sprintf("Parse %s %q accepted as %d although it does not have the kind/ref[:version] shape or names an unknown kind", f[1], s, id)}
		}
		return strconv.FormatInt(id, 10), nil
	case "sort":
		var xs []int64
		for _, t := range f[2:] {
			x, _ := strconv.ParseInt(t, 10, 64)
			xs = append(xs, x)
		}
		out := make([]string, 0, len(xs))
		switch f[1] {
		case "e":
			ids := make(osm.ElementIDs, len(xs))
			for i, x := range xs {
				ids[i] = osm.ElementID(x)
			}
			ids.Sort()
			for _, x := range ids {
				out = append(out, strconv.FormatInt(int64(x), 10))
			}
		case "f":
			ids := make(osm.FeatureIDs, len(xs))
			for i, x := range xs {
				ids[i] = osm.FeatureID(x)
			}
			ids.Sort()
			for _, x := range ids {
				out = append(out, strconv.FormatInt(int64(x), 10))
			}
		case "E":
			var es osm.Elements
			for _, x := range xs {
				e := osm.ElementID(x)
				switch e.Type() {
				case osm.TypeNode:
					es = append(es, &osm.Node{ID: e.NodeID(), Version: e.Version()})
				case osm.TypeWay:
					es = append(es, &osm.Way{ID: e.WayID(), Version: e.Version()})
				case osm.TypeRelation:
					es = append(es, &osm.Relation{ID: e.RelationID(), Version: e.Version()})
				}
			}
			es.Sort()
			var viol *Violation
			prev := [3]int64{-1, -1, -1}
			for _, e := range es {
				out = append(out, strconv.FormatInt(int64(e.ElementID()), 10))
				var k [3]int64
				switch x := e.(type) {
				case *osm.Node:
					k = [3]int64{1, int64(x.ID), int64(x.Version)}
				case *osm.Way:
					k = [3]int64{2, int64(x.ID), int64(x.Version)}
				case *osm.Relation:
					k = [3]int64{3, int64(x.ID), int64(x.Version)}
				}
				if k[0] < prev[0] || (k[0] == prev[0] && (k[1] < prev[1] || (k[1] == prev[1] && k[2] < prev[2]))) {
					if viol == nil {
						viol = &Violation{Signature: "elements-sort-order", Text: fmt.Sprintf("Elements.Sort: %v placed after %v", k, prev)}
					}
				}
				prev = k
			}
			return strings.Join(out, " "), viol
		}
		return strings.Join(out, " "), nil
	case "cmp":
		r1, _ := strconv.ParseInt(f[2], 10, 64)
		v1, _ := strconv.Atoi(f[3])
		r2, _ := strconv.ParseInt(f[5], 10, 64)
		v2, _ := strconv.Atoi(f[6])
		a, _ := c10Pack(f[1], r1, v1)
		b, _ := c10Pack(f[4], r2, v2)
		k1, k2 := c10Rank[f[1]], c10Rank[f[4]]
		if k1 > 3 {
			v1 = 0
		}
		if k2 > 3 {
			v2 = 0
		}
		if k1 == 0 {
			r1, v1 = 0, 0
		}
		if k2 == 0 {
			r2, v2 = 0, 0
		}
		lex := k1 < k2 || (k1 == k2 && (r1 < r2 || (r1 == r2 && v1 < v2)))
		same := k1 == k2 && r1 == r2 && v1 == v2
		out := "ge"
		if a < b {
			out = "lt"
		}
		if (a < b) != lex {
			return out, &Violation{Signature: "order-mismatch", Text: fmt.Sprintf("%s: packed %d < %d is %v but (kind,ref,version) order says %v", op, a, b, a < b, lex)}
		}
		if (a == b) != same {
			return out, &Violation{Signature: "not-injective", Text: fmt.Sprintf("%s: packed ids %d and %d equal=%v but inputs equal=%v", op, a, b, a == b, same)}
		}
		return out, nil
	}
	return "bad-op", nil
}

func c10Gen(r *Rng, tier string, emit func(string)) {
	scale := 1
	if tier == "thorough" {
		scale = 10
	}
	refs := []int64{0, 1, 2, 255, 256, 65535, 65536, 1<<24 - 1, 1 << 24, 1<<32 - 1, 1 << 32, 1<<39 - 1, 1 << 39, 1<<40 - 2, 1<<40 - 1}
	vers := []int64{0, 1, 2, 255, 256, 32767, 32768, 65534, 65535}
	randRef := func() int64 {
		switch r.Intn(4) {
		case 0:
			return refs[r.Intn(len(refs))]
		case 1:
			return r.I64n(1 << 40)
		case 2:
			return int64(1)<<uint(r.Intn(40)) - int64(r.Intn(2))
		}
		return r.I64n(10000)
	}
	randVer := func() int64 {
		switch r.Intn(3) {
		case 0:
			return vers[r.Intn(len(vers))]
		case 1:
			return r.I64n(1 << 16)
		}
		return r.I64n(20)
	}
	// boundary lattice
	for _, k := range c10Kinds {
		for _, ref := range refs {
			for _, v := range vers {
				emit(sprintf("pack %s %d %d", k, ref, v))
			}
		}
	}
	// random in range, and their decoders
	for i := 0; i < 20000*scale; i++ {
		k := c10Kinds[r.Intn(7)]
		ref, v := randRef(), randVer()
		emit(sprintf("pack %s %d %d", k, ref, v))
		if i%4 == 0 {
			id, _ := c10Pack(k, ref, int(v))
			emit(sprintf("dec %d", int64(id)))
		}
	}
	// out of range (the property is silent; model and code must still agree)
	outRefs := []int64{-1, -2, 1 << 40, 1<<40 + 1, 1 << 47, 1<<47 - 1, 1 << 48, math.MaxInt64, math.MinInt64, -(1 << 40)}
	outVers := []int64{-1, 65536, 65537, 1 << 20, 1 << 32, math.MaxInt64, math.MinInt64}
	for _, k := range c10Kinds {
		for _, ref := range outRefs {
			emit(sprintf("pack %s %d %d", k, ref, 1))
		}
		for _, v := range outVers {
			emit(sprintf("pack %s %d %d", k, 5, v))
		}
	}
	// raw decoders: every type nibble/byte pattern x assorted low bits
	for t := 0; t < 256; t++ {
		for _, low := range []int64{0, 1, 65535, 65536, 1<<56 - 1, 0x00F0F0F0F0F0F0F0} {
			emit(sprintf("dec %d", int64(uint64(t)<<56|uint64(low))))
		}
	}
	for i := 0; i < 5000*scale; i++ {
		emit(sprintf("dec %d", int64(r.U64())))
	}
	// order: all pairs of a boundary set
	type trip struct {
		k    string
		r, v int64
	}
	var set []trip
	for _, k := range c10Kinds {
		for _, ref := range []int64{0, 1, 65535, 65536, 1<<39 - 1, 1 << 39, 1<<40 - 1} {
			for _, v := range []int64{0, 1, 65535} {
				set = append(set, trip{k, ref, v})
			}
		}
	}
	for i := 0; i < 60; i++ {
		set = append(set, trip{c10Kinds[r.Intn(7)], randRef(), randVer()})
	}
	npairs := 0
	for i, a := range set {
		for j, b := range set {
			if tier != "thorough" && (i*31+j*17)%4 != 0 && i != j {
				continue
			}
			emit(sprintf("cmp %s %d %d %s %d %d", a.k, a.r, a.v, b.k, b.r, b.v))
			npairs++
		}
	}
	// sorts
	for i := 0; i < 1500*scale; i++ {
		n := r.Intn(41)
		which := []string{"e", "f", "E"}[r.Intn(3)]
		var b strings.Builder
		b.WriteString("sort " + which)
		nd := 1 + r.Intn(6) // few distinct refs so that ties in ref/kind occur
		for j := 0; j < n; j++ {
			k := c10Kinds[1+r.Intn(3)]
			ref := int64(r.Intn(nd))
			if r.Chance(20) {
				ref = randRef()
			}
			v := int64(r.Intn(4))
			if r.Chance(20) {
				v = randVer()
			}
			if which == "f" {
				v = 0
			}
			id, _ := c10Pack(k, ref, int(v))
			fmt.Fprintf(&b, " %d", int64(id))
		}
		emit(b.String())
	}
	// parsers: valid text and mutations
	kindsTxt := []string{"node", "way", "relation", "changeset", "note", "user", "bounds", "Node", "nod", "nodes", "", "unknown", "area", "n", "way ", " way", "rélation"}
	nums := []string{"0", "1", "5", "10", "007", "+5", "-5", "-0", "+0", "1099511627775", "1099511627776", "9223372036854775807", "9223372036854775808", "-9223372036854775808", "-9223372036854775809",
		"", " 1", "1 ", "1_000", "0x10", "1e3", "１２", "٣", "1.0", "--1", "+-1", "65535", "65536", "4294967296", "-", "+", "99999999999999999999999"}
	whichs := []string{"object", "element", "feature"}
	for _, w := range whichs {
		for _, k := range kindsTxt {
			for _, n := range nums {
				emit(sprintf("parse %s %s", w, hx(k+"/"+n)))
			}
		}
	}
	verTxt := append([]string{"-", "--", "-1"}, nums...)
	for i := 0; i < 6000*scale; i++ {
		w := whichs[r.Intn(3)]
		k := kindsTxt[r.Intn(len(kindsTxt))]
		if r.Chance(70) {
			k = c10Kinds[r.Intn(7)]
		}
		n := nums[r.Intn(len(nums))]
		if r.Chance(60) {
			n = strconv.FormatInt(randRef(), 10)
		}
		s := k + "/" + n
		switch r.Intn(6) {
		case 0, 1:
			v := verTxt[r.Intn(len(verTxt))]
			if r.Chance(60) {
				v = strconv.FormatInt(randVer(), 10)
			}
			s += ":" + v
		case 2:
			s += ":" + verTxt[r.Intn(len(verTxt))] + ":" + verTxt[r.Intn(len(verTxt))]
		}
		// structural mutations
		switch r.Intn(12) {
		case 0:
			s = strings.Replace(s, "/", "//", 1)
		case 1:
			s = strings.Replace(s, "/", "", 1)
		case 2:
			s = s + "/"
		case 3:
			s = "/" + s
		case 4:
			s = strings.Replace(s, ":", "::", 1)
		case 5:
			s = s + ":"
		case 6:
			s = strings.Replace(s, "/", ":", 1)
		case 7:
			s = s + "/" + strconv.Itoa(r.Intn(10))
		}
		emit(sprintf("parse %s %s", w, hx(s)))
	}
	_ = npairs
}
